-------------------------- MODULE TraceStakingCpc --------------------------
(***************************************************************************)
(* Trace validation for property C11: TWIN EXECUTIONS of the real          *)
(* application judged against StakingCpc.tla.                              *)
(*                                                                         *)
(* At a committed state S (projection logged) the harness clones the app   *)
(* and delivers, as the next block,                                        *)
(*   clone A: a real Ethereum transaction calling the staking precompile   *)
(*            (directly from an EOA, or through a contract by CALL /       *)
(*            DELEGATECALL / CALLCODE / STATICCALL, once or twice),        *)
(*   clone B: a real Cosmos transaction with the corresponding native      *)
(*            messages (or an empty block when none corresponds),          *)
(* and logs both projected post-states, the module events of both, the     *)
(* receipt logs of A and the fees.  One line per step:                     *)
(*   Genesis  universe + parameters + initial projection (new trace)       *)
(*   Twin     the call, the native messages the harness sent, A, B, and    *)
(*            which clone the chain continues from                         *)
(*   Accrue   an empty block on the continuing chain (fees of the previous *)
(*            block become rewards, matured entries complete)              *)
(*   Views    view methods through eth_call next to the native queries     *)
(*                                                                         *)
(* Law groups.  "Model": the recorded NATIVE behaviour is not a behaviour  *)
(* of the specification (or the harness built another native transaction   *)
(* than the specification's expansion) - the machinery is wrong, never a   *)
(* verdict.  All other groups judge the precompile:                        *)
(*   OnlyCaller  something of an account other than the immediate caller   *)
(*               changed (the sender's fee excepted)                       *)
(*   Forged      a signed message with delegator / caller / signer / chain *)
(*               id mismatch or a changed field had an effect (the caller  *)
(*               is the immediate caller: the tx origin is no authority)   *)
(*   Cpc         success, delegations, entries, rewards or balances differ *)
(*               from the native route's                                   *)
(*   Logs        receipt logs are not exactly the translation of the       *)
(*               module events                                             *)
(*   Views       a view method differs from the native query; a view made   *)
(*               inside a message (between state-changing calls of the    *)
(*               same transaction) does not answer on the state at that   *)
(*               point of the sequence                                     *)
(***************************************************************************)
EXTENDS StakingCpc, Json

Trace == ndJsonDeserialize("trace.ndjson")

VARIABLES l, S, cf, err, cls, nTwins
tvars == <<l, S, cf, err, cls, nTwins>>

OK == <<"ok", "">>
E0 == Trace[l]

EmptyFn == [x \in {} |-> 0]
Get(f, k, d) == IF k \in DOMAIN f THEN f[k] ELSE d
Put(f, k, v) == [x \in (DOMAIN f) \cup {k} |-> IF x = k THEN v ELSE f[x]]
Bump(f, k) == Put(f, k, Get(f, k, 0) + 1)

StOf(j) == [deleg |-> j.deleg, ubd |-> j.ubd, red |-> j.red, rew |-> j.rew, bal |-> j.bal]

WithFee(st, payer, fee) == IF fee = 0 THEN st ELSE [st EXCEPT !.bal[payer] = @ - fee, !.bal["fc"] = @ + fee]

CmpSt(got, exp, grp, what) ==
  IF got.deleg # exp.deleg THEN <<grp, what \o "-delegations">>
  ELSE IF got.ubd # exp.ubd THEN <<grp, what \o "-unbonding-entries">>
  ELSE IF got.red # exp.red THEN <<grp, what \o "-redelegation-entries">>
  ELSE IF got.rew # exp.rew THEN <<grp, what \o "-rewards">>
  ELSE IF got.bal # exp.bal THEN <<grp, what \o "-balances">>
  ELSE OK

(* frame condition of the recorded precompile step: pre = state before the call with this block's EndBlock applied *)
FrameCheck(pre, post, c, sender, fee) ==
  LET others == cf.D \ {c} IN
  IF \E d \in others : post.deleg[d] # pre.deleg[d] THEN <<"OnlyCaller", "delegation-of-another-account-changed">>
  ELSE IF \E d \in others : post.ubd[d] # pre.ubd[d] THEN <<"OnlyCaller", "unbonding-entries-of-another-account-changed">>
  ELSE IF \E d \in others : post.red[d] # pre.red[d] THEN <<"OnlyCaller", "redelegation-entries-of-another-account-changed">>
  ELSE IF \E d \in others : post.rew[d] # pre.rew[d] THEN <<"OnlyCaller", "rewards-of-another-account-changed">>
  ELSE IF \E d \in others : post.bal[d] # pre.bal[d] - (IF d = sender THEN fee ELSE 0) THEN <<"OnlyCaller", "balance-of-another-account-changed">>
  ELSE OK

LogRec(x) == [k |-> x.k, d |-> x.d, v |-> x.v, amt |-> x.amt]
LogsNorm(s) == [i \in 1..Len(s) |-> LogRec(s[i])]
SeqEq(a, b) == Len(a) = Len(b) /\ \A i \in 1..Len(a) : a[i] = b[i]

ForgedClass(op, c, sender) ==
  IF RelayedByOrigin(op, c, sender) THEN "relayed-by-contract-for-its-tx-origin"
  ELSE IF op.md # c THEN "delegator#caller"
  ELSE IF op.signer # op.md THEN "signer#delegator"
  ELSE IF op.chain # "ours" THEN "other-chain-id"
  ELSE "field-changed-after-signing"

First(cs) == IF \E i \in 1..Len(cs) : cs[i] # OK THEN cs[CHOOSE i \in 1..Len(cs) : cs[i] # OK /\ \A k \in 1..(i - 1) : cs[k] = OK] ELSE OK

T(c, x) == IF c THEN x ELSE OK

(* views inside a message of the sequence caller (e.seq: calls in order; "op" items point into e.ops) *)
OpsBefore(seq, p) == Cardinality({j \in 1..(p - 1) : seq[j].t = "op"})
SeqViewCheck(e, E, p) ==
  LET q == e.seq[p]
      k == OpsBefore(e.seq, p)
      stp == StateAtPoint(cf, S, e.now, e.caller, e.ops, k)
      \* the native query after the block sees this block's EndBlock too: matured unbonding entries are liquid again
      corr == IF q.m = "balanceOf" THEN Mature(cf, E.st, e.now).bal[q.d] - E.st.bal[q.d] ELSE 0
  IN IF q.t # "view" THEN OK
     ELSE IF ~ViewAnswerOk(cf, S, q, q.natPre) THEN <<"Model", "native-view-before-tx">>
     ELSE IF k = 0 /\ q.cpc # q.natPre THEN <<"Views", q.m \o "-before-any-mutation-of-the-message-differs-from-native-query-before-tx">>
     ELSE IF k = Len(e.ops) /\ q.cpc # q.natPost - corr THEN <<"Views", q.m \o "-after-the-last-mutation-of-the-message-differs-from-native-query-after-tx">>
     ELSE IF ~ViewAnswerOk(cf, stp, q, q.cpc) THEN <<"Views", q.m \o "-inside-message-differs-from-the-state-at-that-point">>
     ELSE OK
RECURSIVE SeqViewsCheck(_, _, _)
SeqViewsCheck(e, E, p) ==
  IF p > Len(e.seq) \/ ~e.A.ok THEN OK
  ELSE LET c == SeqViewCheck(e, E, p) IN IF c # OK THEN c ELSE SeqViewsCheck(e, E, p + 1)

RECURSIVE BumpSeq(_, _, _)
BumpSeq(f, e, p) ==
  IF p > Len(e.seq) \/ ~e.A.ok THEN f
  ELSE IF e.seq[p].t # "view" THEN BumpSeq(f, e, p + 1)
  ELSE LET k == OpsBefore(e.seq, p)
           pos == IF k = 0 THEN "before-mutations" ELSE IF k = Len(e.ops) THEN "after-mutations" ELSE "between-mutations"
       IN BumpSeq(Bump(f, "seqview/" \o e.seq[p].m \o "/" \o pos), e, p + 1)

TwinCheck(e) ==
  LET pre == S
      now == e.now
      c == e.caller
      ro == e.via = "staticcall"                 \* a read-only frame: nothing may happen, nothing corresponds
      E == IF ro THEN Fail(pre) ELSE EffectSeq(cf, pre, now, c, e.ops)
      N == IF ro THEN <<>> ELSE ExpandSeq(cf, pre, now, c, e.ops)
      EN == ApplyMsgs(cf, pre, now, e.native)
      feeB == IF e.B.sent THEN e.B.fee ELSE 0
      expB == WithFee(Mature(cf, EN.st, now), e.B.signer, feeB)
      gotB == StOf(e.B.st)
      feeA == e.A.gasUsed * e.A.price
      preM == Mature(cf, pre, now)
      expA == WithFee(Mature(cf, E.st, now), e.sender, feeA)
      gotA == StOf(e.A.st)
      forged == \E i \in 1..Len(e.ops) : IsSigned(e.ops[i]) /\ ~ValidSigned(e.ops[i], c)
      logsA == LogsNorm(e.A.logs)
  IN First(<<
       \* ---- the native route and the harness against the specification
       T(~SeqEq(e.native, N), <<"Model", "native-messages-sent-differ-from-expansion">>),
       T(e.B.sent # (Len(e.native) > 0), <<"Model", "native-sent-flag">>),
       T(EN.ok # E.ok \/ EN.st # E.st \/ ~SeqEq(EN.evs, E.evs), <<"Model", "route-independence-of-the-specification">>),
       T(e.B.sent /\ e.B.ok # EN.ok, <<"Model", "native-success-not-predicted">>),
       CmpSt(gotB, expB, "Model", "native"),
       T(e.B.sent /\ e.B.ok /\ ~SeqEq(e.B.events, EN.evs), <<"Model", "native-events">>),
       T(e.A.code # 0 \/ ~e.A.receipt, <<"Model", "ethereum-tx-not-executed">>),
       T(~Conserved(cf, gotB), <<"Model", "native-conservation">>),
       \* ---- the precompile
       T(forged /\ e.A.ok, <<"Forged", "forged-message-accepted">>),
       FrameCheck(preM, gotA, c, e.sender, feeA),
       IF forged THEN CmpSt(gotA, WithFee(preM, e.sender, feeA), "Forged", "forged-message-changed") ELSE OK,
       T(e.A.ok /\ ~E.ok, <<"Cpc", "succeeded-where-native-fails">>),
       T(~e.A.ok /\ E.ok, <<"Cpc", "failed-where-native-succeeds">>),
       CmpSt(gotA, expA, "Cpc", "state-differs-from-native"),
       T(~Conserved(cf, gotA), <<"Cpc", "conservation">>),
       T(~e.A.ok /\ Len(e.A.logs) > 0, <<"Logs", "failed-call-left-logs">>),
       T(~e.A.ok /\ Len(e.A.events) > 0, <<"Logs", "failed-call-left-module-events">>),
       T(e.A.ok /\ \E i \in 1..Len(e.A.logs) : e.A.logs[i].addr # "cpc" \/ e.A.logs[i].k = "other", <<"Logs", "foreign-log">>),
       T(e.A.ok /\ ~SeqEq(e.A.events, E.evs), <<"Logs", "module-events-differ-from-native">>),
       T(e.A.ok /\ ~SeqEq(logsA, Translate(e.A.events, c)), <<"Logs", "logs-not-the-translation-of-the-events">>),
       T(e.A.ok /\ e.B.sent /\ e.B.ok /\ ~SameBag(logsA, Translate(e.B.events, c)), <<"Logs", "logs-differ-from-native-events">>),
       T(e.A.ok /\ ~LogsExplain(cf, preM, gotA, c, logsA), <<"Logs", "logs-do-not-explain-delegation-change">>),
       SeqViewsCheck(e, E, 1)
     >>)

TwinClass(e) ==
  LET op == e.ops[1] IN
  IF IsSigned(op) /\ ~ValidSigned(op, e.caller)
  THEN "forged/" \o op.m \o "/" \o ForgedClass(op, e.caller, e.sender)
  ELSE op.m \o "/" \o e.via \o "/" \o (IF e.A.ok THEN "ok" ELSE "fail")

ForgedKey(e) ==
  LET op == e.ops[1] IN "grid/" \o op.md \o "/" \o e.caller \o "/" \o op.signer \o "/" \o op.chain \o "/" \o op.tamper \o "/" \o e.sender

AccrueCheck(e) ==
  LET pre == S
      M == Mature(cf, pre, e.now)
      post == StOf(e.st)
      swept == M.bal["fc"]
      grown == Sum([d \in cf.D |-> Sum([v \in cf.V |-> post.rew[d][v] - pre.rew[d][v]], cf.V)], cf.D)
  IN First(<<
       T(post.deleg # M.deleg, <<"Model", "empty-block-changed-delegations">>),
       T(post.ubd # M.ubd, <<"Model", "empty-block-unbonding-entries">>),
       T(post.red # M.red, <<"Model", "empty-block-redelegation-entries">>),
       T(\E d \in cf.D : post.bal[d] # M.bal[d], <<"Model", "empty-block-balances">>),
       T(post.bal["bonded"] # M.bal["bonded"] \/ post.bal["notbonded"] # M.bal["notbonded"], <<"Model", "empty-block-pools">>),
       T(post.bal["fc"] # 0, <<"Model", "fee-collector-not-swept">>),
       T(post.bal["distr"] # M.bal["distr"] + swept, <<"Model", "distribution-account-gain">>),
       T(\E d \in cf.D, v \in cf.V : post.rew[d][v] < pre.rew[d][v], <<"Model", "reward-shrank">>),
       \* integer parts: each (d, v) may gain one unit from the fraction it carried
       T(grown > swept + Cardinality(cf.D) * Cardinality(cf.V), <<"Model", "rewards-grew-more-than-fees">>),
       T(~Conserved(cf, post), <<"Model", "conservation">>),
       T(\E v \in cf.V : e.st.vtok[v] # Tok(cf, post, v), <<"Model", "validator-tokens">>)
     >>)

ViewCheck(q) ==
  IF q.cpc # q.nat THEN <<"Views", q.m \o "-differs-from-native-query">>
  ELSE CASE q.m = "delegationOf" -> T(q.nat # VDelegationOf(S, q.d, q.v), <<"Model", "view-delegationOf">>)
         [] q.m = "rewardOf" -> T(q.nat # VRewardOf(S, q.d, q.v), <<"Model", "view-rewardOf">>)
         [] q.m = "totalDelegationOf" -> T(q.nat # VTotalDelegationOf(cf, S, q.d), <<"Model", "view-totalDelegationOf">>)
         [] q.m = "rewardsOf" -> T(q.nat < VRewardsFloor(cf, S, q.d) \/ q.nat > VRewardsFloor(cf, S, q.d) + Cardinality(cf.V), <<"Model", "view-rewardsOf">>)
         [] q.m = "balanceOf" -> T(q.nat < S.bal[q.d] + VRewardsFloor(cf, S, q.d) \/ q.nat > S.bal[q.d] + VRewardsFloor(cf, S, q.d) + Cardinality(cf.V), <<"Model", "view-balanceOf">>)
         [] q.m = "delegatedValidators" -> T(SeqToSet(q.nat) # VDelegatedValidators(cf, S, q.d), <<"Model", "view-delegatedValidators">>)
         [] q.m = "decimals" -> T(q.nat # cf.decimals, <<"Model", "view-decimals">>)
         [] OTHER -> OK

RECURSIVE ViewsCheck(_, _)
ViewsCheck(qs, i) == IF i > Len(qs) THEN OK ELSE LET c == ViewCheck(qs[i]) IN IF c # OK THEN c ELSE ViewsCheck(qs, i + 1)

Conclude(c, Sok) ==
  IF c = OK THEN S' = Sok /\ UNCHANGED err
  ELSE err' = <<l, c[1], c[2]>> /\ PrintT(<<"LAWBROKEN", l, c[1], c[2]>>) /\ UNCHANGED S

TraceInit == l = 1 /\ S = <<>> /\ cf = <<>> /\ err = <<>> /\ cls = EmptyFn /\ nTwins = 0

DoGenesis ==
  /\ E0.ev = "Genesis"
  /\ cf' = [D |-> SeqToSet(E0.D), V |-> SeqToSet(E0.V), Vseq |-> E0.V, iter |-> E0.iter, valOrder |-> E0.valOrder, ut |-> E0.ut,
            maxEntries |-> E0.maxEntries, minW |-> E0.minW, decimals |-> E0.decimals]
  /\ S' = StOf(E0.st)
  /\ UNCHANGED <<err, cls, nTwins>>

DoTwin ==
  /\ E0.ev = "Twin"
  /\ Conclude(TwinCheck(E0), StOf(IF E0.cont = "A" THEN E0.A.st ELSE E0.B.st))
  /\ cls' = (LET c1 == Bump(cls, TwinClass(E0))
                 c2 == IF IsSigned(E0.ops[1]) THEN Bump(c1, ForgedKey(E0)) ELSE c1
                 op == E0.ops[1]
             \* a transfer() that succeeded although the liquid balance alone did not cover it: funded by the rewards it claimed
                 c3 == BumpSeq(c2, E0, 1)
             IN IF op.m = "transfer" /\ E0.A.ok /\ E0.B.ok /\ op.amt > S.bal[E0.caller] THEN Bump(c3, "transfer-funded-by-claimed-rewards/" \o E0.via) ELSE c3)
  /\ nTwins' = nTwins + 1
  /\ UNCHANGED cf

DoAccrue ==
  /\ E0.ev = "Accrue"
  /\ Conclude(AccrueCheck(E0), StOf(E0.st))
  /\ UNCHANGED <<cf, cls, nTwins>>

DoViews ==
  /\ E0.ev = "Views"
  /\ Conclude(ViewsCheck(E0.q, 1), S)
  /\ cls' = Bump(cls, "views")
  /\ UNCHANGED <<cf, nTwins>>

TraceNext ==
  /\ l <= Len(Trace)
  /\ err = <<>>
  /\ l' = l + 1
  /\ (DoGenesis \/ DoTwin \/ DoAccrue \/ DoViews)

TraceSpec == TraceInit /\ [][TraceNext]_tvars

Coverage == (l = Len(Trace) + 1 /\ err = <<>>) => PrintT(<<"COVERAGE", ToJsonObject(cls), nTwins, "SKIPPED", <<>>>>)

TraceAccepted ==
  LET d == TLCGet("stats").diameter IN
  IF d - 1 = Len(Trace) THEN TRUE
  ELSE Print(<<"TRACE NOT ACCEPTED: consumed", d - 1, "of", Len(Trace)>>, FALSE)
=============================================================================
