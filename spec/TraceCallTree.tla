---------------------------- MODULE TraceCallTree ----------------------------
(***************************************************************************)
(* C12, binding B1: every vector TLC generated from CallTree.tla           *)
(* (vectors.ndjson: path x registered method, the complete input space for *)
(* MaxDepth) was executed by the harness against the real application as   *)
(* one transaction: top frame -> chain of forwarding contracts, one per    *)
(* edge of the path, each using its call kind -> the custom precompile,    *)
(* with arguments under which the method succeeds and writes when it is    *)
(* allowed to.  The harness logs per vector                                *)
(*   status   receipt status of the transaction (forwarders bubble failure)*)
(*   changed  some key of the bank / cpc / staking / distribution / evm /  *)
(*            auth stores differs after the block (fee, nonce and per-block*)
(*            bookkeeping keys excluded)                                   *)
(*   nlogs    number of logs in the receipt                                *)
(* and TLC judges every line with the operators of the design module:      *)
(*   RoWrites   a method declared read-only changed state or logged        *)
(*   Gas        a state-changing method executed for less gas than the     *)
(*              intrinsic 21000 + its declared RequireGas                  *)
(*   Static     a state-changing method wrote below a STATICCALL ancestor  *)
(*   Vacuity    a positive control did not write / a read-only method      *)
(*              failed (the vector proves nothing: infrastructure)         *)
(*   Binding    the trace is not the complete vector list                  *)
(* All lines are judged (no stop at the first broken law).                 *)
(***************************************************************************)
EXTENDS CallTree

CONSTANT Known,   \* deviation ids accepted
         Strict   \* FALSE: a partial trace (replay of some vectors): skip the completeness laws

Trace == ndJsonDeserialize("trace.ndjson")
Vecs  == ndJsonDeserialize("vectors.ndjson")

TraceKinds == {"CALL", "CALLCODE", "DELEGATECALL", "STATICCALL"}

VARIABLES l, nbad, ndev, cls
tvars == <<path, phase, exec, outcome, dirty, nlogs, l, nbad, ndev, cls>>

Ev == Trace[l]
Bump(f, k) == [x \in (DOMAIN f) \cup {k} |-> IF x = k THEN (IF k \in DOMAIN f THEN f[k] ELSE 0) + 1 ELSE f[x]]
OK == <<"ok", "">>

MethodOf(e) == CHOOSE m \in Methods : m.cpc = e.cpc /\ m.name = e.method
Key(v) == [path |-> v.path, cpc |-> v.cpc, method |-> v.method, pre |-> v.pre]

(***************************************************************************)
(* D6 (finding): the pinned go-ethereum fork passes readOnly = false from  *)
(* Call / CallCode / DelegateCall to RunPrecompiledContract even when the  *)
(* interpreter is in a static context, and RunCustom tests only that       *)
(* argument.  Exactly that: a state-changing method executes below a       *)
(* STATICCALL ancestor iff the LAST edge (the one that reaches the         *)
(* precompile) is not itself a STATICCALL.                                 *)
(***************************************************************************)
Dev_D6_StaticBypassBelowNonStaticEdge(p, m) == ~m.ro /\ ReadOnlyCtx(p) /\ ~LeafEdgeStatic(p)

Judge(e) ==
  LET m == MethodOf(e)
      p == e.path
      wrote == e.changed \/ e.nlogs > 0
  IN IF Strict /\ (e.id # l - 1 \/ l - 1 > Len(Vecs) \/ Key(Vecs[e.id]) # Key(e)) THEN <<"Binding", "line-is-not-the-next-vector">>
     ELSE IF m.ro /\ wrote THEN <<"RoWrites", m.cpc \o "." \o m.name>>
     ELSE IF ~m.ro /\ wrote /\ ~Allowed(p, m) THEN
            (IF LeafEdgeStatic(p) THEN <<"Static", "direct-staticcall-wrote-" \o m.cpc \o "." \o m.name>>
             ELSE <<"Static", "non-static-edge-below-static-ancestor">>)
     ELSE IF ~m.ro /\ e.status = 1 /\ wrote /\ e.gasUsed < 21000 + m.gas THEN <<"Gas", "required-gas-not-charged-" \o m.cpc \o "." \o m.name>>
     ELSE IF m.ro /\ e.status # 1 THEN <<"Vacuity", "readonly-method-failed-" \o m.cpc \o "." \o m.name>>
     ELSE IF ~m.ro /\ Allowed(p, m) /\ ~(e.status = 1 /\ wrote) THEN <<"Vacuity", "control-did-not-write-" \o m.cpc \o "." \o m.name>>
     ELSE OK

Class(e) ==
  LET m == MethodOf(e)
      wrote == e.changed \/ e.nlogs > 0
  IN IF m.ro THEN (IF ReadOnlyCtx(e.path) THEN "ro.static" ELSE "ro.nonstatic")
     ELSE IF ~ReadOnlyCtx(e.path) THEN "rw.control"
     ELSE IF LeafEdgeStatic(e.path) THEN (IF wrote THEN "rw.static-leaf.WROTE" ELSE "rw.static-leaf.refused")
     ELSE (IF wrote THEN "rw.static-ancestor.WROTE" ELSE "rw.static-ancestor.refused")

TrMethods ==
  /\ Ev.ev = "Methods"
  /\ LET seen == {Strip(m) : m \in ToSet(Ev.methods)}
         want == {Strip(m) : m \in Methods}
         complete == {Key(v) : v \in ToSet(Vecs)} = {Key(v) : v \in VectorSet} /\ Len(Vecs) = Cardinality(VectorSet)
         c == IF ~Strict THEN OK ELSE IF seen # want THEN <<"Binding", "method-table-of-the-vector-chain-differs">>
              ELSE IF ~complete THEN <<"Binding", "vector-file-is-not-the-models-input-space">>
              ELSE IF Len(Trace) - 1 # Len(Vecs) THEN <<"Binding", "not-every-vector-was-executed">>
              ELSE OK
     IN IF c = OK THEN UNCHANGED nbad ELSE nbad' = nbad + 1 /\ PrintT(<<"LAWBROKEN", l, c[1], c[2]>>)
  /\ UNCHANGED <<path, phase, exec, outcome, dirty, nlogs, ndev, cls>>

TrVector ==
  /\ Ev.ev = "Vector"
  /\ LET e == Ev
         m == MethodOf(e)
         c == Judge(e)
         explained == c = <<"Static", "non-static-edge-below-static-ancestor">> /\ "D6" \in Known /\ Dev_D6_StaticBypassBelowNonStaticEdge(e.path, m)
     IN /\ path' = e.path /\ phase' = "done" /\ exec' = Strip(m)
        /\ outcome' = (IF e.status = 1 THEN "executed" ELSE "writeprot")
        /\ dirty' = e.changed /\ nlogs' = e.nlogs
        /\ IF c = OK THEN UNCHANGED <<nbad, ndev>>
           ELSE IF explained THEN ndev' = ndev + 1 /\ UNCHANGED nbad
           ELSE nbad' = nbad + 1 /\ UNCHANGED ndev /\ PrintT(<<"LAWBROKEN", l, c[1], c[2]>>)
        /\ cls' = Bump(cls, Class(e))

TraceInit ==
  /\ Init
  /\ l = 1 /\ nbad = 0 /\ ndev = 0 /\ cls = [x \in {} |-> 0]

TraceNext ==
  /\ l <= Len(Trace)
  /\ l' = l + 1
  /\ (TrMethods \/ TrVector)

TraceSpec == TraceInit /\ [][TraceNext]_tvars

Coverage == (l = Len(Trace) + 1) => (PrintT(<<"COVERAGE", ToJsonObject(cls), Len(Trace) - 1, "SKIPPED", <<>>>>) /\ PrintT(<<"SUMMARY", "bad", nbad, "deviations", ndev>>))

TraceAccepted ==
  LET d == TLCGet("stats").diameter IN
  IF d - 1 = Len(Trace) THEN TRUE
  ELSE Print(<<"TRACE NOT ACCEPTED: consumed", d - 1, "of", Len(Trace)>>, FALSE)
=============================================================================
