----------------------------- MODULE StakingCpc -----------------------------
(***************************************************************************)
(* Property C11: the staking custom precompiled contract acts only for its *)
(* immediate caller and mirrors native staking.                            *)
(*                                                                         *)
(* Abstract state `st` (slashing-free: one share = one token):             *)
(*   deleg[d][v]  tokens d has delegated to validator v                    *)
(*   ubd[d][v]    unbonding entries <<[t, amt]>>, t = completion time      *)
(*   red[d]       redelegation entries <<[src, dst, t, amt]>> ordered by   *)
(*                (t, src, dst)                                            *)
(*   rew[d][v]    outstanding reward of (d, v): integer part.  How rewards *)
(*                grow is x/distribution's business and is NOT modelled;   *)
(*                what a withdrawal pays is exactly this number            *)
(*   bal[x]       bank balance of every delegator and of the module        *)
(*                accounts "bonded", "notbonded", "distr", "fc"            *)
(*                                                                         *)
(* A configuration record `cf` carries the universe: D delegators, V       *)
(* validators, Vseq (V as a sequence: the order redelegation entries are   *)
(* listed in), iter (V in the store's iteration order = by address bytes:  *)
(* the order withdrawRewards() visits them), valOrder (validators ordered  *)
(* by operator address string: tie-break of transfer()), ut unbonding      *)
(* time, maxEntries, minW (smallest reward withdrawRewards() bothers with).*)
(*                                                                         *)
(* THE PROPERTY.  There is ONE semantics of staking: the four native       *)
(* messages Msg*.  A call of a precompile method by immediate caller c has *)
(* the effect `Effect(cf, st, now, c, op)`, and that effect equals applying*)
(* the native message sequence `Expand(cf, st, c, op)` - all with          *)
(* delegator c - atomically (RouteIndependent).  The signed-message        *)
(* variants act only if message delegator = caller = signer, the signature *)
(* was made for our chain id and nothing was changed after signing;        *)
(* otherwise they change nothing.  Consequences checked on every step:     *)
(* OnlyCaller (frame), ForgedRejected, LogsMatchEvents, ViewsExact.        *)
(***************************************************************************)
EXTENDS Integers, Sequences, FiniteSets, TLC

RECURSIVE Sum(_, _)
Sum(f, S) == IF S = {} THEN 0 ELSE LET x == CHOOSE x \in S : TRUE IN f[x] + Sum(f, S \ {x})

SeqSum(s) == LET RECURSIVE F(_) F(i) == IF i = 0 THEN 0 ELSE s[i].amt + F(i - 1) IN F(Len(s))

Filter(s, P(_)) == SelectSeq(s, P)

SeqToSet(s) == {s[i] : i \in 1..Len(s)}

(* number of occurrences: bags of records as functions are awkward in TLC; compare counts *)
Count(s, x) == Cardinality({i \in 1..Len(s) : s[i] = x})
SameBag(s, t) == Len(s) = Len(t) /\ \A i \in 1..Len(s) : Count(s, s[i]) = Count(t, s[i])

Modules == {"bonded", "notbonded", "distr", "fc"}

Ev(k, d, v, src, amt) == [k |-> k, d |-> d, v |-> v, src |-> src, amt |-> amt]
Res(ok, st, evs) == [ok |-> ok, st |-> st, evs |-> evs]
Fail(st) == Res(FALSE, st, <<>>)

Tok(cf, st, v) == Sum([d \in cf.D |-> st.deleg[d][v]], cf.D)

(***************************************************************************)
(* x/distribution: withdrawing the reward of (d, v).  Pays the integer     *)
(* part; the fraction stays in the module (community pool).                *)
(***************************************************************************)
Withdraw(st, d, v) ==
  LET r == st.rew[d][v] IN
  [st  |-> [st EXCEPT !.rew[d][v] = 0, !.bal[d] = @ + r, !.bal["distr"] = @ - r],
   evs |-> <<Ev("withdraw", d, v, "-", r)>>]

(* the staking hook: an existing delegation is settled before its shares change *)
Settle(st, d, v) == IF st.deleg[d][v] > 0 THEN Withdraw(st, d, v) ELSE [st |-> st, evs |-> <<>>]

(***************************************************************************)
(* The four native messages.                                               *)
(***************************************************************************)
MsgDelegate(cf, st, d, v, a) ==
  IF v \notin cf.V \/ a < 1 THEN Fail(st)
  ELSE LET w == Settle(st, d, v) IN
       IF w.st.bal[d] < a THEN Fail(st)
       ELSE Res(TRUE, [w.st EXCEPT !.deleg[d][v] = @ + a, !.bal[d] = @ - a, !.bal["bonded"] = @ + a],
                w.evs \o <<Ev("delegate", d, v, "-", a)>>)

AddUbd(es, t, a) ==
  IF Len(es) > 0 /\ es[Len(es)].t = t THEN [es EXCEPT ![Len(es)].amt = @ + a]   \* same block: merged
  ELSE Append(es, [t |-> t, amt |-> a])

MsgUndelegate(cf, st, now, d, v, a) ==
  IF v \notin cf.V \/ a < 1 THEN Fail(st)
  ELSE IF st.deleg[d][v] < a THEN Fail(st)
  ELSE IF Len(st.ubd[d][v]) >= cf.maxEntries THEN Fail(st)
  ELSE LET w == Withdraw(st, d, v) IN
       Res(TRUE, [w.st EXCEPT !.deleg[d][v] = @ - a, !.bal["bonded"] = @ - a, !.bal["notbonded"] = @ + a,
                             !.ubd[d][v] = AddUbd(@, now + cf.ut, a)],
           w.evs \o <<Ev("unbond", d, v, "-", a)>>)

\* strings are not ordered in TLC: validators are compared through their position in cf.Vseq
VPos(cf, v) == CHOOSE i \in 1..Len(cf.Vseq) : cf.Vseq[i] = v
RedLeq(cf, x, y) ==
  x.t < y.t \/ (x.t = y.t /\ (VPos(cf, x.src) < VPos(cf, y.src) \/ (x.src = y.src /\ VPos(cf, x.dst) <= VPos(cf, y.dst))))
RECURSIVE InsertRed(_, _, _)
InsertRed(cf, es, e) ==
  IF es = <<>> THEN <<e>>
  ELSE IF RedLeq(cf, Head(es), e) THEN <<Head(es)>> \o InsertRed(cf, Tail(es), e)
  ELSE <<e>> \o es

MsgRedelegate(cf, st, now, d, s, t, a) ==
  IF s \notin cf.V \/ t \notin cf.V \/ a < 1 \/ s = t THEN Fail(st)
  ELSE IF st.deleg[d][s] < a THEN Fail(st)
  ELSE IF \E i \in 1..Len(st.red[d]) : st.red[d][i].dst = s THEN Fail(st)          \* transitive redelegation
  ELSE IF Cardinality({i \in 1..Len(st.red[d]) : st.red[d][i].src = s /\ st.red[d][i].dst = t}) >= cf.maxEntries THEN Fail(st)
  ELSE LET w1 == Withdraw(st, d, s)
           w2 == Settle(w1.st, d, t)
       IN Res(TRUE, [w2.st EXCEPT !.deleg[d][s] = @ - a, !.deleg[d][t] = @ + a,
                                  !.red[d] = InsertRed(cf, @, [src |-> s, dst |-> t, t |-> now + cf.ut, amt |-> a])],
              w1.evs \o w2.evs \o <<Ev("redelegate", "-", t, s, a)>>)

MsgWithdraw(cf, st, d, v) ==
  IF v \notin cf.V THEN Fail(st)
  ELSE IF st.deleg[d][v] = 0 THEN Fail(st)
  ELSE LET w == Withdraw(st, d, v) IN Res(TRUE, w.st, w.evs)

NMsg(k, d, v, src, amt) == [k |-> k, d |-> d, v |-> v, src |-> src, amt |-> amt]

ApplyMsg(cf, st, now, m) ==
  CASE m.k = "delegate"   -> MsgDelegate(cf, st, m.d, m.v, m.amt)
    [] m.k = "undelegate" -> MsgUndelegate(cf, st, now, m.d, m.v, m.amt)
    [] m.k = "redelegate" -> MsgRedelegate(cf, st, now, m.d, m.src, m.v, m.amt)
    [] m.k = "withdraw"   -> MsgWithdraw(cf, st, m.d, m.v)

(* a transaction: all messages or none; an empty transaction does not exist *)
RECURSIVE ApplyFrom(_, _, _, _, _, _)
ApplyFrom(cf, st0, now, ms, cur, evs) ==
  IF ms = <<>> THEN Res(TRUE, cur, evs)
  ELSE LET r == ApplyMsg(cf, cur, now, Head(ms)) IN
       IF ~r.ok THEN Fail(st0) ELSE ApplyFrom(cf, st0, now, Tail(ms), r.st, evs \o r.evs)
ApplyMsgs(cf, st, now, ms) == IF ms = <<>> THEN Fail(st) ELSE ApplyFrom(cf, st, now, ms, st, <<>>)

(***************************************************************************)
(* The precompile's methods, as effects for the immediate caller c.        *)
(* op = [m, v, src, to, act, md, signer, chain, tamper, amt]               *)
(***************************************************************************)
WithdrawSeq(cf, st, d) ==      \* validators withdrawRewards() pays out, in iteration order
  Filter(cf.iter, LAMBDA v : st.deleg[d][v] > 0 /\ st.rew[d][v] >= cf.minW)

RECURSIVE WithdrawEach(_, _, _, _)
WithdrawEach(st, d, vs, evs) ==
  IF vs = <<>> THEN [st |-> st, evs |-> evs]
  ELSE LET w == Withdraw(st, d, Head(vs)) IN WithdrawEach(w.st, d, Tail(vs), evs \o w.evs)

EffWithdrawAll(cf, st, d) ==
  LET vs == WithdrawSeq(cf, st, d) IN
  IF vs = <<>> THEN Fail(st)          \* nothing to withdraw: the call reverts, nothing changes
  ELSE LET w == WithdrawEach(st, d, vs, <<>>) IN Res(TRUE, w.st, w.evs)

(* transfer(): the validator the precompile picks.  Power = tokens, ties by operator address string. *)
OrdPos(cf, v) == CHOOSE i \in 1..Len(cf.valOrder) : cf.valOrder[i] = v
Weaker(cf, st, a, b) == Tok(cf, st, a) < Tok(cf, st, b) \/ (Tok(cf, st, a) = Tok(cf, st, b) /\ OrdPos(cf, a) < OrdPos(cf, b))
Rank(cf, st, S, v) == Cardinality({u \in S : Weaker(cf, st, u, v)})
Pick(cf, st, d) ==
  LET mine == {v \in cf.V : st.deleg[d][v] > 0} IN
  IF mine = {} THEN CHOOSE v \in cf.V : Rank(cf, st, cf.V, v) = Cardinality(cf.V) \div 2     \* mid-power validator
  ELSE CHOOSE v \in mine : Rank(cf, st, mine, v) = 0                                         \* the only / the weakest one

EffTransfer(cf, st, d, to, a) ==
  IF to # d \/ a < 1 THEN Fail(st)
  ELSE LET vs == WithdrawSeq(cf, st, d)
           w  == WithdrawEach(st, d, vs, <<>>)
       IN IF w.st.bal[d] < a THEN Fail(st)
          ELSE LET r == MsgDelegate(cf, w.st, d, Pick(cf, w.st, d), a) IN
               IF r.ok THEN Res(TRUE, r.st, w.evs \o r.evs) ELSE Fail(st)

IsSigned(op) == op.m \in {"delegateByMsg", "withdrawByMsg"}
(* the whole authorisation rule of the signed-message variants *)
ValidSigned(op, c) == op.md = c /\ op.signer = c /\ op.chain = "ours" /\ op.tamper = "none"
(* c is the IMMEDIATE caller of the precompile frame.  The transaction origin carries no authority: when the
   delegator (= signer) itself sends a transaction to a contract that CALLs / DELEGATECALLs / CALLCODEs the method
   with the delegator's signed message, the caller is that contract and the message is forged like any other
   relayed one (signed messages have no nonce: a contract could otherwise replay anything its user ever signed). *)
RelayedByOrigin(op, c, o) ==
  IsSigned(op) /\ c # o /\ op.md = o /\ op.signer = o /\ op.chain = "ours" /\ op.tamper = "none"

Effect(cf, st, now, c, op) ==
  CASE op.m = "delegate"        -> MsgDelegate(cf, st, c, op.v, op.amt)
    [] op.m = "undelegate"      -> MsgUndelegate(cf, st, now, c, op.v, op.amt)
    [] op.m = "redelegate"      -> MsgRedelegate(cf, st, now, c, op.src, op.v, op.amt)
    [] op.m = "withdrawReward"  -> MsgWithdraw(cf, st, c, op.v)
    [] op.m = "withdrawRewards" -> EffWithdrawAll(cf, st, c)
    [] op.m = "transfer"        -> EffTransfer(cf, st, c, op.to, op.amt)
    [] op.m = "delegateByMsg"   ->
         IF ~ValidSigned(op, c) THEN Fail(st)
         ELSE CASE op.act = "Delegate"   -> MsgDelegate(cf, st, c, op.v, op.amt)
                [] op.act = "Undelegate" -> MsgUndelegate(cf, st, now, c, op.v, op.amt)
                [] op.act = "Redelegate" -> MsgRedelegate(cf, st, now, c, op.src, op.v, op.amt)
                [] OTHER -> Fail(st)
    [] op.m = "withdrawByMsg"   ->
         IF ~ValidSigned(op, c) THEN Fail(st)
         ELSE IF op.v = "all" THEN EffWithdrawAll(cf, st, c) ELSE MsgWithdraw(cf, st, c, op.v)

(* several calls made by one transaction of caller c: all or nothing *)
RECURSIVE EffectFrom(_, _, _, _, _, _, _)
EffectFrom(cf, st0, now, c, ops, cur, evs) ==
  IF ops = <<>> THEN Res(TRUE, cur, evs)
  ELSE LET r == Effect(cf, cur, now, c, Head(ops)) IN
       IF ~r.ok THEN Fail(st0) ELSE EffectFrom(cf, st0, now, c, Tail(ops), r.st, evs \o r.evs)
EffectSeq(cf, st, now, c, ops) == EffectFrom(cf, st, now, c, ops, st, <<>>)

(***************************************************************************)
(* The native message sequence that corresponds to a call (<<>>: none).    *)
(***************************************************************************)
RECURSIVE WithdrawMsgsOf(_, _)
WithdrawMsgsOf(d, vs) == IF vs = <<>> THEN <<>> ELSE <<NMsg("withdraw", d, Head(vs), "-", 0)>> \o WithdrawMsgsOf(d, Tail(vs))
WithdrawMsgs(cf, st, d) == WithdrawMsgsOf(d, WithdrawSeq(cf, st, d))

Expand(cf, st, c, op) ==
  CASE op.m \in {"delegate", "undelegate"} -> IF op.amt < 1 THEN <<>> ELSE <<NMsg(op.m, c, op.v, "-", op.amt)>>
    [] op.m = "redelegate"      -> IF op.amt < 1 THEN <<>> ELSE <<NMsg("redelegate", c, op.v, op.src, op.amt)>>
    [] op.m = "withdrawReward"  -> <<NMsg("withdraw", c, op.v, "-", 0)>>
    [] op.m = "withdrawRewards" -> WithdrawMsgs(cf, st, c)
    [] op.m = "transfer"        ->
         \* transfer(self, a) = "claim what withdrawRewards() claims, THEN delegate a out of the balance after the
         \* claims": the plain composition, so a delegation may be funded by the rewards the same call claims
         \* (liquid < a <= liquid + claimable succeeds on both routes).  The method's own precondition is evaluated
         \* on that post-claim balance.  Only exactness note: a reward BELOW minW on the picked validator is not
         \* claimed and does not count, although MsgDelegate's hook would settle it first (found by RouteIndependent,
         \* see notes/staking.md) - in that dust case nothing corresponds and the call is refused.
         IF op.to # c \/ op.amt < 1 \/ WithdrawEach(st, c, WithdrawSeq(cf, st, c), <<>>).st.bal[c] < op.amt THEN <<>>
         ELSE WithdrawMsgs(cf, st, c) \o <<NMsg("delegate", c, Pick(cf, st, c), "-", op.amt)>>
    [] op.m = "delegateByMsg"   ->
         IF ~ValidSigned(op, c) \/ op.amt < 1 THEN <<>>
         ELSE CASE op.act = "Delegate"   -> <<NMsg("delegate", c, op.v, "-", op.amt)>>
                [] op.act = "Undelegate" -> <<NMsg("undelegate", c, op.v, "-", op.amt)>>
                [] op.act = "Redelegate" -> <<NMsg("redelegate", c, op.v, op.src, op.amt)>>
                [] OTHER -> <<>>
    [] op.m = "withdrawByMsg"   ->
         IF ~ValidSigned(op, c) THEN <<>>
         ELSE IF op.v = "all" THEN WithdrawMsgs(cf, st, c) ELSE <<NMsg("withdraw", c, op.v, "-", 0)>>

(* expansion of several calls: each against the state the previous ones leave *)
RECURSIVE ExpandFrom(_, _, _, _, _)
ExpandFrom(cf, cur, now, c, ops) ==
  IF ops = <<>> THEN <<>>
  ELSE LET ms == Expand(cf, cur, c, Head(ops))
           r  == Effect(cf, cur, now, c, Head(ops))
       IN ms \o ExpandFrom(cf, r.st, now, c, Tail(ops))
ExpandSeq(cf, st, now, c, ops) == ExpandFrom(cf, st, now, c, ops)

(***************************************************************************)
(* EndBlock of x/staking at block time `now`: matured entries complete.    *)
(***************************************************************************)
Mature(cf, st, now) ==
  LET paid(d) == Sum([v \in cf.V |-> SeqSum(Filter(st.ubd[d][v], LAMBDA e : e.t <= now))], cf.V)
      total == Sum([d \in cf.D |-> paid(d)], cf.D)
  IN [st EXCEPT !.ubd = [d \in cf.D |-> [v \in cf.V |-> Filter(st.ubd[d][v], LAMBDA e : e.t > now)]],
                !.red = [d \in cf.D |-> Filter(st.red[d], LAMBDA e : e.t > now)],
                !.bal = [x \in DOMAIN st.bal |-> IF x \in cf.D THEN st.bal[x] + paid(x)
                                                 ELSE IF x = "notbonded" THEN st.bal[x] - total ELSE st.bal[x]]]

(***************************************************************************)
(* Event -> log translation of the precompile (zero amounts give no log;   *)
(* a redelegation shows as Undelegate(src) + Delegate(dst) of the caller). *)
(***************************************************************************)
Lg(k, d, v, amt) == [k |-> k, d |-> d, v |-> v, amt |-> amt]
LogsOf(e, c) ==
  IF e.amt < 1 THEN <<>>
  ELSE CASE e.k = "delegate"   -> <<Lg("Delegate", e.d, e.v, e.amt)>>
         [] e.k = "unbond"     -> <<Lg("Undelegate", e.d, e.v, e.amt)>>
         [] e.k = "withdraw"   -> <<Lg("WithdrawReward", e.d, e.v, e.amt)>>
         [] e.k = "redelegate" -> <<Lg("Undelegate", c, e.src, e.amt), Lg("Delegate", c, e.v, e.amt)>>
RECURSIVE Translate(_, _)
Translate(evs, c) == IF evs = <<>> THEN <<>> ELSE LogsOf(Head(evs), c) \o Translate(Tail(evs), c)

(***************************************************************************)
(* Step laws (used by the design run as action properties and by the trace *)
(* specification as checks of recorded executions).                        *)
(***************************************************************************)
Untouched(st0, st1, d) ==
  /\ st1.deleg[d] = st0.deleg[d]
  /\ st1.ubd[d] = st0.ubd[d]
  /\ st1.red[d] = st0.red[d]
  /\ st1.rew[d] = st0.rew[d]
  /\ st1.bal[d] = st0.bal[d]

(* frame condition: a call by c changes nothing of any other delegator *)
OnlyCallerOK(cf, st0, st1, c) == \A d \in cf.D \ {c} : Untouched(st0, st1, d)

(* the logs explain the change of the caller's delegations *)
LogDelta(logs, c, v) ==
  LET amt(i) == IF logs[i].d = c /\ logs[i].v = v
                THEN (IF logs[i].k = "Delegate" THEN logs[i].amt ELSE IF logs[i].k = "Undelegate" THEN -logs[i].amt ELSE 0)
                ELSE 0
      RECURSIVE F(_) F(i) == IF i = 0 THEN 0 ELSE amt(i) + F(i - 1)
  IN F(Len(logs))
LogsExplain(cf, st0, st1, c, logs) == \A v \in cf.V : st1.deleg[c][v] - st0.deleg[c][v] = LogDelta(logs, c, v)

(* conservation between balances, pools and the distribution account *)
Conserved(cf, st) ==
  /\ st.bal["bonded"] = Sum([v \in cf.V |-> Tok(cf, st, v)], cf.V)
  /\ st.bal["notbonded"] = Sum([d \in cf.D |-> Sum([v \in cf.V |-> SeqSum(st.ubd[d][v])], cf.V)], cf.D)
  /\ st.bal["distr"] >= Sum([d \in cf.D |-> Sum(st.rew[d], cf.V)], cf.D)
  /\ \A d \in cf.D, v \in cf.V : st.deleg[d][v] >= 0 /\ st.rew[d][v] >= 0 /\ (st.deleg[d][v] = 0 => st.rew[d][v] = 0)
  /\ \A x \in DOMAIN st.bal : st.bal[x] >= 0

Total(cf, st) == Sum(st.bal, DOMAIN st.bal)

(***************************************************************************)
(* Views INSIDE a message.  A message (one EVM transaction) may call the    *)
(* precompile several times, views between state-changing calls.  A view    *)
(* answers on the state at its point of the sequence: after exactly the     *)
(* state-changing calls that precede it in the message (no answer may be    *)
(* remembered across a state change of the same message).                   *)
(*   q = [m, d, v]; ops = the state-changing calls of the message in order; *)
(*   k = how many of them precede the view.                                 *)
(***************************************************************************)
StateAtPoint(cf, st, now, c, ops, k) == IF k = 0 THEN st ELSE EffectSeq(cf, st, now, c, SubSeq(ops, 1, k)).st

(* what a view may answer on state st: exact where the state determines it, a range where the chain truncates a
   sum of fractions the state only knows the integer parts of (rewardsOf, balanceOf) *)
ViewAnswerOk(cf, st, q, x) ==
  LET floor == Sum(st.rew[q.d], cf.V)  n == Cardinality(cf.V) IN
  CASE q.m = "delegationOf"      -> x = st.deleg[q.d][q.v]
    [] q.m = "rewardOf"          -> x = st.rew[q.d][q.v]
    [] q.m = "totalDelegationOf" -> x = Sum(st.deleg[q.d], cf.V)
    [] q.m = "rewardsOf"         -> x >= floor /\ x <= floor + n
    [] q.m = "balanceOf"         -> x >= st.bal[q.d] + floor /\ x <= st.bal[q.d] + floor + n

(* the view methods as functions of the state *)
VDelegationOf(st, d, v) == st.deleg[d][v]
VTotalDelegationOf(cf, st, d) == Sum(st.deleg[d], cf.V)
VRewardOf(st, d, v) == st.rew[d][v]
VRewardsFloor(cf, st, d) == Sum(st.rew[d], cf.V)          \* rewardsOf truncates the sum, not the parts
VDelegatedValidators(cf, st, d) == {v \in cf.V : st.deleg[d][v] > 0}
=============================================================================
