SPECIFICATION SpecMc
CONSTANT Programs <- NoPrograms
CONSTANT MaxOps = 5
CONSTANT MaxDepth = 3
CONSTANT Witness = FALSE
VIEW view
INVARIANT ConservationInv
INVARIANT NoNegativeInv
INVARIANT SavedDepthInv
INVARIANT LockedCommittedInv
PROPERTY ProtectedLaw
PROPERTY LockedLaw
PROPERTY CommitLaw
PROPERTY BaseLaw
PROPERTY RevertLaw
PROPERTY SnapshotLaw
PROPERTY KindLaw
CHECK_DEADLOCK FALSE
