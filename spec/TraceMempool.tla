---------------------------- MODULE TraceMempool ----------------------------
(***************************************************************************)
(* Trace validation of the real application's mempool admission against    *)
(* Mempool.tla.  Lines: Genesis (projected committed state, starts a       *)
(* trace); Check (a CheckTx or ReCheckTx of an Ethereum transaction: its   *)
(* fields, the observed frames of the trial execution, the verdict, the    *)
(* projected CHECK state afterwards); Commit (a block was executed: the    *)
(* new committed state and the check state right after it).                *)
(***************************************************************************)
EXTENDS Mempool, Json

Trace == ndJsonDeserialize("trace.ndjson")
TracePrograms == JsonDeserialize("programs.json")

VARIABLES l, S, chk, err, cls
tvars == <<l, S, chk, err, cls>>
OK == <<"ok", "">>
Ev == Trace[l]
Bump(f, k) == Put(f, k, Get(f, k, 0) + 1)

W0 == [bal |-> EmptyFn, bal2 |-> EmptyFn, seq |-> EmptyFn, ex |-> EmptyFn, code |-> EmptyFn, stor |-> EmptyFn,
       kind |-> EmptyFn, vend |-> EmptyFn, supply |-> 0, supply2 |-> 0, burnt |-> 0, burnt2 |-> 0,
       logs |-> <<>>, refund |-> 0, sd |-> {}, touched |-> {}, orig |-> EmptyFn]
S0 == [w |-> W0, baseFee |-> 0, minGP |-> 0, maxGas |-> -1, now |-> 0, h |-> 0, blockGas |-> 0, txCount |-> 0,
       gasOf |-> <<>>, logsOf |-> <<>>, blooms |-> <<>>, enableCreate |-> TRUE, enableCall |-> TRUE]

WorldOf(e) ==
  [W0 EXCEPT !.bal = [a \in DOMAIN e.accts |-> e.accts[a].bal], !.bal2 = [a \in DOMAIN e.accts |-> e.accts[a].bal2],
             !.seq = [a \in DOMAIN e.accts |-> e.accts[a].seq], !.ex = [a \in DOMAIN e.accts |-> e.accts[a].ex],
             !.code = [a \in DOMAIN e.accts |-> e.accts[a].code], !.stor = [a \in DOMAIN e.accts |-> e.accts[a].stor],
             !.kind = [a \in DOMAIN e.accts |-> e.accts[a].kind], !.vend = [a \in DOMAIN e.accts |-> e.accts[a].vend],
             !.supply = e.supply, !.supply2 = e.supply2]

(* the part of a world the check state can differ in *)
Same(w, e) == \A a \in DOMAIN e.accts : Bal(w, a) = e.accts[a].bal /\ Nonce(w, a) = e.accts[a].seq /\ Ex(w, a) = e.accts[a].ex
                                          /\ Code(w, a) = e.accts[a].code /\ StorOf(w, a) = e.accts[a].stor /\ Bal2(w, a) = e.accts[a].bal2

TraceInit == l = 1 /\ S = S0 /\ chk = W0 /\ err = <<>> /\ cls = EmptyFn

Settle(c) == IF c = OK THEN UNCHANGED err ELSE err' = <<l, c[1], c[2]>> /\ PrintT(<<"LAWBROKEN", l, c[1], c[2]>>)

DoGenesis ==
  /\ Ev.ev = "Genesis"
  /\ S' = [S0 EXCEPT !.w = WorldOf(Ev), !.baseFee = Ev.baseFee, !.minGP = Ev.minGP, !.maxGas = Ev.maxGas, !.now = Ev.now,
                     !.enableCreate = Ev.enableCreate, !.enableCall = Ev.enableCall]
  /\ chk' = WorldOf(Ev)
  /\ cls' = Bump(cls, "histories") /\ UNCHANGED err

DoCheck ==
  /\ Ev.ev = "Check"
  /\ LET r == CheckStep(S, chk, Ev.t, Ev.o, IF Ev.mode = "new" THEN Ev.nodeMin ELSE 0)   \* the node's own floor is applied at first admission only
         c == IF ~r.cons THEN <<"Frames", "trial-execution-frames-inconsistent-with-program">>
              ELSE IF Ev.got.accepted # r.accepted THEN
                   (IF r.accepted THEN <<"Verdict", "refused-but-admissible">> ELSE <<"Verdict", "accepted-but-must-be-refused-" \o r.why>>)
              ELSE IF ~r.accepted /\ ~Same(chk, Ev.chk) THEN <<"Rejected", "refused-transaction-changed-the-check-state">>
              ELSE IF r.accepted /\ ~Same(r.chk, Ev.chk) THEN <<"Accepted", "check-state-is-not-the-admission-effects">>
              ELSE IF ~Same(S.w, Ev.committed) THEN <<"Committed", "admission-changed-committed-state">>
              ELSE OK
     IN /\ Settle(c)
        /\ chk' = r.chk
        /\ cls' = Bump(cls, Ev.mode \o "." \o (IF r.accepted THEN "accepted" ELSE r.why))
        /\ UNCHANGED S

DoCommit ==
  /\ Ev.ev = "Commit"
  /\ LET c == IF ~Same(WorldOf(Ev), Ev.chk) THEN <<"Reset", "check-state-after-commit-is-not-the-committed-state">> ELSE OK IN
     /\ Settle(c)
     /\ S' = [S EXCEPT !.w = WorldOf(Ev), !.baseFee = Ev.baseFee, !.now = Ev.now]
     /\ chk' = WorldOf(Ev)
     /\ cls' = Bump(cls, "commits")

TraceNext == l <= Len(Trace) /\ err = <<>> /\ l' = l + 1 /\ (DoGenesis \/ DoCheck \/ DoCommit)
TraceSpec == TraceInit /\ [][TraceNext]_tvars
Coverage == (l = Len(Trace) + 1 /\ err = <<>>) => PrintT(<<"COVERAGE", ToJsonObject(cls), 0, "SKIPPED", <<>>>>)
TraceAccepted ==
  LET d == TLCGet("stats").diameter IN
  IF d - 1 = Len(Trace) THEN TRUE ELSE Print(<<"TRACE NOT ACCEPTED: consumed", d - 1, "of", Len(Trace)>>, FALSE)
=============================================================================
