---------------------------- MODULE TraceGenesis ----------------------------
(***************************************************************************)
(* C18 binding: TLC judges records produced by harness/misc/genesis.go.    *)
(*   Genesis    starts a history: the defaults the boolean cpc flags stand *)
(*              for (metadata a fresh genesis creates)                     *)
(*   RoundTrip  A   observation of the four custom modules of the running  *)
(*                  application (raw store dumps + module queries)         *)
(*              X1  its real ExportAppStateAndValidators document          *)
(*              B   observation of a fresh application after InitChain(X1) *)
(*              X2  the module exports of B                                *)
(*              A1, B1, X1c, X2c  both applications after the same empty   *)
(*                  block, and their full exports                          *)
(* Laws, one name per module / part:                                       *)
(*   Views/..     raw store and query views of one application agree       *)
(*   Evm/code Evm/storage Evm/params FeeMarket/baseFee FeeMarket/params    *)
(*   Cpc/erc20-meta Cpc/allowances Cpc/staking-meta Cpc/bech32-meta        *)
(*   Cpc/params Vauth/proofs          ObsCustom(A) = ObsCustom(B), by part *)
(*   Import/..    B is exactly what the document X1 says (ImplImport)      *)
(*   Export2/..   X2 = X1, module by module                                *)
(*   Continue/..  the same for A1, B1, X1c, X2c                            *)
(* Known findings are named deviations (DESIGN.md 2.7): when a part is     *)
(* lost in exactly the way a deviation of Genesis.tla describes, the law   *)
(* is reported under the deviation's signature Export/..; if that          *)
(* signature is in the constant Known the record is accepted with the      *)
(* deviation noted in `used`, and every other law stays in force.          *)
(***************************************************************************)
EXTENDS Genesis, Json

CONSTANT Known

Trace == ndJsonDeserialize("trace.ndjson")

VARIABLES l, G, err, cls, used
tvars == <<l, G, err, cls, used>>

OK == <<"ok", "">>
ToSet(s) == {s[i] : i \in 1..Len(s)}
PutF(f, k, v) == [x \in (DOMAIN f) \cup {k} |-> IF x = k THEN v ELSE f[x]]
Bump(f, k) == PutF(f, k, (IF k \in DOMAIN f THEN f[k] ELSE 0) + 1)
Ev == Trace[l]

TraceInit == l = 1 /\ G = [none |-> TRUE] /\ err = <<>> /\ cls = EmptyFn /\ used = {}

Rec(m) == [type |-> m.type, name |-> m.name, typed |-> m.typed, disabled |-> m.disabled]
MetaOfObs(mm) == [a \in DOMAIN mm |-> Rec(mm[a])]
Fn(o) == [k \in DOMAIN o |-> o[k]]
StorFn(st) == [a \in DOMAIN st |-> [s \in DOMAIN st[a] |-> st[a][s]]]

WorldOf(o) ==
  [code |-> Fn(o.evm.code), stor |-> StorFn(o.evm.stor), evmParams |-> o.evm.params,
   fm |-> [baseFee |-> o.fm.baseFee, params |-> o.fm.minGasPrice],
   cpc |-> [meta |-> MetaOfObs(o.cpc.meta), idx |-> Fn(o.cpc.idx), allow |-> Fn(o.cpc.allow), wl |-> ToSet(o.cpc.wl), ver |-> o.cpc.ver],
   proofs |-> Fn(o.vauth.proofs)]

DocOf(x) ==
  [evm |-> [accounts |-> [a \in DOMAIN x.evm.accounts |-> [code |-> x.evm.accounts[a].code, stor |-> Fn(x.evm.accounts[a].stor)]], params |-> x.evm.params],
   fm |-> [baseFee |-> x.fm.baseFee, params |-> x.fm.minGasPrice],
   cpc |-> [wl |-> ToSet(x.cpc.wl), ver |-> x.cpc.ver, flagErc20 |-> x.cpc.flagErc20, flagStaking |-> x.cpc.flagStaking],
   vauth |-> [proofs |-> EmptyFn]]

Defaults(g) == [b32 |-> Rec(g.defaults.b32), stk |-> Rec(g.defaults.stk), native |-> Rec(g.defaults.native), bondDenom |-> g.bondDenom]

First(cs) == IF \E i \in 1..Len(cs) : cs[i] # OK THEN cs[CHOOSE i \in 1..Len(cs) : cs[i] # OK /\ \A k \in 1..(i - 1) : cs[k] = OK] ELSE OK
(* Known also carries "group|detail" names of laws the runner has already reported for this trace file: they are
   masked so that the remaining laws are still evaluated and every distinct broken law is reported once. *)
Law(cond, g, d) == IF cond \/ (g \o "|" \o d) \in Known THEN OK ELSE <<g, d>>

(* raw store vs query views of one observation *)
SlotsQ == {"s0", "s1", "s2", "s3", "s4", "s5", "s6", "s7"}
ViewLaws(o, grp) ==
  LET W == WorldOf(o)
      nz == NZ(W.stor)
      nzq == LET keep(a) == (DOMAIN nz[a]) \cap SlotsQ
                 A == {a \in DOMAIN nz : keep(a) # {}}
             IN [a \in A |-> [s \in keep(a) |-> nz[a][s]]]
  IN First(<<
       Law(Fn(o.evm.qcode) = W.code, grp, "evm-code-query-vs-store"),
       Law(StorFn(o.evm.qstor) = nzq, grp, "evm-storage-query-vs-store"),
       Law(o.evm.other = 0 /\ o.cpc.other = 0 /\ o.vauth.other = 0, grp, "unknown-store-keys"),
       Law(\A a \in DOMAIN o.evm.code : o.evm.code[a] # "code-bytes-missing", grp, "evm-code-hash-without-code"),
       Law(o.fm.qBaseFee = o.fm.baseFee, grp, "feemarket-basefee-query-vs-params"),
       Law(MetaOfObs(o.cpc.qmeta) = W.cpc.meta, grp, "cpc-contracts-query-vs-store"),
       Law(\A a \in DOMAIN o.cpc.meta : o.cpc.meta[a].keyOk, grp, "cpc-record-address-vs-key"),
       Law(Fn(o.vauth.qproofs) = W.proofs, grp, "vauth-proof-query-vs-store")
     >>)

(* the parts of two worlds, compared; P = what the document says (ImplImport of X1).
   Each entry: <<law, equal?, deviation signature or "", deviation shape holds?>> *)
Erc20Part(W) == [meta |-> Restrict(W.cpc.meta, Erc20Of(W.cpc)), idx |-> W.cpc.idx]
FlagsOff(m) == [a \in DOMAIN m |-> [m[a] EXCEPT !.disabled = FALSE]]
CodelessNZ(W) == {a \in DOMAIN NZ(W.stor) : a \notin DOMAIN W.code}

PartTable(WA, WB, D) ==
  LET sA == NZ(WA.stor)  sB == NZ(WB.stor)
      coded == DOMAIN WA.code
      stkA == IF "stk" \in DOMAIN WA.cpc.meta THEN <<WA.cpc.meta["stk"]>> ELSE <<>>
      stkB == IF "stk" \in DOMAIN WB.cpc.meta THEN <<WB.cpc.meta["stk"]>> ELSE <<>>
      b32A == IF "b32" \in DOMAIN WA.cpc.meta THEN <<WA.cpc.meta["b32"]>> ELSE <<>>
      b32B == IF "b32" \in DOMAIN WB.cpc.meta THEN <<WB.cpc.meta["b32"]>> ELSE <<>>
      flagOnly(x, y) == Len(x) = 1 /\ Len(y) = 1 /\ x # y /\ [x[1] EXCEPT !.disabled = FALSE] = y[1]
  IN <<
    <<"Evm/code", WA.code = WB.code, "", FALSE>>,
    <<"Evm/storage", sA = sB, "Export/evm-storage-of-codeless-account-dropped",
        Restrict(sA, coded) = Restrict(sB, coded) /\ CodelessNZ(WA) # {} /\ CodelessNZ(WB) = {}>>,
    <<"Evm/params", WA.evmParams = WB.evmParams, "", FALSE>>,
    <<"FeeMarket/baseFee", WA.fm.baseFee = WB.fm.baseFee, "", FALSE>>,
    <<"FeeMarket/params", WA.fm.params = WB.fm.params, "", FALSE>>,
    <<"Cpc/erc20-meta", Erc20Part(WA) = Erc20Part(WB), "Export/cpc-erc20-metadata-dropped",
        Erc20Of(WA.cpc) # {} /\ Erc20Of(WB.cpc) = {} /\ WB.cpc.idx = EmptyFn>>,
    <<"Cpc/allowances", WA.cpc.allow = WB.cpc.allow, "Export/cpc-allowances-dropped", WA.cpc.allow # EmptyFn /\ WB.cpc.allow = EmptyFn>>,
    <<"Cpc/staking-meta", stkA = stkB \/ flagOnly(stkA, stkB), "Export/cpc-staking-metadata-replaced-by-defaults",
        Len(stkA) = 1 /\ Len(stkB) = 1 /\ stkB[1] = D.stk>>,
    <<"Cpc/disabled-flags", ~(flagOnly(stkA, stkB) \/ flagOnly(b32A, b32B)) , "Export/cpc-disabled-flags-dropped", TRUE>>,   \* the inequality is the shape: a record differs by its flag only
    <<"Cpc/bech32-meta", b32A = b32B \/ flagOnly(b32A, b32B), "", FALSE>>,
    <<"Cpc/params", WA.cpc.wl = WB.cpc.wl /\ WA.cpc.ver = WB.cpc.ver, "", FALSE>>,
    <<"Vauth/proofs", WA.proofs = WB.proofs, "Export/vauth-proofs-dropped", WA.proofs # EmptyFn /\ WB.proofs = EmptyFn>>
  >>

Split(name) == name   \* law names are "Group/detail"; printed as group = module, detail = part

(* first broken part law given the tolerated deviations; returns <<group, detail>> or OK *)
PartLaw(tab, known, prefix) ==
  LET sig(i) == IF tab[i][3] # "" /\ tab[i][4] THEN tab[i][3] ELSE tab[i][1]
      bad(i) == ~tab[i][2] /\ ~(tab[i][3] # "" /\ tab[i][4] /\ tab[i][3] \in known) /\ (prefix \o "|" \o sig(i)) \notin known
  IN IF \E i \in 1..Len(tab) : bad(i)
     THEN LET i == CHOOSE j \in 1..Len(tab) : bad(j) /\ \A k \in 1..(j - 1) : ~bad(k) IN <<prefix, sig(i)>>
     ELSE OK
UsedDevs(tab, known) == {tab[i][3] : i \in {j \in 1..Len(tab) : ~tab[j][2] /\ tab[j][3] # "" /\ tab[j][4] /\ tab[j][3] \in known}}

(* B must be exactly the document's content *)
ImportLaws(WB, P, grp) ==
  First(<<
    Law(WB.code = P.code, grp, "evm-code"),
    Law(WB.stor = P.stor, grp, "evm-storage"),
    Law(WB.evmParams = P.evmParams, grp, "evm-params"),
    Law(WB.fm = P.fm, grp, "feemarket"),
    Law(WB.cpc.meta = P.cpc.meta, grp, "cpc-contracts"),
    Law(WB.cpc.idx = P.cpc.idx, grp, "cpc-index"),
    Law(WB.cpc.allow = P.cpc.allow, grp, "cpc-allowances"),
    Law(WB.cpc.wl = P.cpc.wl /\ WB.cpc.ver = P.cpc.ver, grp, "cpc-params"),
    Law(WB.proofs = P.proofs, grp, "vauth-proofs")
  >>)

DocLaws(x1, x2, grp) ==
  First(<<
    Law(~x1.evm.dup /\ ~x2.evm.dup, grp, "evm-duplicate-entries"),
    Law(x1.rawTok.evm = x2.rawTok.evm, grp, "evm"),
    Law(x1.rawTok.feemarket = x2.rawTok.feemarket, grp, "feemarket"),
    Law(x1.rawTok.cpc = x2.rawTok.cpc, grp, "cpc"),
    Law(x1.rawTok.vauth = x2.rawTok.vauth, grp, "vauth")
  >>)

Settle(c) ==
  IF c = OK THEN UNCHANGED err
  ELSE err' = <<l, c[1], c[2]>> /\ PrintT(<<"LAWBROKEN", l, c[1], c[2]>>)

DoGenesis ==
  /\ Ev.ev = "Genesis"
  /\ G' = Ev
  /\ UNCHANGED <<err, used>>
  /\ cls' = Bump(cls, "histories")

DoRoundTrip ==
  /\ Ev.ev = "RoundTrip"
  /\ UNCHANGED G
  /\ IF Ev.failed # "none" THEN Settle(Law(FALSE, "RoundTrip", "export-import-or-continuation-failed")) /\ UNCHANGED <<cls, used>>
     ELSE
     LET D == Defaults(G)
         WA == WorldOf(Ev.A)   WB == WorldOf(Ev.B)
         WA1 == WorldOf(Ev.A1) WB1 == WorldOf(Ev.B1)
         P == ImplImport(DocOf(Ev.X1), D, Ev.A.cpc.nonce)
         tab == PartTable(WA, WB, D)
         tab1 == PartTable(WA1, WB1, D)
         c == First(<<
                ViewLaws(Ev.A, "Views"), ViewLaws(Ev.B, "Views"),
                PartLaw(tab, Known, "RoundTrip"),
                ImportLaws(WB, P, "Import"),
                DocLaws(Ev.X1, Ev.X2, "Export2"),
                ViewLaws(Ev.A1, "Views"), ViewLaws(Ev.B1, "Views"),
                PartLaw(tab1, Known, "Continue"),
                DocLaws(Ev.X1c, Ev.X2c, "ContinueExport")
              >>)
     IN /\ Settle(c)
        /\ used' = used \cup UsedDevs(tab, Known)
        /\ cls' = LET f1 == Bump(cls, "roundtrips")
                      f2 == IF CodelessNZ(WA) # {} THEN Bump(f1, "with.codeless-storage") ELSE f1
                      f3 == IF Erc20Of(WA.cpc) # {} THEN Bump(f2, "with.erc20-precompiles") ELSE f2
                      f4 == IF WA.cpc.allow # EmptyFn THEN Bump(f3, "with.allowances") ELSE f3
                      f5 == IF WA.proofs # EmptyFn THEN Bump(f4, "with.proofs") ELSE f4
                      f6 == IF NZ(WA.stor) # EmptyFn THEN Bump(f5, "with.contract-storage") ELSE f5
                      f7 == IF WA.stor # NZ(WA.stor) THEN Bump(f6, "with.zero-valued-slots") ELSE f6
                      f8 == IF \E a \in DOMAIN WA.cpc.meta : WA.cpc.meta[a].disabled THEN Bump(f7, "with.disabled-flag") ELSE f7
                      f9 == IF UsedDevs(tab, Known) = {} /\ c = OK THEN Bump(f8, "clean") ELSE f8
                      f10 == IF Ev.A.fm.onFracFloor THEN Bump(f9, "with.basefee-on-floor-of-fractional-min-gas-price") ELSE f9
                      f11 == IF Ev.A.fm.belowMinGasPrice THEN Bump(f10, "with.basefee-below-min-gas-price") ELSE f10
                  IN f11

TraceNext ==
  /\ l <= Len(Trace)
  /\ err = <<>>
  /\ l' = l + 1
  /\ (DoGenesis \/ DoRoundTrip)

TraceSpec == TraceInit /\ [][TraceNext]_tvars

Coverage == (l = Len(Trace) + 1 /\ err = <<>>) =>
  /\ PrintT(<<"COVERAGE", ToJsonObject(cls), Len(Trace), "SKIPPED", <<>>>>)
  /\ PrintT(<<"DEVIATIONS", used>>)

TraceAccepted ==
  LET d == TLCGet("stats").diameter IN
  IF d - 1 = Len(Trace) THEN TRUE
  ELSE Print(<<"TRACE NOT ACCEPTED: consumed", d - 1, "of", Len(Trace)>>, FALSE)
=============================================================================
