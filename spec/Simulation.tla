----------------------------- MODULE Simulation -----------------------------
(***************************************************************************)
(* C08 at design level.  The committed state of the application is a       *)
(* sequence of versions (one per height); block execution appends a        *)
(* version; every simulation / query path                                  *)
(*    eth_call, estimateGas, traceTx, traceBlock, checkTx, reCheckTx,      *)
(*    simulate, grpc                                                       *)
(* is an action with UNCHANGED committed state whose answer is a function  *)
(* of (kind, request, the version at the requested height) and nothing     *)
(* else.  A predictable call answered at the tip creates an obligation     *)
(* that the next block discharges when it delivers the same call first:    *)
(* same return data, logs and - for the same gas limit - gas used; an      *)
(* estimate used as gas limit must not run out of gas.                     *)
(*                                                                         *)
(* Mempool admission keeps its own volatile state (checkState): it may     *)
(* change with CheckTx, is reset at every commit and never reaches the     *)
(* committed versions.                                                     *)
(*                                                                         *)
(* Exec(v, call, gas) abstracts the EVM: outcome of `call` on version v     *)
(* with gas limit `gas`; Need(v, call) the least gas limit that does not   *)
(* run out of gas.  The model checks that the laws are consistent and not  *)
(* vacuous (every action occurs, predictions are made and discharged).     *)
(***************************************************************************)
EXTENDS Integers, Sequences, FiniteSets, TLC

CONSTANTS Calls, Gases, MaxBlocks, MaxReqs

VARIABLES versions,   \* versions[h] = abstract committed state after block h (a number; blocks make new ones)
          mempool,    \* volatile mempool state (a number), reset at commit
          answers,    \* ghost: <<kind, request, height>> -> answer given
          obligations,\* ghost: predictions waiting for the next block
          nreq, lastAct
vars == <<versions, mempool, answers, obligations, nreq, lastAct>>

Kinds == {"eth_call", "estimateGas", "traceTx", "traceBlock", "checkTx", "reCheckTx", "simulate", "grpc"}

(* the abstract EVM: deterministic in (version, call, gas) *)
Need(v, c) == 1 + ((v + c) % 3)                          \* least sufficient gas
Exec(v, c, g) == IF g < Need(v, c) THEN [class |-> "oog", ret |-> 0, used |-> g]
                 ELSE [class |-> "ok", ret |-> (v * 7 + c) % 5, used |-> Need(v, c)]
Answer(kind, req, v) == CASE kind = "eth_call" -> Exec(v, req.call, req.gas)
                          [] kind = "estimateGas" -> [class |-> "ok", ret |-> Need(v, req.call), used |-> 0]
                          [] OTHER -> [class |-> "ok", ret |-> (v + req.call) % 4, used |-> 0]

Tip == Len(versions)

Init == versions = <<0>> /\ mempool = 0 /\ answers = [x \in {} |-> 0] /\ obligations = {} /\ nreq = 0 /\ lastAct = "init"

Request(kind, req, h) ==
  /\ nreq < MaxReqs /\ nreq' = nreq + 1
  /\ h \in 1..Tip
  /\ LET a == Answer(kind, req, versions[h]) key == <<kind, req, h>> IN
     /\ answers' = [x \in DOMAIN answers \cup {key} |-> IF x = key THEN a ELSE answers[x]]
     /\ obligations' = IF h = Tip /\ kind = "eth_call" THEN obligations \cup {[call |-> req.call, gas |-> req.gas, expect |-> a, what |-> "call"]}
                       ELSE IF h = Tip /\ kind = "estimateGas" THEN obligations \cup {[call |-> req.call, gas |-> a.ret, expect |-> a, what |-> "estimate"]}
                       ELSE obligations
  /\ mempool' = IF kind \in {"checkTx", "reCheckTx"} THEN mempool + 1 ELSE mempool
  /\ lastAct' = kind
  /\ UNCHANGED versions

(* the next block delivers one of the predicted calls first (or none), then anything else *)
Block ==
  /\ Tip < MaxBlocks
  /\ \E o \in obligations \cup {[what |-> "none"]} :
       /\ versions' = Append(versions, (versions[Tip] * 3 + Tip + (IF o.what = "none" THEN 0 ELSE o.call)) % 11)
       /\ lastAct' = IF o.what = "none" THEN "block" ELSE "block-discharging-" \o o.what
  /\ obligations' = {} /\ mempool' = 0
  /\ UNCHANGED <<answers, nreq>>

Next == Block \/ \E k \in Kinds, c \in Calls, g \in Gases, h \in 1..MaxBlocks : Request(k, [call |-> c, gas |-> g], h)
Spec == Init /\ [][Next]_vars

(* ---- laws ---- *)
(* a request never changes any committed version, nor their number *)
FrameLaw == [][lastAct' \in Kinds => versions' = versions]_vars
(* committed versions are append-only *)
AppendOnly == [][Len(versions') >= Len(versions) /\ SubSeq(versions', 1, Len(versions)) = versions]_vars
(* the same request at the same height always gets the same answer, whatever happened in between *)
Repeatable == \A key \in DOMAIN answers : answers[key] = Answer(key[1], key[2], versions[key[3]])
(* a prediction made at the tip is what delivery as the next transaction yields *)
PredictionsHold == \A o \in obligations :
   o.what = "call" => Exec(versions[Tip], o.call, o.gas) = o.expect
EstimatesSuffice == \A o \in obligations :
   o.what = "estimate" => Exec(versions[Tip], o.call, o.gas).class # "oog"
(* vacuity witnesses (must be violated in the witness run) *)
W_NoDischarge == lastAct # "block-discharging-call"
W_NoEstimateDischarge == lastAct # "block-discharging-estimate"
W_NoHistorical == ~(\E key \in DOMAIN answers : key[3] < Tip)
=============================================================================
