SPECIFICATION LSpec
CONSTANT Programs <- NoPrograms
CONSTANT MaxOps = 3
CONSTANT MaxDepth = 2
CONSTANT Witness = FALSE
CONSTANT Bug = "none"
VIEW lview
PROPERTY Refines
CHECK_DEADLOCK FALSE
