SPECIFICATION SpecW
CONSTANT Senders <- McSenders
CONSTANT Gov = "gov"
CONSTANT Denoms <- McDenoms
CONSTANT BondDenom = "d1"
CONSTANT DynAddrs <- McDynAddrs
CONSTANT Names <- McNames
CONSTANT MaxVer = 2
CONSTANT MaxOps = 3
CONSTANT InitWL <- McInitWL
INVARIANT Mark
POSTCONDITION WitnessAll
CHECK_DEADLOCK FALSE
