SPECIFICATION SpecW
CONSTANT FullDomain = FALSE
INVARIANT TheoremObs
INVARIANT TheoremDoc
INVARIANT ImplLosses
INVARIANT ImplPlain
INVARIANT Mark
POSTCONDITION WitnessAll
CHECK_DEADLOCK FALSE
