\* reference configuration of the trace validation (the check generates S from the recording)
SPECIFICATION TraceSpec
CONSTANTS
  R = 1000000
  S = 4
  E = 1000000
  U = 1000000
  Bypass = FALSE
  TraceMode = TRUE
  defaultInitValue = defaultInitValue
INVARIANTS OneWriter NoCrash MuxInv ResetIsInit
POSTCONDITION TraceAccepted
CHECK_DEADLOCK FALSE
