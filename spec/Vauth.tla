------------------------------- MODULE Vauth -------------------------------
(***************************************************************************)
(* C16 - vesting accounts only for proven EOAs; ownership proofs are       *)
(* unforgeable and final.                                                  *)
(*                                                                         *)
(* State: the proof store, the kind of account at every address, balances  *)
(* and total supply of the fee denomination.  The submission cost (1e18)   *)
(* does not fit TLC's integers, so money is a pair [q, r]: q whole units   *)
(* of the cost, r a small remainder that only ordinary transaction fees    *)
(* and vesting amounts touch (DESIGN.md 2.3).  The harness keeps r large   *)
(* enough that fees never borrow from q.                                   *)
(*                                                                         *)
(* Operations (one user transaction each):                                 *)
(*   Submit(sub, tgt, sig)        proof submission by sub for address tgt  *)
(*                                with a signature of kind sig             *)
(*   Create(kind, to, route)      vesting-account creation of one of the   *)
(*                                three kinds for address `to`, the        *)
(*                                message travelling by `route`            *)
(* Outcome classes of a transaction:                                       *)
(*   refused   rejected before any state change (no fee)                   *)
(*   failed    admitted (the ordinary tx fee is paid), message failed:     *)
(*             nothing else changes                                        *)
(*   ok        executed                                                    *)
(* Sources: P = text of property C16; D = documented rule of x/vauth / the *)
(* SDK, named where used.                                                  *)
(***************************************************************************)
EXTENDS Naturals, Sequences, FiniteSets, TLC

CONSTANTS Funded,      \* existing, funded accounts (they send the transactions)
          Fresh,       \* addresses with a key but no account yet
          Keyless,     \* addresses NOBODY holds a key for: the zero address, 0xff..ff, a module account, a precompile
          Funder,      \* the account that pays the vesting creations (element of Funded)
          InitialUnits \* set of initial holdings [Addr -> Nat] (whole units of the cost)

Keyed == Funded \cup Fresh
Addr  == Keyed \cup Keyless

(***************************************************************************)
(* Signature kinds offered with a submission for address tgt.              *)
(*  genuine, canonical encoding (0x + lower-case hex of r||s||v, v in 0,1):*)
(*    valid   by tgt's key over the module's fixed message                 *)
(*    valid2  the same signature with s negated and v flipped (recovers    *)
(*            the same key: ECDSA malleability)                            *)
(*  genuine, other encodings: upper (upper-case hex), v27 (v + 27)         *)
(*  forged: otherkey (another key, fixed message), othermsg (tgt's key,    *)
(*    another message), random (65 random bytes), short (64 bytes), long   *)
(*    (66 bytes), noprefix, nothex, empty;                                 *)
(*    unrecoverable / degenerate 65-byte strings: zero65 (all 0x00), ff65  *)
(*    (all 0xff), r0 (r = 0), s0 (s = 0);                                  *)
(*    recovery ids other than the right one, on an otherwise genuine       *)
(*    signature: vflip (the other of 0/1: recovers another key), vp2 (+2:  *)
(*    2 or 3), vp4 (+4: 4 or 5), vx27 (the WRONG one of 27/28), vp31 (+31);*)
(*    otherchain (tgt's key over the fixed message bound to the chain id), *)
(*    eip191 (tgt's key over the wallet "personal message" wrapping);      *)
(*    bysub (a perfectly valid signature - by the SUBMITTER's key)         *)
(*  For a Keyless target "tgt's key" does not exist: the derived kinds are *)
(*  then derived from the submitter's own signature, and every kind is     *)
(*  forged.                                                                *)
(***************************************************************************)
Canonical    == {"valid", "valid2"}
OtherEncoded == {"upper", "v27"}
Genuine      == Canonical \cup OtherEncoded
OldForged    == {"otherkey", "othermsg", "random", "short", "long", "noprefix", "nothex", "empty"}
NewForged    == {"zero65", "ff65", "r0", "s0", "vflip", "vp2", "vp4", "vx27", "vp31", "otherchain", "eip191"}
Forged       == OldForged \cup NewForged \cup {"bysub"}
(* Over-long accounts.  An account address on this chain may be longer than 20 bytes (bech32 of up to 255 bytes), while
   keys control 20-byte addresses.  A submission may name as `account` a byte string that merely CONTAINS addresses of the
   universe; o.tgt is then the other address involved ("victim"), o.sub the submitter:
     L_ts_s  account = tgt || sub      signed by sub's key        L_ts_t  the same, signed by tgt's key
     L_st_s  account = sub || tgt      signed by sub's key        L_st_t  the same, signed by tgt's key
     L_32_s  account = tgt[0..11] || sub (32 bytes), by sub's key  L_32_t  account = sub[0..11] || tgt, by tgt's key
   Whether such a submission is taken (for the over-long account itself) is not the property's business: any outcome,
   and when executed it costs and burns the fee like any other.  What the property demands: NO 20-byte address becomes
   proven by it - a proof for address a is stored only with a signature by a's key over the fixed message, and none of
   these is a submission for a 20-byte address. *)
LongForms    == {"L_ts_s", "L_ts_t", "L_st_s", "L_st_t", "L_32_s", "L_32_t"}
SigKinds     == Genuine \cup Forged \cup LongForms
KeyedSigs    == SigKinds \ {"bysub"}      \* (for tgt = sub, bysub would be the genuine signature: that case is "valid")
KeylessSigs  == Forged

(* what the store holds after a submission with sig was executed *)
Stored(sig) == IF sig = "upper" THEN "valid" ELSE sig

VestKinds == {"vest1", "vest2", "vest3"}   \* MsgCreateVestingAccount, ..Periodic.., ..PermanentLocked..
(* routes of a vesting-creation message: top-level; nested in d MsgExec (alone, or after harmless siblings); as the
   subject of a MsgGrant (generic authorisation for its type); in the same transaction right after the submission of
   the proof *)
(* sibling routes "sib_<pre>_<outer>_<d>": the creation message nested in d MsgExec (d = 1..3) is listed AFTER harmless
   siblings - pre = "s": a plain send; "x": a MsgExec{send}; "sx": both - at top level (outer = 0) or all of them
   inside one outer MsgExec (outer = 1).  A screening that stops at the first MsgExec, or at the first harmless
   message, lets exactly these through. *)
SibRoutes    == {"sib_" \o p \o "_" \o u \o "_" \o d : p \in {"s", "x", "sx"}, u \in {"0", "1"}, d \in {"1", "2", "3"}}
NestedRoutes == {"exec1", "exec2", "exec3", "exec4"} \cup SibRoutes
Routes == {"top", "grant", "sametx"} \cup NestedRoutes

Outcomes == {"refused", "failed", "ok"}

KeylessRoutes == {"top", "exec1", "sib_x_0_1", "grant", "sametx"}

(* Spelling of the address fields of the submission message - an attribute of the MESSAGE that does not change which
   address it denotes: bech32 may be written all lower-case or ALL UPPER-CASE (both decode to the same bytes);
     lower      both fields lower-case (what clients send)      upper      `account` in upper case
     subupper   `submitter` in upper case                        bothupper  both
   and malformed spellings, which denote nothing and must be refused with nothing stored:
     mixed      `account` in mixed case                          padded     `account` with surrounding white space
   As far as the state machine goes upper = lower: the rule below never looks at a well-formed spelling, and the
   consequences of a stored proof (finality, the vesting guard) hold whatever spelling was used at submission. *)
WellSpelled == {"lower", "upper", "subupper", "bothupper"}
Malformed   == {"mixed", "padded"}
Spellings   == WellSpelled \cup Malformed
SpelledSigs == {"valid", "valid2", "otherkey"}

SubmitOps == [op : {"Submit"}, sub : Funded, tgt : Keyed, sig : KeyedSigs, sp : {"lower"}]
               \cup [op : {"Submit"}, sub : Funded, tgt : Keyless, sig : KeylessSigs, sp : {"lower"}]
               \cup [op : {"Submit"}, sub : Funded, tgt : Keyed, sig : SpelledSigs, sp : Spellings \ {"lower"}]
CreateOps == [op : {"Create"}, kind : VestKinds, to : Keyed, route : Routes]
               \cup [op : {"Create"}, kind : VestKinds, to : Keyless, route : KeylessRoutes]
Ops == SubmitOps \cup CreateOps

(***************************************************************************)
(* The rule, as functions of an abstract state record                      *)
(*   st = [proof : Addr -> "none" | kind of the stored signature,          *)
(*         kind  : Addr -> "none" | "base" | "vest1" | "vest2" | "vest3",  *)
(*         q     : Addr -> whole units of the cost held,                   *)
(*         burnt : units of the cost burnt so far (supply = initial - it)] *)
(* Adm(st, o): the outcomes the property admits for operation o - a set,   *)
(* because for inputs the property does not decide (a genuine signature in *)
(* a non-canonical encoding; submitter = account) both refusing and        *)
(* executing are fine: what matters is that the effects match the outcome. *)
(* Eff(st, o, out): the state after o ended with outcome out.              *)
(***************************************************************************)
SubmitRegular(st, o) ==
  IF st.proof[o.tgt] # "none" THEN {"failed", "refused"}    \* P: "a proven address can never be proved again or overwritten"
  ELSE IF st.q[o.sub] < 1 THEN {"failed", "refused"}        \* P: costs exactly the fixed fee - who cannot pay does not submit
  ELSE {"ok"}

SubmitOutcomes(st, o) ==
  IF o.sp \in Malformed THEN {"refused", "failed"}          \* denotes no address: nothing can be stored for it
  ELSE IF o.tgt \in Keyless THEN {"refused", "failed"}           \* P: no signature whatsoever is "by the key controlling that address"
  ELSE IF o.sig \in LongForms THEN {"refused", "failed"} \cup (IF st.q[o.sub] >= 1 THEN {"ok"} ELSE {})   \* not the property's business
  ELSE IF o.sig \in Forged THEN {"refused", "failed"}            \* P: stored only with a signature by the key controlling the address over the fixed message
  ELSE IF o.sub = o.tgt THEN {"refused", "failed"} \cup SubmitRegular(st, o)   \* D: x/vauth refuses submitter = account; the property is silent
  ELSE IF o.sig \in OtherEncoded THEN {"refused", "failed"} \cup SubmitRegular(st, o)  \* D: only the canonical encoding has to be taken
  ELSE SubmitRegular(st, o)

CreateOutcomes(st, o) ==
  IF o.route \in NestedRoutes \cup {"grant"} THEN {"refused"}   \* P (and C07): never nested (wherever in the message tree), never granted
  ELSE IF st.proof[o.to] = "none" THEN {"refused"}           \* P: "only for an address that already has a stored proof"
  ELSE IF o.route = "sametx" THEN {"failed", "refused"}       \* the proof exists, so the submission riding in the same tx fails
  ELSE IF st.kind[o.to] # "none" THEN {"failed", "refused"}   \* D (SDK x/auth/vesting): the target account must not exist yet
  ELSE {"ok"}

Adm(st, o) == IF o.op = "Submit" THEN SubmitOutcomes(st, o) ELSE CreateOutcomes(st, o)

Eff(st, o, out) ==
  IF out = "ok" /\ o.op = "Submit" /\ o.sig \in LongForms THEN
     [st EXCEPT !.q[o.sub] = @ - 1, !.burnt = @ + 1]        \* P: the 20-byte addresses' proofs do not change
  ELSE IF out = "ok" /\ o.op = "Submit" THEN
     [st EXCEPT !.proof[o.tgt] = Stored(o.sig), !.q[o.sub] = @ - 1, !.burnt = @ + 1]
  ELSE IF out = "ok" /\ o.op = "Create" THEN
     [st EXCEPT !.kind[o.to] = o.kind]
  ELSE st   \* P: "a rejected submission stores nothing and burns nothing"; a refused creation creates nothing

(***************************************************************************)
(* The design model: any operation at any time, any admitted outcome.      *)
(***************************************************************************)
VARIABLES proof, kind, q, burnt
vars == <<proof, kind, q, burnt>>
St == [proof |-> proof, kind |-> kind, q |-> q, burnt |-> burnt]

TypeOK == /\ proof \in [Addr -> {"none"} \cup Genuine]
          /\ kind \in [Addr -> {"none", "base", "module", "contract"} \cup VestKinds]
          /\ q \in [Addr -> Nat]
          /\ burnt \in Nat

Becomes(st) == proof' = st.proof /\ kind' = st.kind /\ q' = st.q /\ burnt' = st.burnt

Step(o) == \E out \in Adm(St, o) : Becomes(Eff(St, o, out))

Init == /\ proof = [a \in Addr |-> "none"]
        /\ kind = [a \in Addr |-> IF a \in Funded THEN "base" ELSE "none"]
        /\ q \in InitialUnits
        /\ burnt = 0

Next == \E o \in Ops : Step(o)

Spec == Init /\ [][Next]_vars

(***************************************************************************)
(* The property, over the steps of the model.                              *)
(***************************************************************************)
(* "a proven address can never be proved again or overwritten" *)
ProofsFinal == [][\A a \in Addr : proof[a] # "none" => proof'[a] = proof[a]]_vars

(* "a proof can be stored only together with a signature, made by the key controlling that address, over the
   module's fixed message" *)
ProofsGenuine == \A a \in Addr : proof[a] \in {"none"} \cup Genuine
StoredOnlyBySubmission ==
  [][\A a \in Addr : proof'[a] # proof[a] =>
        \E o \in SubmitOps : o.tgt = a /\ o.sig \in Genuine /\ proof'[a] = Stored(o.sig) /\ Becomes(Eff(St, o, "ok"))]_vars

(* "a vesting account only for an address that already has a stored proof" - stored BEFORE the transaction, and the
   creation message is top-level *)
OnlyProven == \A a \in Addr : kind[a] \in VestKinds => proof[a] # "none"
VestingOnlyTopLevelForProven ==
  [][\A a \in Addr : kind'[a] # kind[a] =>
        /\ proof[a] # "none" /\ kind[a] = "none" /\ kind'[a] \in VestKinds
        /\ \E o \in CreateOps : o.to = a /\ o.route = "top" /\ o.kind = kind'[a] /\ Becomes(Eff(St, o, "ok"))]_vars

(* "costs the submitter exactly the fixed fee, which is burnt": a unit is burnt exactly when a proof appears, and
   exactly one holder is one unit poorer; nothing else ever moves whole units *)
CostExact ==
  [][ \/ burnt' = burnt /\ q' = q /\ proof' = proof
      \/ /\ burnt' = burnt + 1
         /\ \E s \in Funded, a \in Addr :
               /\ q[s] >= 1 /\ q' = [q EXCEPT ![s] = @ - 1]
               /\ proof[a] = "none" /\ proof'[a] # "none" /\ \A b \in Addr \ {a} : proof'[b] = proof[b]
      (* an executed submission for an over-long account: paid and burnt alike, no 20-byte address proven *)
      \/ /\ burnt' = burnt + 1 /\ proof' = proof
         /\ \E s \in Funded : q[s] >= 1 /\ q' = [q EXCEPT ![s] = @ - 1] ]_vars

(* "a rejected submission stores nothing and burns nothing" (and a refused creation creates nothing) *)
RejectedChangesNothing == \A o \in Ops : \A out \in Adm(St, o) \ {"ok"} : Eff(St, o, out) = St
=============================================================================
