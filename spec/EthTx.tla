------------------------------- MODULE EthTx -------------------------------
(***************************************************************************)
(* The block / transaction pipeline of evermint as far as coins, nonces,   *)
(* gas and receipts are concerned (properties C04 C05 C06 C13, the         *)
(* transaction-level parts of C03 C15, the history part of C09 and clauses *)
(* (b),(c) of C20).                                                        *)
(*                                                                         *)
(* One Ethereum transaction is the composition of the code's steps         *)
(*   PreAnteBlockGasCheck ; Ante (auth, EOA, price floor, fee deduction,   *)
(*   sequence+1, tx counter / assume-failed receipt) ; Handler             *)
(*   (restore nonce, core checks, execution of the program, refund,        *)
(*   StateDB commit, receipt) ; ConsumeBlockGas                            *)
(* with the exits                                                          *)
(*   dropped   block gas meter already exhausted: nothing happens          *)
(*   ante      rejected at admission: nothing happens                      *)
(*   core      consensus-level error in the handler: ante effects only,    *)
(*             gas used = gas limit                                        *)
(*   panic     the handler panicked (destroy guard): ante effects only     *)
(*   blockgas  executed, but the block gas limit is exceeded: ante only    *)
(*   ok/vmerr  executed and committed; vmerr = the root frame failed       *)
(* The operator EthStep computes from (state, tx, observation) the exit,   *)
(* the next state and everything the consensus result must show.  What the *)
(* specification deliberately does not model is *observed* and passed in   *)
(* obs: gas used, gas before the refund, intrinsic gas (reference          *)
(* function), and the exit status of every executed call frame.            *)
(***************************************************************************)
EXTENDS Evm, FeeMarket

(***************************************************************************)
(* Block state record S:                                                   *)
(*   w         world (committed between transactions)                      *)
(*   baseFee, minGP, maxGas, now (block time), h                           *)
(*   blockGas  consumption of the block gas meter                          *)
(*   txCount   Ethereum transactions that passed admission in this block   *)
(*   gasOf     per counted tx: gas used recorded in the transient store    *)
(*   logsOf    per counted tx: number of logs recorded                     *)
(*   blooms    per counted tx: bloom (set of bit positions) of its receipt *)
(*   enableCreate, enableCall   x/evm parameters (governance)              *)
(***************************************************************************)

\* basic validation refuses gas limits below 21000 - 1 (overridden with a small number in the exhaustive model)
MinGasLimit == 20999

EffPrice(t, baseFee) == IF t.type = 2 THEN Min(t.tip + baseFee, t.price) ELSE t.price

Floor(S) == Max(S.baseFee, S.minGP)

(* Admission of an Ethereum transaction: every reason the ante handler has to refuse it. *)
EthAnteReject(S, t) ==
  LET w == S.w  eff == EffPrice(t, S.baseFee) IN
  \/ t.chain # "ok"                 \* unprotected or signed for another chain id
  \/ t.signer # t.from              \* signature does not recover to the declared sender
  \/ t.tamper # "none"              \* payload or signature altered after signing
  \/ t.gas < MinGasLimit            \* basic validation
  \/ (t.type = 2 /\ t.tip > t.price)
  \/ Code(w, t.from) # "none"       \* sender is a contract
  \/ ~Ex(w, t.from)                 \* fee payer account does not exist
  \/ eff < Floor(S)                 \* below base fee / global minimum gas price
  \/ t.gas * t.price = 0            \* exactly one fee coin is demanded: a zero fee (no coin) is refused even when the floor is 0
  \/ t.gas * eff = 0                \* ... and so is a zero EFFECTIVE fee (base fee 0, tip 0): the fee checker indexes the empty coin
                                    \* list, the panic is recovered per transaction and the transaction is refused
  \/ Bal(w, t.from) < t.gas * eff   \* cannot pay the fee
  \/ t.nonce # Nonce(w, t.from)       \* stale or future nonce
  \/ t.shape # "ok"                 \* lane rules (memo, timeout, signatures, fee fields ...): see Lanes.tla
  \/ (t.to = "create" /\ ~S.enableCreate)   \* x/evm parameter: contract creation switched off by governance
  \/ (t.to # "create" /\ ~S.enableCall)     \* x/evm parameter: message calls switched off by governance

(* Effects of a successful ante run *)
AnteWorld(S, t) ==
  LET eff == EffPrice(t, S.baseFee)  fee == t.gas * eff  w == S.w
      w1 == SetBal(w, t.from, Bal(w, t.from) - fee)
      w2 == Credit(w1, "fc", fee)
  IN SetSeq(w2, t.from, t.nonce + 1)

CoreError(wA, t, o) ==
  \/ t.gas < o.intrinsic
  \/ t.value > Bal(wA, t.from)

SenderFc(t, now) == [self |-> t.from, caller |-> t.from, value |-> 0, ro |-> FALSE, now |-> now]

(* world at the start of the handler's execution: nonce restored, tx-scoped parts fresh *)
ExecStart(wA, t) ==
  [SetSeq(wA, t.from, t.nonce) EXCEPT !.touched = {}, !.sd = {}, !.logs = <<>>, !.refund = 0, !.orig = wA.stor]

RootOp(t) ==
  IF t.to = "create"
    THEN [op |-> "CREATE2", addr |-> t.newaddr, value |-> t.value, init |-> t.init, runtime |-> t.runtime]
    ELSE [op |-> "CALL", kind |-> "CALL", to |-> t.to, sel |-> t.sel, value |-> t.value]

(* run the root frame; result [w, st, j, cons] *)
RunRoot(wA, t, o, now) ==
  LET w0 == ExecStart(wA, t)
      w1 == IF t.to = "create" THEN w0 ELSE Touch(SetSeq(w0, t.from, t.nonce + 1), t.from)
  IN ExecOps(w1, SenderFc(t, now), <<RootOp(t)>>, 1, <<o.root>>, 1)

(* the refund of unused gas: credited to the sender, taken from the fee collector *)
RefundWorld(w, t, eff, gasUsed) ==
  LET r == (t.gas - gasUsed) * eff
      w1 == Touch(Credit(w, t.from, r), t.from)
  IN SetBal(w1, "fc", Bal(w1, "fc") - r)

(***************************************************************************)
(* EthStep: the whole transaction.  Result record:                         *)
(*   class, S (next state), cons (observation consistent with the program),*)
(*   and the expected consensus-visible values: gasUsedRes (tx result),    *)
(*   receipt (for ok/vmerr: status, cum, txIdx, logIdx, logs, contract,    *)
(*   gasUsed), charged (ghost for ChargeLaw), refundApplied                *)
(***************************************************************************)
NoReceipt == [present |-> FALSE]

EthStep(S, t, o) ==
  IF S.maxGas > 0 /\ S.blockGas >= S.maxGas THEN
    [class |-> "dropped", S |-> S, cons |-> TRUE, receipt |-> NoReceipt, admitted |-> FALSE]
  ELSE IF EthAnteReject(S, t) THEN
    [class |-> "ante", S |-> [S EXCEPT !.blockGas = @ + o.gasUsedRes], cons |-> TRUE, receipt |-> NoReceipt, admitted |-> FALSE]
  ELSE
    LET eff == EffPrice(t, S.baseFee)
        wA  == AnteWorld(S, t)
        idx == S.txCount                       \* 0-based index of this tx among the counted ones
        SA  == [S EXCEPT !.w = wA, !.txCount = @ + 1,
                         !.gasOf = Append(@, t.gas), !.logsOf = Append(@, 0), !.blooms = Append(@, {})]
        failedOutside(cl, used) ==
          [class |-> cl, S |-> [SA EXCEPT !.blockGas = @ + used], cons |-> TRUE, receipt |-> NoReceipt,
           admitted |-> TRUE, gasUsed |-> t.gas, eff |-> eff, moved |-> 0]
    IN
    IF CoreError(wA, t, o) THEN failedOutside("core", t.gas)
    ELSE
      LET r == RunRoot(wA, t, o, S.now) IN
      IF ~r.cons THEN [class |-> "inconsistent", S |-> S, cons |-> FALSE, receipt |-> NoReceipt, admitted |-> TRUE]
      ELSE IF r.st = "panic" THEN failedOutside("panic", o.gasUsedRes)
      ELSE
        LET rootOk == o.root.st = "ok"
            wR == RefundWorld(r.w, t, eff, o.gasUsed)
        IN
        IF CommitPanics(wR, S.now) THEN failedOutside("panic", o.gasUsedRes)
        ELSE IF S.maxGas > 0 /\ S.blockGas + o.gasUsed > S.maxGas THEN failedOutside("blockgas", o.gasUsed)
        ELSE
          LET logs == r.w.logs
              cumPrev == SumSeq(S.gasOf)
              logPrev == SumSeq(S.logsOf)
              bloom == UNION {o.logBits[k] : k \in {i \in DOMAIN o.logBits : TRUE}}
              rc == [present |-> TRUE,
                     status  |-> IF rootOk THEN 1 ELSE 0,
                     gasUsed |-> o.gasUsed,
                     cum     |-> cumPrev + o.gasUsed,
                     txIdx   |-> idx,
                     logIdx  |-> logPrev,
                     logs    |-> logs,
                     contract |-> IF t.to = "create" /\ rootOk THEN t.newaddr ELSE "none"]
              wC == CommitWorld(wR)
              S2 == [SA EXCEPT !.w = wC, !.blockGas = @ + o.gasUsed,
                               !.gasOf = [@ EXCEPT ![idx + 1] = o.gasUsed],
                               !.logsOf = [@ EXCEPT ![idx + 1] = Len(logs)],
                               !.blooms = [@ EXCEPT ![idx + 1] = ToSet(o.bloomBits)]]
          IN [class |-> IF rootOk THEN "ok" ELSE "vmerr", S |-> S2, cons |-> TRUE, receipt |-> rc,
              admitted |-> TRUE, gasUsed |-> o.gasUsed, eff |-> eff,
              moved |-> (Bal(wA, t.from) - Bal(r.w, t.from)),      \* value that left the sender during execution
              refundCounter |-> IF rootOk THEN r.w.refund ELSE 0]

(***************************************************************************)
(* Laws on one Ethereum step (C05 / C13), evaluated on the observation.    *)
(***************************************************************************)
GasLaws(t, o, res) ==
  res.class \in {"ok", "vmerr"} =>
    /\ o.intrinsic <= o.gasUsed /\ o.gasUsed <= t.gas                     \* GasBounds
    /\ o.gasBeforeRefund <= t.gas
    /\ LET applied == o.gasBeforeRefund - o.gasUsed IN
         /\ applied >= 0
         /\ applied * 5 <= o.gasBeforeRefund                                \* never above one fifth
         /\ applied = Min(Max(res.refundCounter, 0), o.gasBeforeRefund \div 5)     \* exactly the capped counter
    /\ o.gasUsedRes = o.gasUsed                                            \* consensus result = receipt

(***************************************************************************)
(* Cosmos-lane bank send (the other lane, so blocks can mix both).         *)
(***************************************************************************)
(* ExtensionOptionDynamicFeeTx (t.tip >= 0; -1 = the transaction carries none): the declared fee is a cap, the price  *)
(* paid is min(base fee + tip, cap) and the fee charged is that price times the gas limit; the floor applies to the     *)
(* price PAID, not to the cap.                                                                                          *)
CosmosEffPrice(S, t) == IF t.tip >= 0 THEN Min(S.baseFee + t.tip, t.fee \div t.gas) ELSE t.fee \div t.gas
CosmosEffFee(S, t) == IF t.tip >= 0 THEN CosmosEffPrice(S, t) * t.gas ELSE t.fee

CosmosAnteReject(S, t) ==
  LET w == S.w IN
  \/ t.sigok = FALSE
  \/ ~Ex(w, t.from)
  \/ t.seqno # Nonce(w, t.from)
  \/ t.gas = 0
  \/ (S.maxGas > 0 /\ t.gas > S.maxGas)   \* SDK setup decorator (Cosmos lane only)
  \/ CosmosEffPrice(S, t) < Floor(S)
  \/ t.fee = 0                      \* exactly one fee coin is demanded (both lanes)
  \/ CosmosEffFee(S, t) = 0
  \/ Bal(w, t.from) < CosmosEffFee(S, t)

CosmosStep(S, t, o) ==
  IF S.maxGas > 0 /\ S.blockGas >= S.maxGas THEN [class |-> "dropped", S |-> S]
  ELSE IF CosmosAnteReject(S, t) THEN [class |-> "ante", S |-> [S EXCEPT !.blockGas = @ + Min(o.gasUsedRes, o.gasWanted)]]
  ELSE
    LET w == S.w
        fee == CosmosEffFee(S, t)
        w1 == SetBal(w, t.from, Bal(w, t.from) - fee)
        w2 == Credit(w1, "fc", fee)
        wA == SetSeq(w2, t.from, t.seqno + 1)
        used == Min(o.gasUsedRes, o.gasWanted)
        SA == [S EXCEPT !.w = wA, !.blockGas = @ + used]
    IN IF o.gasUsedRes > o.gasWanted THEN [class |-> "msgfail", S |-> SA]    \* out of gas
       ELSE IF t.amount > Bal(wA, t.from) THEN [class |-> "msgfail", S |-> SA]
       ELSE IF S.maxGas > 0 /\ S.blockGas + used > S.maxGas THEN [class |-> "blockgas", S |-> SA]
       ELSE LET w3 == SetBal(wA, t.from, Bal(wA, t.from) - t.amount)
                w4 == Credit(w3, t.to, t.amount)
            IN [class |-> "ok", S |-> [SA EXCEPT !.w = w4]]

(***************************************************************************)
(* Block boundaries.                                                       *)
(***************************************************************************)
(* BeginBlock: x/distribution sweeps the fee collector (from height 2 on); transient state is fresh *)
BeginBlockState(S, h, now) ==
  LET w == S.w
      swept == IF h > 1 THEN SetBal(Credit(w, "distr", Bal(w, "fc")), "fc", 0) ELSE w
  IN [S EXCEPT !.w = swept, !.h = h, !.now = now, !.blockGas = 0, !.txCount = 0,
               !.gasOf = <<>>, !.logsOf = <<>>, !.blooms = <<>>]

(* EndBlock: block bloom = union of the receipts' blooms; fee market sets the next base fee *)
BlockBloom(S) == UNION {S.blooms[i] : i \in 1..Len(S.blooms)}

GasForFeeMarket(S) == IF S.maxGas > 0 THEN Min(S.blockGas, S.maxGas) ELSE S.blockGas

EndBlockOk(S, nextBaseFee) == NextOk(S.baseFee, GasForFeeMarket(S), S.maxGas, S.minGP, nextBaseFee)

(* The gov end-blocker runs BEFORE the fee market's (app/modules.go orderEndBlockers: fee market last).  When the   *)
(* voting period of a proposal ends in this block it refunds the deposit from the gov module account "gv" and, if  *)
(* the proposal passed, executes its x/feemarket MsgUpdateParams, which stores the parameters verbatim: minimum    *)
(* gas price (integer part g.minGP) and base fee g.baseFee.  EndBlockOk is then evaluated on the result, so the    *)
(* floor and the EIP-1559 step apply to the updated parameters within the same block.                             *)
GovEndBlock(S, g) ==
  LET w1 == Credit(SetBal(S.w, "gv", Bal(S.w, "gv") - g.refund), g.to, g.refund)
  IN IF g.passed THEN [S EXCEPT !.w = w1, !.minGP = g.minGP, !.baseFee = g.baseFee,
                               !.enableCreate = IF g.evm THEN g.enableCreate ELSE @,      \* x/evm MsgUpdateParams of the same proposal
                               !.enableCall = IF g.evm THEN g.enableCall ELSE @]
     ELSE [S EXCEPT !.w = w1]

(* An x/consensus MsgUpdateParams of the same proposal: consensus parameters are read once, when a block begins, so  *)
(* this block's fee market step still uses the old gas target; the new block max gas counts from the next block on. *)
AfterEndBlock(S, g) == IF g.passed /\ g.cons THEN [S EXCEPT !.maxGas = g.maxGas] ELSE S

(***************************************************************************)
(* State invariants of a world between transactions.                       *)
(***************************************************************************)
EvmModuleEmpty(w) == Bal(w, "evm") = 0 /\ Bal2(w, "evm") = 0
SumBal(w) == LET D == DOMAIN w.bal
                 RECURSIVE F(_)
                 F(X) == IF X = {} THEN 0 ELSE LET a == CHOOSE x \in X : TRUE IN w.bal[a] + F(X \ {a})
             IN F(D)
Conservation(w) == SumBal(w) = w.supply
NoNegative(w) == \A a \in DOMAIN w.bal : w.bal[a] >= 0
=============================================================================
