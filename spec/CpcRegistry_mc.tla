-------------------------- MODULE CpcRegistry_mc --------------------------
(* Exhaustive design run of CpcRegistry.tla with small constants, plus the vacuity witnesses. *)
EXTENDS CpcRegistry
McSenders == {"w", "n"}
McDenoms == {"d1", "d2", "dz"}
McDynAddrs == <<"dyn0", "dyn1", "dyn2">>
McNames == {"nA"}
McInitWL == {"w"}

(* Vacuity guard (single worker): every situation the laws talk about is reachable within the bound. *)
Ws == <<W_TwoErc20, W_Disabled, W_Refused, W_Runs, W_Version2, W_DowngradeRejected, W_NonWhitelistedRejected,
        W_ZeroSupplyRejected, W_StakingDeployed, W_WhitelistChanged>>
InitW == Init /\ \A i \in 1..Len(Ws) : TLCSet(i, FALSE)
(* the witnesses need neither Retype nor all modes of EvmCall *)
NextW == Next /\ last'.k # "Retype" /\ (last'.k = "EvmCall" => last'.mode = "deliver")
SpecW == InitW /\ [][NextW]_vars
Mark == \A i \in 1..Len(Ws) : Ws[i] \/ TLCSet(i, TRUE)
WitnessAll == \A i \in 1..10 : TLCGet(i) \/ Print(<<"witness not reached", i>>, FALSE)
=============================================================================
