SPECIFICATION Spec
CONSTANTS
  MaxBlocks = 3
  MaxTxs = 3
  Kinds = {"ok", "failed", "refused"}
  BlockChoices <- McBlocks
  MaxLen <- McMaxLen
  Starts = {0}
  MaxCrashes = 1
  Atomic = TRUE
  AllowReindex = FALSE
  Known = {}
INVARIANTS Converges LookupAgree Complete Idempotent ChainsCoherent
CHECK_DEADLOCK FALSE
