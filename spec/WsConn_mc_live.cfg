\* under weak fairness the read loop returns and every goroutine of the connection comes to rest
SPECIFICATION MCFairSpec
CONSTANTS
  R = 1
  S = 2
  E = 1
  U = 1
  Bypass = FALSE
  TraceMode = FALSE
  defaultInitValue = defaultInitValue
INVARIANTS NoCrash
PROPERTIES ReaderReturns ComesToRest
CHECK_DEADLOCK TRUE
