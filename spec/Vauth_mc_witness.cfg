SPECIFICATION mcSpec
CONSTANTS
  Funded <- mcFunded
  Keyless <- mcKeyless
  Fresh <- mcFresh
  Funder = "s0"
  InitialUnits <- mcInitialUnits
  McOps <- ReducedOps
  SimOps <- ReducedOps
  Record = FALSE
  Weight = 1
  Depth = 0
INVARIANTS
  W_SubmitOk
  W_SubmitFailed
  W_SubmitPoor
  W_CreateFailed
  W_Vesting1
  W_Vesting23
  W_Exhausted
CHECK_DEADLOCK FALSE
