----------------------------- MODULE Vauth_mc -----------------------------
(***************************************************************************)
(* Exhaustive design run of Vauth.tla with small constants, and generator  *)
(* of the behaviours the conformance harness executes against the real     *)
(* application:                                                            *)
(*   B1  (post-condition of the exhaustive run) every operation of the     *)
(*       alphabet after each of a few prefixes that set up the interesting *)
(*       states, written to behaviours_b1.ndjson                           *)
(*   B2  (-simulate with Vauth_sim.cfg) random behaviours of the model,    *)
(*       printed from the invariant DumpHist as JSON                       *)
(***************************************************************************)
EXTENDS Vauth, Json, SequencesExt

mcFunded == {"s0", "s1", "s2"}
mcFresh  == {"t0", "t1"}
(* zero address, 0xff..ff, a module account (gov), a custom precompile (staking) *)
mcKeyless == {"z0", "zf", "zm", "zp"}
(* s0 can pay three submissions, s1 one, s2 none *)
mcInitialUnits == {[a \in mcFunded \cup mcFresh \cup mcKeyless |-> CASE a = "s0" -> 3 [] a = "s1" -> 1 [] OTHER -> 0]}

(* the larger universe of the thorough design run (the behaviours for the harness always use the one above) *)
mcFreshT == {"t0", "t1", "t2"}
mcInitialUnitsT == {[a \in mcFunded \cup mcFreshT \cup mcKeyless |-> CASE a = "s0" -> 3 [] a = "s1" -> 2 [] OTHER -> 0]}

VARIABLE hist
mcvars == <<vars, hist>>

CONSTANT Record, Depth, Weight, SimOps   \* SimOps: the alphabet -simulate draws from

mcInit == Init /\ hist = <<>>
(* -simulate picks uniformly among the generated successors, and most operations change nothing (they are refused);
   state-changing steps are generated Weight times so that random behaviours get somewhere *)
mcNext == /\ Len(hist) < Depth
          /\ \E w \in 1..Weight : \E o \in SimOps :
                /\ Step(o)
                /\ IF w = 1 THEN TRUE
                   ELSE /\ vars' # vars
                        /\ IF o.op = "Create" THEN TRUE ELSE (o.sig \in Canonical /\ o.sub # o.tgt)
                /\ hist' = IF Record THEN Append(hist, o) ELSE hist
(* the alphabet of the exhaustive run: all of Ops (quick), or - with the larger universe of the thorough run - the
   core alphabet plus one representative of the classes that differ only in bytes the model does not look at *)
IsExtra(o) == IF o.op = "Submit" THEN (o.tgt \in Keyless \/ o.sig \in NewForged \/ (o.sp # "lower" /\ o.tgt # "t0")) ELSE o.to \in Keyless
ExtraOps   == {o \in Ops : IsExtra(o)}
CoreOps    == Ops \ ExtraOps
ReducedOps == CoreOps \cup {o \in ExtraOps : IF o.op = "Submit" THEN (o.sig \in {"zero65", "bysub"} /\ o.tgt \in {"z0", "t0"} /\ o.sp = "lower") ELSE (o.to = "z0" /\ o.kind = "vest1")}
CONSTANT McOps
mcNextFree == \E o \in McOps : Step(o) /\ UNCHANGED hist
mcSpec    == mcInit /\ [][mcNextFree]_mcvars
mcSimSpec == mcInit /\ [][mcNext]_mcvars

(* -simulate: print the operations of every behaviour that reached the depth *)
DumpHist == Len(hist) < Depth \/ PrintT("BEHAVIOUR|" \o ToJson(hist))

(* vacuity: every outcome class of both operations is admitted somewhere, a vesting account of each kind, a stored
   proof of each kind and exhausted submitters are reachable (each of these "never" invariants must be VIOLATED; the
   witness configuration checks them one by one) *)
W_SubmitOk      == ~(\E a \in Addr : proof[a] = "valid") \/ ~(\E a \in Addr : proof[a] = "valid2") \/ ~(\E a \in Addr : proof[a] = "v27")
W_SubmitFailed  == ~(\E o \in SubmitOps : o.sig \in Canonical /\ o.sub # o.tgt /\ Adm(St, o) = {"failed", "refused"} /\ proof[o.tgt] # "none")
W_SubmitPoor    == ~(\E o \in SubmitOps : o.sig \in Canonical /\ o.sub # o.tgt /\ Adm(St, o) = {"failed", "refused"} /\ proof[o.tgt] = "none")
W_CreateFailed  == ~(\E o \in CreateOps : o.route = "top" /\ proof[o.to] # "none" /\ kind[o.to] # "none")
W_Vesting1      == ~(\E a \in Addr : kind[a] = "vest1")
W_Vesting23     == ~(\E a, b \in Addr : kind[a] = "vest2" /\ kind[b] = "vest3")
W_Exhausted     == ~(\A a \in Addr : q[a] = 0)

(* B1 behaviours: prefix ; op *)
Sub(s, t, k) == [op |-> "Submit", sub |-> s, tgt |-> t, sig |-> k, sp |-> "lower"]
SubSp(s, t, k, sp) == [op |-> "Submit", sub |-> s, tgt |-> t, sig |-> k, sp |-> sp]
Cre(k, t, r) == [op |-> "Create", kind |-> k, to |-> t, route |-> r]
B1Prefixes == << <<>>,
               <<Sub("s0", "t0", "valid")>>,
               <<Sub("s0", "t0", "valid2"), Cre("vest1", "t0", "top")>>,
               <<Sub("s1", "s2", "valid"), Sub("s0", "s1", "valid")>>,
               (* an over-long account containing t0 was submitted: t0 must still be unproven, provable, not vestable *)
               <<Sub("s0", "t0", "L_ts_s")>>,
               (* t0 proven through a submission that spelled the account in upper case: finality and the vesting guard
                  must hold exactly as after the lower-case one (second prefix) *)
               <<SubSp("s0", "t0", "valid", "upper")>> >>
(* the core alphabet after every prefix; the extra classes (keyless targets, degenerate signatures) from the initial
   state only - their admitted outcome does not depend on the state *)
B1 == LET ops == SetToSeq(CoreOps)
          ext == SetToSeq(ExtraOps)
          n1  == Len(B1Prefixes) * Len(ops)
      IN  [i \in 1..(n1 + Len(ext)) |->
             IF i <= n1 THEN [id |-> i, ops |-> B1Prefixes[((i - 1) \div Len(ops)) + 1] \o <<ops[((i - 1) % Len(ops)) + 1]>>]
             ELSE [id |-> i, ops |-> <<ext[i - n1]>>]]

DumpB1 == /\ TLCGet("stats").distinct > 0
          /\ ndJsonSerialize("behaviours_b1.ndjson", B1)
          /\ PrintT(<<"B1", Len(B1), Cardinality(Ops)>>)
=============================================================================
