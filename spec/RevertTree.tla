----------------------------- MODULE RevertTree -----------------------------
(***************************************************************************)
(* C03 (precompile part).  When an EVM call frame reverts or fails, every  *)
(* effect made inside it by a stateful custom precompile (bank balances,   *)
(* supply, allowances, delegations) and every log emitted inside it        *)
(* disappears; effects of frames that completed are all kept.              *)
(*                                                                         *)
(* A vector is a small call tree of forwarding contracts:                  *)
(*   shape "path"      frame 1 (the top frame of the transaction) calls    *)
(*                     frame 2 ... calls frame n, which calls ONE          *)
(*                     state-changing precompile method (the leaf); kinds  *)
(*                     [i] is the call opcode frame i uses for its call    *)
(*                     (CALL / DELEGATECALL / CALLCODE); modes[i] is what  *)
(*                     frame i does AFTER its inner call returned:         *)
(*                     "ok" completes, "revert" REVERTs, "invalid" runs    *)
(*                     the INVALID opcode, "oog" burns the explicit gas    *)
(*                     allowance it was called with.  A frame never        *)
(*                     bubbles its callee's failure.                       *)
(*   shape "siblings"  frame 1 makes two calls: first into frame 2, which  *)
(*                     calls leaf 1 (kind kinds[1]) and then ends in       *)
(*                     modes[2]; then leaf 2 directly; then ends in        *)
(*                     modes[1].                                           *)
(* Every leaf has the set `anc` of frames it runs below.                   *)
(*   Survives(v, j) == all frames of leaves[j].anc completed               *)
(* Law: the effect and the logs of leaf j are present after the            *)
(* transaction iff Survives(v, j); surviving logs keep their order; the    *)
(* receipt status is the outcome of frame 1.                               *)
(***************************************************************************)
EXTENDS Integers, Sequences, FiniteSets, TLC, Json, SequencesExt

CONSTANTS MaxDepth,     \* frames per path
          Methods,      \* leaf methods of the path vectors, "cpc.method"
          SiblingPairs  \* <<m1, m2>> leaf methods of the sibling vectors

(* the constant sets of the configs (tuples cannot be written in a cfg file) *)
QuickMethods == {"erc20.transfer", "erc20.approve", "erc20.burn", "staking.delegate", "staking.undelegate"}
QuickPairs == {<<"erc20.transfer", "erc20.transfer">>, <<"erc20.approve", "staking.delegate">>, <<"staking.delegate", "erc20.transfer">>}
ThoroughMethods == QuickMethods \cup {"erc20.transferFrom", "erc20.burnFrom", "staking.redelegate"}
ThoroughPairs == QuickPairs \cup {<<"staking.undelegate", "erc20.burn">>, <<"erc20.transferFrom", "erc20.approve">>}

Modes  == {"ok", "revert", "invalid", "oog"}
KindSeq == <<"CALL", "DELEGATECALL", "CALLCODE">>

(* kind patterns of a path of d frames: the three uniform ones and the three rotations *)
KindPatterns(d) == {[i \in 1..d |-> KindSeq[k]] : k \in 1..3} \cup {[i \in 1..d |-> KindSeq[((i + r) % 3) + 1]] : r \in 0..2}

(* logs a leaf emits (the staking precompile may add WithdrawReward logs, which the binding filters out) *)
LogKinds(m) ==
  CASE m \in {"erc20.transfer", "erc20.transferFrom", "erc20.burn", "erc20.burnFrom"} -> <<"Transfer">>
    [] m = "erc20.approve"      -> <<"Approval">>
    [] m = "staking.delegate"   -> <<"Delegate">>
    [] m = "staking.undelegate" -> <<"Undelegate">>
    [] m = "staking.redelegate" -> <<"Undelegate", "Delegate">>

PathVectorSet ==
  UNION {{[shape |-> "path", kinds |-> ks, modes |-> ms, leaves |-> <<[method |-> m, anc |-> 1..d]>>] :
            ks \in KindPatterns(d), ms \in [1..d -> Modes], m \in Methods} : d \in 1..MaxDepth}

SiblingVectorSet ==
  {[shape |-> "siblings", kinds |-> <<k>>, modes |-> <<m1, m2>>,
    leaves |-> <<[method |-> p[1], anc |-> {1, 2}], [method |-> p[2], anc |-> {1}]>>] :
     k \in {KindSeq[i] : i \in 1..3}, m1 \in Modes, m2 \in Modes, p \in SiblingPairs}

(* shape "memo": ONE transaction whose top frame makes three calls in a row (it returns their success flags and return words):   *)
(*   kinds = <<"approve">>  (1) a chain of CALL frames (modes, at most one "revert" after the inner call returned) whose last    *)
(*                          frame, the owner, calls approve(top, n); (2) allowance(owner, top); (3) the top frame itself calls   *)
(*                          transferFrom / burnFrom for an amount a with pre < a <= n (only the new allowance covers it)          *)
(*   kinds = <<"spent">>    (1) the chain's last frame, a spender holding a large allowance, spends a - and the chain may revert; *)
(*                          (2) allowance(owner, spender); (3) the same chain, every frame completing, spends b                  *)
(* A reverted frame leaves NO trace for the later calls of the same transaction: the view returns the pre-transaction value,      *)
(* the spend that only the reverted approval would cover fails, an allowance spent in a reverted frame is available again.        *)
MemoModes == {<<"ok">>, <<"revert">>, <<"ok", "ok">>, <<"revert", "ok">>, <<"ok", "revert">>}
MemoVectorSet ==
  {[shape |-> "memo", kinds |-> <<c>>, modes |-> ms, leaves |-> <<[method |-> sp, anc |-> {}]>>] :
     c \in {"approve", "spent"}, ms \in MemoModes, sp \in {"transferFrom", "burnFrom"}}
MemoSurvives(v) == \A i \in DOMAIN v.modes : v.modes[i] = "ok"
MemoExpect(v) ==
  LET s == MemoSurvives(v) IN
  [status |-> 1, surv |-> <<s>>,
   changed |-> (v.kinds[1] = "spent" \/ s),
   logs |-> IF v.kinds[1] = "approve" THEN (IF s THEN <<"Approval", "Transfer">> ELSE <<>>)
            ELSE (IF s THEN <<"Transfer", "Transfer">> ELSE <<"Transfer">>)]

VectorSet == PathVectorSet \cup SiblingVectorSet \cup MemoVectorSet

Survives(v, j) == \A f \in v.leaves[j].anc : v.modes[f] = "ok"
RECURSIVE LogsFrom(_, _)
LogsFrom(v, j) == IF j > Len(v.leaves) THEN <<>> ELSE (IF Survives(v, j) THEN LogKinds(v.leaves[j].method) ELSE <<>>) \o LogsFrom(v, j + 1)

Expect(v) == IF v.shape = "memo" THEN MemoExpect(v) ELSE
             [status  |-> IF v.modes[1] = "ok" THEN 1 ELSE 0,
              surv    |-> [j \in 1..Len(v.leaves) |-> Survives(v, j)],
              changed |-> \E j \in 1..Len(v.leaves) : Survives(v, j),
              logs    |-> LogsFrom(v, 1)]

Flat(v) == [shape |-> v.shape, kinds |-> v.kinds, modes |-> v.modes, methods |-> [j \in 1..Len(v.leaves) |-> v.leaves[j].method]]
VectorSeq == LET s == SetToSeq(VectorSet) IN
  [i \in 1..Len(s) |-> [id |-> i, shape |-> s[i].shape, kinds |-> s[i].kinds, modes |-> s[i].modes,
                        methods |-> Flat(s[i]).methods, expect |-> Expect(s[i])]]
WriteVectors == TLCGet("stats").diameter >= 0 /\ ndJsonSerialize("vectors.ndjson", VectorSeq)

-----------------------------------------------------------------------------
(* design run: one state per vector *)
VARIABLE vec
Init == vec \in VectorSet
Next == UNCHANGED vec
Spec == Init /\ [][Next]_vec

(* every vector has a defined expectation *)
Defined ==
  LET e == Expect(vec) IN
  /\ e.status \in {0, 1} /\ e.changed \in BOOLEAN
  /\ Len(e.surv) = Len(vec.leaves)
  /\ e.changed = (e.logs # <<>>)
  /\ (e.status = 0 => ~e.changed)                 \* nothing survives a failed top frame
(* both classes are inhabited, for every method; controls (all frames complete) exist *)
Inhabited ==
  vec = vec =>
    /\ \A m \in Methods : /\ \E v \in PathVectorSet : v.leaves[1].method = m /\ Survives(v, 1) /\ Len(v.modes) = MaxDepth
                          /\ \E v \in PathVectorSet : v.leaves[1].method = m /\ ~Survives(v, 1) /\ v.modes[1] = "ok"
    /\ \E v \in SiblingVectorSet : ~Survives(v, 1) /\ Survives(v, 2)
=============================================================================
