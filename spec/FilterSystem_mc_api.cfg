\* the API layer (filtersMu, filter map, consumer goroutines, timeoutLoop, deadline timers) over the event system
SPECIFICATION MCSpec
CONSTANTS
  NTopics = 2
  NClients = 1
  Rounds = 1
  MaxEvents = 1
  MaxPolls = 1
  MaxTicks = 1
  MaxFires = 1
  Api = TRUE
  Known = {}
  SpinTopics = {2}
  BufCap = 1
  RespCap = 1
  WithIndexer = FALSE
  MaxHeaders = 0
  TraceMode = FALSE
  Foreign = FALSE
INVARIANTS NoCrash NoLostTopic LockInv NoLeakedPublisher TopicAgreement IndexerInv
CHECK_DEADLOCK TRUE
