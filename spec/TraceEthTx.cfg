SPECIFICATION TraceSpec
CONSTANT Programs <- TracePrograms
INVARIANT NoErr
INVARIANT Coverage
POSTCONDITION TraceAccepted
CHECK_DEADLOCK FALSE
