SPECIFICATION TraceSpec
CONSTANT Programs <- TracePrograms
CONSTANT Focus <- AllGroups
INVARIANT Coverage
POSTCONDITION TraceAccepted
CHECK_DEADLOCK FALSE
