SPECIFICATION mcSpec
CONSTANTS
  Funded <- mcFunded
  Keyless <- mcKeyless
  Fresh <- mcFreshT
  Funder = "s0"
  InitialUnits <- mcInitialUnitsT
  McOps <- ReducedOps
  SimOps <- ReducedOps
  Record = FALSE
  Weight = 1
  Depth = 0
INVARIANTS
  TypeOK
  ProofsGenuine
  OnlyProven
  RejectedChangesNothing
PROPERTIES
  ProofsFinal
  StoredOnlyBySubmission
  VestingOnlyTopLevelForProven
  CostExact
CHECK_DEADLOCK FALSE
