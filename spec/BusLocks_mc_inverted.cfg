\* witness deviation: Subscribe takes subscribersMux before topicsMux.RLock -> TLC must produce the deadlock
SPECIFICATION MCSpec
CONSTANTS
  NTopics = 2
  NSubs = 2
  Rounds = 2
  MaxOps = 2
  MaxMsgs = 1
  Deviations = {"InvertedSubscribe"}
INVARIANTS LockInv NoBusDeadlock
CHECK_DEADLOCK TRUE
