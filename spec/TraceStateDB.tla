--------------------------- MODULE TraceStateDB ---------------------------
(***************************************************************************)
(* Trace validation of the real x/evm/vm StateDB against StateDB.tla.      *)
(* The harness creates a real StateDB over the real keepers of a real      *)
(* application context, performs operations on it (the vm.StateDB          *)
(* interface, writes of other modules through GetCurrentContext(),         *)
(* arbitrarily nested Snapshot / RevertToSnapshot, finally Commit or       *)
(* Discard) and after EVERY operation logs what every getter returns for   *)
(* every address and slot of the trace's universe.  Lines:                 *)
(*   Init   the projected committed world, block time (starts a trace)     *)
(*   Op     o = the operation, res = "ok" | "panic", ret = returned value, *)
(*          obs = the getter projection after it (when it did not panic)   *)
(*          pobs = for Commit / Discard: the parent context's projection   *)
(* Every line is explained by Apply of StateDB.tla or not at all; the      *)
(* first difference is reported as <<line, group, detail>>.                *)
(* Groups: Op (effect of a write), Snapshot, Revert (state after a revert  *)
(* differs from the state at the snapshot), Guard (panic expected / not    *)
(* expected: destroy guard, vesting lock), Commit (what commit wrote),     *)
(* Delete (what commit deleted / left behind), Discard.                    *)
(***************************************************************************)
EXTENDS StateDB, Json

Trace == ndJsonDeserialize("trace.ndjson")
NoPrograms == [x \in {} |-> 0]

CONSTANTS Focus, FocusDetails

InFocus(c) == c[1] \in Focus \/ c[2] \in FocusDetails

VARIABLES l, st, err, cls, skipped, dgs, pdg
tvars == <<l, st, err, cls, skipped, dgs, pdg>>

OK == <<"ok", "">>
AllGroups == {"Op", "Snapshot", "Revert", "Guard", "Commit", "Delete", "Discard"}

Ev == Trace[l]
Bump(f, k) == Put(f, k, Get(f, k, 0) + 1)

WorldOf(e) ==
  [bal  |-> [a \in DOMAIN e.accts |-> e.accts[a].bal],
   bal2 |-> [a \in DOMAIN e.accts |-> e.accts[a].bal2],
   seq  |-> [a \in DOMAIN e.accts |-> e.accts[a].seq],
   ex   |-> [a \in DOMAIN e.accts |-> e.accts[a].ex],
   code |-> [a \in DOMAIN e.accts |-> e.accts[a].code],
   stor |-> [a \in DOMAIN e.accts |-> e.accts[a].stor],
   kind |-> [a \in DOMAIN e.accts |-> e.accts[a].kind],
   vend |-> [a \in DOMAIN e.accts |-> e.accts[a].vend],
   lock |-> [a \in DOMAIN e.accts |-> e.accts[a].lock],
   supply |-> e.supply, supply2 |-> e.supply2, burnt |-> 0, burnt2 |-> 0,
   logs |-> <<>>, refund |-> 0, sd |-> {}, touched |-> {}, orig |-> EmptyFn,
   al |-> {}, als |-> {}, tstor |-> EmptyFn, allow |-> e.allow]

st0 == NewStateDB(WorldOf([accts |-> EmptyFn, supply |-> 0, supply2 |-> 0, allow |-> EmptyFn]), 0)

TraceInit == l = 1 /\ st = st0 /\ err = <<>> /\ cls = EmptyFn /\ skipped = <<>> /\ dgs = <<>> /\ pdg = ""

T(c, x) == IF c THEN <<x>> ELSE <<>>

(* the committed-world part of a projection (also used for the parent context) *)
WorldDiffs(w, e, g) ==
  LET A == DOMAIN e.accts IN
       T(\E a \in A : Bal(w, a) # e.accts[a].bal, <<g, "balance">>)
    \o T(\E a \in A : Bal2(w, a) # e.accts[a].bal2, <<g, "balance-other-denom">>)
    \o T(\E a \in A : Nonce(w, a) # e.accts[a].seq, <<g, "nonce">>)
    \o T(\E a \in A : Ex(w, a) # e.accts[a].ex, <<IF g = "Commit" THEN "Delete" ELSE g, "account-record">>)
    \o T(\E a \in A : Ex(w, a) /\ Kind(w, a) # e.accts[a].kind, <<IF g = "Commit" THEN "Delete" ELSE g, "account-kind">>)
    \o T(\E a \in A : Code(w, a) # e.accts[a].code, <<g, "code">>)
    \o T(\E a \in A : StorOf(w, a) # e.accts[a].stor, <<g, "storage">>)
    \o T(w.supply # e.supply, <<g, "supply">>)
    \o T(w.supply2 # e.supply2, <<g, "supply-other-denom">>)
    \o T(\E k \in DOMAIN e.allow \cup DOMAIN w.allow : Get(w.allow, k, 0) # Get(e.allow, k, 0), <<g, "foreign-allowance">>)

(* the transaction-scoped part: what only the StateDB's getters show *)
TxDiffs(s, e, g) ==
  LET A == DOMAIN e.accts  w == s.cur IN
       T(\E a \in A : Exist(s, a) # e.accts[a].exist, <<g, "Exist">>)
    \o T(\E a \in A : EmptyAcc(s, a) # e.accts[a].empty, <<g, "Empty">>)
    \o T(\E a \in A : (a \in w.sd) # e.accts[a].sd, <<g, "HasSuicided">>)
    \o T(\E a \in A : \E k \in DOMAIN e.accts[a].cstor : GetCommitted(s, a, k) # e.accts[a].cstor[k], <<g, "GetCommittedState">>)
    \o T(\E a \in A : \E k \in DOMAIN e.accts[a].tstor : TSlot(w, a, k) # e.accts[a].tstor[k], <<g, "transient-storage">>)
    \o T(\E a \in A : (a \in w.al) # e.accts[a].al, <<g, "access-list-address">>)
    \o T(\E a \in A : {k \in DOMAIN e.accts[a].cstor : <<a, k>> \in w.als} # ToSet(e.accts[a].als), <<g, "access-list-slots">>)
    \o T(w.refund # e.refund, <<g, "refund-counter">>)
    \o T(w.logs # e.logs, <<g, "logs">>)
    \o T(ToSet(e.touched) # w.touched \cap A, <<g, "touched-set">>)

PickLaw(ds) ==
  IF ds = <<>> THEN OK
  ELSE IF \E i \in 1..Len(ds) : InFocus(ds[i])
         THEN ds[CHOOSE i \in 1..Len(ds) : InFocus(ds[i]) /\ \A k \in 1..(i - 1) : ~InFocus(ds[k])]
         ELSE ds[1]

Fail(c) == <<l, c[1], c[2]>>

Settle(c, s2) ==
  IF c = OK THEN st' = s2 /\ UNCHANGED <<err, skipped>>
  ELSE IF InFocus(c) THEN err' = Fail(c) /\ PrintT(<<"LAWBROKEN", l, c[1], c[2]>>) /\ UNCHANGED <<st, skipped>>
  ELSE (* outside this property's focus: note it, and stop following this trace (the model no longer knows the state) *)
       st' = [s2 EXCEPT !.alive = FALSE, !.lost = TRUE] /\ skipped' = Append(skipped, Fail(c)) /\ UNCHANGED err

DoInit ==
  /\ Ev.ev = "Init"
  /\ st' = [NewStateDB(WorldOf(Ev.w), Ev.now) EXCEPT !.lost = FALSE]
  /\ cls' = Bump(cls, "traces")
  /\ dgs' = <<>> /\ pdg' = Ev.pdg
  /\ UNCHANGED <<err, skipped>>

GroupOf(o) == CASE o.op = "Revert" -> "Revert" [] o.op = "Snapshot" -> "Snapshot" [] o.op = "Commit" -> "Commit"
                [] o.op = "Discard" -> "Discard" [] OTHER -> "Op"

DoOp ==
  /\ Ev.ev = "Op"
  /\ IF st.lost THEN UNCHANGED <<st, err, skipped, cls, dgs, pdg>>
     ELSE
     LET o == Ev.o
         r == Apply(st, o)
         g == GroupOf(o)
         c == IF r.res = "dead" THEN <<"Op", "operation-after-end-of-statedb">>       \* a driver bug, never the code's
              ELSE IF r.res # Ev.res THEN
                   (IF r.res = "panic" THEN <<"Guard", "expected-panic-but-" \o o.op \o "-succeeded">>
                    ELSE <<"Guard", "unexpected-panic-in-" \o o.op>>)
              ELSE IF r.res = "panic" THEN OK
              ELSE IF r.ret # Ev.ret THEN <<g, "return-value">>
              ELSE IF o.op = "Discard" THEN PickLaw(WorldDiffs(r.st.base, Ev.pobs, g)
                                                     \o T(Ev.pdg # pdg, <<"Discard", "raw-store-digest-of-the-parent-context">>))
              ELSE IF o.op = "Commit" THEN PickLaw(WorldDiffs(r.st.base, Ev.pobs, g))
              ELSE PickLaw(WorldDiffs(r.st.cur, Ev.obs, g) \o TxDiffs(r.st, Ev.obs, g)
                           (* EVERY key of EVERY store is as it was at the snapshot: nothing written past the StateDB's context survives *)
                           \o T(o.op = "Revert" /\ o.id < Len(dgs) /\ Ev.obs.dg # dgs[o.id + 1], <<"Revert", "raw-store-digest">>))
     IN /\ Settle(c, r.st)
        /\ dgs' = IF r.res # "ok" \/ Ev.res # "ok" THEN dgs
                   ELSE IF o.op = "Snapshot" THEN Append(dgs, Ev.obs.dg)
                   ELSE IF o.op = "Revert" /\ o.id < Len(dgs) THEN SubSeq(dgs, 1, o.id + 1)
                   ELSE dgs
        /\ pdg' = IF o.op = "Commit" /\ r.res = "ok" /\ Ev.res = "ok" THEN "committed" ELSE pdg
        /\ cls' = Bump(Bump(cls, "op." \o o.op), IF r.res = "panic" THEN "panics" ELSE "ops")

TraceNext ==
  /\ l <= Len(Trace)
  /\ err = <<>>
  /\ l' = l + 1
  /\ (DoInit \/ DoOp)

TraceSpec == TraceInit /\ [][TraceNext]_tvars

Coverage == (l = Len(Trace) + 1 /\ err = <<>>) => PrintT(<<"COVERAGE", ToJsonObject(cls), 0, "SKIPPED", skipped>>)

TraceAccepted ==
  LET d == TLCGet("stats").diameter IN
  IF d - 1 = Len(Trace) THEN TRUE
  ELSE Print(<<"TRACE NOT ACCEPTED: consumed", d - 1, "of", Len(Trace)>>, FALSE)
=============================================================================
