SPECIFICATION TraceSpec
CONSTANT Known = {}
INVARIANT Coverage
POSTCONDITION TraceAccepted
CHECK_DEADLOCK FALSE
