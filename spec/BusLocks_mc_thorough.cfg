\* lock order of the event bus as pinned: deadlock-free for all interleavings (thorough size: a topic removed and registered again)
SPECIFICATION MCSpec
CONSTANTS
  NTopics = 2
  NSubs = 2
  Rounds = 2
  MaxOps = 3
  MaxMsgs = 1
  Deviations = {}
INVARIANTS LockInv NoBusDeadlock
CHECK_DEADLOCK TRUE
