--------------------------- MODULE StateDBLayers ---------------------------
(***************************************************************************)
(* The MECHANISM of the context-based StateDB (x/evm/vm/state_db.go):      *)
(*   - every keeper write goes to the innermost of a stack of SDK          *)
(*     cache-context branches ("layers": sparse maps over the parent);     *)
(*     reads fall through the layers to the context the StateDB was made   *)
(*     with (base);                                                        *)
(*   - the transaction-scoped components (touched, refund, self-destruct   *)
(*     marks, access list, logs, transient storage) live in memory;        *)
(*   - Snapshot() pushes a fresh layer and a deep copy of the in-memory    *)
(*     components;                                                         *)
(*   - RevertToSnapshot(id) drops the layers above the snapshot's parent,  *)
(*     branches a FRESH layer from that parent, restores the copies and    *)
(*     keeps the snapshot id valid;                                        *)
(*   - CommitMultiStore runs the EIP-158 destroy pass on the innermost     *)
(*     layer and then writes the layers innermost-first into their parents *)
(*     and finally into base.                                              *)
(* Theorem checked by TLC (PROPERTY Refines): under the mapping            *)
(*   cur = base overlaid by all layers + memory;  saved[i] = base overlaid *)
(*   by layers 1..i + the i-th memory copy                                 *)
(* every behaviour of this module is a behaviour of the abstract machine   *)
(* StateDB_mc (same operation menu).  The constant Bug switches in one of  *)
(* three seeded design errors; each must be refuted (see the *_bug cfgs):  *)
(*   "rebranch"  revert keeps the reverted layer instead of a fresh one    *)
(*   "mem"       revert does not restore the access list                   *)
(*   "order"     commit writes the layers outermost-first                  *)
(***************************************************************************)
EXTENDS StateDB

CONSTANTS MaxOps, MaxDepth, Witness, Bug

VARIABLES base,    \* record of the store fields (the parent context)
          layers,  \* sequence of sparse layers: store field -> value
          mem,     \* record of the in-memory fields
          snaps,   \* snaps[i] = copy of mem taken when layer i was pushed
          alive, n, last
lvars == <<base, layers, mem, snaps, alive, n, last>>

NoPrograms == [x \in {} |-> 0]

MemFields == {"touched", "refund", "sd", "al", "als", "logs", "tstor"}

Overlay(b, ls) ==      \* b: total record of store fields; ls: sequence of sparse layers
  [f \in DOMAIN b |-> LET I == {i \in 1..Len(ls) : f \in DOMAIN ls[i]} IN
                       IF I = {} THEN b[f] ELSE ls[CHOOSE i \in I : \A j \in I : j <= i][f]]

World(stores, m) == [f \in DOMAIN stores \cup MemFields |-> IF f \in MemFields THEN m[f] ELSE stores[f]]
StoresOf(w) == [f \in DOMAIN w \ MemFields |-> w[f]]
MemOf(w) == [f \in MemFields |-> w[f]]

Fresh == [touched |-> {}, refund |-> 0, sd |-> {}, al |-> {}, als |-> {}, logs |-> <<>>, tstor |-> EmptyFn]

(* the refinement mapping *)
AbsSt == [cur   |-> World(Overlay(base, layers), mem),
          saved |-> [i \in 1..(Len(layers) - 1) |-> World(Overlay(base, SubSeq(layers, 1, i)), snaps[i + 1])],
          base  |-> World(base, Fresh),
          now   |-> 5, alive |-> alive, lost |-> FALSE]

A == INSTANCE StateDB_mc WITH st <- AbsSt

Base0 == A!Base

LInit ==
  /\ base = [StoresOf(Base0) EXCEPT !.orig = EmptyFn]
  /\ layers = << [f \in {"orig"} |-> Base0.stor] >>     \* the StateDB remembers the committed storage it started from
  /\ mem = Fresh
  /\ snaps = <<Fresh>>
  /\ alive = TRUE /\ n = 0 /\ last = [op |-> "none"]

Top == layers[Len(layers)]
WriteTop(w2) ==
  LET v == Overlay(base, layers)
      d == {f \in DOMAIN v : w2[f] # v[f]}
  IN [layers EXCEPT ![Len(layers)] = [f \in DOMAIN Top \cup d |-> IF f \in d THEN w2[f] ELSE Top[f]]]

RECURSIVE FoldIn(_, _)
FoldIn(b, ls) == IF ls = <<>> THEN b ELSE FoldIn([f \in DOMAIN b |-> IF f \in DOMAIN Head(ls) THEN Head(ls)[f] ELSE b[f]], Tail(ls))
Reverse(s) == [i \in 1..Len(s) |-> s[Len(s) + 1 - i]]

Menu == A!Menu([saved |-> [i \in 1..(Len(layers) - 1) |-> 0]])

LNext ==
  /\ alive /\ n < MaxOps
  /\ n' = n + 1
  /\ \E o \in Menu :
     LET r == ApplyOp(AbsSt, o) IN
     /\ last' = [o EXCEPT !.op = IF r.res = "panic" THEN "panic:" \o o.op ELSE o.op]
     /\ IF r.res = "panic" THEN alive' = FALSE /\ UNCHANGED <<base, layers, mem, snaps>>
        ELSE CASE o.op = "Snapshot" ->
                    /\ layers' = Append(layers, EmptyFn)
                    /\ snaps' = Append(snaps, mem)
                    /\ UNCHANGED <<base, mem, alive>>
               [] o.op = "Revert" ->
                    /\ layers' = IF Bug = "rebranch" THEN SubSeq(layers, 1, o.id + 2)
                                 ELSE Append(SubSeq(layers, 1, o.id + 1), EmptyFn)
                    /\ mem' = IF Bug = "mem" THEN [snaps[o.id + 2] EXCEPT !.al = mem.al, !.als = mem.als] ELSE snaps[o.id + 2]
                    /\ snaps' = SubSeq(snaps, 1, o.id + 2)
                    /\ UNCHANGED <<base, alive>>
               [] o.op = "Commit" ->
                    LET ls == WriteTop(r.st.cur) IN
                    /\ base' = FoldIn(base, IF Bug = "order" THEN Reverse(ls) ELSE ls)
                    /\ layers' = <<EmptyFn>>
                    /\ mem' = MemOf(r.st.cur)
                    /\ snaps' = <<MemOf(r.st.cur)>>
                    /\ alive' = FALSE
               [] o.op = "Discard" -> alive' = FALSE /\ UNCHANGED <<base, layers, mem, snaps>>
               [] OTHER ->
                    /\ layers' = WriteTop(r.st.cur)
                    /\ mem' = MemOf(r.st.cur)
                    /\ UNCHANGED <<base, snaps, alive>>

LSpec == LInit /\ [][LNext]_lvars

Refines == A!SpecMc

lview == <<base, layers, mem, snaps, alive, n>>
=============================================================================
