\* liveness under weak fairness
SPECIFICATION MCFairSpec
CONSTANTS
  NTopics = 1
  NClients = 1
  Rounds = 2
  MaxEvents = 1
  MaxPolls = 0
  MaxTicks = 0
  MaxFires = 0
  Api = FALSE
  Known = {}
  SpinTopics = {}
  BufCap = 1
  RespCap = 1
  WithIndexer = FALSE
  MaxHeaders = 0
  TraceMode = FALSE
  Foreign = FALSE
INVARIANTS NoCrash
PROPERTIES EventuallyUninstalled UninstalledLeavesIndex
CHECK_DEADLOCK TRUE
