-------------------------------- MODULE Evm --------------------------------
(***************************************************************************)
(* State-level semantics of the abstract EVM programs the harness          *)
(* generates (DESIGN.md 2.4).  NOT a gas semantics: whether a frame ran    *)
(* out of gas is *observed* (hook H1 reports, per executed call frame, its *)
(* exit status) and given to the interpreter as an outcome tree            *)
(*      out == [st |-> "ok"|"revert"|"oog"|"writeprot"|"other", ch |-> <<out, ...>>]   *)
(* The interpreter                                                         *)
(*  (i)  checks the observed tree is consistent with the program: a frame  *)
(*       may end "oog" anywhere, otherwise exactly as its ops dictate;     *)
(*  (ii) computes the surviving effects: a frame's effects survive iff it  *)
(*       ended "ok" (and all its ancestors did) - this is property C03 at  *)
(*       transaction level.                                                *)
(*                                                                         *)
(* Programs: code ids map to sequences of ops                              *)
(*   [op |-> "SSTORE", slot, val]   [op |-> "LOG", n]                       *)
(*   [op |-> "CALL", kind, to, sel, value]  kind in CALL CALLCODE DELEGATECALL STATICCALL *)
(*   [op |-> "CREATE2", addr, value, init (code id), runtime (code id)]    *)
(*   [op |-> "SELFDESTRUCT", to]  [op |-> "REVERT"]  [op |-> "INVALID"]  [op |-> "STOP"]  *)
(*   [op |-> "NOP"]  (reads: SLOAD, BALANCE, EXTCODE* - no state effect)    *)
(*   [op |-> "CPC", kind, to (the ERC-20 precompile of the EVM            *)
(*    denomination), method "transfer" | "burn", args <<recipient, amount>> *)
(*    / <<amount>>]: a call into a stateful custom precompile.  The         *)
(*    precompile moves or destroys BANK coins of the immediate caller       *)
(*    through the current context - not through the StateDB's balance       *)
(*    methods, so nothing is "touched" - and emits one Transfer log.        *)
(***************************************************************************)
EXTENDS World

CONSTANT Programs   \* code id -> entry -> sequence of ops ; "none" has no ops

\* a contract dispatches on the first calldata byte: entry "e<i>"; an unknown entry does nothing
OpsOf(cid, sel) == IF cid = "none" \/ cid \notin DOMAIN Programs THEN <<>>
                   ELSE IF sel \notin DOMAIN Programs[cid] THEN <<>> ELSE Programs[cid][sel]

(* Frame context: self = storage/balance context, caller, value, ro, now (block time) *)

(* Result of running ops: [w, st, j, cons]                                 *)
(*   st   natural exit of the frame: "ok" | "revert" | "other" | "writeprot" | "panic"   *)
(*   j    index of the next unconsumed observed child                      *)
(*   cons the observation was consistent with the program so far           *)
Res(w, st, j, cons) == [w |-> w, st |-> st, j |-> j, cons |-> cons]

(* x/bank refuses to credit module accounts (blocked addresses): the StateDB panics *)
Blocked(w, a) == Kind(w, a) = "module"

DoSstore(w, self, s, v) ==
  LET cur == Slot(w, self, s)
      orig == Get(Get(w.orig, self, EmptyFn), s, 0)
  IN [Touch(Ensure(SetSlot(w, self, s, v), self), self) EXCEPT !.refund = @ + SstoreRefund(orig, cur, v)]

DoLog(w, self, n) == [w EXCEPT !.logs = Append(@, [addr |-> self, n |-> n])]

(* opSelfdestruct: AddBalance(beneficiary, balance(self)) ; Suicide(self) burns what self then holds *)
DoSelfdestruct(w, self, to) ==
  LET b  == Bal(w, self)
      w1 == Touch(Credit(w, to, b), to)            \* mint to beneficiary
      w1s == [w1 EXCEPT !.supply = @ + b]
      b2 == Bal(w1s, self)                         \* 2b when to = self
      w2 == [SetBal(w1s, self, 0) EXCEPT !.supply = @ - b2, !.burnt = @ + (b2 - b)]
  IN IF Ex(w, self)
       THEN [Touch(w2, self) EXCEPT !.sd = @ \cup {self}]
       ELSE Touch(w1s, self)     \* Suicide of a non-existing account only touches

RECURSIVE ExecOps(_, _, _, _, _, _)
RECURSIVE ExecFrameOps(_, _, _, _)

(* A child frame: w is the world at the snapshot; pre is the world after the
   pre-frame effects (account creation, value transfer); returns Res where w is
   the world the parent continues with. *)
ChildResult(w, pre, fc, ops, out) ==
  IF out.st = "oog" THEN Res(w, "ok", 0, TRUE)
  ELSE LET r == ExecFrameOps(pre, fc, ops, out)
       IN IF ~r.cons THEN Res(w, "ok", 0, FALSE)
          ELSE IF r.st = "panic" THEN Res(r.w, "panic", 0, TRUE)
          ELSE IF r.st # out.st THEN Res(w, "ok", 0, FALSE)     \* observed exit differs from the program's
          ELSE IF r.st = "ok" THEN Res(r.w, "ok", 0, TRUE)
          ELSE Res(w, "ok", 0, TRUE)                          \* failed frame: back to the snapshot

ExecFrameOps(w, fc, ops, out) ==
  LET r == ExecOps(w, fc, ops, 1, out.ch, 1)
  IN IF r.cons /\ r.st # "panic" /\ r.j # Len(out.ch) + 1 THEN [r EXCEPT !.cons = FALSE] ELSE r

ExecOps(w, fc, ops, i, outs, j) ==
  IF i > Len(ops) THEN Res(w, "ok", j, TRUE)
  ELSE LET o == ops[i] IN
    CASE o.op = "STOP"    -> Res(w, "ok", j, TRUE)
      [] o.op = "NOP"     -> ExecOps(w, fc, ops, i + 1, outs, j)
      [] o.op = "REVERT"  -> Res(w, "revert", j, TRUE)
      [] o.op = "INVALID" -> Res(w, "other", j, TRUE)
      [] o.op = "SSTORE"  -> IF fc.ro THEN Res(w, "writeprot", j, TRUE)
                             ELSE ExecOps(DoSstore(w, fc.self, o.slot, o.val), fc, ops, i + 1, outs, j)
      [] o.op = "LOG"     -> IF fc.ro THEN Res(w, "writeprot", j, TRUE)
                             ELSE ExecOps(DoLog(w, fc.self, o.n), fc, ops, i + 1, outs, j)
      [] o.op = "SELFDESTRUCT" -> IF fc.ro THEN Res(w, "writeprot", j, TRUE)
                             ELSE IF Bal(w, fc.self) > 0 /\ Blocked(w, o.to) THEN Res(w, "panic", j, TRUE)
                             ELSE Res(DoSelfdestruct(w, fc.self, o.to), "ok", j, TRUE)
      [] o.op = "CALL" ->
           IF o.kind = "CALL" /\ o.value > 0 /\ fc.ro THEN Res(w, "writeprot", j, TRUE)
           ELSE IF o.kind \in {"CALL", "CALLCODE"} /\ o.value > Bal(w, fc.self)
                THEN ExecOps(w, fc, ops, i + 1, outs, j)          \* insufficient balance: no frame, caller goes on
           ELSE IF o.kind = "CALL" /\ o.value > 0 /\ Blocked(w, o.to) THEN Res(w, "panic", j, TRUE)   \* bank refuses: engine failure
           ELSE IF j > Len(outs) THEN Res(w, "ok", j, FALSE)       \* the observation lacks this frame
           ELSE
             LET out == outs[j]
                 tgt == o.to
                 nfc == [self   |-> IF o.kind \in {"CALL", "STATICCALL"} THEN tgt ELSE fc.self,
                         caller |-> IF o.kind = "DELEGATECALL" THEN fc.caller ELSE fc.self,
                         value  |-> IF o.kind = "DELEGATECALL" THEN fc.value ELSE IF o.kind = "STATICCALL" THEN 0 ELSE o.value,
                         ro     |-> fc.ro \/ o.kind = "STATICCALL",
                         now    |-> fc.now]
                 cops == OpsOf(Code(w, tgt), o.sel)
                 c == CASE o.kind = "CALL" ->
                             IF ~SdbExist(w, tgt) /\ o.value = 0
                               THEN (IF out.st = "ok" /\ out.ch = <<>> THEN Res(w, "ok", 0, TRUE) ELSE Res(w, "ok", 0, FALSE))
                               ELSE LET w1 == IF SdbExist(w, tgt) THEN w ELSE CreateAccount(w, tgt, fc.now)
                                        w2 == Touch(SetBal(w1, fc.self, Bal(w1, fc.self) - o.value), fc.self)
                                        w3 == Touch(Credit(w2, tgt, o.value), tgt)
                                    IN ChildResult(w, w3, nfc, cops, out)
                        [] o.kind = "STATICCALL" -> ChildResult(w, Touch(w, tgt), nfc, cops, out)
                        [] OTHER -> ChildResult(w, w, nfc, cops, out)
             IN IF ~c.cons THEN Res(w, "ok", j, FALSE)
                ELSE IF c.st = "panic" THEN Res(c.w, "panic", j, TRUE)
                ELSE ExecOps(c.w, fc, ops, i + 1, outs, j + 1)
      [] o.op = "CREATE2" ->
           IF fc.ro THEN Res(w, "writeprot", j, TRUE)
           ELSE IF o.value > Bal(w, fc.self) THEN ExecOps(w, fc, ops, i + 1, outs, j)
           ELSE LET w0 == Touch(Ensure(SetSeq(w, fc.self, Nonce(w, fc.self) + 1), fc.self), fc.self)   \* creator nonce, outside the snapshot
                IN IF Nonce(w0, o.addr) # 0 \/ Code(w0, o.addr) # "none"
                     THEN ExecOps(w0, fc, ops, i + 1, outs, j)   \* address collision: no frame
                   ELSE IF j > Len(outs) THEN Res(w, "ok", j, FALSE)
                   ELSE IF Protected(w0, o.addr, fc.now) THEN Res(w0, "panic", j, TRUE)
                   ELSE
                     LET out == outs[j]
                         w1 == CreateAccount(w0, o.addr, fc.now)
                         w2 == Touch(SetSeq(w1, o.addr, 1), o.addr)
                         w3 == Touch(SetBal(w2, fc.self, Bal(w2, fc.self) - o.value), fc.self)
                         w4 == Touch(Credit(w3, o.addr, o.value), o.addr)
                         nfc == [self |-> o.addr, caller |-> fc.self, value |-> o.value, ro |-> FALSE, now |-> fc.now]
                         c == ChildResult(w0, w4, nfc, OpsOf(o.init, "e0"), out)
                         c2 == IF c.cons /\ c.st = "ok" /\ out.st = "ok"
                                 THEN [c EXCEPT !.w = Touch(Ensure(SetCode(c.w, o.addr, o.runtime), o.addr), o.addr)]
                                 ELSE c
                     IN IF ~c2.cons THEN Res(w, "ok", j, FALSE)
                        ELSE IF c2.st = "panic" THEN Res(c2.w, "panic", j, TRUE)
                        ELSE ExecOps(c2.w, fc, ops, i + 1, outs, j + 1)
      [] o.op = "CPC" ->
           (* generated in non-static contexts only *)
           IF fc.ro \/ j > Len(outs) THEN Res(w, "ok", j, FALSE)
           ELSE
             LET out == outs[j]
                 pc == o.to
                 caller == fc.self           \* the frame that executes the call instruction, whatever the call kind
                 amt == IF o.method = "burn" THEN o.args[1] ELSE o.args[2]
                 (* pre-frame effects of evm.Call on the precompile's address (value 0): the account is made and both ends are touched *)
                 w1 == IF SdbExist(w, pc) THEN w ELSE CreateAccount(w, pc, fc.now)
                 w2 == IF o.kind = "CALL" THEN Touch(Touch(w1, fc.self), pc) ELSE w1
                 enough == Bal(w2, caller) >= amt
                 moved == IF o.method = "burn"
                            THEN [SetBal(w2, caller, Bal(w2, caller) - amt) EXCEPT !.supply = @ - amt, !.burnt = @ + amt]
                            ELSE IF o.args[1] = caller \/ amt = 0 THEN w2
                            ELSE Credit(SetBal(w2, caller, Bal(w2, caller) - amt), o.args[1], amt)
                 logTo == IF o.method = "burn" THEN "zero" ELSE o.args[1]
                 w3 == [moved EXCEPT !.logs = Append(@, [addr |-> pc, n |-> 3])]
             IN IF out.ch # <<>> THEN Res(w, "ok", j, FALSE)
                ELSE IF out.st = "ok" THEN (IF enough THEN ExecOps(w3, fc, ops, i + 1, outs, j + 1) ELSE Res(w, "ok", j, FALSE))
                ELSE IF out.st = "oog" \/ ~enough THEN ExecOps(w, fc, ops, i + 1, outs, j + 1)      \* failed call: back to the snapshot
                ELSE Res(w, "ok", j, FALSE)                                                           \* it had to succeed
      [] OTHER -> Res(w, "ok", j, FALSE)

(***************************************************************************)
(* Commit of the StateDB (EIP-158 pass): every touched address that is     *)
(* self-destructed or empty is destroyed; hitting a protected account      *)
(* panics (=> the whole transaction fails).  Destruction of different      *)
(* addresses commutes, so the result does not depend on the order.         *)
(***************************************************************************)
ToDestroy(w) == {a \in w.touched : a \in w.sd \/ IsEmpty(w, a)}
CommitPanics(w, now) == \E a \in ToDestroy(w) : Protected(w, a, now)

RECURSIVE DestroyAll(_, _)
DestroyAll(w, S) == IF S = {} THEN w ELSE LET a == CHOOSE x \in S : TRUE IN DestroyAll(Destroy(w, a), S \ {a})

CommitWorld(w) ==
  [DestroyAll(w, ToDestroy(w)) EXCEPT !.touched = {}, !.sd = {}, !.logs = <<>>, !.refund = 0, !.orig = EmptyFn]
=============================================================================
