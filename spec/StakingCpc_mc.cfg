SPECIFICATION SpecMc
CONSTANT MaxOps = 4
CONSTANT MaxTime = 3
CONSTANT MaxAccrue = 1
CONSTANT Amounts = {1, 2}
CONSTANT Witness = FALSE
VIEW view
INVARIANT ConservedInv
INVARIANT EntriesBounded
INVARIANT ViewsConsistent
PROPERTY OnlyCaller
PROPERTY ForgedRejected
PROPERTY RouteIndependent
PROPERTY LogsMatchEvents
PROPERTY FailedChangesNothing
PROPERTY SupplyConserved
CHECK_DEADLOCK FALSE
