SPECIFICATION SpecMc
CONSTANT MaxOps = 3
CONSTANT MaxTime = 2
CONSTANT MaxAccrue = 1
CONSTANT Amounts = {1, 2}
CONSTANT BothRoutes = FALSE
CONSTANT Witness = FALSE
VIEW view
INVARIANT ConservedInv
INVARIANT EntriesBounded
INVARIANT ViewsConsistent
PROPERTY OnlyCaller
PROPERTY ForgedRejected
PROPERTY OriginIsNoAuthority
PROPERTY RouteIndependent
PROPERTY LogsMatchEvents
PROPERTY FailedChangesNothing
PROPERTY SupplyConserved
CHECK_DEADLOCK FALSE
