----------------------------- MODULE Lanes_mc -----------------------------
(***************************************************************************)
(* Design run of Lanes.tla: every shape of the factored space is an        *)
(* initial state; the property's sentences are invariants.  After the run  *)
(* the post-condition (a) checks that every verdict / lane / reason class  *)
(* is inhabited (vacuity guard) and (b) writes the space as B1 vectors     *)
(* {"vec": id, "shape": .., "expect": {verdict, lane, reason}} to          *)
(* vectors.ndjson for the conformance harness.                             *)
(***************************************************************************)
EXTENDS Lanes, Json

(* The state is the index of a shape in the (constant, once-computed) enumeration of the space: TLC handles 10^5
   integer states in a second, whereas 10^5 eleven-field records as initial states take minutes. *)
VARIABLE vi

shape == ShapeSeq[vi]

Init == vi \in 1..Len(ShapeSeq)
Next == UNCHANGED vi
Spec == Init /\ [][Next]_vi

Inv_WellFormed       == WellFormed(shape)
Inv_ExactlyOneLane   == ExactlyOneLane(shape)
Inv_EthOnlyIfClean   == EthAcceptedOnlyIfClean(shape)
Inv_NoRestrictedThroughCosmosLane == NoRestrictedThroughCosmosLane(shape)
Inv_DepthLimit       == DepthLimit(shape)
Inv_ModeIndependence == ModeIndependence(shape)
Inv_EvmOnlyInEthLane == EvmOnlyInEthLane(shape)

EthElemShape == S(<<EthElem>>, "none", FALSE, FALSE, FALSE, FALSE, FALSE, "zero", "eq", "eq", "check")
AllReasons == {r[2] : r \in Range(EthReasons(EthElemShape)) \cup Range(CosmosReasons(EthElemShape))}

Classes == {<<Lane(ShapeSeq[i]), Verdict(ShapeSeq[i])>> : i \in 1..Len(ShapeSeq)}
ReasonsSeen == {Reason(ShapeSeq[i]) : i \in 1..Len(ShapeSeq)}

(* vacuity: both lanes x the three verdicts, and every reason except the domain guard, occur in the space *)
NonVacuous ==
  /\ Classes = {"eth", "cosmos"} \X {"accept", "reject", "any"}
  /\ ReasonsSeen = (AllReasons \ {"outside-domain"}) \cup {""}

Dump ==
  /\ \/ TLCGet("stats").distinct = Len(VectorSeq)
     \/ Print(<<"STATE COUNT DIFFERS FROM VECTOR COUNT", TLCGet("stats").distinct, Len(VectorSeq)>>, FALSE)
  /\ \/ DisjointFactors
     \/ Print("FACTORS OF THE SHAPE SPACE OVERLAP", FALSE)
  /\ \/ NonVacuous
     \/ Print(<<"VACUOUS", Classes, ReasonsSeen>>, FALSE)
  /\ ndJsonSerialize("vectors.ndjson", VectorSeq)
  /\ PrintT(<<"VECTORS", Len(VectorSeq)>>)
=============================================================================
