--------------------------- MODULE TraceLogFilter ---------------------------
(***************************************************************************)
(* Judge of the recorded log deliveries of the REAL code (mode "logs" of   *)
(* harness/conc: eth_subscribe ["logs", criteria] over the real websocket  *)
(* server, and PublicFilterAPI.NewFilter + GetFilterChanges).  One line    *)
(* per (target, criteria, injected receipt):                               *)
(*   f     the criteria (tokens of LogFilter.tla)                          *)
(*   logs  the logs of the injected receipt, in order                      *)
(*   got   per pass (the receipt is injected several times): the indices   *)
(*         of the logs the subscription / filter delivered, in order       *)
(* Law: the delivery of a pass is exactly the logs that match (LogMatch),  *)
(* in the receipt's order.  The event bus hands an event only to a         *)
(* consumer parked in its select (non-blocking publish), so a pass may     *)
(* have lost the WHOLE event (empty delivery) -- admitted, but at least    *)
(* one pass must show the full delivery.                                   *)
(***************************************************************************)
EXTENDS LogMatch, Json, TLC

Trace == ndJsonDeserialize("trace.ndjson")

VARIABLE n
ToSet(s) == {s[i] : i \in DOMAIN s}

F(e) == [addr |-> ToSet(e.f.addr), t |-> [i \in 1..Len(e.f.t) |-> ToSet(e.f.t[i])]]
L(e, j) == [a |-> e.logs[j].a, t |-> e.logs[j].t]
Expected(e) == {j \in 1..Len(e.logs) : Matches(F(e), L(e, j))}

Exact(e, g) == /\ ToSet(g) = Expected(e)
               /\ Len(g) = Cardinality(Expected(e))
               /\ \A i \in 1..(Len(g) - 1) : g[i] < g[i + 1]

LineOk(e) == /\ \E p \in DOMAIN e.got : Exact(e, e.got[p])
             /\ \A p \in DOMAIN e.got : Exact(e, e.got[p]) \/ e.got[p] = << >>

Kind(e) == IF \E p \in DOMAIN e.got : ~(ToSet(e.got[p]) \subseteq Expected(e)) THEN "extra-log"
           ELSE IF \E p \in DOMAIN e.got : e.got[p] # << >> /\ ToSet(e.got[p]) # Expected(e) THEN "missing-log"
           ELSE IF \A p \in DOMAIN e.got : e.got[p] = << >> THEN "all-matching-logs-missing"
           ELSE "order"

TraceInit == n = 2              \* line 1 is the header
TraceNext ==
  /\ n <= Len(Trace)
  /\ n' = n + 1
  /\ IF LineOk(Trace[n]) THEN TRUE
     ELSE Print(<<"LAWBROKEN", n, Kind(Trace[n]), ToJson(Expected(Trace[n]))>>, FALSE)
TraceSpec == TraceInit /\ [][TraceNext]_n

TraceAccepted ==
  LET d == TLCGet("stats").diameter IN
  IF d = Len(Trace) THEN TRUE
  ELSE Print(<<"TRACE NOT ACCEPTED: consumed lines up to", d, "of", Len(Trace)>>, FALSE)
=============================================================================
