SPECIFICATION Spec
CONSTANT Calls = {0, 1}
CONSTANT Gases = {1, 3}
CONSTANT MaxBlocks = 4
CONSTANT MaxReqs = 4
INVARIANT Repeatable
INVARIANT PredictionsHold
INVARIANT EstimatesSuffice
PROPERTY FrameLaw
PROPERTY AppendOnly
CHECK_DEADLOCK FALSE
