----------------------------- MODULE StateDB_mc -----------------------------
(***************************************************************************)
(* Exhaustive exploration of the abstract StateDB within small constants:  *)
(* every sequence of at most MaxOps operations from a fixed menu over a    *)
(* base world that has one account of every kind the properties talk about *)
(*   a  funded base account           c  contract with code and storage    *)
(*   z  existing empty base account   x  non-existent address              *)
(*   y  base account holding only the other denomination                   *)
(*   m  module account                v  vesting, not ended, partly locked *)
(*   u  vesting, ended                e  vesting, not ended, empty         *)
(* with arbitrarily nested snapshots and reverts, ended by Commit (both    *)
(* modes) or Discard.  Checked: the C15 step laws, snapshot/revert         *)
(* exactness, that nothing but a successful Commit changes the base, and   *)
(* conservation (sum of balances = supply) in every state.                 *)
(***************************************************************************)
EXTENDS StateDB

CONSTANTS MaxOps, MaxDepth, Witness

NoPrograms == [x \in {} |-> 0]

Addrs == {"a", "c", "z", "x", "y", "m", "v", "u", "e"}
F(d, S) == [k \in S |-> d]

Base ==
  [bal  |-> [F(0, Addrs) EXCEPT !["a"] = 3, !["c"] = 2, !["m"] = 1, !["v"] = 3, !["u"] = 2],
   bal2 |-> [F(0, Addrs) EXCEPT !["a"] = 1, !["y"] = 1, !["c"] = 1],
   seq  |-> [F(0, Addrs) EXCEPT !["a"] = 1],
   ex   |-> [F(TRUE, Addrs) EXCEPT !["x"] = FALSE],
   code |-> [F("none", Addrs) EXCEPT !["c"] = "k"],
   stor |-> [F(EmptyFn, Addrs) EXCEPT !["c"] = [s \in {"s"} |-> 1]],
   kind |-> [F("base", Addrs) EXCEPT !["m"] = "module", !["v"] = "vesting", !["u"] = "vesting", !["e"] = "vesting"],
   vend |-> [F(0, Addrs) EXCEPT !["v"] = 10, !["u"] = 1, !["e"] = 10],
   lock |-> [F(0, Addrs) EXCEPT !["v"] = 2, !["u"] = 2],
   supply |-> 11, supply2 |-> 3, burnt |-> 0, burnt2 |-> 0,
   logs |-> <<>>, refund |-> 0, sd |-> {}, touched |-> {}, orig |-> EmptyFn,
   al |-> {}, als |-> {}, tstor |-> EmptyFn, allow |-> EmptyFn]

Now == 5

VARIABLES st, n, last
vars == <<st, n, last>>

Menu(s) ==
       {[op |-> "AddBalance", a |-> a, v |-> v] : a \in {"a", "x", "m", "e", "z"}, v \in {0, 1}}
  \cup {[op |-> "SubBalance", a |-> a, v |-> v] : a \in {"a", "v", "u", "c"}, v \in {0, 2}}
  \cup {[op |-> "SetNonce", a |-> a, v |-> 1] : a \in {"x", "z"}}
  \cup {[op |-> "SetCode", a |-> "z", code |-> "k"]}
  \cup {[op |-> "SetState", a |-> a, k |-> "s", v |-> v] : a \in {"c", "z"}, v \in {0, 2}}
  \cup {[op |-> "SetTransientState", a |-> "c", k |-> "s", v |-> 1]}
  \cup {[op |-> "CreateAccount", a |-> a] : a \in {"c", "x", "v", "u", "m", "y"}}
  \cup {[op |-> "Suicide", a |-> a] : a \in {"c", "x", "v", "u", "e"}}
  \cup {[op |-> "AddRefund", v |-> 1], [op |-> "SubRefund", v |-> 1], [op |-> "AddLog", v |-> 1]}
  \cup {[op |-> "AddSlotToAccessList", a |-> "c", k |-> "s"], [op |-> "AddAddressToAccessList", a |-> "a"]}
  \cup {[op |-> "ForeignSend", a |-> a, b |-> b, v |-> 1] : a \in {"a", "y"}, b \in {"x", "z"}}
  \cup {[op |-> "ForeignAllow", a |-> "a", b |-> "c", v |-> 1]}
  \cup (IF Len(s.saved) < MaxDepth THEN {[op |-> "Snapshot"]} ELSE {})
  \cup {[op |-> "Revert", id |-> i] : i \in 0..(Len(s.saved) - 1)}
  \cup {[op |-> "Commit", deleteEmpty |-> d] : d \in BOOLEAN}
  \cup {[op |-> "Discard"]}

Init == st = NewStateDB(Base, Now) /\ n = 0 /\ last = [op |-> "none"]

Next ==
  /\ st.alive /\ n < MaxOps
  /\ \E o \in Menu(st) :
       LET r == Apply(st, o) IN
       /\ st' = r.st
       /\ n' = n + 1
       /\ last' = [o EXCEPT !.op = IF r.res = "panic" THEN "panic:" \o o.op ELSE o.op]

SpecMc == Init /\ [][Next]_vars

view == <<st, n>>

(* ---- laws ---- *)
Sum(f) == LET RECURSIVE G(_) G(X) == IF X = {} THEN 0 ELSE LET a == CHOOSE x \in X : TRUE IN f[a] + G(X \ {a}) IN G(DOMAIN f)
ConservationInv == Sum(st.cur.bal) = st.cur.supply /\ Sum(st.cur.bal2) = st.cur.supply2
NoNegativeInv == \A a \in DOMAIN st.cur.bal : st.cur.bal[a] >= 0 /\ Bal2(st.cur, a) >= 0
SavedDepthInv == Len(st.saved) <= MaxDepth

ProtectedLaw == [][ProtectedSurvives(st, st')]_vars
LockedLaw == [][LockedNeverSpent(st, st')]_vars
CommitLaw == [][\A d \in BOOLEAN : last'.op = "Commit" /\ last'.deleteEmpty = d => CommitDeletes(st, [op |-> "Commit", deleteEmpty |-> d], st')]_vars
(* only a successful commit changes the base; a panic or discard leaves it alone *)
BaseLaw == [][st'.base # st.base => last'.op = "Commit"]_vars
(* revert restores EVERY component of the world as it was at the snapshot, and keeps the snapshot valid *)
RevertLaw == [][last'.op = "Revert" => st'.cur = st.saved[last'.id + 1] /\ st'.saved = SubSeq(st.saved, 1, last'.id + 1)]_vars
SnapshotLaw == [][last'.op = "Snapshot" => st'.cur = st.cur /\ st'.saved = Append(st.saved, st.cur)]_vars
(* a protected account is never re-typed or replaced while the StateDB lives or by what it commits *)
KindLaw == [][\A a \in Addrs : Protected(st.base, a, Now) => Kind(st'.base, a) = Kind(st.base, a) /\ Ex(st'.base, a)]_vars
(* committed: locked coins of an unexpired vesting account are still there *)
LockedCommittedInv == \A a \in Addrs : Protected(st.base, a, Now) /\ Kind(st.base, a) = "vesting" => Bal(st.base, a) >= Lock(Base, a)

(* vacuity guards: each must be violated (reachable) in the witness configuration *)
W_NoCommitPanic == ~(Witness /\ last.op = "panic:Commit")
W_NoCommitDelete == ~(Witness /\ last.op = "Commit" /\ ~Ex(st.base, "c") /\ Ex(Base, "c"))
W_NoGuardPanic == ~(Witness /\ last.op = "panic:CreateAccount")
W_NoLockPanic == ~(Witness /\ last.op = "panic:SubBalance" /\ last.a = "v")
W_NoDeepRevert == ~(Witness /\ last.op = "Revert" /\ last.id = 0 /\ Len(st.saved) = 1 /\ n >= 4)
=============================================================================
