SPECIFICATION mcSimSpec
CONSTANTS
  Funded <- mcFunded
  Keyless <- mcKeyless
  Fresh <- mcFresh
  Funder = "s0"
  InitialUnits <- mcInitialUnits
  McOps <- Ops
  Record = TRUE
  Weight = 12
  Depth = 8
INVARIANTS
  DumpHist
CHECK_DEADLOCK FALSE
