SPECIFICATION mcSimSpec
CONSTANTS
  Funded <- mcFunded
  Fresh <- mcFresh
  Funder = "s0"
  InitialUnits <- mcInitialUnits
  Record = TRUE
  Weight = 12
  Depth = 8
INVARIANTS
  DumpHist
CHECK_DEADLOCK FALSE
