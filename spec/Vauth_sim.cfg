SPECIFICATION mcSimSpec
CONSTANTS
  Funded <- mcFunded
  Keyless <- mcKeyless
  Fresh <- mcFresh
  Funder = "s0"
  InitialUnits <- mcInitialUnits
  McOps <- Ops
  SimOps <- ReducedOps
  Record = TRUE
  Weight = 4
  Depth = 8
INVARIANTS
  DumpHist
CHECK_DEADLOCK FALSE
