------------------------------ MODULE Replicas ------------------------------
(***************************************************************************)
(* C01 at design level: N replicas execute the same transactions; each has *)
(* hidden inputs no block carries - the order in which its hash map of     *)
(* touched accounts is visited at commit, its wall clock - and the outputs *)
(* (world, event sequence, result) must coincide: Agree.                   *)
(*                                                                         *)
(* A transaction is abstracted to what matters at the StateDB commit: a    *)
(* set of touched accounts, some of them self-destructed, some holding     *)
(* leftovers in another denomination (destroying such an account emits a   *)
(* bank burn event), one of them possibly a vesting account that is empty  *)
(* (touched + empty => destroy attempt => the guard decides by TIME).      *)
(*                                                                         *)
(* Mode = "spec":      commit visits the touched accounts in address order *)
(*                     and the guard reads the block time: Agree holds.    *)
(* Mode = "maporder":  the visiting order is the replica's hidden choice   *)
(*                     (the code before repair c83965a, finding D3).       *)
(* Mode = "wallclock": the guard reads the replica's wall clock (the code  *)
(*                     before repair 038a748, finding D1).                 *)
(* Mode = "sharedscratch": a third hidden input, the requests a node     *)
(*                     serves WHILE it executes the block (gRPC / JSON-RPC *)
(*                     queries run on other goroutines).  Each storage    *)
(*                     write builds its store key in scratch memory; in   *)
(*                     this mode the scratch is shared with the readers,  *)
(*                     so a reader that builds its own key between build  *)
(*                     and use redirects the write to the account it asks *)
(*                     about (the replica's hidden choice `q`).           *)
(* The deviations are kept as named, checkable counterexamples: TLC        *)
(* must refute Agree for them (Replicas_dev_*.cfg), which shows that the   *)
(* model is able to see the kind of divergence the property is about.      *)
(***************************************************************************)
EXTENDS StateDB

CONSTANTS Mode, NRep, MaxTx

NoPrograms == [x \in {} |-> 0]
Order == <<"c1", "c2", "c3", "v">>         \* address order
Addrs == {Order[i] : i \in 1..Len(Order)}
Idx(a) == CHOOSE i \in 1..Len(Order) : Order[i] = a
BlockTime == 3
Walls == {1, 9}

F(d, S) == [k \in S |-> d]
W0 ==
  [bal  |-> F(0, Addrs), bal2 |-> [F(0, Addrs) EXCEPT !["c1"] = 1, !["c2"] = 2, !["c3"] = 1],
   seq  |-> F(0, Addrs), ex |-> F(TRUE, Addrs),
   code |-> [F("k", Addrs) EXCEPT !["v"] = "none"],
   stor |-> F(EmptyFn, Addrs),
   kind |-> [F("base", Addrs) EXCEPT !["v"] = "vesting"],
   vend |-> [F(0, Addrs) EXCEPT !["v"] = 5],
   lock |-> F(0, Addrs),
   supply |-> 0, supply2 |-> 4, burnt |-> 0, burnt2 |-> 0,
   logs |-> <<>>, refund |-> 0, sd |-> {}, touched |-> {}, orig |-> EmptyFn,
   al |-> {}, als |-> {}, tstor |-> EmptyFn, allow |-> EmptyFn]

VARIABLES rep, n
vars == <<rep, n>>
Reps == 1..NRep

(* all orders in which a set can be visited *)
RECURSIVE Perms(_)
Perms(S) == IF S = {} THEN {<<>>} ELSE UNION {{<<a>> \o p : p \in Perms(S \ {a})} : a \in S}
Sorted(S) == CHOOSE p \in Perms(S) : \A i, j \in 1..Len(p) : i < j => Idx(p[i]) < Idx(p[j])

(* commit of one replica: visit `order`, destroy what must go, emitting one burn event per leftover *)
RECURSIVE Visit(_, _, _, _)
Visit(w, order, evs, now) ==
  IF order = <<>> THEN [w |-> w, evs |-> evs, res |-> "ok"]
  ELSE LET a == Head(order) IN
       IF a \in w.sd \/ IsEmpty(w, a)
         THEN IF Protected(w, a, now) THEN [w |-> w, evs |-> evs, res |-> "panic"]
              ELSE Visit(Destroy(w, a), Tail(order), IF Bal2(w, a) > 0 THEN Append(evs, <<"burn", a, Bal2(w, a)>>) ELSE evs, now)
         ELSE Visit(w, Tail(order), evs, now)

Init == rep = [r \in Reps |-> [w |-> W0, evs |-> <<>>, res |-> "ok"]] /\ n = 0

(* what the concurrent readers of each replica ask about while the write's key sits in scratch memory *)
Queries == IF Mode = "sharedscratch" THEN [Reps -> Addrs \cup {"none"}] ELSE {[r \in Reps |-> "none"]}
(* the transaction's storage write: slot "s0" of account a, landing where the key says *)
Write(w, a, q, v) ==
  IF a = "none" THEN w ELSE
  LET t == IF q = "none" THEN a ELSE q IN [w EXCEPT !.stor[t] = [x \in (DOMAIN @) \cup {"s0"} |-> IF x = "s0" THEN v ELSE @[x]]]

Tx(T, SD) ==
  /\ n < MaxTx /\ n' = n + 1
  /\ \E wall \in [Reps -> Walls] :
     \E ord \in [Reps -> Perms(T)] :
     \E q \in Queries :
     \E wa \in {Sorted(T)[1], "none"} :
       rep' = [r \in Reps |->
                 LET w1 == [Write(rep[r].w, wa, q[r], n + 1) EXCEPT !.touched = T, !.sd = SD]
                     o == IF Mode = "maporder" THEN ord[r] ELSE Sorted(T)
                     now == IF Mode = "wallclock" THEN wall[r] ELSE BlockTime
                     c == Visit(w1, o, <<>>, now)
                 IN IF c.res = "panic" THEN [rep[r] EXCEPT !.res = "panic"]         \* the transaction fails as a whole
                    ELSE [w |-> [c.w EXCEPT !.touched = {}, !.sd = {}], evs |-> rep[r].evs \o c.evs, res |-> "ok"]]

Next == \E T \in SUBSET Addrs : \E SD \in SUBSET (T \ {"v"}) : T # {} /\ Tx(T, SD)
Spec == Init /\ [][Next]_vars

Agree == \A r1, r2 \in Reps : rep[r1] = rep[r2]
(* the world never depends on the order (destruction of different accounts commutes), only the events do *)
WorldAgrees == \A r1, r2 \in Reps : rep[r1].res = "ok" /\ rep[r2].res = "ok" /\ Mode # "wallclock" => rep[r1].w = rep[r2].w
=============================================================================
