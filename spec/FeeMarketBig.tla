---------------------------- MODULE FeeMarketBig ----------------------------
(***************************************************************************)
(* The base-fee step over UNBOUNDED integers, for Apalache (C09).          *)
(* TLC's integers are 32 bit; the property quantifies over base fees up to *)
(* 2^256 and gas up to 2^64, so the arithmetic laws are discharged here    *)
(* symbolically: Init leaves the four inputs unconstrained within their    *)
(* domains and the laws are checked as invariants of the initial states    *)
(* (--length=0).  SamplesOk (FeeMarketSamples.tla, generated) checks the   *)
(* values the REAL keeper returned for sampled inputs, big ones included.  *)
(***************************************************************************)
EXTENDS Integers, FeeMarket

VARIABLES
  \* @type: Int;
  vB,
  \* @type: Int;
  vUsed,
  \* @type: Int;
  vMaxGas,
  \* @type: Int;
  vMinP

P256 == 115792089237316195423570985008687907853269984665640564039457584007913129639936
P64 == 18446744073709551616
T64 == (P64 - 1) \div 2

\* gas target of the block: half the limit; unlimited blocks have limit 2^64-1
\* @type: (Int) => Int;
Target(mg) == IF mg = -1 THEN T64 ELSE mg \div 2

\* the general formula also for unlimited blocks (no closed form)
\* @type: (Int, Int, Int) => Int;
StepBig(bb, u, mg) == StepAt(bb, u, Target(mg))
\* @type: (Int, Int, Int, Int) => Int;
NextBig(bb, u, mg, mp) == FMax(StepBig(bb, u, mg), mp)
\* @type: (Int, Int) => Bool;
DefinedBig(u, mg) == Target(mg) > 0 \/ u = Target(mg)
\* @type: (Int, Int, Int, Int, Int) => Bool;
NextOkBig(bb, u, mg, mp, r) ==
  IF DefinedBig(u, mg) THEN r = NextBig(bb, u, mg, mp) ELSE r >= 0 /\ r >= mp

Init ==
  /\ vB \in 0..P256
  /\ vUsed \in 0..(P64 - 1)
  /\ vMaxGas \in (-1)..(P64 \div 2 - 1)
  /\ vMinP \in 0..P256

Stutter == UNCHANGED <<vB, vUsed, vMaxGas, vMinP>>

T == Target(vMaxGas)

NonNeg == DefinedBig(vUsed, vMaxGas) => NextBig(vB, vUsed, vMaxGas, vMinP) >= 0
AtLeastMin == DefinedBig(vUsed, vMaxGas) => NextBig(vB, vUsed, vMaxGas, vMinP) >= vMinP
UnchangedAtTarget == vUsed = T => StepBig(vB, vUsed, vMaxGas) = vB
UpAtLeastOne == T > 0 /\ vUsed > T => StepBig(vB, vUsed, vMaxGas) >= vB + 1
UpAtMostEighthPlusOne == T > 0 /\ vUsed > T /\ vUsed <= 2 * T => StepBig(vB, vUsed, vMaxGas) <= vB + FMax(vB \div 8, 1)
DownBounded == T > 0 /\ vUsed < T => StepBig(vB, vUsed, vMaxGas) <= vB /\ StepBig(vB, vUsed, vMaxGas) >= vB - (vB \div 8)
\* the closed form FeeMarket.tla uses for unlimited blocks in TLC's small domain is the general formula there
ClosedFormUnlimited == vUsed < T64 /\ vB * vUsed < T64 => StepUnlimited(vB, vUsed) = StepAt(vB, vUsed, T64)
\* where the code's old formula divided by zero (D4): exactly the undefined region
GethDefinedIsDefined == vMaxGas >= 0 => (GethDefined(vUsed, vMaxGas) <=> DefinedBig(vUsed, vMaxGas))

AllLaws == NonNeg /\ AtLeastMin /\ UnchangedAtTarget /\ UpAtLeastOne /\ UpAtMostEighthPlusOne /\ DownBounded
           /\ ClosedFormUnlimited /\ GethDefinedIsDefined
=============================================================================
