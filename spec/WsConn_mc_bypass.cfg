\* witness deviation: the forwarded answer is written without wsConn.mux -> TLC must violate OneWriter
\* (the check generates this configuration and a second one with NoReaderCrash: the read loop as second writer)
SPECIFICATION MCSpec
CONSTANTS
  R = 1
  S = 1
  E = 2
  U = 0
  Bypass = TRUE
  TraceMode = FALSE
  defaultInitValue = defaultInitValue
INVARIANTS OneWriter
CHECK_DEADLOCK TRUE
