\* quick exhaustive design run: the property-respecting design (no deviation), EventSystem used directly
SPECIFICATION MCSpec
CONSTANTS
  NTopics = 1
  NClients = 2
  Rounds = 2
  MaxEvents = 2
  MaxPolls = 0
  MaxTicks = 0
  MaxFires = 0
  Api = FALSE
  Known = {}
  SpinTopics = {}
  BufCap = 1
  RespCap = 1
  WithIndexer = FALSE
  MaxHeaders = 0
  TraceMode = FALSE
INVARIANTS NoCrash NoLostTopic LockInv NoLeakedPublisher TopicAgreement IndexerInv
CHECK_DEADLOCK TRUE
