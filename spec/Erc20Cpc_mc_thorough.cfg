SPECIFICATION Spec
CONSTANT Tokens = {A, B}
CONSTANT Holders = {h1, h2, h3, Z, M}
CONSTANT Callers = {h1, h2, h3}
CONSTANT Zero = Z
CONSTANT SmallAmounts = {0, 1, 2}
CONSTANT InitBal = 2
CONSTANT MaxCalls = 4
CONSTANT Shared = FALSE
SYMMETRY Sym
VIEW view
INVARIANT TypeOK
INVARIANT Conservation
INVARIANT ViewsExact
INVARIANT ZeroIsInert
INVARIANT OneLogPerSuccess
PROPERTY LogHistoryGrowsByLast
PROPERTY FailedChangesNothing
PROPERTY NoTheft
PROPERTY AllowanceFrame
PROPERTY InfiniteAllowanceSticky
PROPERTY BalanceFrame
PROPERTY ApproveMovesNothing
CHECK_DEADLOCK FALSE
