------------------------------ MODULE BusLocks ------------------------------
(***************************************************************************)
(* C20 clause (a), lock order of the event bus (rpc/ethereum/pubsub).      *)
(* FilterSystem.tla treats every memEventBus critical section as one       *)
(* atomic step; this small module makes the two bus mutexes explicit so    *)
(* that TLC's deadlock check decides the lock ORDER:                       *)
(*                                                                         *)
(*   topicsMux       RWMutex  (tR readers, tW writer, tPend announced      *)
(*                             writers: Go blocks new readers from the     *)
(*                             moment a writer called Lock())              *)
(*   subscribersMux  RWMutex  (sR, sW, sPend)                              *)
(*                                                                         *)
(* Every critical section is acquire (+ announce for write locks) and      *)
(* body/release steps.  Code as pinned (after the D12 repair):             *)
(*   AddTopic      RLock t; check; RUnlock t;  Lock t; add; Unlock t       *)
(*   RemoveTopic   Lock t; delete; Unlock t    (the caller then closes src)*)
(*   Subscribe     RLock t; check; RUnlock t;  Lock s; add; Unlock s       *)
(*   unsubscribe   Lock s; delete; Unlock s                                *)
(*   publishTopic  msg:    RLock s; non-blocking sends; RUnlock s          *)
(*                 closed: Lock t [hook closed.locked]; if still ours:     *)
(*                         { Lock s [closeAll]; close all; Unlock s;       *)
(*                           [delTopic] delete }; Unlock t                 *)
(* The only nesting is topicsMux -> subscribersMux (publishTopic-after-    *)
(* close).  Witness deviation `InvertedSubscribe`: Subscribe takes         *)
(* subscribersMux (deferred unlock) BEFORE topicsMux.RLock -- the opposite *)
(* order; TLC then produces the deadlock.                                  *)
(***************************************************************************)
EXTENDS Integers, FiniteSets, TLC

CONSTANTS NTopics, NSubs, Rounds, MaxOps, MaxMsgs, Deviations

Topics == 1..NTopics
Chans  == 1..MaxOps
MGR == 1  SRC == 2
PUB(c) == 10 + c
SUB(i) == 30 + i
PUBs == {PUB(c) : c \in Chans}
SUBs == {SUB(i) : i \in 1..NSubs}

(* --algorithm BusLocks {
variables
  tR = 0; tW = 0; tPend = {};
  sR = 0; sW = 0; sPend = {};
  topics = [t \in Topics |-> 0];                      \* m.topics[name] = channel id
  subs   = [t \in Topics |-> {}];                     \* m.subscribers[name]
  src    = [c \in Chans |-> [topic |-> 0, closed |-> FALSE, msgs |-> 0]];
  nextChan = 1; ops = 0; sent = 0;

define {
  LockInv == /\ tR >= 0 /\ sR >= 0
             /\ (tW # 0 => tR = 0) /\ (sW # 0 => sR = 0)
}

macro RLock(r, w, pend)    { await w = 0 /\ pend = {}; r := r + 1 }
macro LockReq(pend, me)        { pend := pend \cup {me} }
macro LockAcq(r, w, pend, me)  { await r = 0 /\ w = 0; w := me; pend := pend \ {me} }

\* ---------------------------------------------------------------- the EventSystem's eventLoop as user of the bus
process (manager = MGR)
variables mt = 0; mine = [t \in Topics |-> 0]; mok = FALSE;
{
mg:
  while (ops < MaxOps) {
    ops := ops + 1;
    with (t \in Topics) { mt := t };
    if (mine[mt] = 0) {
at_r:   RLock(tR, tW, tPend);                       \* AddTopic: topicsMux.RLock
at_chk: mok := topics[mt] # 0; tR := tR - 1;        \* [addTopic.check]; RUnlock
        if (~mok) {
at_wreq:  LockReq(tPend, MGR);                           \* topicsMux.Lock
at_wacq:  LockAcq(tR, tW, tPend, MGR);
at_add:   topics[mt] := nextChan;                   \* [addTopic.add]; Unlock; go publishTopic
          src[nextChan].topic := mt;
          mine[mt] := nextChan;
          nextChan := nextChan + 1;
          tW := 0;
        }
    } else {
rt_wreq: LockReq(tPend, MGR);                            \* RemoveTopic: topicsMux.Lock
rt_wacq: LockAcq(tR, tW, tPend, MGR);
rt_del:  topics[mt] := 0; tW := 0;                  \* [removeTopic]; Unlock
rt_close: src[mine[mt]].closed := TRUE;             \* close(ch) by the caller
         mine[mt] := 0;
    }
  }
}

\* ---------------------------------------------------------------- Comet / consumeEvents: values into the open sources
process (source = SRC)
{
sr:
  while (sent < MaxMsgs) {
    with (c \in {x \in Chans : src[x].topic # 0 /\ ~src[x].closed}) { src[c].msgs := src[c].msgs + 1 };
    sent := sent + 1;
  }
}

\* ---------------------------------------------------------------- publishTopic goroutines
process (publisher \in PUBs)
variables pc_ = self - 10;
{
pb:
  while (TRUE) {
    either {
      await src[pc_].topic # 0 /\ src[pc_].msgs > 0;  \* msg, ok := <-src (ok)
      src[pc_].msgs := src[pc_].msgs - 1;
pb_pr:  RLock(sR, sW, sPend);                       \* publishAllSubscribers: subscribersMux.RLock
pb_pub: sR := sR - 1;                               \* [publish]; non-blocking sends; RUnlock
    } or {
      await src[pc_].topic # 0 /\ src[pc_].closed /\ src[pc_].msgs = 0;   \* !ok
pb_treq: LockReq(tPend, self);                            \* topicsMux.Lock
pb_tacq: LockAcq(tR, tW, tPend, self);
pb_chk:  \* [closed.locked]  is the topic still ours?
         if (topics[src[pc_].topic] # 0 /\ topics[src[pc_].topic] # pc_) { tW := 0; goto pb_done };
pb_sreq: LockReq(sPend, self);                            \* closeAllSubscribers: subscribersMux.Lock (nested in topicsMux)
pb_sacq: LockAcq(sR, sW, sPend, self);
pb_close: subs[src[pc_].topic] := {}; sW := 0;      \* [closeAll]; close every channel; Unlock
pb_del:  topics[src[pc_].topic] := 0; tW := 0;      \* [delTopic]; delete; topicsMux.Unlock
         goto pb_done;
    }
  };
pb_done: skip;
}

\* ---------------------------------------------------------------- goroutines that Subscribe / unsubscribe
process (subscriber \in SUBs)
variables round = 0; st = 0; sok = FALSE;
{
sb:
  while (round < Rounds) {
    round := round + 1;
    with (t \in Topics) { st := t };
    if ("InvertedSubscribe" \in Deviations) {
sb_sreq0: LockReq(sPend, self);                           \* witness deviation: subscribersMux.Lock (deferred Unlock) first
sb_sacq0: LockAcq(sR, sW, sPend, self);
    };
sb_tr:  RLock(tR, tW, tPend);                       \* Subscribe: topicsMux.RLock
sb_chk: sok := topics[st] # 0; tR := tR - 1;        \* [subscribe.check]; RUnlock
    if (~sok) {
      if ("InvertedSubscribe" \in Deviations) { sW := 0 };
    } else {
      if ("InvertedSubscribe" \notin Deviations) {
sb_sreq: LockReq(sPend, self);                            \* subscribersMux.Lock
sb_sacq: LockAcq(sR, sW, sPend, self);
      };
sb_add: subs[st] := subs[st] \cup {self}; sW := 0;  \* [subscribe.add]; Unlock
un_sreq: LockReq(sPend, self);                            \* unsubscribe(): subscribersMux.Lock
un_sacq: LockAcq(sR, sW, sPend, self);
un_del: subs[st] := subs[st] \ {self}; sW := 0;     \* [unsubscribe]; Unlock
    }
  }
}
} *)
\* BEGIN TRANSLATION
VARIABLES pc, tR, tW, tPend, sR, sW, sPend, topics, subs, src, nextChan, ops, 
          sent

(* define statement *)
LockInv == /\ tR >= 0 /\ sR >= 0
           /\ (tW # 0 => tR = 0) /\ (sW # 0 => sR = 0)

VARIABLES mt, mine, mok, pc_, round, st, sok

vars == << pc, tR, tW, tPend, sR, sW, sPend, topics, subs, src, nextChan, ops, 
           sent, mt, mine, mok, pc_, round, st, sok >>

ProcSet == {MGR} \cup {SRC} \cup (PUBs) \cup (SUBs)

Init == (* Global variables *)
        /\ tR = 0
        /\ tW = 0
        /\ tPend = {}
        /\ sR = 0
        /\ sW = 0
        /\ sPend = {}
        /\ topics = [t \in Topics |-> 0]
        /\ subs = [t \in Topics |-> {}]
        /\ src = [c \in Chans |-> [topic |-> 0, closed |-> FALSE, msgs |-> 0]]
        /\ nextChan = 1
        /\ ops = 0
        /\ sent = 0
        (* Process manager *)
        /\ mt = 0
        /\ mine = [t \in Topics |-> 0]
        /\ mok = FALSE
        (* Process publisher *)
        /\ pc_ = [self \in PUBs |-> self - 10]
        (* Process subscriber *)
        /\ round = [self \in SUBs |-> 0]
        /\ st = [self \in SUBs |-> 0]
        /\ sok = [self \in SUBs |-> FALSE]
        /\ pc = [self \in ProcSet |-> CASE self = MGR -> "mg"
                                        [] self = SRC -> "sr"
                                        [] self \in PUBs -> "pb"
                                        [] self \in SUBs -> "sb"]

mg == /\ pc[MGR] = "mg"
      /\ IF ops < MaxOps
            THEN /\ ops' = ops + 1
                 /\ \E t \in Topics:
                      mt' = t
                 /\ IF mine[mt'] = 0
                       THEN /\ pc' = [pc EXCEPT ![MGR] = "at_r"]
                       ELSE /\ pc' = [pc EXCEPT ![MGR] = "rt_wreq"]
            ELSE /\ pc' = [pc EXCEPT ![MGR] = "Done"]
                 /\ UNCHANGED << ops, mt >>
      /\ UNCHANGED << tR, tW, tPend, sR, sW, sPend, topics, subs, src, 
                      nextChan, sent, mine, mok, pc_, round, st, sok >>

at_r == /\ pc[MGR] = "at_r"
        /\ tW = 0 /\ tPend = {}
        /\ tR' = tR + 1
        /\ pc' = [pc EXCEPT ![MGR] = "at_chk"]
        /\ UNCHANGED << tW, tPend, sR, sW, sPend, topics, subs, src, nextChan, 
                        ops, sent, mt, mine, mok, pc_, round, st, sok >>

at_chk == /\ pc[MGR] = "at_chk"
          /\ mok' = (topics[mt] # 0)
          /\ tR' = tR - 1
          /\ IF ~mok'
                THEN /\ pc' = [pc EXCEPT ![MGR] = "at_wreq"]
                ELSE /\ pc' = [pc EXCEPT ![MGR] = "mg"]
          /\ UNCHANGED << tW, tPend, sR, sW, sPend, topics, subs, src, 
                          nextChan, ops, sent, mt, mine, pc_, round, st, sok >>

at_wreq == /\ pc[MGR] = "at_wreq"
           /\ tPend' = (tPend \cup {MGR})
           /\ pc' = [pc EXCEPT ![MGR] = "at_wacq"]
           /\ UNCHANGED << tR, tW, sR, sW, sPend, topics, subs, src, nextChan, 
                           ops, sent, mt, mine, mok, pc_, round, st, sok >>

at_wacq == /\ pc[MGR] = "at_wacq"
           /\ tR = 0 /\ tW = 0
           /\ tW' = MGR
           /\ tPend' = tPend \ {MGR}
           /\ pc' = [pc EXCEPT ![MGR] = "at_add"]
           /\ UNCHANGED << tR, sR, sW, sPend, topics, subs, src, nextChan, ops, 
                           sent, mt, mine, mok, pc_, round, st, sok >>

at_add == /\ pc[MGR] = "at_add"
          /\ topics' = [topics EXCEPT ![mt] = nextChan]
          /\ src' = [src EXCEPT ![nextChan].topic = mt]
          /\ mine' = [mine EXCEPT ![mt] = nextChan]
          /\ nextChan' = nextChan + 1
          /\ tW' = 0
          /\ pc' = [pc EXCEPT ![MGR] = "mg"]
          /\ UNCHANGED << tR, tPend, sR, sW, sPend, subs, ops, sent, mt, mok, 
                          pc_, round, st, sok >>

rt_wreq == /\ pc[MGR] = "rt_wreq"
           /\ tPend' = (tPend \cup {MGR})
           /\ pc' = [pc EXCEPT ![MGR] = "rt_wacq"]
           /\ UNCHANGED << tR, tW, sR, sW, sPend, topics, subs, src, nextChan, 
                           ops, sent, mt, mine, mok, pc_, round, st, sok >>

rt_wacq == /\ pc[MGR] = "rt_wacq"
           /\ tR = 0 /\ tW = 0
           /\ tW' = MGR
           /\ tPend' = tPend \ {MGR}
           /\ pc' = [pc EXCEPT ![MGR] = "rt_del"]
           /\ UNCHANGED << tR, sR, sW, sPend, topics, subs, src, nextChan, ops, 
                           sent, mt, mine, mok, pc_, round, st, sok >>

rt_del == /\ pc[MGR] = "rt_del"
          /\ topics' = [topics EXCEPT ![mt] = 0]
          /\ tW' = 0
          /\ pc' = [pc EXCEPT ![MGR] = "rt_close"]
          /\ UNCHANGED << tR, tPend, sR, sW, sPend, subs, src, nextChan, ops, 
                          sent, mt, mine, mok, pc_, round, st, sok >>

rt_close == /\ pc[MGR] = "rt_close"
            /\ src' = [src EXCEPT ![mine[mt]].closed = TRUE]
            /\ mine' = [mine EXCEPT ![mt] = 0]
            /\ pc' = [pc EXCEPT ![MGR] = "mg"]
            /\ UNCHANGED << tR, tW, tPend, sR, sW, sPend, topics, subs, 
                            nextChan, ops, sent, mt, mok, pc_, round, st, sok >>

manager == mg \/ at_r \/ at_chk \/ at_wreq \/ at_wacq \/ at_add \/ rt_wreq
              \/ rt_wacq \/ rt_del \/ rt_close

sr == /\ pc[SRC] = "sr"
      /\ IF sent < MaxMsgs
            THEN /\ \E c \in {x \in Chans : src[x].topic # 0 /\ ~src[x].closed}:
                      src' = [src EXCEPT ![c].msgs = src[c].msgs + 1]
                 /\ sent' = sent + 1
                 /\ pc' = [pc EXCEPT ![SRC] = "sr"]
            ELSE /\ pc' = [pc EXCEPT ![SRC] = "Done"]
                 /\ UNCHANGED << src, sent >>
      /\ UNCHANGED << tR, tW, tPend, sR, sW, sPend, topics, subs, nextChan, 
                      ops, mt, mine, mok, pc_, round, st, sok >>

source == sr

pb(self) == /\ pc[self] = "pb"
            /\ \/ /\ src[pc_[self]].topic # 0 /\ src[pc_[self]].msgs > 0
                  /\ src' = [src EXCEPT ![pc_[self]].msgs = src[pc_[self]].msgs - 1]
                  /\ pc' = [pc EXCEPT ![self] = "pb_pr"]
               \/ /\ src[pc_[self]].topic # 0 /\ src[pc_[self]].closed /\ src[pc_[self]].msgs = 0
                  /\ pc' = [pc EXCEPT ![self] = "pb_treq"]
                  /\ src' = src
            /\ UNCHANGED << tR, tW, tPend, sR, sW, sPend, topics, subs, 
                            nextChan, ops, sent, mt, mine, mok, pc_, round, st, 
                            sok >>

pb_pr(self) == /\ pc[self] = "pb_pr"
               /\ sW = 0 /\ sPend = {}
               /\ sR' = sR + 1
               /\ pc' = [pc EXCEPT ![self] = "pb_pub"]
               /\ UNCHANGED << tR, tW, tPend, sW, sPend, topics, subs, src, 
                               nextChan, ops, sent, mt, mine, mok, pc_, round, 
                               st, sok >>

pb_pub(self) == /\ pc[self] = "pb_pub"
                /\ sR' = sR - 1
                /\ pc' = [pc EXCEPT ![self] = "pb"]
                /\ UNCHANGED << tR, tW, tPend, sW, sPend, topics, subs, src, 
                                nextChan, ops, sent, mt, mine, mok, pc_, round, 
                                st, sok >>

pb_treq(self) == /\ pc[self] = "pb_treq"
                 /\ tPend' = (tPend \cup {self})
                 /\ pc' = [pc EXCEPT ![self] = "pb_tacq"]
                 /\ UNCHANGED << tR, tW, sR, sW, sPend, topics, subs, src, 
                                 nextChan, ops, sent, mt, mine, mok, pc_, 
                                 round, st, sok >>

pb_tacq(self) == /\ pc[self] = "pb_tacq"
                 /\ tR = 0 /\ tW = 0
                 /\ tW' = self
                 /\ tPend' = tPend \ {self}
                 /\ pc' = [pc EXCEPT ![self] = "pb_chk"]
                 /\ UNCHANGED << tR, sR, sW, sPend, topics, subs, src, 
                                 nextChan, ops, sent, mt, mine, mok, pc_, 
                                 round, st, sok >>

pb_chk(self) == /\ pc[self] = "pb_chk"
                /\ IF topics[src[pc_[self]].topic] # 0 /\ topics[src[pc_[self]].topic] # pc_[self]
                      THEN /\ tW' = 0
                           /\ pc' = [pc EXCEPT ![self] = "pb_done"]
                      ELSE /\ pc' = [pc EXCEPT ![self] = "pb_sreq"]
                           /\ tW' = tW
                /\ UNCHANGED << tR, tPend, sR, sW, sPend, topics, subs, src, 
                                nextChan, ops, sent, mt, mine, mok, pc_, round, 
                                st, sok >>

pb_sreq(self) == /\ pc[self] = "pb_sreq"
                 /\ sPend' = (sPend \cup {self})
                 /\ pc' = [pc EXCEPT ![self] = "pb_sacq"]
                 /\ UNCHANGED << tR, tW, tPend, sR, sW, topics, subs, src, 
                                 nextChan, ops, sent, mt, mine, mok, pc_, 
                                 round, st, sok >>

pb_sacq(self) == /\ pc[self] = "pb_sacq"
                 /\ sR = 0 /\ sW = 0
                 /\ sW' = self
                 /\ sPend' = sPend \ {self}
                 /\ pc' = [pc EXCEPT ![self] = "pb_close"]
                 /\ UNCHANGED << tR, tW, tPend, sR, topics, subs, src, 
                                 nextChan, ops, sent, mt, mine, mok, pc_, 
                                 round, st, sok >>

pb_close(self) == /\ pc[self] = "pb_close"
                  /\ subs' = [subs EXCEPT ![src[pc_[self]].topic] = {}]
                  /\ sW' = 0
                  /\ pc' = [pc EXCEPT ![self] = "pb_del"]
                  /\ UNCHANGED << tR, tW, tPend, sR, sPend, topics, src, 
                                  nextChan, ops, sent, mt, mine, mok, pc_, 
                                  round, st, sok >>

pb_del(self) == /\ pc[self] = "pb_del"
                /\ topics' = [topics EXCEPT ![src[pc_[self]].topic] = 0]
                /\ tW' = 0
                /\ pc' = [pc EXCEPT ![self] = "pb_done"]
                /\ UNCHANGED << tR, tPend, sR, sW, sPend, subs, src, nextChan, 
                                ops, sent, mt, mine, mok, pc_, round, st, sok >>

pb_done(self) == /\ pc[self] = "pb_done"
                 /\ TRUE
                 /\ pc' = [pc EXCEPT ![self] = "Done"]
                 /\ UNCHANGED << tR, tW, tPend, sR, sW, sPend, topics, subs, 
                                 src, nextChan, ops, sent, mt, mine, mok, pc_, 
                                 round, st, sok >>

publisher(self) == pb(self) \/ pb_pr(self) \/ pb_pub(self) \/ pb_treq(self)
                      \/ pb_tacq(self) \/ pb_chk(self) \/ pb_sreq(self)
                      \/ pb_sacq(self) \/ pb_close(self) \/ pb_del(self)
                      \/ pb_done(self)

sb(self) == /\ pc[self] = "sb"
            /\ IF round[self] < Rounds
                  THEN /\ round' = [round EXCEPT ![self] = round[self] + 1]
                       /\ \E t \in Topics:
                            st' = [st EXCEPT ![self] = t]
                       /\ IF "InvertedSubscribe" \in Deviations
                             THEN /\ pc' = [pc EXCEPT ![self] = "sb_sreq0"]
                             ELSE /\ pc' = [pc EXCEPT ![self] = "sb_tr"]
                  ELSE /\ pc' = [pc EXCEPT ![self] = "Done"]
                       /\ UNCHANGED << round, st >>
            /\ UNCHANGED << tR, tW, tPend, sR, sW, sPend, topics, subs, src, 
                            nextChan, ops, sent, mt, mine, mok, pc_, sok >>

sb_tr(self) == /\ pc[self] = "sb_tr"
               /\ tW = 0 /\ tPend = {}
               /\ tR' = tR + 1
               /\ pc' = [pc EXCEPT ![self] = "sb_chk"]
               /\ UNCHANGED << tW, tPend, sR, sW, sPend, topics, subs, src, 
                               nextChan, ops, sent, mt, mine, mok, pc_, round, 
                               st, sok >>

sb_chk(self) == /\ pc[self] = "sb_chk"
                /\ sok' = [sok EXCEPT ![self] = topics[st[self]] # 0]
                /\ tR' = tR - 1
                /\ IF ~sok'[self]
                      THEN /\ IF "InvertedSubscribe" \in Deviations
                                 THEN /\ sW' = 0
                                 ELSE /\ TRUE
                                      /\ sW' = sW
                           /\ pc' = [pc EXCEPT ![self] = "sb"]
                      ELSE /\ IF "InvertedSubscribe" \notin Deviations
                                 THEN /\ pc' = [pc EXCEPT ![self] = "sb_sreq"]
                                 ELSE /\ pc' = [pc EXCEPT ![self] = "sb_add"]
                           /\ sW' = sW
                /\ UNCHANGED << tW, tPend, sR, sPend, topics, subs, src, 
                                nextChan, ops, sent, mt, mine, mok, pc_, round, 
                                st >>

sb_add(self) == /\ pc[self] = "sb_add"
                /\ subs' = [subs EXCEPT ![st[self]] = subs[st[self]] \cup {self}]
                /\ sW' = 0
                /\ pc' = [pc EXCEPT ![self] = "un_sreq"]
                /\ UNCHANGED << tR, tW, tPend, sR, sPend, topics, src, 
                                nextChan, ops, sent, mt, mine, mok, pc_, round, 
                                st, sok >>

un_sreq(self) == /\ pc[self] = "un_sreq"
                 /\ sPend' = (sPend \cup {self})
                 /\ pc' = [pc EXCEPT ![self] = "un_sacq"]
                 /\ UNCHANGED << tR, tW, tPend, sR, sW, topics, subs, src, 
                                 nextChan, ops, sent, mt, mine, mok, pc_, 
                                 round, st, sok >>

un_sacq(self) == /\ pc[self] = "un_sacq"
                 /\ sR = 0 /\ sW = 0
                 /\ sW' = self
                 /\ sPend' = sPend \ {self}
                 /\ pc' = [pc EXCEPT ![self] = "un_del"]
                 /\ UNCHANGED << tR, tW, tPend, sR, topics, subs, src, 
                                 nextChan, ops, sent, mt, mine, mok, pc_, 
                                 round, st, sok >>

un_del(self) == /\ pc[self] = "un_del"
                /\ subs' = [subs EXCEPT ![st[self]] = subs[st[self]] \ {self}]
                /\ sW' = 0
                /\ pc' = [pc EXCEPT ![self] = "sb"]
                /\ UNCHANGED << tR, tW, tPend, sR, sPend, topics, src, 
                                nextChan, ops, sent, mt, mine, mok, pc_, round, 
                                st, sok >>

sb_sreq(self) == /\ pc[self] = "sb_sreq"
                 /\ sPend' = (sPend \cup {self})
                 /\ pc' = [pc EXCEPT ![self] = "sb_sacq"]
                 /\ UNCHANGED << tR, tW, tPend, sR, sW, topics, subs, src, 
                                 nextChan, ops, sent, mt, mine, mok, pc_, 
                                 round, st, sok >>

sb_sacq(self) == /\ pc[self] = "sb_sacq"
                 /\ sR = 0 /\ sW = 0
                 /\ sW' = self
                 /\ sPend' = sPend \ {self}
                 /\ pc' = [pc EXCEPT ![self] = "sb_add"]
                 /\ UNCHANGED << tR, tW, tPend, sR, topics, subs, src, 
                                 nextChan, ops, sent, mt, mine, mok, pc_, 
                                 round, st, sok >>

sb_sreq0(self) == /\ pc[self] = "sb_sreq0"
                  /\ sPend' = (sPend \cup {self})
                  /\ pc' = [pc EXCEPT ![self] = "sb_sacq0"]
                  /\ UNCHANGED << tR, tW, tPend, sR, sW, topics, subs, src, 
                                  nextChan, ops, sent, mt, mine, mok, pc_, 
                                  round, st, sok >>

sb_sacq0(self) == /\ pc[self] = "sb_sacq0"
                  /\ sR = 0 /\ sW = 0
                  /\ sW' = self
                  /\ sPend' = sPend \ {self}
                  /\ pc' = [pc EXCEPT ![self] = "sb_tr"]
                  /\ UNCHANGED << tR, tW, tPend, sR, topics, subs, src, 
                                  nextChan, ops, sent, mt, mine, mok, pc_, 
                                  round, st, sok >>

subscriber(self) == sb(self) \/ sb_tr(self) \/ sb_chk(self) \/ sb_add(self)
                       \/ un_sreq(self) \/ un_sacq(self) \/ un_del(self)
                       \/ sb_sreq(self) \/ sb_sacq(self) \/ sb_sreq0(self)
                       \/ sb_sacq0(self)

(* Allow infinite stuttering to prevent deadlock on termination. *)
Terminating == /\ \A self \in ProcSet: pc[self] = "Done"
               /\ UNCHANGED vars

Next == manager \/ source
           \/ (\E self \in PUBs: publisher(self))
           \/ (\E self \in SUBs: subscriber(self))
           \/ Terminating

Spec == Init /\ [][Next]_vars

Termination == <>(\A self \in ProcSet: pc[self] = "Done")

\* END TRANSLATION

(***************************************************************************)
(* Deadlock freedom: a publisher waiting for the next value of a source    *)
(* that is still open (or never started) may wait for ever; everything     *)
(* else must be able to move unless it has terminated.                     *)
(***************************************************************************)
Parked(p) ==
  \/ pc[p] = "Done"
  \/ p \in PUBs /\ (pc[p] = "pb_done" \/ (pc[p] = "pb" /\ (src[p - 10].topic = 0 \/ (~src[p - 10].closed /\ src[p - 10].msgs = 0))))
  \/ p = SRC /\ pc[p] = "sr" /\ {x \in Chans : src[x].topic # 0 /\ ~src[x].closed} = {}

Quiescent == \A p \in ProcSet : Parked(p)

MCNext == Next \/ (Quiescent /\ UNCHANGED vars)
MCSpec == Init /\ [][MCNext]_vars

(* as an invariant, so that the counterexample comes with a state trace: somebody can always move *)
NoBusDeadlock == Quiescent \/ ENABLED Next

(* who holds what when the bus is stuck (read by bin/checks_conc.py from the last state of the counterexample) *)
=============================================================================
