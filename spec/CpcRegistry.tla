---------------------------- MODULE CpcRegistry ----------------------------
(***************************************************************************)
(* C17 - registry of custom precompiled contracts (x/cpc) and its exposure *)
(* to the EVM.                                                             *)
(*                                                                         *)
(* The registry R is a record                                              *)
(*   meta   address -> [type, denom, name, symbol, decimals, disabled]     *)
(*   idx    denomination -> address        (reverse index of the ERC-20s)  *)
(*   nonce  sequence of the module account: the next dynamic address is    *)
(*          DynAddrs[nonce + 1]                                            *)
(*   wl     whitelist of deployers (governance controlled)                 *)
(*   ver    protocol version                                               *)
(* The environment supplies supplyPos[denom] (bank supply > 0) and `known`,*)
(* the highest protocol version the running software knows.                *)
(*                                                                         *)
(* Two layers, both used by TraceCpcRegistry.tla:                          *)
(*  - the PROPERTY layer: what C17 demands (necessary conditions of an     *)
(*    accepted operation, its effect, the state laws);                     *)
(*  - the MECHANISM layer: the steps of the keeper / msg server in code    *)
(*    order (x/cpc/keeper/msg_server.go, precompiles*.go, params.go,       *)
(*    genesis.go; x/evm/keeper/state_transition.go NewEVM), which the      *)
(*    exhaustive design run checks against the property layer.             *)
(***************************************************************************)
EXTENDS Integers, Sequences, FiniteSets, TLC

CONSTANTS
  Senders,      \* accounts that may sign deploy / update messages
  Gov,          \* the governance module account (authority of UpdateParams)
  Denoms,       \* bank denominations
  BondDenom,    \* denomination of the genesis "native" ERC-20
  DynAddrs,     \* sequence of dynamic addresses: DynAddrs[k+1] = CREATE address of (module account, nonce k)
  Names,        \* abstract names / symbols
  MaxVer,       \* highest protocol version of the model
  MaxOps,       \* bound of the design run
  InitWL        \* whitelist of the genesis file

Stk == "stk"    \* fixed address of the staking precompile
B32 == "b32"    \* fixed address of the bech32 precompile
Modes == {"deliver", "check", "simulate", "eth_call", "estimate", "trace"}
Types == {"erc20", "staking", "bech32"}

EmptyF == [x \in {} |-> 0]
PutF(f, k, v) == [x \in (DOMAIN f) \cup {k} |-> IF x = k THEN v ELSE f[x]]
Dyn(n) == IF n + 1 <= Len(DynAddrs) THEN DynAddrs[n + 1] ELSE "dyn-out-of-model"
DynSet == {DynAddrs[i] : i \in 1..Len(DynAddrs)}
AllAddrs == DynSet \cup {Stk, B32}

MetaRec(t, d, n, s, dec, dis) == [type |-> t, denom |-> d, name |-> n, symbol |-> s, decimals |-> dec, disabled |-> dis]

(***************************************************************************)
(* PROPERTY layer                                                          *)
(***************************************************************************)
Registered(R) == DOMAIN R.meta
Erc20s(R) == {a \in DOMAIN R.meta : R.meta[a].type = "erc20"}

(* necessary conditions for an accepted operation *)
NecDeployErc20(R, sp, sender, denom) ==
  /\ sender \in R.wl                          \* only whitelisted deployers
  /\ denom \notin DOMAIN R.idx                \* at most one ERC-20 per denomination
  /\ \A a \in Erc20s(R) : R.meta[a].denom # denom
  /\ denom \in DOMAIN sp /\ sp[denom]         \* only denominations with positive supply
NecDeployStaking(R, sender) == sender \in R.wl /\ Stk \notin DOMAIN R.meta
NecUpdateParams(R, known, authority, p) ==
  /\ authority = Gov                          \* governance controlled
  /\ p.ver >= R.ver                           \* never decreases
  /\ p.ver >= 1 /\ p.ver <= known

(* effects of accepted operations *)
AfterDeployErc20(R, denom, name, symbol, decimals) ==
  LET a == Dyn(R.nonce) IN
  [R EXCEPT !.meta = PutF(R.meta, a, MetaRec("erc20", denom, name, symbol, decimals, FALSE)),
            !.idx = PutF(R.idx, denom, a), !.nonce = R.nonce + 1]
AfterDeployStaking(R, name, symbol, decimals) ==
  [R EXCEPT !.meta = PutF(R.meta, Stk, MetaRec("staking", "none", name, symbol, decimals, FALSE))]
AfterUpdateParams(R, p) == [R EXCEPT !.wl = p.wl, !.ver = p.ver]
AfterSetDisabled(R, a, flag) == [R EXCEPT !.meta[a].disabled = flag]

(* state laws *)
KeysCoherent(R) == \A a \in DOMAIN R.meta : R.meta[a].type \in Types
OneErc20PerDenom(R) == \A a, b \in Erc20s(R) : R.meta[a].denom = R.meta[b].denom => a = b
IdxMatchesMeta(R) ==
  /\ \A d \in DOMAIN R.idx : R.idx[d] \in Erc20s(R) /\ R.meta[R.idx[d]].denom = d
  /\ \A a \in Erc20s(R) : R.meta[a].denom \in DOMAIN R.idx /\ R.idx[R.meta[a].denom] = a
FixedAddrTypes(R) ==
  /\ Stk \in DOMAIN R.meta => R.meta[Stk].type = "staking"
  /\ B32 \in DOMAIN R.meta => R.meta[B32].type = "bech32"
  /\ \A a \in DOMAIN R.meta : R.meta[a].type = "erc20" <=> a \notin {Stk, B32}
DynBelowNonce(R) == \A a \in Erc20s(R) : \E k \in 0..(R.nonce - 1) : a = Dyn(k)   \* the next dynamic address is free
StateLaws(R) == KeysCoherent(R) /\ OneErc20PerDenom(R) /\ IdxMatchesMeta(R) /\ FixedAddrTypes(R) /\ DynBelowNonce(R)

(* transition laws between two registries (any operation, accepted or not) *)
TypeStableStep(R1, R2) == \A a \in DOMAIN R1.meta : a \in DOMAIN R2.meta /\ R2.meta[a].type = R1.meta[a].type
VersionMonotoneStep(R1, R2) == R2.ver >= R1.ver
NonceMonotoneStep(R1, R2) == R2.nonce >= R1.nonce

(* exposure: what a call to address a does in an EVM built from registry R *)
Callable(R, a) == a \in DOMAIN R.meta /\ ~R.meta[a].disabled
Exposure(R, a) == IF a \notin DOMAIN R.meta THEN "absent" ELSE IF R.meta[a].disabled THEN "refused" ELSE "runs"

(* The exposure of an address does not depend on the SHAPE of the call: calldata selecting a method ("method"), or not
   selecting one ("no-method": unknown selector, shorter than a selector, empty), with or without value, as the top-level
   message or from a contract through any call opcode, in every execution mode.  A call to a registered enabled contract is
   always DISPATCHED to the precompile - it answers, or it reverts inside the precompile - and is never treated as a call
   to a plain account; a reverted or refused call keeps no value at the address. *)
InputClasses == {"method", "no-method"}
Dispatched(R, a) == Callable(R, a)
CallClass(R, a, ic) ==
  IF Exposure(R, a) = "absent" THEN "plain-account"            \* succeeds, empty return data, keeps the value sent along
  ELSE IF Exposure(R, a) = "refused" THEN "refused"             \* fails before anything runs, keeps nothing
  ELSE IF ic = "method" THEN "answers" ELSE "reverts-in-precompile"
KeepsValue(R, a, ic) == CallClass(R, a, ic) \in {"plain-account", "answers"}

(***************************************************************************)
(* MECHANISM layer: the code's steps, in order.  Every operator returns    *)
(* [ok, R]; a failing message leaves R unchanged (the transaction's cache  *)
(* context is dropped).                                                    *)
(***************************************************************************)
Fail(R) == [ok |-> FALSE, R |-> R]

(* keeper.SetCustomPrecompiledContractMeta(meta, newDeployment) *)
MechSetMeta(R, a, rec, newDeployment, metaValid) ==
  IF ~metaValid THEN Fail(R)
  ELSE IF newDeployment THEN (IF a \in DOMAIN R.meta THEN Fail(R) ELSE [ok |-> TRUE, R |-> [R EXCEPT !.meta = PutF(R.meta, a, rec)]])
  ELSE IF a \notin DOMAIN R.meta THEN Fail(R)
  ELSE IF R.meta[a].type # rec.type THEN Fail(R)      \* panics: "not allowed to change type"
  ELSE [ok |-> TRUE, R |-> [R EXCEPT !.meta[a] = rec]]

(* keeper.DeployErc20CustomPrecompiledContract *)
MechKeeperDeployErc20(R, sp, denom, name, symbol, decimals, metaValid) ==
  IF ~metaValid THEN Fail(R)
  ELSE IF denom \in DOMAIN R.idx THEN Fail(R)
  ELSE IF ~(denom \in DOMAIN sp /\ sp[denom]) THEN Fail(R)
  ELSE LET a == Dyn(R.nonce)
           R1 == [R EXCEPT !.nonce = R.nonce + 1]                 \* GetNextDynamicCustomPrecompiledContractAddress
           s == MechSetMeta(R1, a, MetaRec("erc20", denom, name, symbol, decimals, FALSE), TRUE, TRUE)
       IN IF ~s.ok THEN Fail(R) ELSE [ok |-> TRUE, R |-> [s.R EXCEPT !.idx = PutF(s.R.idx, denom, a)]]

MechKeeperDeployStaking(R, name, symbol, decimals, metaValid) ==
  IF ~metaValid THEN Fail(R)
  ELSE LET s == MechSetMeta(R, Stk, MetaRec("staking", "none", name, symbol, decimals, FALSE), TRUE, TRUE)
       IN IF s.ok THEN s ELSE Fail(R)

(* msg server: validateDeployer, then the keeper *)
MechMsgDeployErc20(R, sp, sender, denom, name, symbol, decimals, metaValid) ==
  IF sender \notin R.wl THEN Fail(R) ELSE MechKeeperDeployErc20(R, sp, denom, name, symbol, decimals, metaValid)
MechMsgDeployStaking(R, sender, name, symbol, decimals, metaValid) ==
  IF sender \notin R.wl THEN Fail(R) ELSE MechKeeperDeployStaking(R, name, symbol, decimals, metaValid)

(* msg server UpdateParams: authority, Params.Validate, keeper.SetParams (no downgrade) *)
MechMsgUpdateParams(R, known, authority, p) ==
  IF authority # Gov THEN Fail(R)
  ELSE IF p.ver = 0 \/ p.ver > known THEN Fail(R)
  ELSE IF R.ver > p.ver THEN Fail(R)
  ELSE [ok |-> TRUE, R |-> [R EXCEPT !.wl = p.wl, !.ver = p.ver]]

(* InitGenesis: params, optional native ERC-20, optional staking, always bech32 (a failure panics: no chain) *)
GenesisRegistry(flags, wl, sp) ==
  LET R0 == [meta |-> EmptyF, idx |-> EmptyF, nonce |-> 0, wl |-> wl, ver |-> 1]
      r1 == IF flags.erc20 THEN MechKeeperDeployErc20(R0, sp, BondDenom, "nNative", "sNative", 18, TRUE) ELSE [ok |-> TRUE, R |-> R0]
      r2 == IF flags.staking THEN MechKeeperDeployStaking(r1.R, "nStaking", "sStaking", 18, TRUE) ELSE [ok |-> TRUE, R |-> r1.R]
      r3 == MechSetMeta(r2.R, B32, MetaRec("bech32", "none", "nBech32", "none", -1, FALSE), TRUE, TRUE)
  IN [ok |-> r1.ok /\ r2.ok /\ r3.ok, R |-> r3.R]

(* NewEVM: every stored contract is wired in with its disabled flag; the interpreter refuses disabled ones.
   The wiring is a function of the registry (metadata, disabled flag) and of NOTHING else: not of the message, not of the
   execution mode, not of the bank supply of an ERC-20's denomination (supplyPos matters at deployment only; SupplyFlip
   after a deployment leaves Exposure unchanged - checked by ExposureExact in every state reached through SupplyFlip). *)
MechWired(R) == [a \in DOMAIN R.meta |-> R.meta[a].disabled]
MechCall(R, a) == LET wired == MechWired(R) IN IF a \notin DOMAIN wired THEN "absent" ELSE IF wired[a] THEN "refused" ELSE "runs"
(* the fork's RunPrecompiledContract / RunCustom: disabled -> error; fewer than 4 bytes -> revert; no method with that
   selector -> revert; otherwise the method executor.  NewEVM wires the contracts whatever the message looks like. *)
MechCallClass(R, a, ic) ==
  LET wired == MechWired(R) IN
  IF a \notin DOMAIN wired THEN "plain-account"
  ELSE IF wired[a] THEN "refused"
  ELSE IF ic = "no-method" THEN "reverts-in-precompile" ELSE "answers"

(***************************************************************************)
(* Design-level state machine                                              *)
(***************************************************************************)
VARIABLES reg, supplyPos, known, last, nops
vars == <<reg, supplyPos, known, last, nops>>

NoOp == [k |-> "none", sender |-> "none", ok |-> FALSE, addr |-> "none", mode |-> "none", out |-> "none", ic |-> "none", cls |-> "none"]

Init ==
  \E flags \in [erc20 : BOOLEAN, staking : BOOLEAN], sp \in [Denoms -> BOOLEAN] :
    /\ sp[BondDenom]
    /\ LET g == GenesisRegistry(flags, InitWL, sp) IN g.ok /\ reg = g.R
    /\ supplyPos = sp
    /\ known = 1
    /\ last = [NoOp EXCEPT !.k = "Genesis", !.ok = TRUE]
    /\ nops = 0

(* EvmCall does not change the registry: its states are leaves of the exploration (every operation is
   explored from the state before the call), which keeps the state graph small without losing any registry. *)
NotProbing == last.k # "EvmCall"

Step(k, sender, r, addr) ==
  /\ NotProbing
  /\ nops < MaxOps
  /\ nops' = nops + 1
  /\ reg' = r.R
  /\ last' = [NoOp EXCEPT !.k = k, !.sender = sender, !.ok = r.ok, !.addr = addr]

DeployErc20(sender, denom, name, metaValid) ==
  /\ Step("DeployErc20", sender, MechMsgDeployErc20(reg, supplyPos, sender, denom, name, name, 6, metaValid), Dyn(reg.nonce))
  /\ UNCHANGED <<supplyPos, known>>

DeployStaking(sender, name, metaValid) ==
  /\ Step("DeployStaking", sender, MechMsgDeployStaking(reg, sender, name, name, 18, metaValid), Stk)
  /\ UNCHANGED <<supplyPos, known>>

UpdateParams(authority, p) ==
  /\ Step("UpdateParams", authority, MechMsgUpdateParams(reg, known, authority, p), "none")
  /\ UNCHANGED <<supplyPos, known>>

(* keeper level, no message exists: flip the disabled flag of a stored contract *)
SetDisabled(a, flag) ==
  /\ a \in DOMAIN reg.meta
  /\ Step("SetDisabled", "keeper", MechSetMeta(reg, a, [reg.meta[a] EXCEPT !.disabled = flag], FALSE, TRUE), a)
  /\ UNCHANGED <<supplyPos, known>>

(* keeper level: an attempt to overwrite a contract with another type *)
Retype(a, t) ==
  /\ a \in DOMAIN reg.meta /\ t # reg.meta[a].type
  /\ Step("Retype", "keeper", MechSetMeta(reg, a, [reg.meta[a] EXCEPT !.type = t], FALSE, TRUE), a)
  /\ UNCHANGED <<supplyPos, known>>

(* environment: a denomination's supply becomes zero / positive; the software learns a new protocol version *)
SupplyFlip(d) ==
  /\ NotProbing
  /\ nops < MaxOps /\ nops' = nops + 1
  /\ d # BondDenom
  /\ supplyPos' = [supplyPos EXCEPT ![d] = ~supplyPos[d]]
  /\ last' = [NoOp EXCEPT !.k = "SupplyFlip", !.ok = TRUE]
  /\ UNCHANGED <<reg, known>>
SoftwareUpgrade ==
  /\ NotProbing
  /\ nops < MaxOps /\ nops' = nops + 1
  /\ known < MaxVer /\ known' = known + 1
  /\ last' = [NoOp EXCEPT !.k = "SoftwareUpgrade", !.ok = TRUE]
  /\ UNCHANGED <<reg, supplyPos>>

(* an EVM call to address a in some execution mode: every mode builds its EVM through NewEVM *)
EvmCall(a, mode, ic) ==
  /\ NotProbing
  /\ last' = [NoOp EXCEPT !.k = "EvmCall", !.addr = a, !.mode = mode, !.out = MechCall(reg, a), !.ok = TRUE,
                          !.ic = ic, !.cls = MechCallClass(reg, a, ic)]
  /\ UNCHANGED <<reg, supplyPos, known, nops>>

Next ==
  \/ \E s \in Senders, d \in Denoms, n \in Names, v \in BOOLEAN : DeployErc20(s, d, n, v)
  \/ \E s \in Senders, n \in Names, v \in BOOLEAN : DeployStaking(s, n, v)
  \/ \E au \in Senders \cup {Gov}, wl \in SUBSET Senders, ver \in 0..(MaxVer + 1) : UpdateParams(au, [wl |-> wl, ver |-> ver])
  \/ \E a \in AllAddrs, f \in BOOLEAN : SetDisabled(a, f)
  \/ \E a \in AllAddrs, t \in Types : Retype(a, t)
  \/ \E d \in Denoms : SupplyFlip(d)
  \/ SoftwareUpgrade
  \/ \E a \in AllAddrs \cup {"elsewhere"}, m \in Modes, ic \in InputClasses : EvmCall(a, m, ic)

Spec == Init /\ [][Next]_vars

(***************************************************************************)
(* C17 as TLC sees it                                                      *)
(***************************************************************************)
RegistryLaws == StateLaws(reg)                                  \* UniqueAddr (one record per address, next address free),
                                                                \* OneErc20PerDenom, IdxMatchesMeta
ExposureExact == last.k = "EvmCall" => (last.out = "runs" <=> Callable(reg, last.addr))
                                     /\ (last.out = Exposure(reg, last.addr))
                                     /\ (last.cls = CallClass(reg, last.addr, last.ic))
                                     /\ (last.cls \in {"answers", "reverts-in-precompile"} <=> Dispatched(reg, last.addr))
TypeStable == [][TypeStableStep(reg, reg')]_vars
VersionMonotone == [][VersionMonotoneStep(reg, reg')]_vars
(* a contract appears only through an accepted deploy message of a whitelisted sender, at a fresh address *)
OnlyWhitelisted ==
  [][(DOMAIN reg'.meta # DOMAIN reg.meta) =>
       /\ last'.k \in {"DeployErc20", "DeployStaking"} /\ last'.ok
       /\ last'.sender \in reg.wl
       /\ DOMAIN reg'.meta = DOMAIN reg.meta \cup {last'.addr} /\ last'.addr \notin DOMAIN reg.meta]_vars
(* accepted operations satisfy the property's necessary conditions and have exactly the specified effect;
   rejected ones change nothing *)
AcceptedOnlyIfAllowed ==
  [][/\ (last'.k = "DeployErc20" /\ last'.ok) =>
          \E d \in Denoms : NecDeployErc20(reg, supplyPos, last'.sender, d) /\ d \in DOMAIN reg'.idx /\ d \notin DOMAIN reg.idx
     /\ (last'.k = "DeployStaking" /\ last'.ok) => NecDeployStaking(reg, last'.sender)
     /\ (last'.k = "UpdateParams" /\ last'.ok) => NecUpdateParams(reg, known, last'.sender, [wl |-> reg'.wl, ver |-> reg'.ver])
     /\ (last'.k \in {"DeployErc20", "DeployStaking", "UpdateParams", "SetDisabled", "Retype"} /\ ~last'.ok) => reg' = reg
     /\ (last'.k = "Retype") => ~last'.ok]_vars
(* whitelist and version change only by an accepted governance UpdateParams *)
ParamsOnlyByGov ==
  [][(reg'.wl # reg.wl \/ reg'.ver # reg.ver) => last'.k = "UpdateParams" /\ last'.ok /\ last'.sender = Gov]_vars

(* vacuity witnesses: each must be VIOLATED by the bounded model (see CpcRegistry_mc_witness.cfg) *)
W_TwoErc20 == Cardinality(Erc20s(reg)) < 2
W_Disabled == ~\E a \in DOMAIN reg.meta : reg.meta[a].disabled
W_Refused == ~(last.k = "EvmCall" /\ last.out = "refused")
W_Runs == ~(last.k = "EvmCall" /\ last.out = "runs")
W_Version2 == reg.ver < 2
W_DowngradeRejected == ~(last.k = "UpdateParams" /\ ~last.ok /\ last.sender = Gov /\ reg.ver = 2)
W_NonWhitelistedRejected == ~(last.k = "DeployErc20" /\ ~last.ok /\ last.sender \notin reg.wl)
W_ZeroSupplyRejected == ~(last.k = "DeployErc20" /\ ~last.ok /\ last.sender \in reg.wl)
W_StakingDeployed == ~(last.k = "DeployStaking" /\ last.ok)
W_WhitelistChanged == reg.wl = InitWL
=============================================================================
