---------------------------- MODULE TraceWsConn ----------------------------
(***************************************************************************)
(* Trace validation of the REAL websocket server (rpc/websockets.go) with  *)
(* the `ws` hooks (notes/ws-hooks.diff).  bin/checks_conc.py turns the     *)
(* recording of a run (one line per hook call, global sequence number      *)
(* taken inside the hook) into one section per connection; every line must *)
(* be the step of the named goroutine of WsConn.tla from the named label,  *)
(* and OneWriter / MuxInv / NoCrash are evaluated in every state.          *)
(*                                                                         *)
(*   hook (goroutine)            lines                                     *)
(*   open                        reset (a new connection: initial state)   *)
(*   read(ok)                    rl_read  {ok}                             *)
(*   start(id)                   rl_sub   {s}   (before `go`: ordered      *)
(*                                               before the notifier)      *)
(*   unsubscribed(id)            rl_unsub {s}   (after unsubFn())          *)
(*   forwarded                   rl_fwd                                    *)
(*   w.locked                    w_lock, w_beg  (inside wsConn.mux, about  *)
(*                                               to call conn.WriteJSON)   *)
(*   w.done                      w_end, w_unlock (deferred: the write      *)
(*                                               returned, before Unlock)  *)
(*   c.locked / c.done           c_lock / c_close                          *)
(*   notify(id)                  sg_idle  {p}                              *)
(*   exit                        rl_exit        (after the unsubscribes)   *)
(*   (client, before it closes)  cl_close                                  *)
(*   (client, at the end)        end {rd, nf}: complete messages it got    *)
(* Steps without a hook read only the goroutine's own state and commute    *)
(* with everything (rl_chk, sg_chk): the converter puts them right before  *)
(* the goroutine's next line; sg_chk carries what that line showed         *)
(* (k = "close": the notifier called wsConn.Close).                        *)
(*                                                                         *)
(* Order: hooks inside the mutex are ordered by it; `start` happens before *)
(* the notifier exists; the client notes cl_close BEFORE it closes.  The   *)
(* one commutation: an event received before the bus unsubscribe may be    *)
(* logged (notify) after `unsubscribed` / `exit` (variable `late`).        *)
(* A write that only returned gorilla's stored error has no w_end step:    *)
(* its w_end line is consumed without a step.                              *)
(* Law `Delivered` (the end line): every complete message the client got   *)
(* was written completely under the mutex according to the recording.      *)
(***************************************************************************)
EXTENDS WsConn, Json

Trace == ndJsonDeserialize("trace.ndjson")

VARIABLE l
tvars == <<vars, l>>

Ev == Trace[l]

Step(p) ==
  CASE p = READER -> reader \/ Write(p) \/ Close(p)
    [] p = CLIENT -> client
    [] p \in SUBs -> sub(p) \/ Write(p) \/ Close(p)
    [] OTHER -> FALSE

Agrees(e) ==
  CASE e.l = "rl_read"  -> (kind' = "err") <=> ~e.ok
    [] e.l = "rl_sub"   -> cur = e.s
    [] e.l = "rl_unsub" -> cur = e.s
    [] e.l = "sg_chk"   -> (pc'[e.p] = "c_lock") <=> (e.k = "close")
    [] OTHER -> TRUE

Reset ==
  /\ mux' = 0 /\ writing' = {} /\ cliClosed' = FALSE /\ srvClosed' = FALSE /\ wfatal' = FALSE /\ crashed' = "no"
  /\ started' = [s \in Subs |-> FALSE] /\ subscribed' = [s \in Subs |-> FALSE] /\ acked' = [s \in Subs |-> FALSE]
  /\ late' = [s \in Subs |-> FALSE] /\ evs' = [s \in Subs |-> 0] /\ werr' = [p \in Writers |-> FALSE]
  /\ reqs' = 0 /\ unsubs' = 0 /\ rdFrames' = 0 /\ notifs' = [s \in Subs |-> 0] /\ early' = FALSE
  /\ stack' = [self \in ProcSet |-> << >>]
  /\ nolock' = [self \in ProcSet |-> defaultInitValue]
  /\ kind' = "none" /\ cur' = 0
  /\ pc' = [self \in ProcSet |-> CASE self = READER -> "rl_read" [] self \in SUBs -> "sg_idle" [] self = CLIENT -> "cl_close"]

Delivered(e) == /\ e.rd <= rdFrames
                /\ \A s \in DOMAIN e.nf : s \in Subs /\ e.nf[s] <= notifs[s]

TraceInit == Init /\ l = 2          \* line 1 is the header

TraceNext ==
  /\ l <= Len(Trace)
  /\ l' = l + 1
  /\ CASE Ev.l = "reset" -> Reset
       [] Ev.l = "end"   -> Delivered(Ev) /\ UNCHANGED vars
       [] Ev.l = "w_end" /\ Ev.p \in ProcSet /\ pc[Ev.p] = "w_unlock" -> UNCHANGED vars
       [] OTHER -> /\ Ev.p \in ProcSet
                   /\ pc[Ev.p] = Ev.l
                   /\ Step(Ev.p)
                   /\ Agrees(Ev)

TraceSpec == TraceInit /\ [][TraceNext]_tvars

(* a reset line must produce exactly the initial state of the design module *)
ResetIsInit == (l > 2 /\ Trace[l - 1].l = "reset") => Init

TraceAccepted ==
  LET d == TLCGet("stats").diameter IN
  IF d = Len(Trace) THEN TRUE
  ELSE Print(<<"TRACE NOT ACCEPTED: consumed lines up to", d, "of", Len(Trace)>>, FALSE)
=============================================================================
