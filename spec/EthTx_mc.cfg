SPECIFICATION SpecMc
CONSTANT Programs <- McPrograms
CONSTANT MinGasLimit <- McMinGas
CONSTANT MaxTx = 2
CONSTANT MaxBlocks = 1
CONSTANT MaxGasChoices <- McMaxGas
CONSTANT Prices = {0, 1, 2}
CONSTANT Gases = {1, 2, 4}
CONSTANT GasUseds = {2, 3, 4}
CONSTANT Values = {0, 1, 13}
CONSTANT Nonces = {0, 1}
CONSTANT Witness = FALSE
VIEW view
INVARIANT SupplyLaw
INVARIANT ConservationInv
INVARIANT EvmModuleEmptyInv
INVARIANT NoReplay
INVARIANT ReceiptsExist
PROPERTY FeeLaw
PROPERTY SupplyNeverGrows
PROPERTY ChargeLaw
PROPERTY OutsideVmUsesLimit
PROPERTY RejectedChangesNothing
PROPERTY FloorLaw
PROPERTY CumulativeInv
PROPERTY AuthLaw
PROPERTY NonceLaw
PROPERTY StatusLaw
PROPERTY VmErrLeavesNonceAndFee
CHECK_DEADLOCK FALSE
