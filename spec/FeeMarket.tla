----------------------------- MODULE FeeMarket -----------------------------
(***************************************************************************)
(* The base-fee recurrence of x/feemarket (property C09).                  *)
(*                                                                         *)
(* maxGas is the consensus parameter block.max_gas:  -1 = unlimited (the   *)
(* gas limit is then 2^64-1), n >= 0 otherwise.  The gas target is half    *)
(* the limit.  The property's formula is undefined when the target is 0    *)
(* and gas was used; there the specification only requires totality and    *)
(* the lower bound (NextOk), everywhere else the value is exact (Next).    *)
(*                                                                         *)
(* TLC integers are 32 bit, so this module never mentions 2^64: for the    *)
(* unlimited case it uses the closed form StepUnlimited, which equals the  *)
(* general formula StepAt at the target (2^64-1) \div 2 whenever           *)
(* b * used < target.  That equality is discharged over unbounded integers *)
(* by Apalache in FeeMarketBig.tla.                                        *)
(***************************************************************************)
EXTENDS Integers

\* @type: (Int, Int) => Int;
FMax(a, b) == IF a >= b THEN a ELSE b

\* never divide by a literal zero, also in branches that are not taken (constant simplifiers evaluate them)
\* @type: (Int) => Int;
Nz(t) == IF t = 0 THEN 1 ELSE t

\* EIP-1559 step for a positive target t (or used = t).
\* @type: (Int, Int, Int) => Int;
StepAt(b, used, t) ==
  IF used = t THEN b
  ELSE IF used > t
    THEN b + FMax(((b * (used - t)) \div Nz(t)) \div 8, 1)
    ELSE FMax(b - (((b * (t - used)) \div Nz(t)) \div 8), 0)

\* The same with the astronomically large target of an unlimited block.
\* @type: (Int, Int) => Int;
StepUnlimited(b, used) ==
  FMax(b - ((IF used = 0 \/ b = 0 THEN b ELSE b - 1) \div 8), 0)

\* @type: (Int, Int) => Bool;
Defined(used, maxGas) == maxGas = -1 \/ maxGas \div 2 > 0 \/ used = maxGas \div 2

\* @type: (Int, Int, Int) => Int;
Step(b, used, maxGas) == IF maxGas = -1 THEN StepUnlimited(b, used) ELSE StepAt(b, used, maxGas \div 2)

\* minP is the integer part of the configured minimum gas price.
\* @type: (Int, Int, Int, Int) => Int;
Next(b, used, maxGas, minP) == FMax(Step(b, used, maxGas), minP)

\* What any implementation result r must satisfy.
\* @type: (Int, Int, Int, Int, Int) => Bool;
NextOk(b, used, maxGas, minP, r) ==
  IF Defined(used, maxGas) THEN r = Next(b, used, maxGas, minP)
  ELSE r >= 0 /\ r >= minP

\* The deviation of the code before the repair (D4): go-ethereum's CalcBaseFee divides by the
\* target unconditionally, i.e. it is only defined where GethDefined holds.
\* @type: (Int, Int) => Bool;
GethDefined(used, maxGas) == maxGas = -1 \/ used = maxGas \div 2 \/ maxGas \div 2 # 0
=============================================================================
