------------------------------- MODULE WsConn -------------------------------
(***************************************************************************)
(* C20 clause (a), the websocket server (rpc/websockets.go): the write     *)
(* discipline of ONE connection.                                           *)
(*                                                                         *)
(* gorilla/websocket allows one concurrent writer per connection: every    *)
(* data write passes `isWriting = true; c.write(...); isWriting = false`   *)
(* and a second writer arriving in between panics "concurrent write to     *)
(* websocket connection".  websockets.go serialises all writers of a       *)
(* connection with wsConn.mux:                                             *)
(*   wsConn.WriteJSON   Lock; conn.WriteJSON; Unlock                       *)
(*   wsConn.Close       Lock; conn.Close;     Unlock                       *)
(*                                                                         *)
(* Goroutines of a connection:                                             *)
(*   reader   readLoop (the HTTP handler goroutine): ReadMessage;          *)
(*            eth_subscribe   -> bus subscribe + `go` notifier, answer;    *)
(*            eth_unsubscribe -> bus unsubscribe, answer;                  *)
(*            anything else   -> forward over HTTP to the rest-server      *)
(*                               (tcpGetAndSendResponse), write the answer *)
(*                               (on a failed write: sendErrResponse);     *)
(*            malformed       -> sendErrResponse;                          *)
(*            read error      -> wsConn.Close, deferred: bus unsubscribe   *)
(*                               of every subscription, return.            *)
(*   sub(s)   the goroutine of subscribeNewHeads / subscribeLogs /         *)
(*            subscribePendingTransactions: receive an event from its bus  *)
(*            channel, WriteJSON the notification; on a write error        *)
(*            wsConn.Close (unless ErrCloseSent) and CONTINUE the loop.    *)
(*            The bus unsubscribe only deletes the channel from the bus    *)
(*            map - nobody closes it - so after eth_unsubscribe or the end *)
(*            of the connection the goroutine stays parked in its select   *)
(*            for ever (a leak, recorded as an observation; `Parked`).     *)
(*            The bus publishes without blocking: only a goroutine parked  *)
(*            at its receive gets the event, a busy one misses it.         *)
(*   client   closes the connection at any time.                           *)
(*                                                                         *)
(* A write is interruptible: w_lock (mux), w_beg (enter c.write), w_end    *)
(* (leave it - the client read the bytes, or the connection died),         *)
(* w_unlock.  After the first failed write gorilla stores the error        *)
(* (`wfatal`) and later writes return it without touching isWriting.       *)
(*                                                                         *)
(* Named deviation Bypass: tcpGetAndSendResponse writes the forwarded body *)
(* with conn.WriteMessage directly, without wsConn.mux.  TLC must then     *)
(* violate OneWriter (vacuity witness, and the schedule the binding        *)
(* steers: who is inside the write when the second writer arrives).        *)
(*                                                                         *)
(* TraceMode (trace validation only, see TraceWsConn.tla): a notification  *)
(* whose event was received before the bus unsubscribe may be logged after *)
(* it (`late`).                                                            *)
(***************************************************************************)
EXTENDS Integers, FiniteSets, Sequences, TLC

CONSTANTS R,          \* ordinary / malformed requests the client may send
          S,          \* subscriptions it may open (one goroutine each)
          E,          \* notifications per subscription
          U,          \* eth_unsubscribe requests
          Bypass,     \* deviation: the forwarded answer is written without wsConn.mux
          TraceMode

Subs   == 1..S
READER == 1
CLIENT == 2
SUB(s) == 10 + s
SUBs   == {SUB(s) : s \in Subs}
Writers == {READER} \cup SUBs

(* --algorithm WsConn {
variables
  mux = 0;                                 \* holder of wsConn.mux (0 = free)
  writing = {};                            \* goroutines inside gorilla's c.write
  cliClosed = FALSE;                       \* the client closed its end
  srvClosed = FALSE;                       \* conn.Close() was called
  wfatal = FALSE;                          \* gorilla's sticky writeErr
  crashed = "no";                          \* "reader" | "sub": who panicked in flushFrame
  started    = [s \in Subs |-> FALSE];     \* goroutine of subscription s exists
  subscribed = [s \in Subs |-> FALSE];     \* its channel is in the bus map
  acked      = [s \in Subs |-> FALSE];     \* the eth_subscribe answer (the id) was written
  late       = [s \in Subs |-> FALSE];     \* TraceMode: an event received before the unsubscribe may still show up
  evs        = [s \in Subs |-> 0];         \* events received
  werr = [p \in Writers |-> FALSE];        \* result of the goroutine's last WriteJSON
  reqs = 0; unsubs = 0;
  rdFrames = 0;                            \* ghost: frames of the reader written completely
  notifs = [s \in Subs |-> 0];             \* ghost: notifications written completely
  early = FALSE;                           \* ghost: a notification was written before its subscription id

define {
  OneWriter == Cardinality(writing) <= 1
  NoCrash   == crashed = "no"
  NoReaderCrash == crashed # "reader"      \* (witness runs: the schedule in which the read loop is the second writer)
  MuxInv    == /\ mux \in {0} \cup Writers
               /\ (~Bypass => \A p \in writing : mux = p)
  TypeOK    == /\ writing \subseteq Writers
               /\ \A s \in Subs : subscribed[s] => started[s]
               /\ \A s \in Subs : evs[s] <= E /\ notifs[s] <= evs[s]
               /\ (srvClosed => cliClosed)           \* the server only closes after a read / write error
               /\ (wfatal => cliClosed)
}

\* wsConn.WriteJSON (nolock = FALSE) / conn.WriteMessage called directly (nolock = TRUE)
procedure Write(nolock) {
w_lock:
  if (~nolock) { await mux = 0; mux := self };
w_beg:
  if (wfatal) {                                   \* beginMessage returns the stored error: no write
    werr[self] := TRUE;
    goto w_unlock;
  } else {
    if (writing # {}) { crashed := IF self = READER THEN "reader" ELSE "sub" };   \* flushFrame: isWriting already set
    writing := writing \cup {self};
  };
w_end:
  writing := writing \ {self};
  if (srvClosed) {
    werr[self] := TRUE; wfatal := TRUE;
  } else if (cliClosed) {                         \* the kernel may still take the bytes of a first write
    either { werr[self] := TRUE; wfatal := TRUE } or { werr[self] := FALSE }
  } else {
    werr[self] := FALSE;
  };
  if (~werr[self]) {
    if (self = READER) {
      rdFrames := IF TraceMode THEN rdFrames + 1 ELSE 0;
      if (kind = "sub") { acked[cur] := TRUE };
    } else {
      notifs[self - 10] := IF TraceMode THEN notifs[self - 10] + 1 ELSE 0;
      if (~acked[self - 10]) { early := TRUE };
    }
  };
w_unlock:
  if (~nolock) { mux := 0 };
  return;
}

\* wsConn.Close
procedure Close() {
c_lock:
  await mux = 0; mux := self;
c_close:
  srvClosed := TRUE; mux := 0;
  return;
}

process (reader = READER)
variables kind = "none"; cur = 0;
{
rl_read:                                          \* wsConn.ReadMessage (frames sent before the client closed may still arrive)
  either { await reqs < R; reqs := reqs + 1; kind := "req" }
  or     { await reqs < R; reqs := reqs + 1; kind := "bad" }
  or     { with (s \in {x \in Subs : ~started[x]}) { cur := s }; kind := "sub" }
  or     { await unsubs < U; unsubs := unsubs + 1;
           with (s \in {x \in Subs : subscribed[x]}) { cur := s }; kind := "unsub" }
  or     { await cliClosed; kind := "err" };
  werr[READER] := FALSE;
  if (kind = "err") {
    call Close();
rl_exit:                                          \* deferred: unsubFn() of every subscription of the connection
    late := [s \in Subs |-> TraceMode /\ subscribed[s] /\ pc[SUB(s)] = "sg_idle"];
    subscribed := [s \in Subs |-> FALSE];
  } else if (kind = "sub") {
rl_sub:                                           \* api.subscribe: bus subscribe, `go` notifier
    started[cur] := TRUE; subscribed[cur] := TRUE;
    call Write(FALSE);                            \* the answer carrying the subscription id
    goto rl_read;
  } else if (kind = "unsub") {
rl_unsub:
    late[cur] := TraceMode /\ pc[SUB(cur)] = "sg_idle";
    subscribed[cur] := FALSE;
    call Write(FALSE);
    goto rl_read;
  } else if (kind = "bad") {                      \* sendErrResponse (malformed / rest-server unreachable)
    call Write(FALSE);
    goto rl_read;
  } else {
rl_fwd:                                           \* tcpGetAndSendResponse: the answer of the rest-server is there
    call Write(Bypass);
rl_chk:
    if (werr[READER]) { werr[READER] := FALSE; call Write(FALSE); goto rl_read }   \* sendErrResponse(err)
    else { goto rl_read };
  }
}

process (sub \in SUBs)
{
sg_idle:                                          \* select on the bus channel
  await started[self - 10] /\ (subscribed[self - 10] \/ late[self - 10]) /\ evs[self - 10] < E;
  evs[self - 10] := evs[self - 10] + 1;
  late[self - 10] := FALSE;
  call Write(FALSE);
sg_chk:
  if (werr[self]) {
    werr[self] := FALSE;
    either { call Close(); goto sg_idle }         \* try(wsConn.Close)
    or     { goto sg_idle }                       \* websocket.ErrCloseSent
  } else { goto sg_idle };
}

process (client = CLIENT)
{
cl_close:
  cliClosed := TRUE;
}

} *)
\* BEGIN TRANSLATION
CONSTANT defaultInitValue
VARIABLES pc, mux, writing, cliClosed, srvClosed, wfatal, crashed, started, 
          subscribed, acked, late, evs, werr, reqs, unsubs, rdFrames, notifs, 
          early, stack

(* define statement *)
OneWriter == Cardinality(writing) <= 1
NoCrash   == crashed = "no"
NoReaderCrash == crashed # "reader"
MuxInv    == /\ mux \in {0} \cup Writers
             /\ (~Bypass => \A p \in writing : mux = p)
TypeOK    == /\ writing \subseteq Writers
             /\ \A s \in Subs : subscribed[s] => started[s]
             /\ \A s \in Subs : evs[s] <= E /\ notifs[s] <= evs[s]
             /\ (srvClosed => cliClosed)
             /\ (wfatal => cliClosed)

VARIABLES nolock, kind, cur

vars == << pc, mux, writing, cliClosed, srvClosed, wfatal, crashed, started, 
           subscribed, acked, late, evs, werr, reqs, unsubs, rdFrames, notifs, 
           early, stack, nolock, kind, cur >>

ProcSet == {READER} \cup (SUBs) \cup {CLIENT}

Init == (* Global variables *)
        /\ mux = 0
        /\ writing = {}
        /\ cliClosed = FALSE
        /\ srvClosed = FALSE
        /\ wfatal = FALSE
        /\ crashed = "no"
        /\ started = [s \in Subs |-> FALSE]
        /\ subscribed = [s \in Subs |-> FALSE]
        /\ acked = [s \in Subs |-> FALSE]
        /\ late = [s \in Subs |-> FALSE]
        /\ evs = [s \in Subs |-> 0]
        /\ werr = [p \in Writers |-> FALSE]
        /\ reqs = 0
        /\ unsubs = 0
        /\ rdFrames = 0
        /\ notifs = [s \in Subs |-> 0]
        /\ early = FALSE
        (* Procedure Write *)
        /\ nolock = [ self \in ProcSet |-> defaultInitValue]
        (* Process reader *)
        /\ kind = "none"
        /\ cur = 0
        /\ stack = [self \in ProcSet |-> << >>]
        /\ pc = [self \in ProcSet |-> CASE self = READER -> "rl_read"
                                        [] self \in SUBs -> "sg_idle"
                                        [] self = CLIENT -> "cl_close"]

w_lock(self) == /\ pc[self] = "w_lock"
                /\ IF ~nolock[self]
                      THEN /\ mux = 0
                           /\ mux' = self
                      ELSE /\ TRUE
                           /\ mux' = mux
                /\ pc' = [pc EXCEPT ![self] = "w_beg"]
                /\ UNCHANGED << writing, cliClosed, srvClosed, wfatal, crashed, 
                                started, subscribed, acked, late, evs, werr, 
                                reqs, unsubs, rdFrames, notifs, early, stack, 
                                nolock, kind, cur >>

w_beg(self) == /\ pc[self] = "w_beg"
               /\ IF wfatal
                     THEN /\ werr' = [werr EXCEPT ![self] = TRUE]
                          /\ pc' = [pc EXCEPT ![self] = "w_unlock"]
                          /\ UNCHANGED << writing, crashed >>
                     ELSE /\ IF writing # {}
                                THEN /\ crashed' = (IF self = READER THEN "reader" ELSE "sub")
                                ELSE /\ TRUE
                                     /\ UNCHANGED crashed
                          /\ writing' = (writing \cup {self})
                          /\ pc' = [pc EXCEPT ![self] = "w_end"]
                          /\ werr' = werr
               /\ UNCHANGED << mux, cliClosed, srvClosed, wfatal, started, 
                               subscribed, acked, late, evs, reqs, unsubs, 
                               rdFrames, notifs, early, stack, nolock, kind, 
                               cur >>

w_end(self) == /\ pc[self] = "w_end"
               /\ writing' = writing \ {self}
               /\ IF srvClosed
                     THEN /\ werr' = [werr EXCEPT ![self] = TRUE]
                          /\ wfatal' = TRUE
                     ELSE /\ IF cliClosed
                                THEN /\ \/ /\ werr' = [werr EXCEPT ![self] = TRUE]
                                           /\ wfatal' = TRUE
                                        \/ /\ werr' = [werr EXCEPT ![self] = FALSE]
                                           /\ UNCHANGED wfatal
                                ELSE /\ werr' = [werr EXCEPT ![self] = FALSE]
                                     /\ UNCHANGED wfatal
               /\ IF ~werr'[self]
                     THEN /\ IF self = READER
                                THEN /\ rdFrames' = IF TraceMode THEN rdFrames + 1 ELSE 0
                                     /\ IF kind = "sub"
                                           THEN /\ acked' = [acked EXCEPT ![cur] = TRUE]
                                           ELSE /\ TRUE
                                                /\ acked' = acked
                                     /\ UNCHANGED << notifs, early >>
                                ELSE /\ notifs' = [notifs EXCEPT ![self - 10] = IF TraceMode THEN notifs[self - 10] + 1 ELSE 0]
                                     /\ IF ~acked[self - 10]
                                           THEN /\ early' = TRUE
                                           ELSE /\ TRUE
                                                /\ early' = early
                                     /\ UNCHANGED << acked, rdFrames >>
                     ELSE /\ TRUE
                          /\ UNCHANGED << acked, rdFrames, notifs, early >>
               /\ pc' = [pc EXCEPT ![self] = "w_unlock"]
               /\ UNCHANGED << mux, cliClosed, srvClosed, crashed, started, 
                               subscribed, late, evs, reqs, unsubs, stack, 
                               nolock, kind, cur >>

w_unlock(self) == /\ pc[self] = "w_unlock"
                  /\ IF ~nolock[self]
                        THEN /\ mux' = 0
                        ELSE /\ TRUE
                             /\ mux' = mux
                  /\ pc' = [pc EXCEPT ![self] = Head(stack[self]).pc]
                  /\ nolock' = [nolock EXCEPT ![self] = Head(stack[self]).nolock]
                  /\ stack' = [stack EXCEPT ![self] = Tail(stack[self])]
                  /\ UNCHANGED << writing, cliClosed, srvClosed, wfatal, 
                                  crashed, started, subscribed, acked, late, 
                                  evs, werr, reqs, unsubs, rdFrames, notifs, 
                                  early, kind, cur >>

Write(self) == w_lock(self) \/ w_beg(self) \/ w_end(self) \/ w_unlock(self)

c_lock(self) == /\ pc[self] = "c_lock"
                /\ mux = 0
                /\ mux' = self
                /\ pc' = [pc EXCEPT ![self] = "c_close"]
                /\ UNCHANGED << writing, cliClosed, srvClosed, wfatal, crashed, 
                                started, subscribed, acked, late, evs, werr, 
                                reqs, unsubs, rdFrames, notifs, early, stack, 
                                nolock, kind, cur >>

c_close(self) == /\ pc[self] = "c_close"
                 /\ srvClosed' = TRUE
                 /\ mux' = 0
                 /\ pc' = [pc EXCEPT ![self] = Head(stack[self]).pc]
                 /\ stack' = [stack EXCEPT ![self] = Tail(stack[self])]
                 /\ UNCHANGED << writing, cliClosed, wfatal, crashed, started, 
                                 subscribed, acked, late, evs, werr, reqs, 
                                 unsubs, rdFrames, notifs, early, nolock, kind, 
                                 cur >>

Close(self) == c_lock(self) \/ c_close(self)

rl_read == /\ pc[READER] = "rl_read"
           /\ \/ /\ reqs < R
                 /\ reqs' = reqs + 1
                 /\ kind' = "req"
                 /\ UNCHANGED <<unsubs, cur>>
              \/ /\ reqs < R
                 /\ reqs' = reqs + 1
                 /\ kind' = "bad"
                 /\ UNCHANGED <<unsubs, cur>>
              \/ /\ \E s \in {x \in Subs : ~started[x]}:
                      cur' = s
                 /\ kind' = "sub"
                 /\ UNCHANGED <<reqs, unsubs>>
              \/ /\ unsubs < U
                 /\ unsubs' = unsubs + 1
                 /\ \E s \in {x \in Subs : subscribed[x]}:
                      cur' = s
                 /\ kind' = "unsub"
                 /\ reqs' = reqs
              \/ /\ cliClosed
                 /\ kind' = "err"
                 /\ UNCHANGED <<reqs, unsubs, cur>>
           /\ werr' = [werr EXCEPT ![READER] = FALSE]
           /\ IF kind' = "err"
                 THEN /\ stack' = [stack EXCEPT ![READER] = << [ procedure |->  "Close",
                                                                 pc        |->  "rl_exit" ] >>
                                                             \o stack[READER]]
                      /\ pc' = [pc EXCEPT ![READER] = "c_lock"]
                      /\ UNCHANGED nolock
                 ELSE /\ IF kind' = "sub"
                            THEN /\ pc' = [pc EXCEPT ![READER] = "rl_sub"]
                                 /\ UNCHANGED << stack, nolock >>
                            ELSE /\ IF kind' = "unsub"
                                       THEN /\ pc' = [pc EXCEPT ![READER] = "rl_unsub"]
                                            /\ UNCHANGED << stack, nolock >>
                                       ELSE /\ IF kind' = "bad"
                                                  THEN /\ /\ nolock' = [nolock EXCEPT ![READER] = FALSE]
                                                          /\ stack' = [stack EXCEPT ![READER] = << [ procedure |->  "Write",
                                                                                                     pc        |->  "rl_read",
                                                                                                     nolock    |->  nolock[READER] ] >>
                                                                                                 \o stack[READER]]
                                                       /\ pc' = [pc EXCEPT ![READER] = "w_lock"]
                                                  ELSE /\ pc' = [pc EXCEPT ![READER] = "rl_fwd"]
                                                       /\ UNCHANGED << stack, 
                                                                       nolock >>
           /\ UNCHANGED << mux, writing, cliClosed, srvClosed, wfatal, crashed, 
                           started, subscribed, acked, late, evs, rdFrames, 
                           notifs, early >>

rl_exit == /\ pc[READER] = "rl_exit"
           /\ late' = [s \in Subs |-> TraceMode /\ subscribed[s] /\ pc[SUB(s)] = "sg_idle"]
           /\ subscribed' = [s \in Subs |-> FALSE]
           /\ pc' = [pc EXCEPT ![READER] = "Done"]
           /\ UNCHANGED << mux, writing, cliClosed, srvClosed, wfatal, crashed, 
                           started, acked, evs, werr, reqs, unsubs, rdFrames, 
                           notifs, early, stack, nolock, kind, cur >>

rl_sub == /\ pc[READER] = "rl_sub"
          /\ started' = [started EXCEPT ![cur] = TRUE]
          /\ subscribed' = [subscribed EXCEPT ![cur] = TRUE]
          /\ /\ nolock' = [nolock EXCEPT ![READER] = FALSE]
             /\ stack' = [stack EXCEPT ![READER] = << [ procedure |->  "Write",
                                                        pc        |->  "rl_read",
                                                        nolock    |->  nolock[READER] ] >>
                                                    \o stack[READER]]
          /\ pc' = [pc EXCEPT ![READER] = "w_lock"]
          /\ UNCHANGED << mux, writing, cliClosed, srvClosed, wfatal, crashed, 
                          acked, late, evs, werr, reqs, unsubs, rdFrames, 
                          notifs, early, kind, cur >>

rl_unsub == /\ pc[READER] = "rl_unsub"
            /\ late' = [late EXCEPT ![cur] = TraceMode /\ pc[SUB(cur)] = "sg_idle"]
            /\ subscribed' = [subscribed EXCEPT ![cur] = FALSE]
            /\ /\ nolock' = [nolock EXCEPT ![READER] = FALSE]
               /\ stack' = [stack EXCEPT ![READER] = << [ procedure |->  "Write",
                                                          pc        |->  "rl_read",
                                                          nolock    |->  nolock[READER] ] >>
                                                      \o stack[READER]]
            /\ pc' = [pc EXCEPT ![READER] = "w_lock"]
            /\ UNCHANGED << mux, writing, cliClosed, srvClosed, wfatal, 
                            crashed, started, acked, evs, werr, reqs, unsubs, 
                            rdFrames, notifs, early, kind, cur >>

rl_fwd == /\ pc[READER] = "rl_fwd"
          /\ /\ nolock' = [nolock EXCEPT ![READER] = Bypass]
             /\ stack' = [stack EXCEPT ![READER] = << [ procedure |->  "Write",
                                                        pc        |->  "rl_chk",
                                                        nolock    |->  nolock[READER] ] >>
                                                    \o stack[READER]]
          /\ pc' = [pc EXCEPT ![READER] = "w_lock"]
          /\ UNCHANGED << mux, writing, cliClosed, srvClosed, wfatal, crashed, 
                          started, subscribed, acked, late, evs, werr, reqs, 
                          unsubs, rdFrames, notifs, early, kind, cur >>

rl_chk == /\ pc[READER] = "rl_chk"
          /\ IF werr[READER]
                THEN /\ werr' = [werr EXCEPT ![READER] = FALSE]
                     /\ /\ nolock' = [nolock EXCEPT ![READER] = FALSE]
                        /\ stack' = [stack EXCEPT ![READER] = << [ procedure |->  "Write",
                                                                   pc        |->  "rl_read",
                                                                   nolock    |->  nolock[READER] ] >>
                                                               \o stack[READER]]
                     /\ pc' = [pc EXCEPT ![READER] = "w_lock"]
                ELSE /\ pc' = [pc EXCEPT ![READER] = "rl_read"]
                     /\ UNCHANGED << werr, stack, nolock >>
          /\ UNCHANGED << mux, writing, cliClosed, srvClosed, wfatal, crashed, 
                          started, subscribed, acked, late, evs, reqs, unsubs, 
                          rdFrames, notifs, early, kind, cur >>

reader == rl_read \/ rl_exit \/ rl_sub \/ rl_unsub \/ rl_fwd \/ rl_chk

sg_idle(self) == /\ pc[self] = "sg_idle"
                 /\ started[self - 10] /\ (subscribed[self - 10] \/ late[self - 10]) /\ evs[self - 10] < E
                 /\ evs' = [evs EXCEPT ![self - 10] = evs[self - 10] + 1]
                 /\ late' = [late EXCEPT ![self - 10] = FALSE]
                 /\ /\ nolock' = [nolock EXCEPT ![self] = FALSE]
                    /\ stack' = [stack EXCEPT ![self] = << [ procedure |->  "Write",
                                                             pc        |->  "sg_chk",
                                                             nolock    |->  nolock[self] ] >>
                                                         \o stack[self]]
                 /\ pc' = [pc EXCEPT ![self] = "w_lock"]
                 /\ UNCHANGED << mux, writing, cliClosed, srvClosed, wfatal, 
                                 crashed, started, subscribed, acked, werr, 
                                 reqs, unsubs, rdFrames, notifs, early, kind, 
                                 cur >>

sg_chk(self) == /\ pc[self] = "sg_chk"
                /\ IF werr[self]
                      THEN /\ werr' = [werr EXCEPT ![self] = FALSE]
                           /\ \/ /\ stack' = [stack EXCEPT ![self] = << [ procedure |->  "Close",
                                                                          pc        |->  "sg_idle" ] >>
                                                                      \o stack[self]]
                                 /\ pc' = [pc EXCEPT ![self] = "c_lock"]
                              \/ /\ pc' = [pc EXCEPT ![self] = "sg_idle"]
                                 /\ stack' = stack
                      ELSE /\ pc' = [pc EXCEPT ![self] = "sg_idle"]
                           /\ UNCHANGED << werr, stack >>
                /\ UNCHANGED << mux, writing, cliClosed, srvClosed, wfatal, 
                                crashed, started, subscribed, acked, late, evs, 
                                reqs, unsubs, rdFrames, notifs, early, nolock, 
                                kind, cur >>

sub(self) == sg_idle(self) \/ sg_chk(self)

cl_close == /\ pc[CLIENT] = "cl_close"
            /\ cliClosed' = TRUE
            /\ pc' = [pc EXCEPT ![CLIENT] = "Done"]
            /\ UNCHANGED << mux, writing, srvClosed, wfatal, crashed, started, 
                            subscribed, acked, late, evs, werr, reqs, unsubs, 
                            rdFrames, notifs, early, stack, nolock, kind, cur >>

client == cl_close

(* Allow infinite stuttering to prevent deadlock on termination. *)
Terminating == /\ \A self \in ProcSet: pc[self] = "Done"
               /\ UNCHANGED vars

Next == reader \/ client
           \/ (\E self \in ProcSet: Write(self) \/ Close(self))
           \/ (\E self \in SUBs: sub(self))
           \/ Terminating

Spec == Init /\ [][Next]_vars

Termination == <>(\A self \in ProcSet: pc[self] = "Done")

\* END TRANSLATION

(***************************************************************************)
(* Deadlock freedom: the notifier goroutines never end (see above); a      *)
(* goroutine parked in its select with nothing to receive is at rest.      *)
(* Everybody else must be able to move until it has returned.              *)
(***************************************************************************)
Parked(p) ==
  \/ pc[p] = "Done"
  \/ p \in SUBs /\ pc[p] = "sg_idle"
              /\ ~(started[p - 10] /\ (subscribed[p - 10] \/ late[p - 10]) /\ evs[p - 10] < E)

Quiescent == \A p \in ProcSet : Parked(p)

MCNext == Next \/ (Quiescent /\ UNCHANGED vars)
MCSpec == Init /\ [][MCNext]_vars
MCFairSpec == MCSpec /\ WF_vars(Next)

NoWsDeadlock == Quiescent \/ ENABLED Next

(* under weak fairness the read loop returns and every goroutine comes to rest *)
ReaderReturns == <>(pc[READER] = "Done")
ComesToRest   == <>[]Quiescent

(* observation, not a requirement of C20: geth answers eth_subscribe before the first notification;  *)
(* websockets.go starts the notifier first, so a notification can precede the subscription id.      *)
AckBeforeNotify == ~early
=============================================================================
