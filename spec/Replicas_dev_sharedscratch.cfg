SPECIFICATION Spec
CONSTANT Programs <- NoPrograms
CONSTANT Mode = "sharedscratch"
CONSTANT NRep = 2
CONSTANT MaxTx = 2
INVARIANT Agree
INVARIANT WorldAgrees
CHECK_DEADLOCK FALSE
