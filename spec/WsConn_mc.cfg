\* the write discipline of websockets.go as pinned: one writer, no crash, no deadlock (quick size; _thorough: S = 3, E = 2, U = 2)
SPECIFICATION MCSpec
CONSTANTS
  R = 2
  S = 2
  E = 1
  U = 1
  Bypass = FALSE
  TraceMode = FALSE
  defaultInitValue = defaultInitValue
INVARIANTS TypeOK OneWriter NoCrash MuxInv NoWsDeadlock
CHECK_DEADLOCK TRUE
