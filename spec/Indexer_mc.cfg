SPECIFICATION Spec
CONSTANTS
  MaxBlocks = 2
  MaxTxs = 2
  Kinds = {"cosmos", "ok", "vmerr", "failed", "refused"}
  BlockChoices <- McBlocks
  MaxLen <- McMaxLen
  Starts = {0, 1}
  MaxCrashes = 2
  Atomic = TRUE
  AllowReindex = TRUE
  Known = {}
INVARIANTS Converges LookupAgree Complete Idempotent ChainsCoherent
CHECK_DEADLOCK FALSE
