\* witness deviation (trailing wildcards not counted, topic read hoisted): TLC must find the pair that reads past the log topics
SPECIFICATION Spec
CONSTANTS
  MaxPos = 4
  Dev = TRUE
INVARIANTS NoIndexCrash
CHECK_DEADLOCK FALSE
