----------------------------- MODULE ChargeBig -----------------------------
(***************************************************************************)
(* C05 over unbounded integers.  The trace specifications run on TLC, whose *)
(* integers are 32 bit: the EthTx histories therefore use a small-magnitude *)
(* genesis (balances 10^8, prices ~10).  The charge law of EthTx.tla is     *)
(* stated here once more for Apalache, so that executions of the real       *)
(* application at real-world magnitudes - balances 10^27 wei, gas prices up *)
(* to 10^15, gas limits up to 10^10, i.e. fees far beyond 2^64 - can be     *)
(* judged: an executed Ethereum transaction costs its sender exactly        *)
(*     gas used x effective price + value moved,                            *)
(* the receiver gains exactly the value moved, total supply is unchanged    *)
(* (what the refund mints the settlement burns), gas used never exceeds the *)
(* gas limit.  Effective price: type 2 = min(tip + base fee, cap), others = *)
(* the gas price.                                                           *)
(***************************************************************************)
EXTENDS Integers

VARIABLE
  \* @type: Int;
  cz

Init == cz = 0
Stutter == UNCHANGED cz

\* @type: (Int, Int) => Int;
MinBig(a, b) == IF a <= b THEN a ELSE b

\* @type: (Int, Int, Int, Int) => Int;
EffPriceBig(typ, price, tip, baseFee) == IF typ = 2 THEN MinBig(tip + baseFee, price) ELSE price

\* @type: (Int, Int, Int, Int, Int, Int, Int, Int, Int, Int, Int) => Bool;
ChargeOk(typ, price, tip, baseFee, gasLimit, gasUsed, moved, before, after, recvDelta, supplyDelta) ==
  /\ gasUsed >= 21000 /\ gasUsed <= gasLimit
  /\ EffPriceBig(typ, price, tip, baseFee) >= baseFee
  /\ before - after = gasUsed * EffPriceBig(typ, price, tip, baseFee) + moved
  /\ recvDelta = moved
  /\ supplyDelta = 0
=============================================================================
