------------------------------- MODULE World -------------------------------
(***************************************************************************)
(* Shared vocabulary of the evermint specifications: partial functions     *)
(* with defaults, the world state the EVM lane acts on, the EIP-3529       *)
(* refund rule and the small arithmetic helpers.                           *)
(*                                                                         *)
(* A world is a record of functions keyed by address *names* (strings      *)
(* chosen by the harness: "a0".. EOAs, "c0".. contracts, "fc" fee          *)
(* collector, "evm" the EVM module account, "distr", ...):                 *)
(*   bal, bal2   balance in the EVM denomination / in all other denoms     *)
(*   seq         account sequence (= Ethereum nonce)                       *)
(*   ex          an auth account record exists                             *)
(*   code        code id ("none" = no code)                                *)
(*   stor        addr -> (slot -> value), absent = 0                       *)
(*   kind        "base" | "module" | "vesting"  (absent = "base")          *)
(*   vend        vesting end time (absent = 0)                             *)
(*   supply, supply2, burnt, burnt2   totals (burnt* are ghosts)           *)
(* plus the transaction-scoped components that snapshots must restore:     *)
(*   logs, refund, sd (self-destructed), touched, orig (storage at tx start)*)
(***************************************************************************)
EXTENDS Integers, Sequences, FiniteSets, TLC

Min(a, b) == IF a <= b THEN a ELSE b
Max(a, b) == IF a >= b THEN a ELSE b

Get(f, k, d) == IF k \in DOMAIN f THEN f[k] ELSE d
Put(f, k, v) == [x \in (DOMAIN f) \cup {k} |-> IF x = k THEN v ELSE f[x]]
Del(f, k)    == [x \in (DOMAIN f) \ {k} |-> f[x]]

EmptyFn == [x \in {} |-> 0]

Bal(w, a)   == Get(w.bal, a, 0)
Bal2(w, a)  == Get(w.bal2, a, 0)
Nonce(w, a) == Get(w.seq, a, 0)
Ex(w, a)    == Get(w.ex, a, FALSE)
Code(w, a)  == Get(w.code, a, "none")
Kind(w, a)  == Get(w.kind, a, "base")
Vend(w, a)  == Get(w.vend, a, 0)
StorOf(w, a) == Get(w.stor, a, EmptyFn)
Slot(w, a, s) == Get(StorOf(w, a), s, 0)

SetBal(w, a, v)  == [w EXCEPT !.bal = Put(w.bal, a, v)]
SetSeq(w, a, v)  == [w EXCEPT !.seq = Put(w.seq, a, v)]
SetEx(w, a, v)   == [w EXCEPT !.ex = Put(w.ex, a, v)]
SetCode(w, a, v) == [w EXCEPT !.code = Put(w.code, a, v)]
Touch(w, a)      == [w EXCEPT !.touched = @ \cup {a}]

(* storage keeps only non-zero slots, like the KV store *)
SetSlot(w, a, s, v) ==
  LET st == StorOf(w, a)
      st2 == IF v = 0 THEN Del(st, s) ELSE Put(st, s, v)
  IN [w EXCEPT !.stor = Put(w.stor, a, st2)]

(* bank send creates the recipient account when it does not exist *)
Credit(w, a, v) ==
  IF v = 0 THEN w ELSE SetEx(SetBal(w, a, Bal(w, a) + v), a, TRUE)

(* StateDB.Exist: self-destructed accounts still exist until commit *)
SdbExist(w, a) == a \in w.sd \/ Ex(w, a)

(* keeper.IsEmptyAccount: no code, no balance of ANY denomination, nonce 0, no storage *)
IsEmpty(w, a) ==
  /\ Code(w, a) = "none"
  /\ Bal(w, a) = 0 /\ Bal2(w, a) = 0
  /\ Nonce(w, a) = 0
  /\ DOMAIN StorOf(w, a) = {}

(* createAccountIfNotExists *)
Ensure(w, a) == IF Ex(w, a) THEN w ELSE SetEx(w, a, TRUE)

(* the destroy guard: module accounts and vesting accounts not yet ended by block time *)
Protected(w, a, now) ==
  Ex(w, a) /\ (Kind(w, a) = "module" \/ (Kind(w, a) = "vesting" /\ Vend(w, a) > now))

(* DestroyAccount on an unprotected address: the record, every balance, code hash and storage go *)
Destroy(w, a) ==
  [w EXCEPT !.ex = Put(w.ex, a, FALSE),
            !.seq = Put(w.seq, a, 0),
            !.kind = Put(w.kind, a, "base"),
            !.vend = Put(w.vend, a, 0),
            !.supply = @ - Bal(w, a), !.burnt = @ + Bal(w, a),
            !.supply2 = @ - Bal2(w, a), !.burnt2 = @ + Bal2(w, a),
            !.bal = Put(w.bal, a, 0), !.bal2 = Put(w.bal2, a, 0),
            !.code = Put(w.code, a, "none"),
            !.stor = Put(w.stor, a, EmptyFn)]

(* StateDB.CreateAccount: destroy what is there, re-create, carry all balances over *)
CreateAccount(w, a, now) ==
  \* caller guarantees ~Protected(w, a, now)
  LET b == Bal(w, a)  b2 == Bal2(w, a)
      d == Destroy(w, a)
  IN [d EXCEPT !.ex = Put(d.ex, a, TRUE), !.bal = Put(d.bal, a, b), !.bal2 = Put(d.bal2, a, b2),
               !.supply = w.supply, !.supply2 = w.supply2, !.burnt = w.burnt, !.burnt2 = w.burnt2,
               !.touched = @ \cup {a},
               !.orig = Put(w.orig, a, EmptyFn)]     \* a re-made account has no committed storage

(***************************************************************************)
(* EIP-2200 / EIP-3529 refund-counter delta of one SSTORE given the value  *)
(* at transaction start (orig), the current value and the new value.       *)
(***************************************************************************)
SstoreRefund(orig, cur, new) ==
  IF cur = new THEN 0
  ELSE IF orig = cur THEN (IF orig # 0 /\ new = 0 THEN 4800 ELSE 0)
  ELSE (IF orig # 0 THEN (IF cur = 0 THEN -4800 ELSE IF new = 0 THEN 4800 ELSE 0) ELSE 0)
     + (IF orig = new THEN (IF orig = 0 THEN 19900 ELSE 2800) ELSE 0)

SumSeq(s) == LET RECURSIVE F(_) F(i) == IF i = 0 THEN 0 ELSE s[i] + F(i - 1) IN F(Len(s))

RECURSIVE UnionSeq(_)
UnionSeq(s) == IF s = <<>> THEN {} ELSE Head(s) \cup UnionSeq(Tail(s))

ToSet(s) == {s[i] : i \in 1..Len(s)}
=============================================================================
