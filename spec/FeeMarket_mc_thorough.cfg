SPECIFICATION Spec
CONSTANT MaxB = 200
CONSTANT MaxMinP = 12
CONSTANT MaxGases <- McMaxGasesThorough
CONSTANT MaxBlocks = 5
CONSTANT GovFull = "none"
CONSTANT EndOrder = "gov-then-fee"
CONSTANT UnlimitedUsed = 20
INVARIANT NonNeg
INVARIANT AtLeastMinAfterFirst
PROPERTY TotalLaw
PROPERTY UnchangedAtTarget
PROPERTY UpAtLeastOne
PROPERTY UpAtMostEighthPlusOne
PROPERTY DownBounded
PROPERTY Monotone
PROPERTY NextOkExact
PROPERTY GovThenFee
CHECK_DEADLOCK FALSE
