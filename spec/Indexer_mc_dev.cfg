SPECIFICATION Spec
CONSTANTS
  MaxBlocks = 2
  MaxTxs = 2
  Kinds = {"ok", "failed", "refused"}
  BlockChoices <- McBlocks
  MaxLen <- McMaxLen
  Starts = {0, 1}
  MaxCrashes = 2
  Atomic = TRUE
  AllowReindex = TRUE
  Known = {"Converges/empty-index-restart-skips-to-latest"}
INVARIANTS ConvergesStrict
CHECK_DEADLOCK FALSE
