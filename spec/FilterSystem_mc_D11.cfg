\* named deviation D11 enabled: TLC is expected to violate NoCrash (FilterSystem_sim prints the schedule)
SPECIFICATION SimSpec
CONSTANTS
  NTopics = 1
  NClients = 1
  Rounds = 1
  MaxEvents = 1
  MaxPolls = 0
  MaxTicks = 0
  MaxFires = 0
  Api = FALSE
  Known = {"D11", "D25"}
  SpinTopics = {}
  BufCap = 1
  RespCap = 1
  WithIndexer = FALSE
  MaxHeaders = 0
  TraceMode = FALSE
  Foreign = FALSE
INVARIANTS CexNoCrash
VIEW View
CHECK_DEADLOCK FALSE
