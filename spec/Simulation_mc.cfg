SPECIFICATION Spec
CONSTANT Calls = {0, 1}
CONSTANT Gases = {1, 3}
CONSTANT MaxBlocks = 3
CONSTANT MaxReqs = 3
INVARIANT Repeatable
INVARIANT PredictionsHold
INVARIANT EstimatesSuffice
PROPERTY FrameLaw
PROPERTY AppendOnly
CHECK_DEADLOCK FALSE
