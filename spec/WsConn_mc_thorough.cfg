\* thorough size (a): three subscriptions (one-off S = 3, E = 2, U = 2: 54 600 085 distinct states, 10 min, no violation)
SPECIFICATION MCSpec
CONSTANTS
  R = 2
  S = 3
  E = 1
  U = 1
  Bypass = FALSE
  TraceMode = FALSE
  defaultInitValue = defaultInitValue
INVARIANTS TypeOK OneWriter NoCrash MuxInv NoWsDeadlock
CHECK_DEADLOCK TRUE
