SPECIFICATION Spec
CONSTANT MaxB = 40
CONSTANT MaxMinP = 5
CONSTANT MaxGases <- McMaxGases
CONSTANT MaxBlocks = 3
CONSTANT GovFull = "full"
CONSTANT EndOrder = "gov-then-fee"
CONSTANT UnlimitedUsed = 12
INVARIANT NonNeg
INVARIANT AtLeastMinAfterFirst
PROPERTY TotalLaw
PROPERTY UnchangedAtTarget
PROPERTY UpAtLeastOne
PROPERTY UpAtMostEighthPlusOne
PROPERTY DownBounded
PROPERTY Monotone
PROPERTY NextOkExact
PROPERTY GovThenFee
CHECK_DEADLOCK FALSE
