------------------------------- MODULE Lanes -------------------------------
(***************************************************************************)
(* C07 - dual-lane isolation, as a function of the transaction SHAPE.      *)
(*                                                                         *)
(* A shape abstracts one signed transaction: which messages it lists (and  *)
(* what is nested in authorisation-exec messages), which extension options *)
(* it carries, which envelope fields are present, and in which execution   *)
(* mode the application sees it.  The module states, independently of the  *)
(* ante decorators,                                                        *)
(*   EthLane / CosmosLane   which lane has to handle the shape,            *)
(*   Verdict(s)             "accept" / "reject" / "any"                    *)
(*   Reason(s)              why a shape has to be refused (first reason)   *)
(* and the sentences of the property as predicates over all shapes.        *)
(*                                                                         *)
(* Sources of the rules (P = text of property C07, C16 = property C16,     *)
(* D = documented rule of evermint / the Cosmos SDK, stated where used).   *)
(***************************************************************************)
EXTENDS Naturals, Sequences, FiniteSets, SequencesExt, TLC

Modes == {"check", "recheck", "simulate", "deliver"}

(***************************************************************************)
(* Extension options.  Registered option types of this chain: "eth"        *)
(* (ExtensionOptionsEthereumTx) and "dyn" (ExtensionOptionDynamicFeeTx);   *)
(* "foreign" is an Any of a type that is not an extension option.          *)
(***************************************************************************)
ExtKinds == {"none", "eth", "dyn", "foreign", "ethdyn", "etheth", "nc", "ethnc"}

CritOpts(x) ==
  CASE x = "none"    -> <<>>
    [] x = "eth"     -> <<"eth">>
    [] x = "dyn"     -> <<"dyn">>
    [] x = "foreign" -> <<"foreign">>
    [] x = "ethdyn"  -> <<"eth", "dyn">>
    [] x = "etheth"  -> <<"eth", "eth">>
    [] x = "nc"      -> <<>>
    [] x = "ethnc"   -> <<"eth">>

NonCritOpts(x) == IF x \in {"nc", "ethnc"} THEN <<"dyn">> ELSE <<>>

(* Range(f) == {f[i] : i \in DOMAIN f} comes from SequencesExt *)

(***************************************************************************)
(* Messages.  A top-level element is  exec^d(leaves): d = 0 is a plain     *)
(* message (one leaf), d >= 1 is d nested MsgExec whose innermost one      *)
(* carries the leaves as siblings.                                         *)
(*   eth                an Ethereum message                                *)
(*   vestK / vestKp     the three vesting-creation kinds, target without / *)
(*                      with a stored ownership proof                      *)
(*   g_X                MsgGrant of a generic authorisation for X          *)
(*   send, other        unrestricted messages                              *)
(***************************************************************************)
VestUnproven == {"vest1", "vest2", "vest3"}
VestProven   == {"vest1p", "vest2p", "vest3p"}
VestKinds    == VestUnproven \cup VestProven
Restricted   == {"eth"} \cup VestKinds                     \* P: "Ethereum messages (and the configured vesting-creation messages)"
RestrictedGrants == {"g_eth", "g_vest1", "g_vest2", "g_vest3"}  \* P: "grants for them are refused"
LeafKinds == {"send", "other", "g_send"} \cup Restricted \cup RestrictedGrants

E(d, leaf) == [d |-> d, leaf |-> leaf]
EthElem == E(0, <<"eth">>)

(* D: app/antedl/cosmoslane/992c: "maxNestedLevelsCount defines a cap for the number of nested levels
   in an authz.MsgExec" = 3, the transaction's own message list being level 1.  The property only says
   "up to and beyond the depth limit"; the number is the documented one. *)
MaxNestedLevels == 3

LeavesOf(el)  == Range(el.leaf)
ElemsOf(s)    == Range(s.msgs)
AllLeaves(s)  == UNION {LeavesOf(el) : el \in ElemsOf(s)}
TopLeaves(s)  == UNION {LeavesOf(el) : el \in {x \in ElemsOf(s) : x.d = 0}}
NestedLeaves(s) == UNION {LeavesOf(el) : el \in {x \in ElemsOf(s) : x.d >= 1}}
Levels(s)     == IF ElemsOf(s) = {} THEN 1 ELSE 1 + (CHOOSE m \in {el.d : el \in ElemsOf(s)} : \A el \in ElemsOf(s) : el.d <= m)

(***************************************************************************)
(* Lanes (P: "Every transaction is handled by exactly one lane").  The     *)
(* Ethereum lane takes exactly the transactions whose sole message is an   *)
(* Ethereum message; everything else belongs to the Cosmos lane.           *)
(***************************************************************************)
SoleEth(s)    == Len(s.msgs) = 1 /\ s.msgs[1] = EthElem
EthLane(s)    == SoleEth(s)
CosmosLane(s) == Len(s.msgs) # 1 \/ s.msgs[1].d # 0 \/ s.msgs[1].leaf # <<"eth">>
Lane(s)       == IF EthLane(s) THEN "eth" ELSE "cosmos"

(***************************************************************************)
(* Reasons to refuse, in a fixed order; Reason(s) = "" when there is none. *)
(***************************************************************************)
(* D (SDK tx decoding): every extension option, critical or not, must be a registered extension
   option type, otherwise the transaction does not even decode. *)
Undecodable(s) == "foreign" \in Range(CritOpts(s.ext)) \cup Range(NonCritOpts(s.ext))

EthReasons(s) ==
  <<   <<Undecodable(s), "undecodable-ext">>,
       (* P: "no foreign extension option" *)
       <<\E o \in Range(CritOpts(s.ext)) : o # "eth", "eth-foreign-ext">>,
       (* D (app/antedl/utils IsEthereumTx): "tx has no extension or has only one ExtensionOptionsEthereumTx";
          D (duallane/02): "reject any NonCriticalExtensionOptions" *)
       <<Len(CritOpts(s.ext)) > 1, "eth-two-ext">>,
       <<NonCritOpts(s.ext) # <<>>, "eth-noncritical-ext">>,
       (* P: "no Cosmos signatures or signer infos, no fee payer or granter, no memo, no timeout height" *)
       <<s.sigs, "eth-signatures">>,
       <<s.sinfos, "eth-signer-infos">>,
       <<s.payer, "eth-fee-payer">>,
       <<s.granter, "eth-fee-granter">>,
       <<s.memo, "eth-memo">>,
       (* the rule only distinguishes zero from non-zero: EVERY non-zero magnitude class is refused *)
       <<s.timeout # "zero", "eth-timeout">>,
       (* P: "its declared fee and gas limit equal those of the embedded Ethereum transaction" *)
       <<s.fee # "eq", "eth-fee-mismatch">>,
       <<s.gas # "eq", "eth-gas-mismatch">> >>

CosmosReasons(s) ==
  <<   <<Undecodable(s), "undecodable-ext">>,
       (* D (SDK BaseApp): a transaction must contain at least one message *)
       <<Len(s.msgs) = 0, "no-messages">>,
       (* P: an Ethereum message is accepted only as the sole message; never "listed beside other messages" *)
       <<"eth" \in TopLeaves(s), "eth-beside-other-messages">>,
       (* P: "nor nested at any depth inside authorisation-exec messages" *)
       <<"eth" \in NestedLeaves(s), "eth-nested-in-exec">>,
       <<NestedLeaves(s) \cap VestKinds # {}, "vesting-nested-in-exec">>,
       (* P: "grants for them are refused" (at any depth) *)
       <<AllLeaves(s) \cap RestrictedGrants # {}, "grant-for-restricted-message">>,
       (* P/D: nesting beyond the depth limit *)
       <<Levels(s) > MaxNestedLevels, "exec-nesting-beyond-limit">>,
       (* C16: a vesting account only for an address with a stored ownership proof *)
       <<TopLeaves(s) \cap VestUnproven # {}, "vesting-target-unproven">>,
       (* D (app.go ExtensionOptionChecker = HasDynamicFeeExtensionOption): the Cosmos lane knows exactly one
          critical option, the dynamic-fee option; D (SDK): non-critical options are ignored *)
       <<\E o \in Range(CritOpts(s.ext)) : o # "dyn", "cosmos-unknown-ext">>,
       (* D (SDK x/auth ante): every signer signs, in every mode (simulate included: measured on the pinned SDK,
          a transaction without signer infos is refused with "no signatures supplied") *)
       <<~(s.sigs /\ s.sinfos), "cosmos-unsigned">>,
       (* outside the enumerated domain: Cosmos-lane fee payer / granter semantics are not C07's business *)
       <<s.payer \/ s.granter \/ s.fee # "eq" \/ s.gas # "eq" \/ s.ethType # "legacy" \/ s.timeout \notin {"zero", "future"}, "outside-domain">> >>

Reasons(s) == IF SoleEth(s) THEN EthReasons(s) ELSE CosmosReasons(s)

Reason(s) ==
  LET rs == Reasons(s) IN
  IF \E i \in 1..Len(rs) : rs[i][1]
    THEN rs[CHOOSE i \in 1..Len(rs) : rs[i][1] /\ \A k \in 1..(i - 1) : ~rs[k][1]][2]
    ELSE ""

(* the acceptance rule proper: what a node must do with the shape when it meets it for the first time *)
Admissible(s) == Reason(s) = ""

(***************************************************************************)
(* Modes.  check, simulate and deliver meet a transaction "for the first   *)
(* time": the rule applies as it stands.  Re-check is different: CometBFT  *)
(* re-checks only transactions that are in the mempool, i.e. that passed   *)
(* check with the very same bytes, hence the very same shape.  Every       *)
(* condition above is a function of the shape alone (not of the state),    *)
(* except the ownership proof, which can only appear, never disappear      *)
(* (C16 ProofsFinal).  So a shape that check refuses never reaches         *)
(* re-check, and what re-check would do with it is not constrained by the  *)
(* property ("any").  evermint uses this: validate-basic is skipped on     *)
(* re-check by design.  A shape that check admits must still be admitted.  *)
(***************************************************************************)
Verdict(s) ==
  IF Admissible(s) THEN "accept"
  ELSE IF s.mode = "recheck" THEN "any"
  ELSE "reject"

(* the EVM message handler may run only for an admitted Ethereum-lane transaction, where messages execute *)
MayRunEvm(s)  == EthLane(s) /\ Verdict(s) # "reject"
MustRunEvm(s) == EthLane(s) /\ Verdict(s) = "accept" /\ s.mode \in {"simulate", "deliver"}

(***************************************************************************)
(* Well-formed shapes (domain of the model; used by the trace spec).       *)
(***************************************************************************)
(* fee / gas: the declared fee amount / gas limit relative to the embedded Ethereum transaction's: equal, one more,
   one less, (fee only) the same amount of another denomination, no fee coin at all.  ethType: legacy, EIP-1559
   dynamic-fee, EIP-2930 access-list transaction (its fee is gas x price, resp. gas x fee cap). *)
(* Magnitude classes of the numeric envelope fields (symbolic: the harness maps them to the real numbers; they never
   enter TLC's 32-bit integers):
     timeout height  zero | one (1) | cur (current height) | future (current + 10^6) | maxi64 (2^63-1) | two63 (2^63)
                     | two63k (2^63 + 12345) | maxu64 (2^64-1)
     fee amount      eq | more | less | denom | none | zero (an explicit 0 coin) | one | maxi64 | two63 | maxu64
     gas limit       eq | more | less | zero | one | maxi64 | two63 | maxu64
   For the Ethereum lane the rule knows "zero / non-zero" (timeout) and "equal / not equal" (fee, gas) only: every other
   class must be refused, whatever its magnitude.  The Cosmos lane is enumerated with timeout zero / future only. *)
TimeoutVars == {"zero", "one", "cur", "future", "maxi64", "two63", "two63k", "maxu64"}
Magnitudes  == {"zero", "one", "maxi64", "two63", "maxu64"}
AllFeeVars == {"eq", "more", "less", "denom", "none"} \cup Magnitudes
AllGasVars == {"eq", "more", "less"} \cup Magnitudes
EthTypes   == {"legacy", "dyn", "al"}
ShapeFields == {"msgs", "ext", "sigs", "sinfos", "payer", "granter", "memo", "timeout", "fee", "gas", "ethType", "mode"}

WellFormed(s) ==
  /\ DOMAIN s = ShapeFields
  /\ s.ext \in ExtKinds /\ s.mode \in Modes
  /\ \A f \in {"sigs", "sinfos", "payer", "granter", "memo"} : s[f] \in BOOLEAN
  /\ s.timeout \in TimeoutVars
  /\ s.fee \in AllFeeVars /\ s.gas \in AllGasVars /\ s.ethType \in EthTypes
  /\ \A i \in 1..Len(s.msgs) :
       LET el == s.msgs[i] IN
       /\ DOMAIN el = {"d", "leaf"}
       /\ el.d \in 0..16
       /\ Len(el.leaf) >= 1
       /\ el.d = 0 => Len(el.leaf) = 1
       /\ LeavesOf(el) \subseteq LeafKinds

(***************************************************************************)
(* The shape space enumerated by the design run and replayed, vector by    *)
(* vector, against the real ante handler.  Factored (DESIGN.md C07):       *)
(*  EthFull      sole Ethereum message x every ext kind x 2^6 envelope     *)
(*               flags x fee variants x gas variants x 4 modes             *)
(*  EthTyped     the same for EIP-1559 / EIP-2930 transactions (clean      *)
(*               envelope, every fee / gas variant)                        *)
(*  EthBounds    clean legacy envelope x every magnitude class of timeout  *)
(*               height, fee amount and gas limit (0, 1, 2^63-1, 2^63,     *)
(*               2^64-1, ...) x 4 modes                                    *)
(*  Singles      every other single element (every leaf kind at every      *)
(*               exec depth 0..MaxD, sibling pairs inside exec) x ext kind *)
(*               x signed/unsigned x modes; plus memo/timeout variants     *)
(*  Empty        no message                                                *)
(*  Pairs        two elements without a top-level Ethereum message         *)
(*               ((PairElems \ eth)^2); PairsEth: an Ethereum message      *)
(*               beside any element of PairElems, both orders, every ext   *)
(*               kind, signed / unsigned (unsigned + ext "eth" is the      *)
(*               "two eth messages in an Ethereum envelope" case)          *)
(*  Triples      three elements over TripleElems                           *)
(***************************************************************************)
CONSTANTS MaxD, PairD, PairLeaves, TripleElemSet, FeeVars, GasVars

ST(msgs, ext, sigs, sinfos, payer, granter, memo, timeout, fee, gas, typ, mode) ==
  [msgs |-> msgs, ext |-> ext, sigs |-> sigs, sinfos |-> sinfos, payer |-> payer, granter |-> granter,
   memo |-> memo, timeout |-> timeout, fee |-> fee, gas |-> gas, ethType |-> typ, mode |-> mode]
S(msgs, ext, sigs, sinfos, payer, granter, memo, timeout, fee, gas, mode) ==
  ST(msgs, ext, sigs, sinfos, payer, granter, memo, timeout, fee, gas, "legacy", mode)

Cos(msgs, ext, sg, memo, timeout, mode) == S(msgs, ext, sg, sg, FALSE, FALSE, memo, IF timeout THEN "future" ELSE "zero", "eq", "eq", mode)

BadSiblings == {"eth", "vest1", "vest2", "vest3", "vest1p", "g_eth", "g_vest1"}
SiblingPairs == {<<"send", "send">>} \cup {<<"send", b>> : b \in BadSiblings} \cup {<<b, "send">> : b \in BadSiblings}

TopElems == {E(0, <<k>>) : k \in LeafKinds}
AllElems == TopElems \cup {E(d, <<k>>) : d \in 1..MaxD, k \in LeafKinds} \cup {E(d, p) : d \in 1..MaxD, p \in SiblingPairs}
PairElems == TopElems \cup {E(d, <<k>>) : d \in 1..PairD, k \in PairLeaves}

EthFull == {S(<<EthElem>>, x, a, b, c, d, e, f, g, h, m) :
              x \in ExtKinds, a \in BOOLEAN, b \in BOOLEAN, c \in BOOLEAN, d \in BOOLEAN,
              e \in BOOLEAN, f \in {"zero", "one"}, g \in FeeVars, h \in GasVars, m \in Modes}
(* the other Ethereum transaction types: clean envelope, every fee / gas variant *)
EthTyped == {ST(<<EthElem>>, x, FALSE, FALSE, FALSE, FALSE, FALSE, "zero", g, h, t, m) :
              x \in {"none", "eth"}, g \in AllFeeVars, h \in AllGasVars, t \in EthTypes \ {"legacy"}, m \in Modes}
(* boundary magnitudes: otherwise clean legacy envelope, every timeout class x every fee class x every gas class
   (minus the combinations EthFull already has) *)
EthBounds == {S(<<EthElem>>, x, FALSE, FALSE, FALSE, FALSE, FALSE, t, g, h, m) :
              x \in {"none", "eth"}, t \in TimeoutVars, g \in AllFeeVars, h \in AllGasVars, m \in Modes}
             \ {S(<<EthElem>>, x, FALSE, FALSE, FALSE, FALSE, FALSE, t, g, h, m) :
              x \in {"none", "eth"}, t \in {"zero", "one"}, g \in FeeVars, h \in GasVars, m \in Modes}

Singles == {Cos(<<el>>, x, sg, FALSE, FALSE, m) : el \in AllElems \ {EthElem}, x \in ExtKinds, sg \in BOOLEAN, m \in Modes}
SinglesFlags == {Cos(<<el>>, "none", TRUE, mt[1], mt[2], m) :
                   el \in AllElems \ {EthElem}, mt \in {<<TRUE, FALSE>>, <<FALSE, TRUE>>, <<TRUE, TRUE>>}, m \in Modes}
Empty == {Cos(<<>>, x, sg, FALSE, FALSE, m) : x \in ExtKinds, sg \in BOOLEAN, m \in Modes}
Pairs == {Cos(<<e1, e2>>, "none", TRUE, FALSE, FALSE, m) : e1 \in PairElems \ {EthElem}, e2 \in PairElems \ {EthElem}, m \in Modes}
PairsEth == {Cos(p, x, sg, FALSE, FALSE, m) :
               p \in {<<EthElem, e>> : e \in PairElems} \cup {<<e, EthElem>> : e \in PairElems},
               x \in ExtKinds, sg \in BOOLEAN, m \in Modes}
Triples == {Cos(<<e1, e2, e3>>, "none", TRUE, FALSE, FALSE, m) :
              e1 \in TripleElemSet, e2 \in TripleElemSet, e3 \in TripleElemSet, m \in Modes}

(* the factors are pairwise disjoint by construction *)
ShapeSpace == EthFull \cup EthTyped \cup EthBounds \cup Singles \cup SinglesFlags \cup Empty \cup Pairs \cup PairsEth \cup Triples


(***************************************************************************)
(* Enumeration of the space as a sequence (the B1 vector ids).             *)
(***************************************************************************)
(* the factors of the space are pairwise disjoint: normalise each on its own (the union of un-normalised set
   comprehensions is very slow in TLC) and concatenate; DisjointFactors re-checks the disjointness by counting *)
ShapeSeq == SetToSeq(EthFull) \o SetToSeq(EthTyped) \o SetToSeq(EthBounds) \o SetToSeq(Singles) \o SetToSeq(SinglesFlags) \o SetToSeq(Empty)
              \o SetToSeq(Pairs) \o SetToSeq(PairsEth) \o SetToSeq(Triples)
DisjointFactors == Cardinality(Range(ShapeSeq)) = Len(ShapeSeq)


(* constants of the two tiers *)
QuickPairLeaves   == {"send", "eth", "vest1", "g_eth"}
QuickTripleElems  == {E(0, <<"eth">>), E(0, <<"send">>), E(0, <<"vest1">>), E(0, <<"vest1p">>), E(0, <<"g_eth">>),
                      E(1, <<"eth">>), E(1, <<"send">>), E(3, <<"send">>)}
ThoroughPairLeaves  == LeafKinds
ThoroughTripleElems == TopElems \cup {E(1, <<"eth">>), E(1, <<"send">>), E(2, <<"vest2">>), E(2, <<"send">>), E(3, <<"send">>),
                                     E(1, <<"g_eth">>), E(2, <<"g_send">>), E(1, <<"vest1p">>), E(2, <<"other">>), E(1, <<"send", "eth">>)}


Expect(s) == [verdict |-> Verdict(s), lane |-> Lane(s), reason |-> Reason(s)]
VectorSeq == LET sq == ShapeSeq IN [i \in 1..Len(sq) |-> [vec |-> i, shape |-> sq[i], expect |-> Expect(sq[i])]]


(***************************************************************************)
(* The property, sentence by sentence, over one shape (the design run      *)
(* evaluates them on every shape of the space).                            *)
(***************************************************************************)
(* "Every transaction is handled by exactly one lane." *)
ExactlyOneLane(s) == EthLane(s) # CosmosLane(s)

(* "A transaction containing an Ethereum message is accepted only if that is its sole message and it carries no
   Cosmos signatures or signer infos, no fee payer or granter, no memo, no timeout height and no foreign extension
   option, and its declared fee and gas limit equal those of the embedded Ethereum transaction." *)
EthAcceptedOnlyIfClean(s) ==
  ("eth" \in TopLeaves(s) /\ Verdict(s) = "accept") =>
     /\ Len(s.msgs) = 1
     /\ ~s.sigs /\ ~s.sinfos /\ ~s.payer /\ ~s.granter /\ ~s.memo /\ s.timeout = "zero"
     /\ Range(CritOpts(s.ext)) \cup Range(NonCritOpts(s.ext)) \subseteq {"eth"}
     /\ s.fee = "eq" /\ s.gas = "eq"

(* "Ethereum messages (and the configured vesting-creation messages) can never be executed through the Cosmos lane -
   neither listed beside other messages nor nested at any depth inside authorisation-exec messages - and grants for
   them are refused."  (Top-level vesting creation is the Cosmos lane's own business, under C16's proof rule.) *)
NoRestrictedThroughCosmosLane(s) ==
  (CosmosLane(s) /\ Verdict(s) = "accept") =>
     /\ "eth" \notin AllLeaves(s)
     /\ NestedLeaves(s) \cap VestKinds = {}
     /\ AllLeaves(s) \cap RestrictedGrants = {}
     /\ TopLeaves(s) \cap VestUnproven = {}

(* "any nesting of exec messages up to and beyond the depth limit" *)
DepthLimit(s) == (Levels(s) > MaxNestedLevels) => Verdict(s) # "accept"

(* the verdict is a function of the shape, not of the mode - except the re-check leniency, which is granted only
   to shapes no first-time mode admits *)
AtMode(s, m) == [s EXCEPT !.mode = m]
ModeIndependence(s) ==
  /\ \A m \in Modes \ {"recheck"} : Verdict(AtMode(s, m)) = Verdict(AtMode(s, "check"))
  /\ Verdict(AtMode(s, "recheck")) = "any" <=> Verdict(AtMode(s, "check")) = "reject"
  /\ Verdict(AtMode(s, "check")) = "accept" => Verdict(AtMode(s, "recheck")) = "accept"

(* the EVM handler runs only for the Ethereum lane *)
EvmOnlyInEthLane(s) == (MustRunEvm(s) => MayRunEvm(s)) /\ (MayRunEvm(s) => SoleEth(s) /\ Lane(s) = "eth")

AllLaws(s) == /\ WellFormed(s)
              /\ ExactlyOneLane(s)
              /\ EthAcceptedOnlyIfClean(s)
              /\ NoRestrictedThroughCosmosLane(s)
              /\ DepthLimit(s)
              /\ ModeIndependence(s)
              /\ EvmOnlyInEthLane(s)
=============================================================================
