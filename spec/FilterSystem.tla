---------------------------- MODULE FilterSystem ----------------------------
(***************************************************************************)
(* C20 clause (a): no interleaving of concurrent JSON-RPC requests,        *)
(* subscriptions and event deliveries crashes, deadlocks or corrupts the   *)
(* node.  The module is shaped like the code it is bound to:               *)
(*                                                                         *)
(*   rpc/ethereum/pubsub/pubsub.go            memEventBus                  *)
(*   rpc/namespaces/ethereum/eth/filters/                                  *)
(*        filter_system.go                    EventSystem                  *)
(*        subscription.go                     Subscription.Unsubscribe     *)
(*        api.go                              PublicFilterAPI              *)
(*   server/indexer_service.go                EVMIndexerService.OnStart    *)
(*                                                                         *)
(* One PlusCal label = one linearisation point of the code = one hook      *)
(* `verifhook.At(proc, label)` (table at the end of the module).  Short    *)
(* critical sections that contain no blocking operation and no nested lock *)
(* acquisition (all of memEventBus) are one atomic label; the two locks    *)
(* that are held across blocking operations (EventSystem.indexMux, an      *)
(* RWMutex, and PublicFilterAPI.filtersMu) are explicit variables.         *)
(*                                                                         *)
(* Go channel semantics: a send on a closed channel and a close of a       *)
(* closed channel panic (`crashed`); unbuffered request channels with      *)
(* several blocked senders are bags of pending senders; the topic channel  *)
(* (one sender, one receiver) is [closed, offer] with offer = 0 none,      *)
(* 1 = sender is in its select, 2 = receiver took the value.               *)
(*                                                                         *)
(* The code of the pinned tree violates the properties below.  Following   *)
(* DESIGN.md 2.7 the property-respecting behaviour is the main path and    *)
(* each defect is a named deviation enabled by its id in `Known`:          *)
(*   D11  consumeEvents releases indexMux before sending on the topic      *)
(*        channel (uninstall may close it in between: panic)               *)
(*   D12  a publishTopic goroutine whose source was closed closes the      *)
(*        subscribers of, and deletes, a topic that was re-registered      *)
(*   D25  subscribe() joins an existing topic without registering in the   *)
(*        index: the uninstall of the installing subscription tears the    *)
(*        topic down under the joined ones                                 *)
(*   D26  the consumer goroutine of NewPendingTransactionFilter does not   *)
(*        return after <-errCh: it spins on filtersMu forever              *)
(*   D27  indexer service: both loops re-broadcast the quit signal into a  *)
(*        channel of capacity 1; the second sender blocks forever          *)
(* The real tree is `Known = AllDefects` until the proposed fixes are in.  *)
(***************************************************************************)
EXTENDS Integers, Sequences, FiniteSets, TLC

CONSTANTS
  NTopics,      \* topics (= CometBFT queries = filter types) 1..NTopics
  NClients,     \* client goroutines
  Rounds,       \* subscriptions per client (one after the other)
  MaxEvents,    \* events the Comet source emits
  MaxPolls,     \* GetFilterChanges calls per subscription
  MaxTicks,     \* timeoutLoop ticks
  MaxFires,     \* filter deadline timers that fire
  Api,          \* TRUE: clients use PublicFilterAPI (NewBlockFilter...), FALSE: EventSystem directly
  Known,        \* enabled deviations
  SpinTopics,   \* topics whose API consumer is the pending-transaction one (D26)
  BufCap,       \* cap of the modelled backlog of a subscriber channel
  RespCap,      \* cap of the modelled backlog of ResponsesCh (senders blocked in the send)
  WithIndexer,  \* model the indexer service loops
  MaxHeaders,   \* block headers delivered to the indexer service
  Foreign,      \* TRUE: API clients also uninstall OTHER clients' filters (several clients, one filter id)
  TraceMode     \* TRUE in trace validation: admit the hook-order commutations of a rendez-vous (sender's hook first)

AllDefects == {"D11", "D12", "D25", "D26", "D27", "SplitUninstall"}
ASSUME Known \subseteq AllDefects

Topics  == 1..NTopics
Subs    == 1..(NClients * Rounds)
Chans   == 1..(NClients * Rounds)          \* channel generations: at most one install per subscription
SubOf(cl, r) == (cl - 1) * Rounds + r

(* process identifiers (PlusCal wants one type) *)
EL == 1  CE == 2  SRC == 3  TL == 4  IH == 5  IM == 6  IQ == 7
PT(c) == 10 + c
CL(i) == 30 + i
CO(s) == 40 + s
UN(s) == 60 + s
PTs == {PT(c) : c \in Chans}
CLs == {CL(i) : i \in 1..NClients}
COs == {CO(s) : s \in Subs}
UNs == {UN(s) : s \in Subs}

Min(a, b) == IF a < b THEN a ELSE b

(* --algorithm FilterSystem {
variables
  crashed = "no";                                   \* "no" or the Go panic message class
  \* ---- memEventBus (pubsub.go)
  busTopics = [t \in Topics |-> 0];                 \* m.topics[name] = src channel (0: absent)
  busSubs   = [t \in Topics |-> {}];                \* m.subscribers[name]
  topW = FALSE;                                     \* m.topicsMux held across two labels (fixed publishTopic only)
  devUsed = {};                                     \* ghost: deviations whose defective behaviour was exercised
  subCh     = [s \in Subs |-> [closed |-> FALSE, buf |-> 0]];   \* the channel bus.Subscribe made
  \* ---- EventSystem (filter_system.go)
  idxR = 0; idxW = FALSE;                           \* es.indexMux
  index = [t \in Topics |-> {}];                    \* es.index[typ] (typ <-> event is 1:1)
  topicChans = [t \in Topics |-> 0];                \* es.topicChans[event]
  chans = [c \in Chans |-> [closed |-> FALSE, offer |-> 0, inflight |-> 0, topic |-> 0]];
  nextChan = 1;
  installQ = {}; uninstallQ = {};                   \* senders blocked in es.install <- / es.uninstall <-
  installed = [s \in Subs |-> FALSE];               \* close(f.installed)
  errClosed = [s \in Subs |-> FALSE];               \* close(f.err)
  subTopic  = [s \in Subs |-> 0];
  subState  = [s \in Subs |-> "new"];               \* ghost: new | live | failed | unsub | expired
  unTotal   = [s \in Subs |-> 0];                   \* ghost: Unsubscribe calls ever made for the subscription
  unReq     = [s \in Subs |-> 0];                   \* Unsubscribe goroutines not yet through their send
  resp = <<>>; emitted = 0;                         \* WSClient.ResponsesCh
  \* ---- PublicFilterAPI (api.go)
  fmu = 0;                                          \* filtersMu holder
  filters = {};                                     \* api.filters
  timer = [s \in Subs |-> "none"];                  \* f.deadline: none | running | fired | drained
  coSpawned = {};
  ticks = 0; fires = 0;
  \* ---- EVMIndexerService.OnStart (indexer_service.go)
  latestBlock = 0; lastIndexed = 0; hdr = <<>>; newBlockSig = 0; quitBuf = 0; quit = FALSE;

define {
  LiveSubs(t) == {s \in Subs : subState[s] = "live" /\ subTopic[s] = t}

  NoCrash == crashed = "no"

  (* at most one Unsubscribe per installed subscription ever reaches eventLoop (it ends every uninstall with close(f.err)) *)
  NoDoubleUninstall == \A s \in Subs : unTotal[s] <= 1

  (* a topic with a live subscriber stays registered, and the subscriber stays connected *)
  NoLostTopic == \A s \in Subs : subState[s] = "live" =>
                    /\ ~subCh[s].closed
                    /\ s \in busSubs[subTopic[s]]
                    /\ busTopics[subTopic[s]] # 0
                    /\ (Api => s \in filters)

  (* lock discipline *)
  LockInv == /\ idxR >= 0 /\ (idxW => idxR = 0)

  IndexerInv == lastIndexed <= latestBlock

  (* nobody sits in GetFilterChanges' <-f.deadline.C on a timer that was already drained (it would hold filtersMu for ever) *)
  NoDrainBlock == \A c \in CLs : pc[c] # "g_drain"
}

macro Panic(msg) { crashed := msg }

\* ------------------------------------------------------------------ eventLoop
process (eventLoop = EL)
variables f = 0; ft = 0; ech = 0; addOk = FALSE; inUse = FALSE;
{
el_wait:
  while (TRUE) {
    either {
      \* case f := <-es.install: es.indexMux.Lock(); es.index[f.typ][f.id] = f        (hook i.locked)
      await installQ # {} /\ idxR = 0 /\ ~idxW;
      if (pc[CE] \in {"ce_send", "ce_sent"}) { devUsed := devUsed \cup {"D11"} };
      with (s \in installQ) { f := s; installQ := installQ \ {s} };
      ft := subTopic[f];
      idxW := TRUE;
      index[ft] := index[ft] \cup {f};
      if ("D25" \notin Known /\ topicChans[ft] # 0) {
        \* property-respecting design: an install for a topic that exists only registers in the index
        goto el_i_unlock0;
      };
el_i_addchk:                                        \* AddTopic: topicsMux.RLock; _, ok := m.topics[name]
      await ~topW;
      addOk := busTopics[ft] = 0;
      if (~addOk) { goto el_i_unlock };
el_i_add:                                           \* AddTopic: topicsMux.Lock; m.topics[name] = src; go publishTopic
      await ~topW;
      ech := nextChan; nextChan := nextChan + 1;
      busTopics[ft] := ech;
      chans[ech].topic := ft;
el_i_unlock:                                        \* es.topicChans[f.event] = ch; es.indexMux.Unlock()
      if (addOk) { topicChans[ft] := ech };
      idxW := FALSE;
      goto el_i_done;
el_i_unlock0:
      idxW := FALSE;
el_i_done:                                          \* close(f.installed)
      installed[f] := TRUE;
      f := 0; ft := 0; ech := 0; addOk := FALSE;
    } or {
      \* case f := <-es.uninstall: es.indexMux.Lock(); delete(es.index[f.typ], f.id); channelInUse?   (hook u.locked)
      await uninstallQ # {} /\ idxR = 0 /\ ~idxW;
      if (pc[CE] \in {"ce_send", "ce_sent"}) { devUsed := devUsed \cup {"D11"} };
      with (s \in uninstallQ) { f := s; uninstallQ := uninstallQ \ {s} };
      ft := subTopic[f];
      idxW := TRUE;
      index[ft] := index[ft] \ {f};
      inUse := index[ft] # {};
      ech := topicChans[ft];
      if (inUse \/ ech = 0) { goto el_u_unlock };
el_u_remove:                                        \* es.eventBus.RemoveTopic(f.event)
      await ~topW;
      busTopics[ft] := 0;
el_u_close:                                         \* close(ch); delete(es.topicChans, f.event)
      if (chans[ech].closed) { Panic("close of closed channel") }
      else { chans[ech].closed := TRUE };
      topicChans[ft] := 0;
el_u_unlock:                                        \* es.indexMux.Unlock()
      idxW := FALSE;
el_u_done:                                          \* close(f.err)
      if (errClosed[f]) { Panic("close of closed channel") }
      else { errClosed[f] := TRUE };
      f := 0; ft := 0; ech := 0; inUse := FALSE;
    }
  }
}

\* ------------------------------------------------------------------ consumeEvents
process (consumeEvents = CE)
variables cch = 0;
{
ce_lookup:                                          \* rpcResp := <-ResponsesCh; RLock; ch, ok := es.topicChans[ev.Query]
  while (TRUE) {
    await resp # <<>> /\ ~idxW;
    cch := topicChans[Head(resp)]; resp := Tail(resp);
    if ("D11" \notin Known /\ cch # 0) { idxR := idxR + 1 };   \* else RUnlock at once (as the code is)
    if (cch # 0) {
ce_send:                                            \* select { case ch <- ev: ; case <-t.C: }  (entering)
      if (chans[cch].closed) { Panic("send on closed channel") }
      else { chans[cch].offer := 1 };
ce_sent:                                            \* the select returned / panicked
      either { await chans[cch].offer = 2; chans[cch].offer := 0 }             \* delivered (receiver observed first)
      or     { await TraceMode /\ chans[cch].offer = 1;                         \* delivered (sender's hook first)
               chans[cch] := [chans[cch] EXCEPT !.offer = 0, !.inflight = @ + 1] }
      or     { await chans[cch].offer = 1 /\ ~chans[cch].closed; chans[cch].offer := 0 }  \* timer: dropped
      or     { await chans[cch].offer = 1 /\ chans[cch].closed; Panic("send on closed channel") };
      if ("D11" \notin Known) { idxR := idxR - 1 };
      cch := 0;
    }
  }
}

\* ------------------------------------------------------------------ publishTopic (one goroutine per AddTopic)
process (publishTopic \in PTs)
variables pch = self - 10; ptOk = FALSE;
{
pt_loop:                                            \* msg, ok := <-src         (the goroutine exists once AddTopic made it)
  while (TRUE) {
    either { await chans[pch].topic # 0 /\ chans[pch].inflight = 0 /\ chans[pch].offer = 1; chans[pch].offer := 2; ptOk := TRUE }
    or     { await chans[pch].topic # 0 /\ chans[pch].inflight > 0; chans[pch].inflight := chans[pch].inflight - 1; ptOk := TRUE }
    or     { await chans[pch].topic # 0 /\ chans[pch].closed /\ chans[pch].inflight = 0; ptOk := FALSE };  \* (a sender still in its select panics)
    if (ptOk) {
pt_pub:                                             \* publishAllSubscribers: RLock; select { case sub <- msg: default: }
      if (\E x \in busSubs[chans[pch].topic] : subCh[x].closed) { Panic("send on closed channel") }
      else { subCh := [x \in Subs |-> IF x \in busSubs[chans[pch].topic] THEN [subCh[x] EXCEPT !.buf = Min(@ + 1, BufCap)] ELSE subCh[x]] };
      ptOk := FALSE;
    } else {
      if ("D12" \notin Known) {
pt_chk:                                             \* property-respecting design: topicsMux.Lock; is the topic still ours?
        await ~topW;
        if (busTopics[chans[pch].topic] # 0 /\ busTopics[chans[pch].topic] # pch) { goto pt_done }
        else { topW := TRUE };
      };
pt_closeall:                                        \* closeAllSubscribers(name)
      if (busTopics[chans[pch].topic] # 0 /\ busTopics[chans[pch].topic] # pch /\ busSubs[chans[pch].topic] # {}) { devUsed := devUsed \cup {"D12"} };
      if (\E x \in busSubs[chans[pch].topic] : subCh[x].closed) { Panic("close of closed channel") }
      else { subCh := [x \in Subs |-> IF x \in busSubs[chans[pch].topic] THEN [subCh[x] EXCEPT !.closed = TRUE] ELSE subCh[x]] };
      busSubs[chans[pch].topic] := {};
pt_del:                                             \* [topicsMux.Lock;] delete(m.topics, name); Unlock
      await topW \/ "D12" \in Known;
      if (busTopics[chans[pch].topic] # 0 /\ busTopics[chans[pch].topic] # pch) { devUsed := devUsed \cup {"D12"} };
      busTopics[chans[pch].topic] := 0;
      topW := FALSE;
      goto pt_done;
    }
  };
pt_done: skip;
}

\* ------------------------------------------------------------------ clients
process (client \in CLs)
variables round = 1; cs = SubOf(self - 30, 1); ct = 0; seen = FALSE; ok = FALSE; polls = 0; found = FALSE; fx = 0;
{
c_begin:
  while (round <= Rounds) {
    if (Api) {
c_flock:                                            \* NewBlockFilter: api.filtersMu.Lock() (held to return)
      await fmu = 0; fmu := self;
    };
c_topics:                                           \* es.subscribe: existingSubs := es.eventBus.Topics()
    await ~topW;
    with (tt \in Topics) { ct := tt };
    subTopic[cs] := ct;
    if ("D25" \notin Known) {
      \* property-respecting design: every subscription is installed (the Topics() snapshot decides nothing)
      installQ := installQ \cup {cs}; goto c_bsub1;
    } else {
      seen := busTopics[ct] # 0;
      if (seen) { devUsed := devUsed \cup {"D25"}; goto c_bsub1 };
    };
c_inst:                                             \* [cometWSClient.Subscribe]; es.install <- sub
    installQ := installQ \cup {cs};
c_bsub1:                                            \* <-sub.installed; eventBus.Subscribe: topicsMux.RLock; _, ok := m.topics[name]
    await (seen \/ installed[cs]) /\ ~topW;
    ok := busTopics[ct] # 0;
    if (~ok) { subState[cs] := "failed"; if (Api) { goto c_funlock } else { goto c_next } };
c_bsub2:                                            \* subscribersMux.Lock; m.subscribers[name][id] = ch
    busSubs[ct] := busSubs[ct] \cup {cs};
    if (~Api) { subState[cs] := "live" };
    if (Api) {
c_fadd:                                             \* api.filters[id] = &filter{...}; go consumer
      filters := filters \cup {cs}; timer[cs] := "running"; coSpawned := coSpawned \cup {cs};
      subState[cs] := "live";
c_funlock:                                          \* deferred api.filtersMu.Unlock()
      fmu := 0;
      if (~ok) { goto c_next };
c_use:
      either { await polls < MaxPolls; polls := polls + 1;
g_lock:                                             \* GetFilterChanges: Lock; f, found := api.filters[id]; if !f.deadline.Stop() { <-f.deadline.C }; Reset
               await fmu = 0; fmu := self;
               found := cs \in filters;
               if (found /\ timer[cs] = "drained") {
g_drain:         await FALSE;                       \* <-f.deadline.C on a timer somebody else drained: blocks for ever, holding filtersMu
               } else if (found) { timer[cs] := "running" };
g_unlock:
               fmu := 0;
               goto c_use }
      or     {
u_lock:                                             \* UninstallFilter: Lock; f, found := filters[id]; delete; Unlock; f.s.Unsubscribe
               await fmu = 0;
               found := cs \in filters;
               if (subState[cs] = "live") { subState[cs] := "unsub" };
               if (found) { unReq[cs] := unReq[cs] + 1; unTotal[cs] := unTotal[cs] + 1 };   \* go func() { es.uninstall <- s }
               if (~("SplitUninstall" \in Known /\ found)) { filters := filters \ {cs}; goto c_next };
u_del:                                              \* deviation SplitUninstall: the delete in a second critical section
               await fmu = 0;
               filters := filters \ {cs};
               goto c_next }
      or     {                                      \* UninstallFilter(id of ANOTHER client's filter): same code, foreign id
               await Foreign /\ polls < MaxPolls /\ (coSpawned \ {cs}) # {};
               polls := polls + 1;
xu_lock:
               await fmu = 0;
               with (x \in coSpawned \ {cs}) { fx := x };
               found := fx \in filters;
               if (found) {
                 unReq[fx] := unReq[fx] + 1; unTotal[fx] := unTotal[fx] + 1;
                 if (subState[fx] = "live") { subState[fx] := "unsub" };
               };
               if (~("SplitUninstall" \in Known /\ found)) { filters := filters \ {fx}; goto c_use };
xu_del:
               await fmu = 0;
               filters := filters \ {fx};
               goto c_use }
      or     { goto c_next };                       \* abandon the filter (left to timeoutLoop)
    } else {
c_recv:                                             \* the rpc-subscription goroutine of NewHeads / Logs
      either { await subCh[cs].buf > 0; subCh[cs].buf := subCh[cs].buf - 1; goto c_recv }
      or     { await subCh[cs].closed; subCh[cs].buf := 0 }
      or     { skip };                              \* rpcSub.Err() / notifier.Closed()
c_unsub:                                            \* sub.Unsubscribe(api.events)
      subState[cs] := "unsub";
      unReq[cs] := unReq[cs] + 1; unTotal[cs] := unTotal[cs] + 1;
c_cancel:                                           \* deferred cancelSubs(): bus unsubscribe
      busSubs[ct] := busSubs[ct] \ {cs};
    };
c_next:
    round := round + 1; cs := IF round <= Rounds THEN SubOf(self - 30, round) ELSE 0;
    ct := 0; seen := FALSE; ok := FALSE; found := FALSE; polls := 0; fx := 0;
  }
}

\* ------------------------------------------------------------------ Subscription.Unsubscribe goroutine(s)
process (unsub \in UNs)
{
un_send:                                            \* select { case es.uninstall <- s: ...}
  while (TRUE) {
    await unReq[self - 60] > 0;
    unReq[self - 60] := unReq[self - 60] - 1;
    uninstallQ := uninstallQ \cup {self - 60};
  }
}

\* ------------------------------------------------------------------ per-filter consumer goroutine (api.go)
process (consumer \in COs)
variables me = self - 40;
{
co_sel:
  while (TRUE) {
    either {                                        \* case ev, ok := <-headersCh (ok)
      await me \in coSpawned /\ subCh[me].buf > 0; subCh[me].buf := subCh[me].buf - 1;
      either { skip }                               \* event of another data type / undecodable tx: continue
      or {
co_ev:                                              \* filtersMu.Lock; append; Unlock
        await fmu = 0;
      }
    } or {                                          \* !ok
      await me \in coSpawned /\ subCh[me].closed; subCh[me].buf := 0;
co_closed:                                          \* filtersMu.Lock; delete(api.filters, id); Unlock; return
      await fmu = 0;
      filters := filters \ {me};
      goto co_exit;
    } or {                                          \* case <-errCh
      await me \in coSpawned /\ errClosed[me];
co_err:                                             \* filtersMu.Lock; delete(api.filters, id); Unlock; [return]
      await fmu = 0;
      filters := filters \ {me};
      if (~("D26" \in Known /\ subTopic[me] \in SpinTopics)) { goto co_exit } else { devUsed := devUsed \cup {"D26"} };
    }
  };
co_exit:                                            \* deferred cancelSubs()
  busSubs[subTopic[me]] := busSubs[subTopic[me]] \ {me};
}

\* ------------------------------------------------------------------ timeoutLoop + the filters' deadline timers
process (timeoutLoop = TL)
{
tl_idle:
  while (TRUE) {
    either {                                        \* a deadline timer fires (runtime)
      await Api /\ fires < MaxFires;
      with (x \in {y \in Subs : timer[y] = "running"}) { timer[x] := "fired" };
      fires := fires + 1;
    } or {                                          \* <-ticker.C; filtersMu.Lock
      await Api /\ ticks < MaxTicks /\ fmu = 0;
      ticks := ticks + 1;
      fmu := TL;
tl_sweep:                                           \* for id, f := range filters: select { case <-f.deadline.C: Unsubscribe; delete }
      \* one step per filter found expired, then the Unlock. (In trace validation the firing of a timer, which no hook
      \* observes, is merged into the sweep step that finds it fired: any running timer may turn out expired.)
      while (TRUE) {
        either {
          with (x \in {y \in filters : timer[y] = "fired" \/ (TraceMode /\ timer[y] = "running")}) {
            timer[x] := "drained";
            unReq[x] := unReq[x] + 1; unTotal[x] := unTotal[x] + 1;   \* f.s.Unsubscribe(api.events): go func() { es.uninstall <- s }
            if (subState[x] = "live") { subState[x] := "expired" };
            filters := filters \ {x};
          }
        } or {                                      \* api.filtersMu.Unlock()
          await TraceMode \/ {y \in filters : timer[y] = "fired"} = {};
          fmu := 0;
          goto tl_idle;
        }
      }
    }
  }
}

\* ------------------------------------------------------------------ Comet event source
process (source = SRC)
{
src_send:
  while (emitted < MaxEvents) {
    await Len(resp) < RespCap;
    with (tt \in Topics) { resp := Append(resp, tt) };
    emitted := emitted + 1;
  }
}

\* ------------------------------------------------------------------ indexer service: header loop
process (idxHeader = IH)
variables h = 0;
{
ih_sel:
  await WithIndexer;
ih_loop:
  while (TRUE) {
    either { await hdr # <<>>; h := Head(hdr); hdr := Tail(hdr);
ih_cmp:      if (h > latestBlock) {                 \* racy read
ih_set:        latestBlock := h;                    \* racy write
ih_sig:        if (newBlockSig = 0) { newBlockSig := 1 } } }
    or { await quit; goto ih_q }
    or { await quitBuf = 1; quitBuf := 0; goto ih_q };
  };
ih_q:                                               \* quitSignalReBroadcast <- struct{}{} (cap 1)
  if ("D27" \in Known) { await quitBuf = 0; quitBuf := 1 }
  else { quitBuf := 1 };
ih_done: skip;
}

\* ------------------------------------------------------------------ indexer service: index loop (OnStart's body)
process (idxMain = IM)
variables lb = 0;
{
im_start:
  await WithIndexer;
im_top:
  while (TRUE) {
    either { await quit; goto im_q }
    or { await quitBuf = 1; quitBuf := 0; goto im_q }
    or { await ~quit /\ quitBuf = 0 };
im_chk:                                             \* if lastIndexedBlock >= latestBlock (racy read)
    lb := latestBlock;
    if (lastIndexed >= lb) {
im_wait:                                            \* select { <-newBlockSignal; <-time.After; <-Quit: return }
      either { await newBlockSig = 1; newBlockSig := 0 }
      or { skip }
      or { await quit; goto im_done };
    } else {
im_index:                                           \* for i := lastIndexed+1; i <= latestBlock; i++ { IndexBlock; lastIndexed = i }
      while (lastIndexed < latestBlock) {
        lastIndexed := lastIndexed + 1;
      }
    }
  };
im_q:
  if ("D27" \in Known) { await quitBuf = 0; quitBuf := 1 }
  else { quitBuf := 1 };
im_done: skip;
}

\* ------------------------------------------------------------------ indexer environment: headers and Stop()
process (idxEnv = IQ)
variables sent = 0;
{
iq_start:
  await WithIndexer;
iq_loop:
  while (~quit) {
    either { await sent < MaxHeaders; sent := sent + 1; hdr := Append(hdr, sent) }
    or { quit := TRUE };
  }
}

} *)
\* BEGIN TRANSLATION
VARIABLES pc, crashed, busTopics, busSubs, topW, devUsed, subCh, idxR, idxW, 
          index, topicChans, chans, nextChan, installQ, uninstallQ, installed, 
          errClosed, subTopic, subState, unTotal, unReq, resp, emitted, fmu, 
          filters, timer, coSpawned, ticks, fires, latestBlock, lastIndexed, 
          hdr, newBlockSig, quitBuf, quit

(* define statement *)
LiveSubs(t) == {s \in Subs : subState[s] = "live" /\ subTopic[s] = t}

NoCrash == crashed = "no"


NoDoubleUninstall == \A s \in Subs : unTotal[s] <= 1


NoLostTopic == \A s \in Subs : subState[s] = "live" =>
                  /\ ~subCh[s].closed
                  /\ s \in busSubs[subTopic[s]]
                  /\ busTopics[subTopic[s]] # 0
                  /\ (Api => s \in filters)


LockInv == /\ idxR >= 0 /\ (idxW => idxR = 0)

IndexerInv == lastIndexed <= latestBlock


NoDrainBlock == \A c \in CLs : pc[c] # "g_drain"

VARIABLES f, ft, ech, addOk, inUse, cch, pch, ptOk, round, cs, ct, seen, ok, 
          polls, found, fx, me, h, lb, sent

vars == << pc, crashed, busTopics, busSubs, topW, devUsed, subCh, idxR, idxW, 
           index, topicChans, chans, nextChan, installQ, uninstallQ, 
           installed, errClosed, subTopic, subState, unTotal, unReq, resp, 
           emitted, fmu, filters, timer, coSpawned, ticks, fires, latestBlock, 
           lastIndexed, hdr, newBlockSig, quitBuf, quit, f, ft, ech, addOk, 
           inUse, cch, pch, ptOk, round, cs, ct, seen, ok, polls, found, fx, 
           me, h, lb, sent >>

ProcSet == {EL} \cup {CE} \cup (PTs) \cup (CLs) \cup (UNs) \cup (COs) \cup {TL} \cup {SRC} \cup {IH} \cup {IM} \cup {IQ}

Init == (* Global variables *)
        /\ crashed = "no"
        /\ busTopics = [t \in Topics |-> 0]
        /\ busSubs = [t \in Topics |-> {}]
        /\ topW = FALSE
        /\ devUsed = {}
        /\ subCh = [s \in Subs |-> [closed |-> FALSE, buf |-> 0]]
        /\ idxR = 0
        /\ idxW = FALSE
        /\ index = [t \in Topics |-> {}]
        /\ topicChans = [t \in Topics |-> 0]
        /\ chans = [c \in Chans |-> [closed |-> FALSE, offer |-> 0, inflight |-> 0, topic |-> 0]]
        /\ nextChan = 1
        /\ installQ = {}
        /\ uninstallQ = {}
        /\ installed = [s \in Subs |-> FALSE]
        /\ errClosed = [s \in Subs |-> FALSE]
        /\ subTopic = [s \in Subs |-> 0]
        /\ subState = [s \in Subs |-> "new"]
        /\ unTotal = [s \in Subs |-> 0]
        /\ unReq = [s \in Subs |-> 0]
        /\ resp = <<>>
        /\ emitted = 0
        /\ fmu = 0
        /\ filters = {}
        /\ timer = [s \in Subs |-> "none"]
        /\ coSpawned = {}
        /\ ticks = 0
        /\ fires = 0
        /\ latestBlock = 0
        /\ lastIndexed = 0
        /\ hdr = <<>>
        /\ newBlockSig = 0
        /\ quitBuf = 0
        /\ quit = FALSE
        (* Process eventLoop *)
        /\ f = 0
        /\ ft = 0
        /\ ech = 0
        /\ addOk = FALSE
        /\ inUse = FALSE
        (* Process consumeEvents *)
        /\ cch = 0
        (* Process publishTopic *)
        /\ pch = [self \in PTs |-> self - 10]
        /\ ptOk = [self \in PTs |-> FALSE]
        (* Process client *)
        /\ round = [self \in CLs |-> 1]
        /\ cs = [self \in CLs |-> SubOf(self - 30, 1)]
        /\ ct = [self \in CLs |-> 0]
        /\ seen = [self \in CLs |-> FALSE]
        /\ ok = [self \in CLs |-> FALSE]
        /\ polls = [self \in CLs |-> 0]
        /\ found = [self \in CLs |-> FALSE]
        /\ fx = [self \in CLs |-> 0]
        (* Process consumer *)
        /\ me = [self \in COs |-> self - 40]
        (* Process idxHeader *)
        /\ h = 0
        (* Process idxMain *)
        /\ lb = 0
        (* Process idxEnv *)
        /\ sent = 0
        /\ pc = [self \in ProcSet |-> CASE self = EL -> "el_wait"
                                        [] self = CE -> "ce_lookup"
                                        [] self \in PTs -> "pt_loop"
                                        [] self \in CLs -> "c_begin"
                                        [] self \in UNs -> "un_send"
                                        [] self \in COs -> "co_sel"
                                        [] self = TL -> "tl_idle"
                                        [] self = SRC -> "src_send"
                                        [] self = IH -> "ih_sel"
                                        [] self = IM -> "im_start"
                                        [] self = IQ -> "iq_start"]

el_wait == /\ pc[EL] = "el_wait"
           /\ \/ /\ installQ # {} /\ idxR = 0 /\ ~idxW
                 /\ IF pc[CE] \in {"ce_send", "ce_sent"}
                       THEN /\ devUsed' = (devUsed \cup {"D11"})
                       ELSE /\ TRUE
                            /\ UNCHANGED devUsed
                 /\ \E s \in installQ:
                      /\ f' = s
                      /\ installQ' = installQ \ {s}
                 /\ ft' = subTopic[f']
                 /\ idxW' = TRUE
                 /\ index' = [index EXCEPT ![ft'] = index[ft'] \cup {f'}]
                 /\ IF "D25" \notin Known /\ topicChans[ft'] # 0
                       THEN /\ pc' = [pc EXCEPT ![EL] = "el_i_unlock0"]
                       ELSE /\ pc' = [pc EXCEPT ![EL] = "el_i_addchk"]
                 /\ UNCHANGED <<uninstallQ, ech, inUse>>
              \/ /\ uninstallQ # {} /\ idxR = 0 /\ ~idxW
                 /\ IF pc[CE] \in {"ce_send", "ce_sent"}
                       THEN /\ devUsed' = (devUsed \cup {"D11"})
                       ELSE /\ TRUE
                            /\ UNCHANGED devUsed
                 /\ \E s \in uninstallQ:
                      /\ f' = s
                      /\ uninstallQ' = uninstallQ \ {s}
                 /\ ft' = subTopic[f']
                 /\ idxW' = TRUE
                 /\ index' = [index EXCEPT ![ft'] = index[ft'] \ {f'}]
                 /\ inUse' = (index'[ft'] # {})
                 /\ ech' = topicChans[ft']
                 /\ IF inUse' \/ ech' = 0
                       THEN /\ pc' = [pc EXCEPT ![EL] = "el_u_unlock"]
                       ELSE /\ pc' = [pc EXCEPT ![EL] = "el_u_remove"]
                 /\ UNCHANGED installQ
           /\ UNCHANGED << crashed, busTopics, busSubs, topW, subCh, idxR, 
                           topicChans, chans, nextChan, installed, errClosed, 
                           subTopic, subState, unTotal, unReq, resp, emitted, 
                           fmu, filters, timer, coSpawned, ticks, fires, 
                           latestBlock, lastIndexed, hdr, newBlockSig, quitBuf, 
                           quit, addOk, cch, pch, ptOk, round, cs, ct, seen, 
                           ok, polls, found, fx, me, h, lb, sent >>

el_i_addchk == /\ pc[EL] = "el_i_addchk"
               /\ ~topW
               /\ addOk' = (busTopics[ft] = 0)
               /\ IF ~addOk'
                     THEN /\ pc' = [pc EXCEPT ![EL] = "el_i_unlock"]
                     ELSE /\ pc' = [pc EXCEPT ![EL] = "el_i_add"]
               /\ UNCHANGED << crashed, busTopics, busSubs, topW, devUsed, 
                               subCh, idxR, idxW, index, topicChans, chans, 
                               nextChan, installQ, uninstallQ, installed, 
                               errClosed, subTopic, subState, unTotal, unReq, 
                               resp, emitted, fmu, filters, timer, coSpawned, 
                               ticks, fires, latestBlock, lastIndexed, hdr, 
                               newBlockSig, quitBuf, quit, f, ft, ech, inUse, 
                               cch, pch, ptOk, round, cs, ct, seen, ok, polls, 
                               found, fx, me, h, lb, sent >>

el_i_add == /\ pc[EL] = "el_i_add"
            /\ ~topW
            /\ ech' = nextChan
            /\ nextChan' = nextChan + 1
            /\ busTopics' = [busTopics EXCEPT ![ft] = ech']
            /\ chans' = [chans EXCEPT ![ech'].topic = ft]
            /\ pc' = [pc EXCEPT ![EL] = "el_i_unlock"]
            /\ UNCHANGED << crashed, busSubs, topW, devUsed, subCh, idxR, idxW, 
                            index, topicChans, installQ, uninstallQ, installed, 
                            errClosed, subTopic, subState, unTotal, unReq, 
                            resp, emitted, fmu, filters, timer, coSpawned, 
                            ticks, fires, latestBlock, lastIndexed, hdr, 
                            newBlockSig, quitBuf, quit, f, ft, addOk, inUse, 
                            cch, pch, ptOk, round, cs, ct, seen, ok, polls, 
                            found, fx, me, h, lb, sent >>

el_i_unlock == /\ pc[EL] = "el_i_unlock"
               /\ IF addOk
                     THEN /\ topicChans' = [topicChans EXCEPT ![ft] = ech]
                     ELSE /\ TRUE
                          /\ UNCHANGED topicChans
               /\ idxW' = FALSE
               /\ pc' = [pc EXCEPT ![EL] = "el_i_done"]
               /\ UNCHANGED << crashed, busTopics, busSubs, topW, devUsed, 
                               subCh, idxR, index, chans, nextChan, installQ, 
                               uninstallQ, installed, errClosed, subTopic, 
                               subState, unTotal, unReq, resp, emitted, fmu, 
                               filters, timer, coSpawned, ticks, fires, 
                               latestBlock, lastIndexed, hdr, newBlockSig, 
                               quitBuf, quit, f, ft, ech, addOk, inUse, cch, 
                               pch, ptOk, round, cs, ct, seen, ok, polls, 
                               found, fx, me, h, lb, sent >>

el_i_unlock0 == /\ pc[EL] = "el_i_unlock0"
                /\ idxW' = FALSE
                /\ pc' = [pc EXCEPT ![EL] = "el_i_done"]
                /\ UNCHANGED << crashed, busTopics, busSubs, topW, devUsed, 
                                subCh, idxR, index, topicChans, chans, 
                                nextChan, installQ, uninstallQ, installed, 
                                errClosed, subTopic, subState, unTotal, unReq, 
                                resp, emitted, fmu, filters, timer, coSpawned, 
                                ticks, fires, latestBlock, lastIndexed, hdr, 
                                newBlockSig, quitBuf, quit, f, ft, ech, addOk, 
                                inUse, cch, pch, ptOk, round, cs, ct, seen, ok, 
                                polls, found, fx, me, h, lb, sent >>

el_i_done == /\ pc[EL] = "el_i_done"
             /\ installed' = [installed EXCEPT ![f] = TRUE]
             /\ f' = 0
             /\ ft' = 0
             /\ ech' = 0
             /\ addOk' = FALSE
             /\ pc' = [pc EXCEPT ![EL] = "el_wait"]
             /\ UNCHANGED << crashed, busTopics, busSubs, topW, devUsed, subCh, 
                             idxR, idxW, index, topicChans, chans, nextChan, 
                             installQ, uninstallQ, errClosed, subTopic, 
                             subState, unTotal, unReq, resp, emitted, fmu, 
                             filters, timer, coSpawned, ticks, fires, 
                             latestBlock, lastIndexed, hdr, newBlockSig, 
                             quitBuf, quit, inUse, cch, pch, ptOk, round, cs, 
                             ct, seen, ok, polls, found, fx, me, h, lb, sent >>

el_u_remove == /\ pc[EL] = "el_u_remove"
               /\ ~topW
               /\ busTopics' = [busTopics EXCEPT ![ft] = 0]
               /\ pc' = [pc EXCEPT ![EL] = "el_u_close"]
               /\ UNCHANGED << crashed, busSubs, topW, devUsed, subCh, idxR, 
                               idxW, index, topicChans, chans, nextChan, 
                               installQ, uninstallQ, installed, errClosed, 
                               subTopic, subState, unTotal, unReq, resp, 
                               emitted, fmu, filters, timer, coSpawned, ticks, 
                               fires, latestBlock, lastIndexed, hdr, 
                               newBlockSig, quitBuf, quit, f, ft, ech, addOk, 
                               inUse, cch, pch, ptOk, round, cs, ct, seen, ok, 
                               polls, found, fx, me, h, lb, sent >>

el_u_close == /\ pc[EL] = "el_u_close"
              /\ IF chans[ech].closed
                    THEN /\ crashed' = "close of closed channel"
                         /\ chans' = chans
                    ELSE /\ chans' = [chans EXCEPT ![ech].closed = TRUE]
                         /\ UNCHANGED crashed
              /\ topicChans' = [topicChans EXCEPT ![ft] = 0]
              /\ pc' = [pc EXCEPT ![EL] = "el_u_unlock"]
              /\ UNCHANGED << busTopics, busSubs, topW, devUsed, subCh, idxR, 
                              idxW, index, nextChan, installQ, uninstallQ, 
                              installed, errClosed, subTopic, subState, 
                              unTotal, unReq, resp, emitted, fmu, filters, 
                              timer, coSpawned, ticks, fires, latestBlock, 
                              lastIndexed, hdr, newBlockSig, quitBuf, quit, f, 
                              ft, ech, addOk, inUse, cch, pch, ptOk, round, cs, 
                              ct, seen, ok, polls, found, fx, me, h, lb, sent >>

el_u_unlock == /\ pc[EL] = "el_u_unlock"
               /\ idxW' = FALSE
               /\ pc' = [pc EXCEPT ![EL] = "el_u_done"]
               /\ UNCHANGED << crashed, busTopics, busSubs, topW, devUsed, 
                               subCh, idxR, index, topicChans, chans, nextChan, 
                               installQ, uninstallQ, installed, errClosed, 
                               subTopic, subState, unTotal, unReq, resp, 
                               emitted, fmu, filters, timer, coSpawned, ticks, 
                               fires, latestBlock, lastIndexed, hdr, 
                               newBlockSig, quitBuf, quit, f, ft, ech, addOk, 
                               inUse, cch, pch, ptOk, round, cs, ct, seen, ok, 
                               polls, found, fx, me, h, lb, sent >>

el_u_done == /\ pc[EL] = "el_u_done"
             /\ IF errClosed[f]
                   THEN /\ crashed' = "close of closed channel"
                        /\ UNCHANGED errClosed
                   ELSE /\ errClosed' = [errClosed EXCEPT ![f] = TRUE]
                        /\ UNCHANGED crashed
             /\ f' = 0
             /\ ft' = 0
             /\ ech' = 0
             /\ inUse' = FALSE
             /\ pc' = [pc EXCEPT ![EL] = "el_wait"]
             /\ UNCHANGED << busTopics, busSubs, topW, devUsed, subCh, idxR, 
                             idxW, index, topicChans, chans, nextChan, 
                             installQ, uninstallQ, installed, subTopic, 
                             subState, unTotal, unReq, resp, emitted, fmu, 
                             filters, timer, coSpawned, ticks, fires, 
                             latestBlock, lastIndexed, hdr, newBlockSig, 
                             quitBuf, quit, addOk, cch, pch, ptOk, round, cs, 
                             ct, seen, ok, polls, found, fx, me, h, lb, sent >>

eventLoop == el_wait \/ el_i_addchk \/ el_i_add \/ el_i_unlock
                \/ el_i_unlock0 \/ el_i_done \/ el_u_remove \/ el_u_close
                \/ el_u_unlock \/ el_u_done

ce_lookup == /\ pc[CE] = "ce_lookup"
             /\ resp # <<>> /\ ~idxW
             /\ cch' = topicChans[Head(resp)]
             /\ resp' = Tail(resp)
             /\ IF "D11" \notin Known /\ cch' # 0
                   THEN /\ idxR' = idxR + 1
                   ELSE /\ TRUE
                        /\ idxR' = idxR
             /\ IF cch' # 0
                   THEN /\ pc' = [pc EXCEPT ![CE] = "ce_send"]
                   ELSE /\ pc' = [pc EXCEPT ![CE] = "ce_lookup"]
             /\ UNCHANGED << crashed, busTopics, busSubs, topW, devUsed, subCh, 
                             idxW, index, topicChans, chans, nextChan, 
                             installQ, uninstallQ, installed, errClosed, 
                             subTopic, subState, unTotal, unReq, emitted, fmu, 
                             filters, timer, coSpawned, ticks, fires, 
                             latestBlock, lastIndexed, hdr, newBlockSig, 
                             quitBuf, quit, f, ft, ech, addOk, inUse, pch, 
                             ptOk, round, cs, ct, seen, ok, polls, found, fx, 
                             me, h, lb, sent >>

ce_send == /\ pc[CE] = "ce_send"
           /\ IF chans[cch].closed
                 THEN /\ crashed' = "send on closed channel"
                      /\ chans' = chans
                 ELSE /\ chans' = [chans EXCEPT ![cch].offer = 1]
                      /\ UNCHANGED crashed
           /\ pc' = [pc EXCEPT ![CE] = "ce_sent"]
           /\ UNCHANGED << busTopics, busSubs, topW, devUsed, subCh, idxR, 
                           idxW, index, topicChans, nextChan, installQ, 
                           uninstallQ, installed, errClosed, subTopic, 
                           subState, unTotal, unReq, resp, emitted, fmu, 
                           filters, timer, coSpawned, ticks, fires, 
                           latestBlock, lastIndexed, hdr, newBlockSig, quitBuf, 
                           quit, f, ft, ech, addOk, inUse, cch, pch, ptOk, 
                           round, cs, ct, seen, ok, polls, found, fx, me, h, 
                           lb, sent >>

ce_sent == /\ pc[CE] = "ce_sent"
           /\ \/ /\ chans[cch].offer = 2
                 /\ chans' = [chans EXCEPT ![cch].offer = 0]
                 /\ UNCHANGED crashed
              \/ /\ TraceMode /\ chans[cch].offer = 1
                 /\ chans' = [chans EXCEPT ![cch] = [chans[cch] EXCEPT !.offer = 0, !.inflight = @ + 1]]
                 /\ UNCHANGED crashed
              \/ /\ chans[cch].offer = 1 /\ ~chans[cch].closed
                 /\ chans' = [chans EXCEPT ![cch].offer = 0]
                 /\ UNCHANGED crashed
              \/ /\ chans[cch].offer = 1 /\ chans[cch].closed
                 /\ crashed' = "send on closed channel"
                 /\ chans' = chans
           /\ IF "D11" \notin Known
                 THEN /\ idxR' = idxR - 1
                 ELSE /\ TRUE
                      /\ idxR' = idxR
           /\ cch' = 0
           /\ pc' = [pc EXCEPT ![CE] = "ce_lookup"]
           /\ UNCHANGED << busTopics, busSubs, topW, devUsed, subCh, idxW, 
                           index, topicChans, nextChan, installQ, uninstallQ, 
                           installed, errClosed, subTopic, subState, unTotal, 
                           unReq, resp, emitted, fmu, filters, timer, 
                           coSpawned, ticks, fires, latestBlock, lastIndexed, 
                           hdr, newBlockSig, quitBuf, quit, f, ft, ech, addOk, 
                           inUse, pch, ptOk, round, cs, ct, seen, ok, polls, 
                           found, fx, me, h, lb, sent >>

consumeEvents == ce_lookup \/ ce_send \/ ce_sent

pt_loop(self) == /\ pc[self] = "pt_loop"
                 /\ \/ /\ chans[pch[self]].topic # 0 /\ chans[pch[self]].inflight = 0 /\ chans[pch[self]].offer = 1
                       /\ chans' = [chans EXCEPT ![pch[self]].offer = 2]
                       /\ ptOk' = [ptOk EXCEPT ![self] = TRUE]
                    \/ /\ chans[pch[self]].topic # 0 /\ chans[pch[self]].inflight > 0
                       /\ chans' = [chans EXCEPT ![pch[self]].inflight = chans[pch[self]].inflight - 1]
                       /\ ptOk' = [ptOk EXCEPT ![self] = TRUE]
                    \/ /\ chans[pch[self]].topic # 0 /\ chans[pch[self]].closed /\ chans[pch[self]].inflight = 0
                       /\ ptOk' = [ptOk EXCEPT ![self] = FALSE]
                       /\ chans' = chans
                 /\ IF ptOk'[self]
                       THEN /\ pc' = [pc EXCEPT ![self] = "pt_pub"]
                       ELSE /\ IF "D12" \notin Known
                                  THEN /\ pc' = [pc EXCEPT ![self] = "pt_chk"]
                                  ELSE /\ pc' = [pc EXCEPT ![self] = "pt_closeall"]
                 /\ UNCHANGED << crashed, busTopics, busSubs, topW, devUsed, 
                                 subCh, idxR, idxW, index, topicChans, 
                                 nextChan, installQ, uninstallQ, installed, 
                                 errClosed, subTopic, subState, unTotal, unReq, 
                                 resp, emitted, fmu, filters, timer, coSpawned, 
                                 ticks, fires, latestBlock, lastIndexed, hdr, 
                                 newBlockSig, quitBuf, quit, f, ft, ech, addOk, 
                                 inUse, cch, pch, round, cs, ct, seen, ok, 
                                 polls, found, fx, me, h, lb, sent >>

pt_pub(self) == /\ pc[self] = "pt_pub"
                /\ IF \E x \in busSubs[chans[pch[self]].topic] : subCh[x].closed
                      THEN /\ crashed' = "send on closed channel"
                           /\ subCh' = subCh
                      ELSE /\ subCh' = [x \in Subs |-> IF x \in busSubs[chans[pch[self]].topic] THEN [subCh[x] EXCEPT !.buf = Min(@ + 1, BufCap)] ELSE subCh[x]]
                           /\ UNCHANGED crashed
                /\ ptOk' = [ptOk EXCEPT ![self] = FALSE]
                /\ pc' = [pc EXCEPT ![self] = "pt_loop"]
                /\ UNCHANGED << busTopics, busSubs, topW, devUsed, idxR, idxW, 
                                index, topicChans, chans, nextChan, installQ, 
                                uninstallQ, installed, errClosed, subTopic, 
                                subState, unTotal, unReq, resp, emitted, fmu, 
                                filters, timer, coSpawned, ticks, fires, 
                                latestBlock, lastIndexed, hdr, newBlockSig, 
                                quitBuf, quit, f, ft, ech, addOk, inUse, cch, 
                                pch, round, cs, ct, seen, ok, polls, found, fx, 
                                me, h, lb, sent >>

pt_closeall(self) == /\ pc[self] = "pt_closeall"
                     /\ IF busTopics[chans[pch[self]].topic] # 0 /\ busTopics[chans[pch[self]].topic] # pch[self] /\ busSubs[chans[pch[self]].topic] # {}
                           THEN /\ devUsed' = (devUsed \cup {"D12"})
                           ELSE /\ TRUE
                                /\ UNCHANGED devUsed
                     /\ IF \E x \in busSubs[chans[pch[self]].topic] : subCh[x].closed
                           THEN /\ crashed' = "close of closed channel"
                                /\ subCh' = subCh
                           ELSE /\ subCh' = [x \in Subs |-> IF x \in busSubs[chans[pch[self]].topic] THEN [subCh[x] EXCEPT !.closed = TRUE] ELSE subCh[x]]
                                /\ UNCHANGED crashed
                     /\ busSubs' = [busSubs EXCEPT ![chans[pch[self]].topic] = {}]
                     /\ pc' = [pc EXCEPT ![self] = "pt_del"]
                     /\ UNCHANGED << busTopics, topW, idxR, idxW, index, 
                                     topicChans, chans, nextChan, installQ, 
                                     uninstallQ, installed, errClosed, 
                                     subTopic, subState, unTotal, unReq, resp, 
                                     emitted, fmu, filters, timer, coSpawned, 
                                     ticks, fires, latestBlock, lastIndexed, 
                                     hdr, newBlockSig, quitBuf, quit, f, ft, 
                                     ech, addOk, inUse, cch, pch, ptOk, round, 
                                     cs, ct, seen, ok, polls, found, fx, me, h, 
                                     lb, sent >>

pt_del(self) == /\ pc[self] = "pt_del"
                /\ topW \/ "D12" \in Known
                /\ IF busTopics[chans[pch[self]].topic] # 0 /\ busTopics[chans[pch[self]].topic] # pch[self]
                      THEN /\ devUsed' = (devUsed \cup {"D12"})
                      ELSE /\ TRUE
                           /\ UNCHANGED devUsed
                /\ busTopics' = [busTopics EXCEPT ![chans[pch[self]].topic] = 0]
                /\ topW' = FALSE
                /\ pc' = [pc EXCEPT ![self] = "pt_done"]
                /\ UNCHANGED << crashed, busSubs, subCh, idxR, idxW, index, 
                                topicChans, chans, nextChan, installQ, 
                                uninstallQ, installed, errClosed, subTopic, 
                                subState, unTotal, unReq, resp, emitted, fmu, 
                                filters, timer, coSpawned, ticks, fires, 
                                latestBlock, lastIndexed, hdr, newBlockSig, 
                                quitBuf, quit, f, ft, ech, addOk, inUse, cch, 
                                pch, ptOk, round, cs, ct, seen, ok, polls, 
                                found, fx, me, h, lb, sent >>

pt_chk(self) == /\ pc[self] = "pt_chk"
                /\ ~topW
                /\ IF busTopics[chans[pch[self]].topic] # 0 /\ busTopics[chans[pch[self]].topic] # pch[self]
                      THEN /\ pc' = [pc EXCEPT ![self] = "pt_done"]
                           /\ topW' = topW
                      ELSE /\ topW' = TRUE
                           /\ pc' = [pc EXCEPT ![self] = "pt_closeall"]
                /\ UNCHANGED << crashed, busTopics, busSubs, devUsed, subCh, 
                                idxR, idxW, index, topicChans, chans, nextChan, 
                                installQ, uninstallQ, installed, errClosed, 
                                subTopic, subState, unTotal, unReq, resp, 
                                emitted, fmu, filters, timer, coSpawned, ticks, 
                                fires, latestBlock, lastIndexed, hdr, 
                                newBlockSig, quitBuf, quit, f, ft, ech, addOk, 
                                inUse, cch, pch, ptOk, round, cs, ct, seen, ok, 
                                polls, found, fx, me, h, lb, sent >>

pt_done(self) == /\ pc[self] = "pt_done"
                 /\ TRUE
                 /\ pc' = [pc EXCEPT ![self] = "Done"]
                 /\ UNCHANGED << crashed, busTopics, busSubs, topW, devUsed, 
                                 subCh, idxR, idxW, index, topicChans, chans, 
                                 nextChan, installQ, uninstallQ, installed, 
                                 errClosed, subTopic, subState, unTotal, unReq, 
                                 resp, emitted, fmu, filters, timer, coSpawned, 
                                 ticks, fires, latestBlock, lastIndexed, hdr, 
                                 newBlockSig, quitBuf, quit, f, ft, ech, addOk, 
                                 inUse, cch, pch, ptOk, round, cs, ct, seen, 
                                 ok, polls, found, fx, me, h, lb, sent >>

publishTopic(self) == pt_loop(self) \/ pt_pub(self) \/ pt_closeall(self)
                         \/ pt_del(self) \/ pt_chk(self) \/ pt_done(self)

c_begin(self) == /\ pc[self] = "c_begin"
                 /\ IF round[self] <= Rounds
                       THEN /\ IF Api
                                  THEN /\ pc' = [pc EXCEPT ![self] = "c_flock"]
                                  ELSE /\ pc' = [pc EXCEPT ![self] = "c_topics"]
                       ELSE /\ pc' = [pc EXCEPT ![self] = "Done"]
                 /\ UNCHANGED << crashed, busTopics, busSubs, topW, devUsed, 
                                 subCh, idxR, idxW, index, topicChans, chans, 
                                 nextChan, installQ, uninstallQ, installed, 
                                 errClosed, subTopic, subState, unTotal, unReq, 
                                 resp, emitted, fmu, filters, timer, coSpawned, 
                                 ticks, fires, latestBlock, lastIndexed, hdr, 
                                 newBlockSig, quitBuf, quit, f, ft, ech, addOk, 
                                 inUse, cch, pch, ptOk, round, cs, ct, seen, 
                                 ok, polls, found, fx, me, h, lb, sent >>

c_topics(self) == /\ pc[self] = "c_topics"
                  /\ ~topW
                  /\ \E tt \in Topics:
                       ct' = [ct EXCEPT ![self] = tt]
                  /\ subTopic' = [subTopic EXCEPT ![cs[self]] = ct'[self]]
                  /\ IF "D25" \notin Known
                        THEN /\ installQ' = (installQ \cup {cs[self]})
                             /\ pc' = [pc EXCEPT ![self] = "c_bsub1"]
                             /\ UNCHANGED << devUsed, seen >>
                        ELSE /\ seen' = [seen EXCEPT ![self] = busTopics[ct'[self]] # 0]
                             /\ IF seen'[self]
                                   THEN /\ devUsed' = (devUsed \cup {"D25"})
                                        /\ pc' = [pc EXCEPT ![self] = "c_bsub1"]
                                   ELSE /\ pc' = [pc EXCEPT ![self] = "c_inst"]
                                        /\ UNCHANGED devUsed
                             /\ UNCHANGED installQ
                  /\ UNCHANGED << crashed, busTopics, busSubs, topW, subCh, 
                                  idxR, idxW, index, topicChans, chans, 
                                  nextChan, uninstallQ, installed, errClosed, 
                                  subState, unTotal, unReq, resp, emitted, fmu, 
                                  filters, timer, coSpawned, ticks, fires, 
                                  latestBlock, lastIndexed, hdr, newBlockSig, 
                                  quitBuf, quit, f, ft, ech, addOk, inUse, cch, 
                                  pch, ptOk, round, cs, ok, polls, found, fx, 
                                  me, h, lb, sent >>

c_inst(self) == /\ pc[self] = "c_inst"
                /\ installQ' = (installQ \cup {cs[self]})
                /\ pc' = [pc EXCEPT ![self] = "c_bsub1"]
                /\ UNCHANGED << crashed, busTopics, busSubs, topW, devUsed, 
                                subCh, idxR, idxW, index, topicChans, chans, 
                                nextChan, uninstallQ, installed, errClosed, 
                                subTopic, subState, unTotal, unReq, resp, 
                                emitted, fmu, filters, timer, coSpawned, ticks, 
                                fires, latestBlock, lastIndexed, hdr, 
                                newBlockSig, quitBuf, quit, f, ft, ech, addOk, 
                                inUse, cch, pch, ptOk, round, cs, ct, seen, ok, 
                                polls, found, fx, me, h, lb, sent >>

c_bsub1(self) == /\ pc[self] = "c_bsub1"
                 /\ (seen[self] \/ installed[cs[self]]) /\ ~topW
                 /\ ok' = [ok EXCEPT ![self] = busTopics[ct[self]] # 0]
                 /\ IF ~ok'[self]
                       THEN /\ subState' = [subState EXCEPT ![cs[self]] = "failed"]
                            /\ IF Api
                                  THEN /\ pc' = [pc EXCEPT ![self] = "c_funlock"]
                                  ELSE /\ pc' = [pc EXCEPT ![self] = "c_next"]
                       ELSE /\ pc' = [pc EXCEPT ![self] = "c_bsub2"]
                            /\ UNCHANGED subState
                 /\ UNCHANGED << crashed, busTopics, busSubs, topW, devUsed, 
                                 subCh, idxR, idxW, index, topicChans, chans, 
                                 nextChan, installQ, uninstallQ, installed, 
                                 errClosed, subTopic, unTotal, unReq, resp, 
                                 emitted, fmu, filters, timer, coSpawned, 
                                 ticks, fires, latestBlock, lastIndexed, hdr, 
                                 newBlockSig, quitBuf, quit, f, ft, ech, addOk, 
                                 inUse, cch, pch, ptOk, round, cs, ct, seen, 
                                 polls, found, fx, me, h, lb, sent >>

c_bsub2(self) == /\ pc[self] = "c_bsub2"
                 /\ busSubs' = [busSubs EXCEPT ![ct[self]] = busSubs[ct[self]] \cup {cs[self]}]
                 /\ IF ~Api
                       THEN /\ subState' = [subState EXCEPT ![cs[self]] = "live"]
                       ELSE /\ TRUE
                            /\ UNCHANGED subState
                 /\ IF Api
                       THEN /\ pc' = [pc EXCEPT ![self] = "c_fadd"]
                       ELSE /\ pc' = [pc EXCEPT ![self] = "c_recv"]
                 /\ UNCHANGED << crashed, busTopics, topW, devUsed, subCh, 
                                 idxR, idxW, index, topicChans, chans, 
                                 nextChan, installQ, uninstallQ, installed, 
                                 errClosed, subTopic, unTotal, unReq, resp, 
                                 emitted, fmu, filters, timer, coSpawned, 
                                 ticks, fires, latestBlock, lastIndexed, hdr, 
                                 newBlockSig, quitBuf, quit, f, ft, ech, addOk, 
                                 inUse, cch, pch, ptOk, round, cs, ct, seen, 
                                 ok, polls, found, fx, me, h, lb, sent >>

c_fadd(self) == /\ pc[self] = "c_fadd"
                /\ filters' = (filters \cup {cs[self]})
                /\ timer' = [timer EXCEPT ![cs[self]] = "running"]
                /\ coSpawned' = (coSpawned \cup {cs[self]})
                /\ subState' = [subState EXCEPT ![cs[self]] = "live"]
                /\ pc' = [pc EXCEPT ![self] = "c_funlock"]
                /\ UNCHANGED << crashed, busTopics, busSubs, topW, devUsed, 
                                subCh, idxR, idxW, index, topicChans, chans, 
                                nextChan, installQ, uninstallQ, installed, 
                                errClosed, subTopic, unTotal, unReq, resp, 
                                emitted, fmu, ticks, fires, latestBlock, 
                                lastIndexed, hdr, newBlockSig, quitBuf, quit, 
                                f, ft, ech, addOk, inUse, cch, pch, ptOk, 
                                round, cs, ct, seen, ok, polls, found, fx, me, 
                                h, lb, sent >>

c_funlock(self) == /\ pc[self] = "c_funlock"
                   /\ fmu' = 0
                   /\ IF ~ok[self]
                         THEN /\ pc' = [pc EXCEPT ![self] = "c_next"]
                         ELSE /\ pc' = [pc EXCEPT ![self] = "c_use"]
                   /\ UNCHANGED << crashed, busTopics, busSubs, topW, devUsed, 
                                   subCh, idxR, idxW, index, topicChans, chans, 
                                   nextChan, installQ, uninstallQ, installed, 
                                   errClosed, subTopic, subState, unTotal, 
                                   unReq, resp, emitted, filters, timer, 
                                   coSpawned, ticks, fires, latestBlock, 
                                   lastIndexed, hdr, newBlockSig, quitBuf, 
                                   quit, f, ft, ech, addOk, inUse, cch, pch, 
                                   ptOk, round, cs, ct, seen, ok, polls, found, 
                                   fx, me, h, lb, sent >>

c_use(self) == /\ pc[self] = "c_use"
               /\ \/ /\ polls[self] < MaxPolls
                     /\ polls' = [polls EXCEPT ![self] = polls[self] + 1]
                     /\ pc' = [pc EXCEPT ![self] = "g_lock"]
                  \/ /\ pc' = [pc EXCEPT ![self] = "u_lock"]
                     /\ polls' = polls
                  \/ /\ Foreign /\ polls[self] < MaxPolls /\ (coSpawned \ {cs[self]}) # {}
                     /\ polls' = [polls EXCEPT ![self] = polls[self] + 1]
                     /\ pc' = [pc EXCEPT ![self] = "xu_lock"]
                  \/ /\ pc' = [pc EXCEPT ![self] = "c_next"]
                     /\ polls' = polls
               /\ UNCHANGED << crashed, busTopics, busSubs, topW, devUsed, 
                               subCh, idxR, idxW, index, topicChans, chans, 
                               nextChan, installQ, uninstallQ, installed, 
                               errClosed, subTopic, subState, unTotal, unReq, 
                               resp, emitted, fmu, filters, timer, coSpawned, 
                               ticks, fires, latestBlock, lastIndexed, hdr, 
                               newBlockSig, quitBuf, quit, f, ft, ech, addOk, 
                               inUse, cch, pch, ptOk, round, cs, ct, seen, ok, 
                               found, fx, me, h, lb, sent >>

g_lock(self) == /\ pc[self] = "g_lock"
                /\ fmu = 0
                /\ fmu' = self
                /\ found' = [found EXCEPT ![self] = cs[self] \in filters]
                /\ IF found'[self] /\ timer[cs[self]] = "drained"
                      THEN /\ pc' = [pc EXCEPT ![self] = "g_drain"]
                           /\ timer' = timer
                      ELSE /\ IF found'[self]
                                 THEN /\ timer' = [timer EXCEPT ![cs[self]] = "running"]
                                 ELSE /\ TRUE
                                      /\ timer' = timer
                           /\ pc' = [pc EXCEPT ![self] = "g_unlock"]
                /\ UNCHANGED << crashed, busTopics, busSubs, topW, devUsed, 
                                subCh, idxR, idxW, index, topicChans, chans, 
                                nextChan, installQ, uninstallQ, installed, 
                                errClosed, subTopic, subState, unTotal, unReq, 
                                resp, emitted, filters, coSpawned, ticks, 
                                fires, latestBlock, lastIndexed, hdr, 
                                newBlockSig, quitBuf, quit, f, ft, ech, addOk, 
                                inUse, cch, pch, ptOk, round, cs, ct, seen, ok, 
                                polls, fx, me, h, lb, sent >>

g_drain(self) == /\ pc[self] = "g_drain"
                 /\ FALSE
                 /\ pc' = [pc EXCEPT ![self] = "g_unlock"]
                 /\ UNCHANGED << crashed, busTopics, busSubs, topW, devUsed, 
                                 subCh, idxR, idxW, index, topicChans, chans, 
                                 nextChan, installQ, uninstallQ, installed, 
                                 errClosed, subTopic, subState, unTotal, unReq, 
                                 resp, emitted, fmu, filters, timer, coSpawned, 
                                 ticks, fires, latestBlock, lastIndexed, hdr, 
                                 newBlockSig, quitBuf, quit, f, ft, ech, addOk, 
                                 inUse, cch, pch, ptOk, round, cs, ct, seen, 
                                 ok, polls, found, fx, me, h, lb, sent >>

g_unlock(self) == /\ pc[self] = "g_unlock"
                  /\ fmu' = 0
                  /\ pc' = [pc EXCEPT ![self] = "c_use"]
                  /\ UNCHANGED << crashed, busTopics, busSubs, topW, devUsed, 
                                  subCh, idxR, idxW, index, topicChans, chans, 
                                  nextChan, installQ, uninstallQ, installed, 
                                  errClosed, subTopic, subState, unTotal, 
                                  unReq, resp, emitted, filters, timer, 
                                  coSpawned, ticks, fires, latestBlock, 
                                  lastIndexed, hdr, newBlockSig, quitBuf, quit, 
                                  f, ft, ech, addOk, inUse, cch, pch, ptOk, 
                                  round, cs, ct, seen, ok, polls, found, fx, 
                                  me, h, lb, sent >>

u_lock(self) == /\ pc[self] = "u_lock"
                /\ fmu = 0
                /\ found' = [found EXCEPT ![self] = cs[self] \in filters]
                /\ IF subState[cs[self]] = "live"
                      THEN /\ subState' = [subState EXCEPT ![cs[self]] = "unsub"]
                      ELSE /\ TRUE
                           /\ UNCHANGED subState
                /\ IF found'[self]
                      THEN /\ unReq' = [unReq EXCEPT ![cs[self]] = unReq[cs[self]] + 1]
                           /\ unTotal' = [unTotal EXCEPT ![cs[self]] = unTotal[cs[self]] + 1]
                      ELSE /\ TRUE
                           /\ UNCHANGED << unTotal, unReq >>
                /\ IF ~("SplitUninstall" \in Known /\ found'[self])
                      THEN /\ filters' = filters \ {cs[self]}
                           /\ pc' = [pc EXCEPT ![self] = "c_next"]
                      ELSE /\ pc' = [pc EXCEPT ![self] = "u_del"]
                           /\ UNCHANGED filters
                /\ UNCHANGED << crashed, busTopics, busSubs, topW, devUsed, 
                                subCh, idxR, idxW, index, topicChans, chans, 
                                nextChan, installQ, uninstallQ, installed, 
                                errClosed, subTopic, resp, emitted, fmu, timer, 
                                coSpawned, ticks, fires, latestBlock, 
                                lastIndexed, hdr, newBlockSig, quitBuf, quit, 
                                f, ft, ech, addOk, inUse, cch, pch, ptOk, 
                                round, cs, ct, seen, ok, polls, fx, me, h, lb, 
                                sent >>

u_del(self) == /\ pc[self] = "u_del"
               /\ fmu = 0
               /\ filters' = filters \ {cs[self]}
               /\ pc' = [pc EXCEPT ![self] = "c_next"]
               /\ UNCHANGED << crashed, busTopics, busSubs, topW, devUsed, 
                               subCh, idxR, idxW, index, topicChans, chans, 
                               nextChan, installQ, uninstallQ, installed, 
                               errClosed, subTopic, subState, unTotal, unReq, 
                               resp, emitted, fmu, timer, coSpawned, ticks, 
                               fires, latestBlock, lastIndexed, hdr, 
                               newBlockSig, quitBuf, quit, f, ft, ech, addOk, 
                               inUse, cch, pch, ptOk, round, cs, ct, seen, ok, 
                               polls, found, fx, me, h, lb, sent >>

xu_lock(self) == /\ pc[self] = "xu_lock"
                 /\ fmu = 0
                 /\ \E x \in coSpawned \ {cs[self]}:
                      fx' = [fx EXCEPT ![self] = x]
                 /\ found' = [found EXCEPT ![self] = fx'[self] \in filters]
                 /\ IF found'[self]
                       THEN /\ unReq' = [unReq EXCEPT ![fx'[self]] = unReq[fx'[self]] + 1]
                            /\ unTotal' = [unTotal EXCEPT ![fx'[self]] = unTotal[fx'[self]] + 1]
                            /\ IF subState[fx'[self]] = "live"
                                  THEN /\ subState' = [subState EXCEPT ![fx'[self]] = "unsub"]
                                  ELSE /\ TRUE
                                       /\ UNCHANGED subState
                       ELSE /\ TRUE
                            /\ UNCHANGED << subState, unTotal, unReq >>
                 /\ IF ~("SplitUninstall" \in Known /\ found'[self])
                       THEN /\ filters' = filters \ {fx'[self]}
                            /\ pc' = [pc EXCEPT ![self] = "c_use"]
                       ELSE /\ pc' = [pc EXCEPT ![self] = "xu_del"]
                            /\ UNCHANGED filters
                 /\ UNCHANGED << crashed, busTopics, busSubs, topW, devUsed, 
                                 subCh, idxR, idxW, index, topicChans, chans, 
                                 nextChan, installQ, uninstallQ, installed, 
                                 errClosed, subTopic, resp, emitted, fmu, 
                                 timer, coSpawned, ticks, fires, latestBlock, 
                                 lastIndexed, hdr, newBlockSig, quitBuf, quit, 
                                 f, ft, ech, addOk, inUse, cch, pch, ptOk, 
                                 round, cs, ct, seen, ok, polls, me, h, lb, 
                                 sent >>

xu_del(self) == /\ pc[self] = "xu_del"
                /\ fmu = 0
                /\ filters' = filters \ {fx[self]}
                /\ pc' = [pc EXCEPT ![self] = "c_use"]
                /\ UNCHANGED << crashed, busTopics, busSubs, topW, devUsed, 
                                subCh, idxR, idxW, index, topicChans, chans, 
                                nextChan, installQ, uninstallQ, installed, 
                                errClosed, subTopic, subState, unTotal, unReq, 
                                resp, emitted, fmu, timer, coSpawned, ticks, 
                                fires, latestBlock, lastIndexed, hdr, 
                                newBlockSig, quitBuf, quit, f, ft, ech, addOk, 
                                inUse, cch, pch, ptOk, round, cs, ct, seen, ok, 
                                polls, found, fx, me, h, lb, sent >>

c_recv(self) == /\ pc[self] = "c_recv"
                /\ \/ /\ subCh[cs[self]].buf > 0
                      /\ subCh' = [subCh EXCEPT ![cs[self]].buf = subCh[cs[self]].buf - 1]
                      /\ pc' = [pc EXCEPT ![self] = "c_recv"]
                   \/ /\ subCh[cs[self]].closed
                      /\ subCh' = [subCh EXCEPT ![cs[self]].buf = 0]
                      /\ pc' = [pc EXCEPT ![self] = "c_unsub"]
                   \/ /\ TRUE
                      /\ pc' = [pc EXCEPT ![self] = "c_unsub"]
                      /\ subCh' = subCh
                /\ UNCHANGED << crashed, busTopics, busSubs, topW, devUsed, 
                                idxR, idxW, index, topicChans, chans, nextChan, 
                                installQ, uninstallQ, installed, errClosed, 
                                subTopic, subState, unTotal, unReq, resp, 
                                emitted, fmu, filters, timer, coSpawned, ticks, 
                                fires, latestBlock, lastIndexed, hdr, 
                                newBlockSig, quitBuf, quit, f, ft, ech, addOk, 
                                inUse, cch, pch, ptOk, round, cs, ct, seen, ok, 
                                polls, found, fx, me, h, lb, sent >>

c_unsub(self) == /\ pc[self] = "c_unsub"
                 /\ subState' = [subState EXCEPT ![cs[self]] = "unsub"]
                 /\ unReq' = [unReq EXCEPT ![cs[self]] = unReq[cs[self]] + 1]
                 /\ unTotal' = [unTotal EXCEPT ![cs[self]] = unTotal[cs[self]] + 1]
                 /\ pc' = [pc EXCEPT ![self] = "c_cancel"]
                 /\ UNCHANGED << crashed, busTopics, busSubs, topW, devUsed, 
                                 subCh, idxR, idxW, index, topicChans, chans, 
                                 nextChan, installQ, uninstallQ, installed, 
                                 errClosed, subTopic, resp, emitted, fmu, 
                                 filters, timer, coSpawned, ticks, fires, 
                                 latestBlock, lastIndexed, hdr, newBlockSig, 
                                 quitBuf, quit, f, ft, ech, addOk, inUse, cch, 
                                 pch, ptOk, round, cs, ct, seen, ok, polls, 
                                 found, fx, me, h, lb, sent >>

c_cancel(self) == /\ pc[self] = "c_cancel"
                  /\ busSubs' = [busSubs EXCEPT ![ct[self]] = busSubs[ct[self]] \ {cs[self]}]
                  /\ pc' = [pc EXCEPT ![self] = "c_next"]
                  /\ UNCHANGED << crashed, busTopics, topW, devUsed, subCh, 
                                  idxR, idxW, index, topicChans, chans, 
                                  nextChan, installQ, uninstallQ, installed, 
                                  errClosed, subTopic, subState, unTotal, 
                                  unReq, resp, emitted, fmu, filters, timer, 
                                  coSpawned, ticks, fires, latestBlock, 
                                  lastIndexed, hdr, newBlockSig, quitBuf, quit, 
                                  f, ft, ech, addOk, inUse, cch, pch, ptOk, 
                                  round, cs, ct, seen, ok, polls, found, fx, 
                                  me, h, lb, sent >>

c_next(self) == /\ pc[self] = "c_next"
                /\ round' = [round EXCEPT ![self] = round[self] + 1]
                /\ cs' = [cs EXCEPT ![self] = IF round'[self] <= Rounds THEN SubOf(self - 30, round'[self]) ELSE 0]
                /\ ct' = [ct EXCEPT ![self] = 0]
                /\ seen' = [seen EXCEPT ![self] = FALSE]
                /\ ok' = [ok EXCEPT ![self] = FALSE]
                /\ found' = [found EXCEPT ![self] = FALSE]
                /\ polls' = [polls EXCEPT ![self] = 0]
                /\ fx' = [fx EXCEPT ![self] = 0]
                /\ pc' = [pc EXCEPT ![self] = "c_begin"]
                /\ UNCHANGED << crashed, busTopics, busSubs, topW, devUsed, 
                                subCh, idxR, idxW, index, topicChans, chans, 
                                nextChan, installQ, uninstallQ, installed, 
                                errClosed, subTopic, subState, unTotal, unReq, 
                                resp, emitted, fmu, filters, timer, coSpawned, 
                                ticks, fires, latestBlock, lastIndexed, hdr, 
                                newBlockSig, quitBuf, quit, f, ft, ech, addOk, 
                                inUse, cch, pch, ptOk, me, h, lb, sent >>

c_flock(self) == /\ pc[self] = "c_flock"
                 /\ fmu = 0
                 /\ fmu' = self
                 /\ pc' = [pc EXCEPT ![self] = "c_topics"]
                 /\ UNCHANGED << crashed, busTopics, busSubs, topW, devUsed, 
                                 subCh, idxR, idxW, index, topicChans, chans, 
                                 nextChan, installQ, uninstallQ, installed, 
                                 errClosed, subTopic, subState, unTotal, unReq, 
                                 resp, emitted, filters, timer, coSpawned, 
                                 ticks, fires, latestBlock, lastIndexed, hdr, 
                                 newBlockSig, quitBuf, quit, f, ft, ech, addOk, 
                                 inUse, cch, pch, ptOk, round, cs, ct, seen, 
                                 ok, polls, found, fx, me, h, lb, sent >>

client(self) == c_begin(self) \/ c_topics(self) \/ c_inst(self)
                   \/ c_bsub1(self) \/ c_bsub2(self) \/ c_fadd(self)
                   \/ c_funlock(self) \/ c_use(self) \/ g_lock(self)
                   \/ g_drain(self) \/ g_unlock(self) \/ u_lock(self)
                   \/ u_del(self) \/ xu_lock(self) \/ xu_del(self)
                   \/ c_recv(self) \/ c_unsub(self) \/ c_cancel(self)
                   \/ c_next(self) \/ c_flock(self)

un_send(self) == /\ pc[self] = "un_send"
                 /\ unReq[self - 60] > 0
                 /\ unReq' = [unReq EXCEPT ![self - 60] = unReq[self - 60] - 1]
                 /\ uninstallQ' = (uninstallQ \cup {self - 60})
                 /\ pc' = [pc EXCEPT ![self] = "un_send"]
                 /\ UNCHANGED << crashed, busTopics, busSubs, topW, devUsed, 
                                 subCh, idxR, idxW, index, topicChans, chans, 
                                 nextChan, installQ, installed, errClosed, 
                                 subTopic, subState, unTotal, resp, emitted, 
                                 fmu, filters, timer, coSpawned, ticks, fires, 
                                 latestBlock, lastIndexed, hdr, newBlockSig, 
                                 quitBuf, quit, f, ft, ech, addOk, inUse, cch, 
                                 pch, ptOk, round, cs, ct, seen, ok, polls, 
                                 found, fx, me, h, lb, sent >>

unsub(self) == un_send(self)

co_sel(self) == /\ pc[self] = "co_sel"
                /\ \/ /\ me[self] \in coSpawned /\ subCh[me[self]].buf > 0
                      /\ subCh' = [subCh EXCEPT ![me[self]].buf = subCh[me[self]].buf - 1]
                      /\ \/ /\ TRUE
                            /\ pc' = [pc EXCEPT ![self] = "co_sel"]
                         \/ /\ pc' = [pc EXCEPT ![self] = "co_ev"]
                   \/ /\ me[self] \in coSpawned /\ subCh[me[self]].closed
                      /\ subCh' = [subCh EXCEPT ![me[self]].buf = 0]
                      /\ pc' = [pc EXCEPT ![self] = "co_closed"]
                   \/ /\ me[self] \in coSpawned /\ errClosed[me[self]]
                      /\ pc' = [pc EXCEPT ![self] = "co_err"]
                      /\ subCh' = subCh
                /\ UNCHANGED << crashed, busTopics, busSubs, topW, devUsed, 
                                idxR, idxW, index, topicChans, chans, nextChan, 
                                installQ, uninstallQ, installed, errClosed, 
                                subTopic, subState, unTotal, unReq, resp, 
                                emitted, fmu, filters, timer, coSpawned, ticks, 
                                fires, latestBlock, lastIndexed, hdr, 
                                newBlockSig, quitBuf, quit, f, ft, ech, addOk, 
                                inUse, cch, pch, ptOk, round, cs, ct, seen, ok, 
                                polls, found, fx, me, h, lb, sent >>

co_ev(self) == /\ pc[self] = "co_ev"
               /\ fmu = 0
               /\ pc' = [pc EXCEPT ![self] = "co_sel"]
               /\ UNCHANGED << crashed, busTopics, busSubs, topW, devUsed, 
                               subCh, idxR, idxW, index, topicChans, chans, 
                               nextChan, installQ, uninstallQ, installed, 
                               errClosed, subTopic, subState, unTotal, unReq, 
                               resp, emitted, fmu, filters, timer, coSpawned, 
                               ticks, fires, latestBlock, lastIndexed, hdr, 
                               newBlockSig, quitBuf, quit, f, ft, ech, addOk, 
                               inUse, cch, pch, ptOk, round, cs, ct, seen, ok, 
                               polls, found, fx, me, h, lb, sent >>

co_closed(self) == /\ pc[self] = "co_closed"
                   /\ fmu = 0
                   /\ filters' = filters \ {me[self]}
                   /\ pc' = [pc EXCEPT ![self] = "co_exit"]
                   /\ UNCHANGED << crashed, busTopics, busSubs, topW, devUsed, 
                                   subCh, idxR, idxW, index, topicChans, chans, 
                                   nextChan, installQ, uninstallQ, installed, 
                                   errClosed, subTopic, subState, unTotal, 
                                   unReq, resp, emitted, fmu, timer, coSpawned, 
                                   ticks, fires, latestBlock, lastIndexed, hdr, 
                                   newBlockSig, quitBuf, quit, f, ft, ech, 
                                   addOk, inUse, cch, pch, ptOk, round, cs, ct, 
                                   seen, ok, polls, found, fx, me, h, lb, sent >>

co_err(self) == /\ pc[self] = "co_err"
                /\ fmu = 0
                /\ filters' = filters \ {me[self]}
                /\ IF ~("D26" \in Known /\ subTopic[me[self]] \in SpinTopics)
                      THEN /\ pc' = [pc EXCEPT ![self] = "co_exit"]
                           /\ UNCHANGED devUsed
                      ELSE /\ devUsed' = (devUsed \cup {"D26"})
                           /\ pc' = [pc EXCEPT ![self] = "co_sel"]
                /\ UNCHANGED << crashed, busTopics, busSubs, topW, subCh, idxR, 
                                idxW, index, topicChans, chans, nextChan, 
                                installQ, uninstallQ, installed, errClosed, 
                                subTopic, subState, unTotal, unReq, resp, 
                                emitted, fmu, timer, coSpawned, ticks, fires, 
                                latestBlock, lastIndexed, hdr, newBlockSig, 
                                quitBuf, quit, f, ft, ech, addOk, inUse, cch, 
                                pch, ptOk, round, cs, ct, seen, ok, polls, 
                                found, fx, me, h, lb, sent >>

co_exit(self) == /\ pc[self] = "co_exit"
                 /\ busSubs' = [busSubs EXCEPT ![subTopic[me[self]]] = busSubs[subTopic[me[self]]] \ {me[self]}]
                 /\ pc' = [pc EXCEPT ![self] = "Done"]
                 /\ UNCHANGED << crashed, busTopics, topW, devUsed, subCh, 
                                 idxR, idxW, index, topicChans, chans, 
                                 nextChan, installQ, uninstallQ, installed, 
                                 errClosed, subTopic, subState, unTotal, unReq, 
                                 resp, emitted, fmu, filters, timer, coSpawned, 
                                 ticks, fires, latestBlock, lastIndexed, hdr, 
                                 newBlockSig, quitBuf, quit, f, ft, ech, addOk, 
                                 inUse, cch, pch, ptOk, round, cs, ct, seen, 
                                 ok, polls, found, fx, me, h, lb, sent >>

consumer(self) == co_sel(self) \/ co_ev(self) \/ co_closed(self)
                     \/ co_err(self) \/ co_exit(self)

tl_idle == /\ pc[TL] = "tl_idle"
           /\ \/ /\ Api /\ fires < MaxFires
                 /\ \E x \in {y \in Subs : timer[y] = "running"}:
                      timer' = [timer EXCEPT ![x] = "fired"]
                 /\ fires' = fires + 1
                 /\ pc' = [pc EXCEPT ![TL] = "tl_idle"]
                 /\ UNCHANGED <<fmu, ticks>>
              \/ /\ Api /\ ticks < MaxTicks /\ fmu = 0
                 /\ ticks' = ticks + 1
                 /\ fmu' = TL
                 /\ pc' = [pc EXCEPT ![TL] = "tl_sweep"]
                 /\ UNCHANGED <<timer, fires>>
           /\ UNCHANGED << crashed, busTopics, busSubs, topW, devUsed, subCh, 
                           idxR, idxW, index, topicChans, chans, nextChan, 
                           installQ, uninstallQ, installed, errClosed, 
                           subTopic, subState, unTotal, unReq, resp, emitted, 
                           filters, coSpawned, latestBlock, lastIndexed, hdr, 
                           newBlockSig, quitBuf, quit, f, ft, ech, addOk, 
                           inUse, cch, pch, ptOk, round, cs, ct, seen, ok, 
                           polls, found, fx, me, h, lb, sent >>

tl_sweep == /\ pc[TL] = "tl_sweep"
            /\ \/ /\ \E x \in {y \in filters : timer[y] = "fired" \/ (TraceMode /\ timer[y] = "running")}:
                       /\ timer' = [timer EXCEPT ![x] = "drained"]
                       /\ unReq' = [unReq EXCEPT ![x] = unReq[x] + 1]
                       /\ unTotal' = [unTotal EXCEPT ![x] = unTotal[x] + 1]
                       /\ IF subState[x] = "live"
                             THEN /\ subState' = [subState EXCEPT ![x] = "expired"]
                             ELSE /\ TRUE
                                  /\ UNCHANGED subState
                       /\ filters' = filters \ {x}
                  /\ pc' = [pc EXCEPT ![TL] = "tl_sweep"]
                  /\ fmu' = fmu
               \/ /\ TraceMode \/ {y \in filters : timer[y] = "fired"} = {}
                  /\ fmu' = 0
                  /\ pc' = [pc EXCEPT ![TL] = "tl_idle"]
                  /\ UNCHANGED <<subState, unTotal, unReq, filters, timer>>
            /\ UNCHANGED << crashed, busTopics, busSubs, topW, devUsed, subCh, 
                            idxR, idxW, index, topicChans, chans, nextChan, 
                            installQ, uninstallQ, installed, errClosed, 
                            subTopic, resp, emitted, coSpawned, ticks, fires, 
                            latestBlock, lastIndexed, hdr, newBlockSig, 
                            quitBuf, quit, f, ft, ech, addOk, inUse, cch, pch, 
                            ptOk, round, cs, ct, seen, ok, polls, found, fx, 
                            me, h, lb, sent >>

timeoutLoop == tl_idle \/ tl_sweep

src_send == /\ pc[SRC] = "src_send"
            /\ IF emitted < MaxEvents
                  THEN /\ Len(resp) < RespCap
                       /\ \E tt \in Topics:
                            resp' = Append(resp, tt)
                       /\ emitted' = emitted + 1
                       /\ pc' = [pc EXCEPT ![SRC] = "src_send"]
                  ELSE /\ pc' = [pc EXCEPT ![SRC] = "Done"]
                       /\ UNCHANGED << resp, emitted >>
            /\ UNCHANGED << crashed, busTopics, busSubs, topW, devUsed, subCh, 
                            idxR, idxW, index, topicChans, chans, nextChan, 
                            installQ, uninstallQ, installed, errClosed, 
                            subTopic, subState, unTotal, unReq, fmu, filters, 
                            timer, coSpawned, ticks, fires, latestBlock, 
                            lastIndexed, hdr, newBlockSig, quitBuf, quit, f, 
                            ft, ech, addOk, inUse, cch, pch, ptOk, round, cs, 
                            ct, seen, ok, polls, found, fx, me, h, lb, sent >>

source == src_send

ih_sel == /\ pc[IH] = "ih_sel"
          /\ WithIndexer
          /\ pc' = [pc EXCEPT ![IH] = "ih_loop"]
          /\ UNCHANGED << crashed, busTopics, busSubs, topW, devUsed, subCh, 
                          idxR, idxW, index, topicChans, chans, nextChan, 
                          installQ, uninstallQ, installed, errClosed, subTopic, 
                          subState, unTotal, unReq, resp, emitted, fmu, 
                          filters, timer, coSpawned, ticks, fires, latestBlock, 
                          lastIndexed, hdr, newBlockSig, quitBuf, quit, f, ft, 
                          ech, addOk, inUse, cch, pch, ptOk, round, cs, ct, 
                          seen, ok, polls, found, fx, me, h, lb, sent >>

ih_loop == /\ pc[IH] = "ih_loop"
           /\ \/ /\ hdr # <<>>
                 /\ h' = Head(hdr)
                 /\ hdr' = Tail(hdr)
                 /\ pc' = [pc EXCEPT ![IH] = "ih_cmp"]
                 /\ UNCHANGED quitBuf
              \/ /\ quit
                 /\ pc' = [pc EXCEPT ![IH] = "ih_q"]
                 /\ UNCHANGED <<hdr, quitBuf, h>>
              \/ /\ quitBuf = 1
                 /\ quitBuf' = 0
                 /\ pc' = [pc EXCEPT ![IH] = "ih_q"]
                 /\ UNCHANGED <<hdr, h>>
           /\ UNCHANGED << crashed, busTopics, busSubs, topW, devUsed, subCh, 
                           idxR, idxW, index, topicChans, chans, nextChan, 
                           installQ, uninstallQ, installed, errClosed, 
                           subTopic, subState, unTotal, unReq, resp, emitted, 
                           fmu, filters, timer, coSpawned, ticks, fires, 
                           latestBlock, lastIndexed, newBlockSig, quit, f, ft, 
                           ech, addOk, inUse, cch, pch, ptOk, round, cs, ct, 
                           seen, ok, polls, found, fx, me, lb, sent >>

ih_cmp == /\ pc[IH] = "ih_cmp"
          /\ IF h > latestBlock
                THEN /\ pc' = [pc EXCEPT ![IH] = "ih_set"]
                ELSE /\ pc' = [pc EXCEPT ![IH] = "ih_loop"]
          /\ UNCHANGED << crashed, busTopics, busSubs, topW, devUsed, subCh, 
                          idxR, idxW, index, topicChans, chans, nextChan, 
                          installQ, uninstallQ, installed, errClosed, subTopic, 
                          subState, unTotal, unReq, resp, emitted, fmu, 
                          filters, timer, coSpawned, ticks, fires, latestBlock, 
                          lastIndexed, hdr, newBlockSig, quitBuf, quit, f, ft, 
                          ech, addOk, inUse, cch, pch, ptOk, round, cs, ct, 
                          seen, ok, polls, found, fx, me, h, lb, sent >>

ih_set == /\ pc[IH] = "ih_set"
          /\ latestBlock' = h
          /\ pc' = [pc EXCEPT ![IH] = "ih_sig"]
          /\ UNCHANGED << crashed, busTopics, busSubs, topW, devUsed, subCh, 
                          idxR, idxW, index, topicChans, chans, nextChan, 
                          installQ, uninstallQ, installed, errClosed, subTopic, 
                          subState, unTotal, unReq, resp, emitted, fmu, 
                          filters, timer, coSpawned, ticks, fires, lastIndexed, 
                          hdr, newBlockSig, quitBuf, quit, f, ft, ech, addOk, 
                          inUse, cch, pch, ptOk, round, cs, ct, seen, ok, 
                          polls, found, fx, me, h, lb, sent >>

ih_sig == /\ pc[IH] = "ih_sig"
          /\ IF newBlockSig = 0
                THEN /\ newBlockSig' = 1
                ELSE /\ TRUE
                     /\ UNCHANGED newBlockSig
          /\ pc' = [pc EXCEPT ![IH] = "ih_loop"]
          /\ UNCHANGED << crashed, busTopics, busSubs, topW, devUsed, subCh, 
                          idxR, idxW, index, topicChans, chans, nextChan, 
                          installQ, uninstallQ, installed, errClosed, subTopic, 
                          subState, unTotal, unReq, resp, emitted, fmu, 
                          filters, timer, coSpawned, ticks, fires, latestBlock, 
                          lastIndexed, hdr, quitBuf, quit, f, ft, ech, addOk, 
                          inUse, cch, pch, ptOk, round, cs, ct, seen, ok, 
                          polls, found, fx, me, h, lb, sent >>

ih_q == /\ pc[IH] = "ih_q"
        /\ IF "D27" \in Known
              THEN /\ quitBuf = 0
                   /\ quitBuf' = 1
              ELSE /\ quitBuf' = 1
        /\ pc' = [pc EXCEPT ![IH] = "ih_done"]
        /\ UNCHANGED << crashed, busTopics, busSubs, topW, devUsed, subCh, 
                        idxR, idxW, index, topicChans, chans, nextChan, 
                        installQ, uninstallQ, installed, errClosed, subTopic, 
                        subState, unTotal, unReq, resp, emitted, fmu, filters, 
                        timer, coSpawned, ticks, fires, latestBlock, 
                        lastIndexed, hdr, newBlockSig, quit, f, ft, ech, addOk, 
                        inUse, cch, pch, ptOk, round, cs, ct, seen, ok, polls, 
                        found, fx, me, h, lb, sent >>

ih_done == /\ pc[IH] = "ih_done"
           /\ TRUE
           /\ pc' = [pc EXCEPT ![IH] = "Done"]
           /\ UNCHANGED << crashed, busTopics, busSubs, topW, devUsed, subCh, 
                           idxR, idxW, index, topicChans, chans, nextChan, 
                           installQ, uninstallQ, installed, errClosed, 
                           subTopic, subState, unTotal, unReq, resp, emitted, 
                           fmu, filters, timer, coSpawned, ticks, fires, 
                           latestBlock, lastIndexed, hdr, newBlockSig, quitBuf, 
                           quit, f, ft, ech, addOk, inUse, cch, pch, ptOk, 
                           round, cs, ct, seen, ok, polls, found, fx, me, h, 
                           lb, sent >>

idxHeader == ih_sel \/ ih_loop \/ ih_cmp \/ ih_set \/ ih_sig \/ ih_q
                \/ ih_done

im_start == /\ pc[IM] = "im_start"
            /\ WithIndexer
            /\ pc' = [pc EXCEPT ![IM] = "im_top"]
            /\ UNCHANGED << crashed, busTopics, busSubs, topW, devUsed, subCh, 
                            idxR, idxW, index, topicChans, chans, nextChan, 
                            installQ, uninstallQ, installed, errClosed, 
                            subTopic, subState, unTotal, unReq, resp, emitted, 
                            fmu, filters, timer, coSpawned, ticks, fires, 
                            latestBlock, lastIndexed, hdr, newBlockSig, 
                            quitBuf, quit, f, ft, ech, addOk, inUse, cch, pch, 
                            ptOk, round, cs, ct, seen, ok, polls, found, fx, 
                            me, h, lb, sent >>

im_top == /\ pc[IM] = "im_top"
          /\ \/ /\ quit
                /\ pc' = [pc EXCEPT ![IM] = "im_q"]
                /\ UNCHANGED quitBuf
             \/ /\ quitBuf = 1
                /\ quitBuf' = 0
                /\ pc' = [pc EXCEPT ![IM] = "im_q"]
             \/ /\ ~quit /\ quitBuf = 0
                /\ pc' = [pc EXCEPT ![IM] = "im_chk"]
                /\ UNCHANGED quitBuf
          /\ UNCHANGED << crashed, busTopics, busSubs, topW, devUsed, subCh, 
                          idxR, idxW, index, topicChans, chans, nextChan, 
                          installQ, uninstallQ, installed, errClosed, subTopic, 
                          subState, unTotal, unReq, resp, emitted, fmu, 
                          filters, timer, coSpawned, ticks, fires, latestBlock, 
                          lastIndexed, hdr, newBlockSig, quit, f, ft, ech, 
                          addOk, inUse, cch, pch, ptOk, round, cs, ct, seen, 
                          ok, polls, found, fx, me, h, lb, sent >>

im_chk == /\ pc[IM] = "im_chk"
          /\ lb' = latestBlock
          /\ IF lastIndexed >= lb'
                THEN /\ pc' = [pc EXCEPT ![IM] = "im_wait"]
                ELSE /\ pc' = [pc EXCEPT ![IM] = "im_index"]
          /\ UNCHANGED << crashed, busTopics, busSubs, topW, devUsed, subCh, 
                          idxR, idxW, index, topicChans, chans, nextChan, 
                          installQ, uninstallQ, installed, errClosed, subTopic, 
                          subState, unTotal, unReq, resp, emitted, fmu, 
                          filters, timer, coSpawned, ticks, fires, latestBlock, 
                          lastIndexed, hdr, newBlockSig, quitBuf, quit, f, ft, 
                          ech, addOk, inUse, cch, pch, ptOk, round, cs, ct, 
                          seen, ok, polls, found, fx, me, h, sent >>

im_wait == /\ pc[IM] = "im_wait"
           /\ \/ /\ newBlockSig = 1
                 /\ newBlockSig' = 0
                 /\ pc' = [pc EXCEPT ![IM] = "im_top"]
              \/ /\ TRUE
                 /\ pc' = [pc EXCEPT ![IM] = "im_top"]
                 /\ UNCHANGED newBlockSig
              \/ /\ quit
                 /\ pc' = [pc EXCEPT ![IM] = "im_done"]
                 /\ UNCHANGED newBlockSig
           /\ UNCHANGED << crashed, busTopics, busSubs, topW, devUsed, subCh, 
                           idxR, idxW, index, topicChans, chans, nextChan, 
                           installQ, uninstallQ, installed, errClosed, 
                           subTopic, subState, unTotal, unReq, resp, emitted, 
                           fmu, filters, timer, coSpawned, ticks, fires, 
                           latestBlock, lastIndexed, hdr, quitBuf, quit, f, ft, 
                           ech, addOk, inUse, cch, pch, ptOk, round, cs, ct, 
                           seen, ok, polls, found, fx, me, h, lb, sent >>

im_index == /\ pc[IM] = "im_index"
            /\ IF lastIndexed < latestBlock
                  THEN /\ lastIndexed' = lastIndexed + 1
                       /\ pc' = [pc EXCEPT ![IM] = "im_index"]
                  ELSE /\ pc' = [pc EXCEPT ![IM] = "im_top"]
                       /\ UNCHANGED lastIndexed
            /\ UNCHANGED << crashed, busTopics, busSubs, topW, devUsed, subCh, 
                            idxR, idxW, index, topicChans, chans, nextChan, 
                            installQ, uninstallQ, installed, errClosed, 
                            subTopic, subState, unTotal, unReq, resp, emitted, 
                            fmu, filters, timer, coSpawned, ticks, fires, 
                            latestBlock, hdr, newBlockSig, quitBuf, quit, f, 
                            ft, ech, addOk, inUse, cch, pch, ptOk, round, cs, 
                            ct, seen, ok, polls, found, fx, me, h, lb, sent >>

im_q == /\ pc[IM] = "im_q"
        /\ IF "D27" \in Known
              THEN /\ quitBuf = 0
                   /\ quitBuf' = 1
              ELSE /\ quitBuf' = 1
        /\ pc' = [pc EXCEPT ![IM] = "im_done"]
        /\ UNCHANGED << crashed, busTopics, busSubs, topW, devUsed, subCh, 
                        idxR, idxW, index, topicChans, chans, nextChan, 
                        installQ, uninstallQ, installed, errClosed, subTopic, 
                        subState, unTotal, unReq, resp, emitted, fmu, filters, 
                        timer, coSpawned, ticks, fires, latestBlock, 
                        lastIndexed, hdr, newBlockSig, quit, f, ft, ech, addOk, 
                        inUse, cch, pch, ptOk, round, cs, ct, seen, ok, polls, 
                        found, fx, me, h, lb, sent >>

im_done == /\ pc[IM] = "im_done"
           /\ TRUE
           /\ pc' = [pc EXCEPT ![IM] = "Done"]
           /\ UNCHANGED << crashed, busTopics, busSubs, topW, devUsed, subCh, 
                           idxR, idxW, index, topicChans, chans, nextChan, 
                           installQ, uninstallQ, installed, errClosed, 
                           subTopic, subState, unTotal, unReq, resp, emitted, 
                           fmu, filters, timer, coSpawned, ticks, fires, 
                           latestBlock, lastIndexed, hdr, newBlockSig, quitBuf, 
                           quit, f, ft, ech, addOk, inUse, cch, pch, ptOk, 
                           round, cs, ct, seen, ok, polls, found, fx, me, h, 
                           lb, sent >>

idxMain == im_start \/ im_top \/ im_chk \/ im_wait \/ im_index \/ im_q
              \/ im_done

iq_start == /\ pc[IQ] = "iq_start"
            /\ WithIndexer
            /\ pc' = [pc EXCEPT ![IQ] = "iq_loop"]
            /\ UNCHANGED << crashed, busTopics, busSubs, topW, devUsed, subCh, 
                            idxR, idxW, index, topicChans, chans, nextChan, 
                            installQ, uninstallQ, installed, errClosed, 
                            subTopic, subState, unTotal, unReq, resp, emitted, 
                            fmu, filters, timer, coSpawned, ticks, fires, 
                            latestBlock, lastIndexed, hdr, newBlockSig, 
                            quitBuf, quit, f, ft, ech, addOk, inUse, cch, pch, 
                            ptOk, round, cs, ct, seen, ok, polls, found, fx, 
                            me, h, lb, sent >>

iq_loop == /\ pc[IQ] = "iq_loop"
           /\ IF ~quit
                 THEN /\ \/ /\ sent < MaxHeaders
                            /\ sent' = sent + 1
                            /\ hdr' = Append(hdr, sent')
                            /\ quit' = quit
                         \/ /\ quit' = TRUE
                            /\ UNCHANGED <<hdr, sent>>
                      /\ pc' = [pc EXCEPT ![IQ] = "iq_loop"]
                 ELSE /\ pc' = [pc EXCEPT ![IQ] = "Done"]
                      /\ UNCHANGED << hdr, quit, sent >>
           /\ UNCHANGED << crashed, busTopics, busSubs, topW, devUsed, subCh, 
                           idxR, idxW, index, topicChans, chans, nextChan, 
                           installQ, uninstallQ, installed, errClosed, 
                           subTopic, subState, unTotal, unReq, resp, emitted, 
                           fmu, filters, timer, coSpawned, ticks, fires, 
                           latestBlock, lastIndexed, newBlockSig, quitBuf, f, 
                           ft, ech, addOk, inUse, cch, pch, ptOk, round, cs, 
                           ct, seen, ok, polls, found, fx, me, h, lb >>

idxEnv == iq_start \/ iq_loop

Next == eventLoop \/ consumeEvents \/ timeoutLoop \/ source \/ idxHeader
           \/ idxMain \/ idxEnv
           \/ (\E self \in PTs: publishTopic(self))
           \/ (\E self \in CLs: client(self))
           \/ (\E self \in UNs: unsub(self))
           \/ (\E self \in COs: consumer(self))

Spec == Init /\ [][Next]_vars

\* END TRANSLATION

(***************************************************************************)
(* Deadlock freedom.  Goroutines that may legitimately block forever are   *)
(* marked here: a state in which every process is terminated or parked at  *)
(* one of these points is quiescent (it stutters); TLC's deadlock check    *)
(* then reports exactly the states in which some goroutine is stuck        *)
(* somewhere else (a lock, an install hand-shake, a full channel).         *)
(***************************************************************************)
Parked(p) ==
  \/ pc[p] = "Done"
  \/ p = EL  /\ pc[p] = "el_wait"
  \/ p = CE  /\ pc[p] = "ce_lookup"
  \/ p = TL  /\ pc[p] = "tl_idle"
  \/ p \in PTs /\ pc[p] \in {"pt_loop", "pt_done"}     \* never started, or serving a topic
  \/ p \in UNs /\ pc[p] = "un_send"
  \/ p \in COs /\ pc[p] = "co_sel" /\ (p - 40 \notin coSpawned \/ subState[p - 40] = "live")
  \/ p = IH /\ pc[p] = "ih_sel"
  \/ p = IM /\ pc[p] = "im_start"
  \/ p = IQ /\ pc[p] = "iq_start"

Quiescent == \A p \in ProcSet : Parked(p)

MCNext == Next \/ (Quiescent /\ UNCHANGED vars)
MCSpec == Init /\ [][MCNext]_vars
Fairness == /\ WF_vars(eventLoop) /\ WF_vars(consumeEvents) /\ WF_vars(timeoutLoop) /\ WF_vars(source)
            /\ WF_vars(idxHeader) /\ WF_vars(idxMain) /\ WF_vars(idxEnv)
            /\ \A p \in PTs : WF_vars(publishTopic(p))
            /\ \A p \in CLs : WF_vars(client(p))
            /\ \A p \in UNs : WF_vars(unsub(p))
            /\ \A p \in COs : WF_vars(consumer(p))
MCFairSpec == MCSpec /\ Fairness

(* every publishTopic goroutine that is waiting on a source serves the registered topic channel:
   otherwise it (and its channel) can never be closed any more -- a leaked goroutine *)
NoLeakedPublisher ==
  (pc[EL] = "el_wait") => \A c \in Chans : (pc[PT(c)] = "pt_loop" /\ chans[c].topic # 0 /\ ~chans[c].closed) => topicChans[chans[c].topic] = c

(* what the event system believes and what the bus holds agree whenever the event loop is idle *)
TopicAgreement ==
  (pc[EL] = "el_wait") => \A t \in Topics : (topicChans[t] # 0 => busTopics[t] = topicChans[t])

(* liveness, under weak fairness of every goroutine *)
EventuallyUninstalled ==
  \A s \in Subs : (subState[s] \in {"unsub", "expired"} /\ unReq[s] + (IF s \in uninstallQ THEN 1 ELSE 0) > 0) ~> errClosed[s]
UninstalledLeavesIndex ==
  \A s \in Subs : (subState[s] = "unsub") ~> [](subState[s] # "unsub" \/ subTopic[s] = 0 \/ s \notin index[subTopic[s]])
ConsumersTerminate ==
  \A s \in Subs : errClosed[s] /\ s \in coSpawned ~> pc[CO(s)] = "Done"
IndexerStops == quit ~> (pc[IH] = "Done" /\ pc[IM] = "Done")

(* state projection used by the replayer (what can be observed on the real objects at quiescence) *)
Observable == [topics |-> {t \in Topics : busTopics[t] # 0},
               subs   |-> [t \in Topics |-> Cardinality(busSubs[t])],
               chans  |-> {t \in Topics : topicChans[t] # 0},
               index  |-> [t \in Topics |-> Cardinality(index[t])],
               filters |-> Cardinality(filters),
               crashed |-> crashed]

(***************************************************************************)
(* Hook table (repository side, build tag verif):                          *)
(*   el_wait        eventLoop i.locked(sub) | u.locked(sub)                *)
(*   el_i_addchk    bus addTopic.check      el_i_add     bus addTopic.add  *)
(*   el_i_unlock[0] eventLoop i.unlock      el_i_done    eventLoop i.done  *)
(*   el_u_remove    bus removeTopic         el_u_close   eventLoop u.close *)
(*   el_u_unlock    eventLoop u.unlock      el_u_done    eventLoop u.done  *)
(*   ce_lookup      consumeEvents lookup    ce_send      consumeEvents send*)
(*   ce_sent        consumeEvents sent | timeout (absent when it panicked) *)
(*   pt_loop        publishTopic recv(ok)   pt_pub       bus publish       *)
(*   pt_closeall    bus closeAll            pt_del       bus delTopic      *)
(*   c_topics       bus topics              c_inst       subscribe install *)
(*   c_wait         subscribe installed     c_bsub1      bus subscribe.check*)
(*   c_bsub2        bus subscribe.add       c_cancel/co_exit bus unsubscribe*)
(*   un_send        unsubscribe send        c_flock      api nbf.locked    *)
(*   c_fadd         api nbf.added           c_funlock    api nbf.unlock    *)
(*   g_lock         api gfc.locked          g_timer      api gfc.drain     *)
(*   g_unlock       api gfc.unlock          u_lock       api uf.locked     *)
(*   co_sel         consumer recv|closed|err co_ev/co_closed/co_err consumer ev|closed|err (under filtersMu) *)
(*   tl_idle        timeoutLoop locked      tl_sweep     timeoutLoop expire(id) | unlock                *)
(***************************************************************************)

=============================================================================
