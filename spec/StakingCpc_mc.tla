--------------------------- MODULE StakingCpc_mc ---------------------------
(***************************************************************************)
(* Exhaustive design-level check of StakingCpc.tla within small constants: *)
(* 2 validators, 2 delegators + 1 contract caller, amounts from Amounts,   *)
(* at most MaxOps calls interleaved with reward accrual and time steps     *)
(* (entries mature), every method on both routes, and the signed-message   *)
(* variants over the whole grid                                            *)
(*   (message delegator, immediate caller, signer, chain id)               *)
(*        in 3 x 3 x 3 x 2   plus a tampered field.                        *)
(* Route "cpc" steps with Effect, route "native" with the expansion into   *)
(* native messages; RouteIndependent requires the two to coincide in every *)
(* reachable state.  The step laws are action properties over the ghost    *)
(* record `last`, which the VIEW hides.                                    *)
(***************************************************************************)
EXTENDS StakingCpc

CONSTANTS MaxOps, MaxTime, MaxAccrue, Amounts, Witness, BothRoutes

McD == {"d1", "d2", "c1"}
McV == {"v1", "v2"}
Signers == {"d1", "d2", "k3"}     \* keys: the two EOAs and a third key; the contract c1 has none
CF == [D |-> McD, V |-> McV, Vseq |-> <<"v1", "v2">>, iter |-> <<"v2", "v1">>, valOrder |-> <<"v2", "v1">>, ut |-> 2, maxEntries |-> 2, minW |-> 2]

VARIABLES st, now, nops, nacc, last, logs
vars == <<st, now, nops, nacc, last, logs>>
view == <<st, now, nops, nacc>>

St0 == [deleg |-> [d1 |-> [v1 |-> 2, v2 |-> 0], d2 |-> [v1 |-> 1, v2 |-> 1], c1 |-> [v1 |-> 0, v2 |-> 1]],
        ubd   |-> [d \in McD |-> [v \in McV |-> <<>>]],
        red   |-> [d \in McD |-> <<>>],
        rew   |-> [d1 |-> [v1 |-> 2, v2 |-> 0], d2 |-> [v1 |-> 0, v2 |-> 3], c1 |-> [v1 |-> 0, v2 |-> 1]],
        bal   |-> [d1 |-> 3, d2 |-> 1, c1 |-> 2, bonded |-> 5, notbonded |-> 0, distr |-> 7, fc |-> 0]]

NoLast == [kind |-> "none"]

Init ==
  /\ st = St0 /\ now = 0 /\ nops = 0 /\ nacc = 0 /\ last = NoLast /\ logs = <<>>
  /\ (Witness => \A i \in 1..22 : TLCSet(i, FALSE))

NoOp == [m |-> "-", v |-> "-", src |-> "-", to |-> "-", act |-> "-", md |-> "-", signer |-> "-", chain |-> "-", tamper |-> "-", amt |-> 0]

PlainOps(c) ==
       {[NoOp EXCEPT !.m = "delegate", !.v = v, !.amt = a] : v \in McV, a \in Amounts}
  \cup {[NoOp EXCEPT !.m = "undelegate", !.v = v, !.amt = a] : v \in McV, a \in Amounts}
  \cup {[NoOp EXCEPT !.m = "redelegate", !.src = s, !.v = v, !.amt = a] : s \in McV, v \in McV, a \in Amounts}
  \cup {[NoOp EXCEPT !.m = "withdrawReward", !.v = v] : v \in McV}
  \cup {[NoOp EXCEPT !.m = "withdrawRewards"]}
  \cup {[NoOp EXCEPT !.m = "transfer", !.to = t, !.amt = a] : t \in {c, "d2"}, a \in Amounts}     \* to = caller, to # caller

Payloads ==
  {[NoOp EXCEPT !.m = "delegateByMsg", !.act = "Delegate", !.v = "v1", !.amt = 1],
   [NoOp EXCEPT !.m = "delegateByMsg", !.act = "Undelegate", !.v = "v2", !.amt = 1],
   [NoOp EXCEPT !.m = "delegateByMsg", !.act = "Redelegate", !.src = "v1", !.v = "v2", !.amt = 1],
   [NoOp EXCEPT !.m = "withdrawByMsg", !.v = "all"],
   [NoOp EXCEPT !.m = "withdrawByMsg", !.v = "v1"]}

Signed(p, md, sg, ch, tm) == [p EXCEPT !.md = md, !.signer = sg, !.chain = ch, !.tamper = tm]
\* the valid signed messages of an EOA c (both routes)
ValidOps(c) == {Signed(p, c, c, "ours", "none") : p \in Payloads}
\* the forged ones: the whole grid (message delegator, caller, signer, chain id) minus the valid corner, plus a
\* field changed after signing; two payloads (one per method) are enough, a forged call never gets to the payload
ForgedPayloads == {p \in Payloads : (p.m = "delegateByMsg" /\ p.act = "Delegate") \/ (p.m = "withdrawByMsg" /\ p.v = "all")}
ForgedOps(c) ==
       {o \in {Signed(p, md, sg, ch, "none") : p \in ForgedPayloads, md \in McD, sg \in Signers, ch \in {"ours", "other"}} : ~ValidSigned(o, c)}
  \cup {Signed(p, c, c, "ours", "field") : p \in ForgedPayloads}

MethodIdx(op) ==
  CASE op.m = "delegate" -> 1 [] op.m = "undelegate" -> 2 [] op.m = "redelegate" -> 3 [] op.m = "withdrawReward" -> 4
    [] op.m = "withdrawRewards" -> 5 [] op.m = "transfer" -> 6 [] op.m = "delegateByMsg" -> 7 [] op.m = "withdrawByMsg" -> 8

(* A step is a call by immediate caller c on route "cpc" (Effect) or the submission of the corresponding native
   messages on route "native" (ApplyMsgs of the expansion).  Both are explored when BothRoutes; otherwise only the
   precompile route is explored and RouteIndependent still computes the native result for every step. *)
Step(route, o, c, op) ==          \* o = transaction origin (an EOA), c = immediate caller of the precompile
  /\ nops < MaxOps
  /\ LET e == IF route = "cpc" THEN Effect(CF, st, now, c, op)
              ELSE ApplyMsgs(CF, st, now, Expand(CF, st, c, op))
     IN /\ st' = e.st
        /\ logs' = IF route = "cpc" /\ e.ok THEN Translate(e.evs, c) ELSE <<>>
        /\ last' = [kind |-> "op", route |-> route, origin |-> o, caller |-> c, op |-> op, ok |-> e.ok, evs |-> e.evs]
        /\ (Witness => /\ (e.ok => TLCSet(MethodIdx(op) + (IF route = "cpc" THEN 0 ELSE 8), TRUE))
                       /\ ((e.ok /\ c = "c1") => TLCSet(17, TRUE))
                       /\ ((IsSigned(op) /\ ~ValidSigned(op, c)) => TLCSet(18, TRUE))
                       /\ (RelayedByOrigin(op, c, o) => TLCSet(21, TRUE))
                       /\ ((op.m = "transfer" /\ e.ok /\ op.amt > st.bal[c]) => TLCSet(22, TRUE))
                       /\ ((e.ok /\ Len(e.st.red[c]) > 0 /\ Len(st.red[c]) > 0) => TLCSet(19, TRUE)))
  /\ nops' = nops + 1
  /\ UNCHANGED <<now, nacc>>

(* rewards accrue (opaque to this specification: any growth proportional to the stake will do) *)
Accrue ==
  /\ nacc < MaxAccrue
  /\ st' = [st EXCEPT !.rew = [d \in McD |-> [v \in McV |-> st.rew[d][v] + st.deleg[d][v]]],
                      !.bal["distr"] = @ + Sum([d \in McD |-> Sum(st.deleg[d], McV)], McD)]
  /\ nacc' = nacc + 1 /\ last' = [kind |-> "accrue"] /\ logs' = <<>>
  /\ UNCHANGED <<now, nops>>

Tick ==
  /\ now < MaxTime
  /\ now' = now + 1
  /\ st' = Mature(CF, st, now + 1)
  /\ (Witness /\ st' # st => TLCSet(20, TRUE))
  /\ last' = [kind |-> "tick"] /\ logs' = <<>>
  /\ UNCHANGED <<nops, nacc>>

Origins(c) == IF c = "c1" THEN {"d1", "d2"} ELSE {c}
Routes == IF BothRoutes THEN {"cpc", "native"} ELSE {"cpc"}

Next ==
  \/ \E route \in Routes, c \in McD : \E op \in PlainOps(c) : Step(route, IF c = "c1" THEN "d1" ELSE c, c, op)
  \/ \E route \in Routes, c \in {"d1", "d2"} : \E op \in ValidOps(c) : Step(route, c, c, op)
  \* forged grid; a contract caller is reached by a transaction of either EOA, so the grid contains
  \* "delegator = signer = tx origin, immediate caller = contract" (authorisation does not depend on time)
  \/ (now = 0 /\ \E c \in McD : \E o \in Origins(c) : \E op \in ForgedOps(c) : Step("cpc", o, c, op))
  \/ Accrue
  \/ Tick

SpecMc == Init /\ [][Next]_vars

IsOp == last'.kind = "op"

(* ---- invariants ---- *)
ConservedInv == Conserved(CF, st)
EntriesBounded == \A d \in McD, v \in McV : Len(st.ubd[d][v]) <= CF.maxEntries
ViewsConsistent ==
  \A d \in McD : /\ VTotalDelegationOf(CF, st, d) = Sum([v \in McV |-> VDelegationOf(st, d, v)], McV)
                 /\ \A v \in McV : (v \in VDelegatedValidators(CF, st, d)) <=> (VDelegationOf(st, d, v) > 0)
                 /\ VRewardsFloor(CF, st, d) = Sum([v \in McV |-> VRewardOf(st, d, v)], McV)

(* ---- action properties ---- *)
OnlyCaller == [][IsOp => OnlyCallerOK(CF, st, st', last'.caller)]_vars

ForgedRejected ==
  [][(IsOp /\ IsSigned(last'.op) /\ ~ValidSigned(last'.op, last'.caller)) => (st' = st /\ logs' = <<>> /\ ~last'.ok)]_vars

(* the transaction origin is no authority: relayed by a contract, even the origin's own valid signature is refused *)
OriginIsNoAuthority ==
  [][(IsOp /\ RelayedByOrigin(last'.op, last'.caller, last'.origin)) => (st' = st /\ logs' = <<>> /\ ~last'.ok)]_vars

RouteIndependent ==
  [][IsOp => LET c == last'.caller  op == last'.op
                 e == Effect(CF, st, now, c, op)
                 ms == Expand(CF, st, c, op)
                 n == ApplyMsgs(CF, st, now, ms)
             IN /\ e.ok = n.ok /\ e.st = n.st /\ e.evs = n.evs
                /\ st' = e.st
                /\ \A i \in 1..Len(ms) : ms[i].d = c]_vars          \* every native message acts for the caller

LogsMatchEvents ==
  [][(IsOp /\ last'.route = "cpc") => /\ logs' = (IF last'.ok THEN Translate(last'.evs, last'.caller) ELSE <<>>)
                                      /\ LogsExplain(CF, st, st', last'.caller, logs')
                                      /\ \A i \in 1..Len(logs') : logs'[i].d = last'.caller /\ logs'[i].amt > 0]_vars

FailedChangesNothing == [][(IsOp /\ ~last'.ok) => (st' = st /\ logs' = <<>>)]_vars

SupplyConserved == [][(IsOp \/ last'.kind = "tick") => Total(CF, st') = Total(CF, st)]_vars

(* Vacuity guard (single-worker run with Witness = TRUE): every method succeeds on both routes, a contract
   caller succeeds, a forged message occurs, a second redelegation entry and a maturing entry occur,
   a message of delegator = signer = tx origin is relayed by the contract (21),
   a transfer() succeeds that only the rewards it claims pay for (22). *)
WitnessAll ==
  LET missing == {i \in 1..22 : TLCGet(i) # TRUE} IN
  IF missing = {} THEN TRUE ELSE Print(<<"WITNESS MISSING", missing>>, FALSE)
=============================================================================
