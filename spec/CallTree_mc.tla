---------------------------- MODULE CallTree_mc ----------------------------
(* design run of CallTree.tla over the method table of the real code (methods.json, *)
(* written by `vh_cpc methods`); also writes the B1 vectors for the harness.        *)
EXTENDS CallTree

McKinds == {"CALL", "CALLCODE", "DELEGATECALL", "STATICCALL"}
=============================================================================
