SPECIFICATION Spec
CONSTANT Kinds <- McKinds
CONSTANT MaxDepth = 5
CONSTANT Pre = {"bare", "foreign"}
CONSTANT Bypass = FALSE
INVARIANT RoNeverWrites
INVARIANT StaticIsInert
INVARIANT RwHasGas
INVARIANT RoAreViews
INVARIANT ControlsWrite
INVARIANT Total
POSTCONDITION WriteVectors
CHECK_DEADLOCK FALSE
