--------------------------- MODULE TraceReplicas ---------------------------
(***************************************************************************)
(* C01: the same block history executed on several instances of the real   *)
(* application under different hidden conditions                           *)
(*   r0  the instance the history was generated on                         *)
(*   r1  a fresh instance in the same process                              *)
(*   r2  other node-local options (minimum-gas-prices, invariant check     *)
(*       period), GOMAXPROCS = 1                                           *)
(*   r3  database copied and the application reloaded in the middle        *)
(*   r4  another process started later, another environment (TZ, GOGC,    *)
(*       GOMAXPROCS)                                                       *)
(*   r5  run after the wall clock passed the end of a vesting account all header times call expired *)
(*   r6  a node that serves eth_call (tip and historical heights), CheckTx and Simulate between blocks *)
(*   r7  a node that answers storage / code / balance / eth_call queries   *)
(*       on eight other goroutines WHILE it executes and commits each      *)
(*       block (Replicas.tla: hidden input `q`, mode "sharedscratch")      *)
(*   r8  a node started with --evm.tracer access_list                       *)
(*   r9  another process started with --evm.tracer json: the long-running  *)
(*       message of the history (a 6M-gas tight loop) takes seconds there  *)
(* each at another wall-clock instant and with another hash-map seed.      *)
(* Lines: History (starts a trace), Block (replica, height, app hash,      *)
(* per-transaction code / codespace / data / gas wanted / gas used /       *)
(* events, block events, validator updates).  The specification (Replicas. *)
(* tla: Agree) allows exactly one outcome per height: whatever r0 showed.  *)
(***************************************************************************)
EXTENDS Integers, Sequences, TLC, Json

Trace == ndJsonDeserialize("trace.ndjson")

CONSTANT Focus
AllGroups == {"AppHash", "TxResult", "Events", "ValUpdates", "Panic", "Shape"}

VARIABLES l, ref, err, cls
tvars == <<l, ref, err, cls>>

Get(f, k, d) == IF k \in DOMAIN f THEN f[k] ELSE d
Put(f, k, v) == [x \in (DOMAIN f) \cup {k} |-> IF x = k THEN v ELSE f[x]]
EmptyFn == [x \in {} |-> 0]
Bump(f, k) == Put(f, k, Get(f, k, 0) + 1)
OK == <<"ok", "">>
Ev == Trace[l]

TraceInit == l = 1 /\ ref = EmptyFn /\ err = <<>> /\ cls = EmptyFn

TxDiff(a, b) ==
  IF a.code # b.code \/ a.codespace # b.codespace THEN <<"TxResult", "code">>
  ELSE IF a.data # b.data THEN <<"TxResult", "data">>
  ELSE IF a.gw # b.gw THEN <<"TxResult", "gas-wanted">>
  ELSE IF a.gu # b.gu THEN <<"TxResult", "gas-used">>
  ELSE IF a.nev # b.nev THEN <<"Events", "tx-event-count">>
  ELSE IF a.events # b.events THEN <<"Events", "tx-events">>
  ELSE OK

Compare(r, e) ==
  IF r.panic # e.panic THEN <<"Panic", "one-instance-panicked">>
  ELSE IF Len(r.txs) # Len(e.txs) THEN <<"Shape", "tx-count">>
  ELSE IF \E i \in 1..Len(r.txs) : TxDiff(r.txs[i], e.txs[i]) # OK
       THEN TxDiff(r.txs[CHOOSE i \in 1..Len(r.txs) : TxDiff(r.txs[i], e.txs[i]) # OK /\ \A j \in 1..(i - 1) : TxDiff(r.txs[j], e.txs[j]) = OK],
                   e.txs[CHOOSE i \in 1..Len(r.txs) : TxDiff(r.txs[i], e.txs[i]) # OK /\ \A j \in 1..(i - 1) : TxDiff(r.txs[j], e.txs[j]) = OK])
  ELSE IF r.blockEv # e.blockEv THEN <<"Events", "block-events">>
  ELSE IF r.valUpd # e.valUpd THEN <<"ValUpdates", "validator-updates">>
  ELSE IF r.appHash # e.appHash THEN <<"AppHash", "app-hash">>
  ELSE OK

DoHistory == Ev.ev = "History" /\ ref' = EmptyFn /\ cls' = Bump(cls, "histories") /\ UNCHANGED err

DoBlock ==
  /\ Ev.ev = "Block"
  /\ IF Ev.rep = "r0" THEN
       /\ ref' = Put(ref, Ev.h, Ev)
       /\ cls' = Bump(Bump(cls, "blocks"), IF Ev.panic THEN "panicked-blocks" ELSE "txs." \o ToString(Len(Ev.txs)))
       /\ (IF Ev.panic /\ "Panic" \in Focus THEN err' = <<l, "Panic", "block-panicked">> /\ PrintT(<<"LAWBROKEN", l, "Panic", "block-panicked">>) ELSE UNCHANGED err)
     ELSE
       LET c == IF Ev.h \notin DOMAIN ref THEN <<"Shape", "height-unknown-to-reference">> ELSE Compare(ref[Ev.h], Ev) IN
       /\ UNCHANGED ref
       /\ cls' = Bump(cls, "compared." \o Ev.rep)
       /\ IF c = OK \/ c[1] \notin Focus THEN UNCHANGED err
          ELSE err' = <<l, c[1], c[2]>> /\ PrintT(<<"LAWBROKEN", l, c[1], c[2] \o "-differs-on-" \o Ev.rep>>)

TraceNext == l <= Len(Trace) /\ err = <<>> /\ l' = l + 1 /\ (DoHistory \/ DoBlock)
TraceSpec == TraceInit /\ [][TraceNext]_tvars

Coverage == (l = Len(Trace) + 1 /\ err = <<>>) => PrintT(<<"COVERAGE", ToJsonObject(cls), 0, "SKIPPED", <<>>>>)
TraceAccepted ==
  LET d == TLCGet("stats").diameter IN
  IF d - 1 = Len(Trace) THEN TRUE ELSE Print(<<"TRACE NOT ACCEPTED: consumed", d - 1, "of", Len(Trace)>>, FALSE)
=============================================================================
