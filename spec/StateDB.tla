------------------------------ MODULE StateDB ------------------------------
(***************************************************************************)
(* The context-based StateDB of x/evm/vm as an abstract machine            *)
(* (properties C03 and C15, getter semantics of C02).                      *)
(*                                                                         *)
(* State record st:                                                        *)
(*   cur    the world all reads and writes go to                           *)
(*   saved  saved[i] = the world as it was when Snapshot() returned i-1    *)
(*   base   the world of the context the StateDB was created with; it      *)
(*          changes only by a successful Commit                            *)
(*   now    block time                                                     *)
(*   alive  FALSE after Commit, Discard or a panic (the EVM never uses a   *)
(*          StateDB after any of these)                                    *)
(* A world is the record of World.tla extended with                        *)
(*   lock   vesting accounts: coins locked until vend (original vesting)   *)
(*   al, als  access list: addresses / <<address, slot>> pairs             *)
(*   tstor  transient storage  addr -> slot -> value                       *)
(*   allow  a foreign module's table written through GetCurrentContext()   *)
(*          (ERC-20 precompile allowances):  "owner|spender" -> amount  *)
(* bal2 (balances in another denomination) doubles as the second foreign   *)
(* store: a stateful precompile moves it with x/bank through the current   *)
(* context.                                                                *)
(*                                                                         *)
(* Storage keeps zero-valued slots as present keys, as the KV store does   *)
(* (SetState writes 32 zero bytes), because account emptiness looks at key *)
(* presence.                                                               *)
(*                                                                         *)
(* Apply(st, op) gives [st, res, ret]: res = "ok" | "panic"; ret = the     *)
(* value the call returns (snapshot id, Suicide's bool as 0/1, else 0).    *)
(***************************************************************************)
EXTENDS Evm

Lock(w, a) == Get(w.lock, a, 0)
Locked(w, a, now) == IF Kind(w, a) = "vesting" /\ Vend(w, a) > now THEN Lock(w, a) ELSE 0
TStorOf(w, a) == Get(w.tstor, a, EmptyFn)
TSlot(w, a, s) == Get(TStorOf(w, a), s, 0)
AKey(o, s) == o \o "|" \o s
Allow(w, o, s) == Get(w.allow, AKey(o, s), 0)

(* SetState keeps the key even when the value is zero *)
PutSlot(w, a, s, v) == [w EXCEPT !.stor = Put(w.stor, a, Put(StorOf(w, a), s, v))]

R(st, res, ret) == [st |-> st, res |-> res, ret |-> ret]
Ok(st, w)  == R([st EXCEPT !.cur = w], "ok", 0)
Panic(st)  == R([st EXCEPT !.alive = FALSE], "panic", 0)

(* x/bank: coins can be taken from an account only beyond what vesting still locks *)
CanSpend(w, a, v, now) == Bal(w, a) - Locked(w, a, now) >= v

Burn(w, a, v) == [SetBal(w, a, Bal(w, a) - v) EXCEPT !.supply = @ - v]
Mint(w, a, v) == [Credit(w, a, v) EXCEPT !.supply = @ + v]

(* DestroyAccount followed by re-creation; all denominations are carried over *)
SdbCreateAccount(w, a, now) == CreateAccount(w, a, now)

ApplyOp(st, o) ==
  LET w == st.cur  now == st.now IN
  CASE o.op = "AddBalance" ->
         IF o.v = 0 THEN Ok(st, Touch(w, o.a))
         ELSE IF Blocked(w, o.a) THEN Panic(st)
         ELSE Ok(st, Touch(Mint(w, o.a, o.v), o.a))
    [] o.op = "SubBalance" ->
         IF o.v = 0 THEN Ok(st, Touch(w, o.a))
         ELSE IF ~CanSpend(w, o.a, o.v, now) THEN Panic(st)
         ELSE Ok(st, Touch(Burn(w, o.a, o.v), o.a))
    [] o.op = "SetNonce" -> Ok(st, Touch(SetSeq(Ensure(w, o.a), o.a, o.v), o.a))
    [] o.op = "SetCode"  -> Ok(st, Touch(SetCode(Ensure(w, o.a), o.a, o.code), o.a))
    [] o.op = "SetState" -> Ok(st, Touch(PutSlot(Ensure(w, o.a), o.a, o.k, o.v), o.a))
    [] o.op = "SetTransientState" ->
         Ok(st, [w EXCEPT !.tstor = Put(w.tstor, o.a, Put(TStorOf(w, o.a), o.k, o.v))])
    [] o.op = "CreateAccount" ->
         IF Protected(w, o.a, now) THEN Panic(st)
         ELSE Ok(st, SdbCreateAccount(w, o.a, now))
    [] o.op = "Suicide" ->
         IF ~Ex(w, o.a) THEN R([st EXCEPT !.cur = Touch(w, o.a)], "ok", 0)
         ELSE IF Bal(w, o.a) > 0 /\ ~CanSpend(w, o.a, Bal(w, o.a), now) THEN Panic(st)
         ELSE R([st EXCEPT !.cur = [Touch(Burn(w, o.a, Bal(w, o.a)), o.a) EXCEPT !.sd = @ \cup {o.a}]], "ok", 1)
    [] o.op = "AddRefund" -> Ok(st, [w EXCEPT !.refund = @ + o.v])
    [] o.op = "SubRefund" -> IF w.refund < o.v THEN Panic(st) ELSE Ok(st, [w EXCEPT !.refund = @ - o.v])
    [] o.op = "AddLog"    -> Ok(st, [w EXCEPT !.logs = Append(@, o.v)])
    [] o.op = "AddAddressToAccessList" -> Ok(st, [w EXCEPT !.al = @ \cup {o.a}])
    [] o.op = "AddSlotToAccessList"    -> Ok(st, [w EXCEPT !.al = @ \cup {o.a}, !.als = @ \cup {<<o.a, o.k>>}])
    (* what a stateful precompile does through GetCurrentContext(): x/bank send of another denomination *)
    [] o.op = "ForeignSend" ->
         IF Bal2(w, o.a) < o.v THEN R(st, "ok", 0)                       \* the keeper returns an error, nothing written
         ELSE LET w1 == [w EXCEPT !.bal2 = Put(w.bal2, o.a, Bal2(w, o.a) - o.v)]
                  w2 == [w1 EXCEPT !.bal2 = Put(w1.bal2, o.b, Bal2(w1, o.b) + o.v)]
              IN R([st EXCEPT !.cur = SetEx(w2, o.b, TRUE)], "ok", 1)
    (* ... and a write to the precompile module's own table *)
    [] o.op = "ForeignAllow" -> Ok(st, [w EXCEPT !.allow = Put(w.allow, AKey(o.a, o.b), o.v)])
    [] o.op = "Snapshot" ->
         R([st EXCEPT !.saved = Append(@, w)], "ok", Len(st.saved))
    [] o.op = "Revert" ->
         (* ids are 0-based; the snapshot itself stays valid, everything after it is gone *)
         IF o.id < 0 \/ o.id >= Len(st.saved) THEN Panic(st)
         ELSE R([st EXCEPT !.cur = st.saved[o.id + 1], !.saved = SubSeq(st.saved, 1, o.id + 1)], "ok", 0)
    [] o.op = "Commit" ->
         LET D == IF o.deleteEmpty THEN ToDestroy(w) ELSE {a \in w.touched : a \in w.sd} IN
         IF \E a \in D : Protected(w, a, now) THEN Panic(st)
         ELSE LET wc == [DestroyAll(w, D) EXCEPT !.touched = {}, !.sd = {}, !.logs = <<>>, !.refund = 0, !.orig = EmptyFn,
                                                 !.al = {}, !.als = {}, !.tstor = EmptyFn]
              IN R([st EXCEPT !.base = wc, !.cur = wc, !.saved = <<>>, !.alive = FALSE], "ok", 0)
    [] o.op = "Discard" -> R([st EXCEPT !.alive = FALSE], "ok", 0)

Apply(st, o) == IF ~st.alive /\ o.op # "Discard" THEN R(st, "dead", 0) ELSE ApplyOp(st, o)

(***************************************************************************)
(* Getter semantics (what the EVM sees).                                   *)
(***************************************************************************)
GetCommitted(st, a, s) ==
  (* account gone or re-made within the transaction: no committed storage *)
  IF ~Ex(st.cur, a) THEN 0 ELSE Get(Get(st.cur.orig, a, EmptyFn), s, 0)
GetStateV(st, a, s) == Slot(st.cur, a, s)
Exist(st, a) == SdbExist(st.cur, a)
EmptyAcc(st, a) == IsEmpty(st.cur, a)

(* the world a fresh StateDB starts from *)
StartWorld(b) == [b EXCEPT !.touched = {}, !.sd = {}, !.logs = <<>>, !.refund = 0, !.orig = b.stor,
                           !.al = {}, !.als = {}, !.tstor = EmptyFn]
NewStateDB(b, now) == [cur |-> StartWorld(b), saved |-> <<>>, base |-> b, now |-> now, alive |-> TRUE, lost |-> FALSE]

(***************************************************************************)
(* Properties of the abstract machine (C15), as predicates on one step.    *)
(***************************************************************************)
(* a protected account keeps its record, kind and every balance's ownership across any ok step *)
ProtectedSurvives(st, st2) ==
  \A a \in DOMAIN st.cur.ex :
     (st2.alive \/ st2.base = st2.cur) /\ Protected(st.cur, a, st.now) =>
        Ex(st2.cur, a) /\ Kind(st2.cur, a) = Kind(st.cur, a) /\ Vend(st2.cur, a) = Vend(st.cur, a)

(* vesting-locked coins are never spent: an account's EVM-denomination balance never falls below what is locked *)
LockedNeverSpent(st, st2) ==
  \A a \in DOMAIN st.cur.ex :
     Ex(st.cur, a) /\ Bal(st.cur, a) >= Locked(st.cur, a, st.now) /\ Bal(st2.cur, a) < Bal(st.cur, a)
        => Bal(st2.cur, a) >= Locked(st.cur, a, st.now)

(* Commit deletes exactly the self-destructed and (if asked) the touched empty accounts, and deletes them completely *)
CommitDeletes(st, o, st2) ==
  o.op = "Commit" /\ st2.base = st2.cur /\ ~st2.alive /\ st.alive =>
    \A a \in DOMAIN st.cur.ex :
      LET gone == a \in st.cur.touched /\ (a \in st.cur.sd \/ (o.deleteEmpty /\ IsEmpty(st.cur, a))) IN
      IF gone THEN ~Ex(st2.base, a) /\ Bal(st2.base, a) = 0 /\ Bal2(st2.base, a) = 0 /\ Code(st2.base, a) = "none"
                   /\ DOMAIN StorOf(st2.base, a) = {} /\ Nonce(st2.base, a) = 0
      ELSE Ex(st2.base, a) = Ex(st.cur, a) /\ Bal(st2.base, a) = Bal(st.cur, a) /\ Bal2(st2.base, a) = Bal2(st.cur, a)
           /\ Code(st2.base, a) = Code(st.cur, a) /\ StorOf(st2.base, a) = StorOf(st.cur, a) /\ Nonce(st2.base, a) = Nonce(st.cur, a)
=============================================================================
