------------------------- MODULE TraceFilterSystem -------------------------
(***************************************************************************)
(* Trace validation (binding ii, and the judge of every replayed schedule):*)
(* a run of the REAL pubsub bus / EventSystem / PublicFilterAPI records one *)
(* line per hook H3 (and per harness-side client / event-source step) with  *)
(* a global sequence number taken inside the hook.  Every line must be the  *)
(* step of the named process of FilterSystem.tla from the named label, with *)
(* the recorded choices; the invariants are evaluated in every state along  *)
(* the way.  A final "panic" line (appended by the runner when the child    *)
(* process died of a Go panic) must be a step that sets `crashed`.          *)
(*                                                                         *)
(* Order of the lines = order of the hook calls.  Hooks inside a critical   *)
(* section are ordered by its lock; hooks before a releasing operation      *)
(* (send, close, unlock) and after an acquiring one (receive, lock) respect *)
(* happens-before; the two places where two goroutines pass their hooks in  *)
(* either order after a rendez-vous are commutations the design module      *)
(* allows (offer = 2 / 3 of a topic channel, backlog counters).             *)
(***************************************************************************)
EXTENDS FilterSystem, Json

Trace == ndJsonDeserialize("trace.ndjson")

VARIABLE l
tvars == <<vars, l>>

Ev == Trace[l]

ProcStep(p) ==
  CASE p = EL  -> eventLoop
    [] p = CE  -> consumeEvents
    [] p = SRC -> source
    [] p = TL  -> timeoutLoop
    [] p \in PTs -> publishTopic(p)
    [] p \in CLs -> client(p)
    [] p \in UNs -> unsub(p)
    [] p \in COs -> consumer(p)
    [] OTHER -> FALSE

Agrees(e) ==
  CASE e.l = "el_wait"     -> /\ f' = e.sub
                              /\ (e.k = "i") <=> (pc'[EL] \in {"el_i_addchk", "el_i_unlock0"})
    [] e.l = "el_i_addchk" -> addOk' = ~e.ok
    [] e.l = "el_i_add"    -> ech' = e.ch
    [] e.l = "el_u_close"  -> ech = e.ch
    [] e.l = "ce_lookup"   -> Head(resp) = e.t /\ cch' = e.ch
    [] e.l = "ce_send"     -> cch = e.ch
    [] e.l = "ce_sent"     -> LET timedOut == chans[cch].offer = 1 /\ chans'[cch].offer = 0 /\ chans'[cch].inflight = chans[cch].inflight
                              IN  crashed' = "no" /\ (timedOut <=> e.k = "timeout")
    [] e.l = "pt_loop"     -> ptOk'[e.p] = e.ok
    [] e.l = "c_topics"    -> ct'[e.p] = e.t
    [] e.l = "c_bsub1"     -> (pc'[e.p] = "c_bsub2") = e.ok
    [] e.l = "c_recv"      -> CASE e.k = "recv"   -> pc'[e.p] = "c_recv"
                                [] e.k = "closed" -> pc'[e.p] = "c_unsub" /\ subCh[cs[e.p]].closed
                                [] OTHER          -> pc'[e.p] = "c_unsub"
    [] e.l = "c_use"       -> pc'[e.p] = (CASE e.k = "poll" -> "g_lock" [] e.k = "uninstall" -> "u_lock" [] e.k = "xuninstall" -> "xu_lock" [] OTHER -> "c_next")
    [] e.l = "xu_lock"     -> fx'[e.p] = e.sub /\ found'[e.p] = e.ok
    [] e.l = "u_lock"      -> found'[e.p] = e.ok
    [] e.l = "co_sel"      -> CASE e.k = "ev"     -> pc'[e.p] \in {"co_sel", "co_ev"} /\ subCh'[e.sub].buf < subCh[e.sub].buf
                                [] e.k = "closed" -> pc'[e.p] = "co_closed"
                                [] OTHER          -> pc'[e.p] = "co_err"
    [] e.l = "src_send"    -> resp' = Append(resp, e.t)
    [] e.l = "tl_sweep"    -> IF e.k = "u" THEN fmu' = 0 ELSE fmu' = TL /\ filters' = filters \ {e.sub} /\ e.sub \in filters
    [] OTHER -> TRUE

TraceInit == Init /\ l = 2          \* line 1 is the header

TraceNext ==
  /\ l <= Len(Trace)
  /\ l' = l + 1
  /\ IF Ev.l = "panic"
       THEN \E p \in ProcSet : ProcStep(p) /\ crashed' # "no"
       ELSE /\ Ev.p \in ProcSet
            /\ pc[Ev.p] = Ev.l
            /\ ProcStep(Ev.p)
            /\ Agrees(Ev)

TraceSpec == TraceInit /\ [][TraceNext]_tvars

(* printed when the last line has been consumed *)
Coverage == (l = Len(Trace) + 1) => PrintT(<<"DEVUSED", ToJson(devUsed), "CRASHED", crashed>>)

TraceAccepted ==
  LET d == TLCGet("stats").diameter IN
  IF d = Len(Trace) THEN TRUE
  ELSE Print(<<"TRACE NOT ACCEPTED: consumed lines up to", d, "of", Len(Trace)>>, FALSE)

(* crash observed on the real code is reported through the panic line, not through the model's prediction *)
RealNoCrash == crashed = "no"
=============================================================================
