----------------------------- MODULE Genesis_mc -----------------------------
(* Exhaustive check of the round-trip theorem of Genesis.tla over a small domain of worlds:
   2 contract addresses x (code or not) x 2 slots x {absent, 0, 1}; EVM params 2 values; base fee 2 values;
   staking precompile absent / default / message-deployed with its own metadata, bech32, at most one ERC-20
   precompile, disabled flags, at most one allowance, whitelist 2 values, at most one proof. *)
EXTENDS Genesis

CONSTANT FullDomain   \* FALSE: one contract address only (quick witness run)

Contracts == IF FullDomain THEN {"c0", "c1"} ELSE {"c0"}
Slots == {"s0", "s1"}
SlotVals == {-1, 0, 1}    \* -1 = no entry

StorChoices == [Slots -> SlotVals]
StorOfChoice(ch) == [s \in {x \in Slots : ch[x] # -1} |-> ch[s]]

D == [b32 |-> [type |-> "bech32", name |-> "nB32", typed |-> "{}", disabled |-> FALSE],
      stk |-> [type |-> "staking", name |-> "nStk", typed |-> "tDefault", disabled |-> FALSE],
      native |-> [type |-> "erc20", name |-> "nNative", typed |-> "tNative", disabled |-> FALSE],
      bondDenom |-> "wei"]

StkChoices == {<<"absent", FALSE>>} \cup ({"tDefault", "tCustom"} \X BOOLEAN)
ErcChoices == {<<"absent", FALSE>>} \cup ({"tTwo"} \X BOOLEAN)

MetaOf(stk, b32dis, erc) ==
  LET A == {"b32"} \cup (IF stk[1] = "absent" THEN {} ELSE {"stk"}) \cup (IF erc[1] = "absent" THEN {} ELSE {"dyn0"})
  IN [a \in A |-> IF a = "b32" THEN [D.b32 EXCEPT !.disabled = b32dis]
                  ELSE IF a = "stk" THEN [type |-> "staking", name |-> "nStk", typed |-> stk[1], disabled |-> stk[2]]
                  ELSE [type |-> "erc20", name |-> "nTwo", typed |-> erc[1], disabled |-> erc[2]]]

Worlds ==
  {[code |-> [a \in {x \in Contracts : cc[x]} |-> "X"],
    stor |-> [a \in {x \in Contracts : DOMAIN StorOfChoice(st[x]) # {}} |-> StorOfChoice(st[a])],
    evmParams |-> ep,
    fm |-> [baseFee |-> bf, params |-> "q0"],
    cpc |-> [meta |-> MetaOf(stk, bd, erc), idx |-> IF erc[1] = "absent" THEN EmptyFn ELSE [d \in {"utwo"} |-> "dyn0"],
             allow |-> IF al THEN [k \in {"a>b"} |-> 1] ELSE EmptyFn, wl |-> wl, ver |-> 1],
    proofs |-> IF pf THEN [a \in {"a"} |-> "proof"] ELSE EmptyFn] :
      cc \in [Contracts -> BOOLEAN], st \in [Contracts -> StorChoices], ep \in {"p0", "p1"}, bf \in {1, 2},
      stk \in StkChoices, bd \in BOOLEAN, erc \in ErcChoices, al \in BOOLEAN, wl \in {{}, {"a"}}, pf \in BOOLEAN}

VARIABLES w, phase
W0 == CHOOSE x \in Worlds : TRUE
Init == phase = "start" /\ w = W0
Next == phase = "start" /\ phase' = "world" /\ w' \in Worlds
Spec == Init /\ [][Next]_<<w, phase>>

TheoremObs == RoundTripObs(w)
TheoremDoc == RoundTripDoc(w)
ImplLosses == ImplLossesAreTheNamedDeviations(w, D)
ImplPlain == ImplRoundTripsPlainWorlds(w, D)

(* vacuity: every deviation occurs in the domain, and some world is plain *)
DevSeq == <<"Export/evm-storage-of-codeless-account-dropped", "Export/cpc-erc20-metadata-dropped", "Export/cpc-allowances-dropped",
            "Export/cpc-staking-metadata-replaced-by-defaults", "Export/cpc-disabled-flags-dropped", "Export/vauth-proofs-dropped">>
InitW == Init /\ \A i \in 1..8 : TLCSet(i, FALSE)
SpecW == InitW /\ [][Next]_<<w, phase>>
Mark ==
  /\ \A i \in 1..6 : (DevSeq[i] \notin Lost(w, D)) \/ TLCSet(i, TRUE)
  /\ ~Plain(w, D) \/ TLCSet(7, TRUE)
  /\ (\A a \in DOMAIN w.stor : \A s \in DOMAIN w.stor[a] : w.stor[a][s] # 0) \/ TLCSet(8, TRUE)
WitnessAll == \A i \in 1..8 : TLCGet(i) \/ Print(<<"witness not reached", i>>, FALSE)
=============================================================================
