SPECIFICATION SpecMc
CONSTANT MaxOps = 2
CONSTANT MaxTime = 2
CONSTANT MaxAccrue = 0
CONSTANT Amounts = {1}
CONSTANT BothRoutes = TRUE
CONSTANT Witness = TRUE
VIEW view
POSTCONDITION WitnessAll
CHECK_DEADLOCK FALSE
