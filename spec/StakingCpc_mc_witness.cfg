SPECIFICATION SpecMc
CONSTANT MaxOps = 3
CONSTANT MaxTime = 3
CONSTANT MaxAccrue = 1
CONSTANT Amounts = {1}
CONSTANT Witness = TRUE
VIEW view
POSTCONDITION WitnessAll
CHECK_DEADLOCK FALSE
