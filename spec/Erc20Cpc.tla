------------------------------ MODULE Erc20Cpc ------------------------------
(***************************************************************************)
(* C10.  ERC-20 custom precompiles as exact ERC-20 views of bank           *)
(* denominations.                                                          *)
(*                                                                         *)
(* One ERC-20 precompile per token t \in Tokens; token t *is* one bank     *)
(* denomination:                                                           *)
(*   bal[t][h]        bank balance of holder h in the denom of t           *)
(*   supply[t]        bank supply of that denom                            *)
(*   allow[t][o][s]   allowance owner o -> spender s ON TOKEN t            *)
(* The allowance table is keyed by token here.  (The code's table is keyed *)
(* (owner, spender) only: finding D5, see Shared below and                 *)
(* Dev_D5_AllowanceSharedAcrossTokens in TraceErc20Cpc.tla.)               *)
(*                                                                         *)
(* Amounts are uint256.  TLC integers are 32 bit, so an amount is a record *)
(*   [t |-> "N",    v |-> n]   the number n            (0 <= n < 2^31)     *)
(*   [t |-> "HALF", v |-> k]   the number 2^255 - k    (0 <= k < 2^31)     *)
(*   [t |-> "MAXU", v |-> k]   the number 2^256-1 - k  (0 <= k < 2^31)     *)
(*   [t |-> "P64" / "P128", v |-> k]   2^64 - k / 2^128 - k (trace only)   *)
(* with the comparison / subtraction rules of Leq / Sub below (the three   *)
(* classes cannot overlap because k, n < 2^31).  Balances and supplies are *)
(* plain naturals (< 2^31 in every model and every trace).                 *)
(* MAXU = 2^256-1 as an allowance means "unlimited" and is never           *)
(* decremented by a spend.                                                 *)
(*                                                                         *)
(* The semantics is a pure operator CallResult(S, ...) on a state record   *)
(* S = [bal, supply, allow]; the actions of the design specification and   *)
(* the steps of the trace specification are both defined with it.          *)
(***************************************************************************)
EXTENDS Integers, Sequences, FiniteSets, TLC

CONSTANTS
  Tokens,        \* token names
  Holders,       \* every address of the universe (including Zero and module accounts)
  Callers,       \* addresses that can originate calls (EOAs, contracts); subset of Holders
  Zero,          \* the zero address
  SmallAmounts,  \* design run: the small amounts tried as arguments
  InitBal,       \* design run: initial balance of every caller in every token
  MaxCalls,      \* design run: length bound of call sequences
  Shared         \* FALSE: the property (per-token allowances). TRUE: the table of the code (D5)

-----------------------------------------------------------------------------
(* uint256 values *)
N(n)  == [t |-> "N", v |-> n]
MAXU  == [t |-> "MAXU", v |-> 0]
HALF  == [t |-> "HALF", v |-> 0]
Rank(x) == CASE x.t = "N" -> 0 [] x.t = "P64" -> 1 [] x.t = "P128" -> 2 [] x.t = "HALF" -> 3 [] x.t = "MAXU" -> 4 [] OTHER -> 5
Leq(x, y) == \/ Rank(x) < Rank(y)
             \/ Rank(x) = Rank(y) /\ (IF x.t = "N" THEN x.v <= y.v ELSE x.v >= y.v)
Unrep == [t |-> "UNREPRESENTABLE", v |-> 0]
(* x - y for y <= x *)
Sub(x, y) ==
  IF y.t = "N" THEN (IF x.t = "N" THEN N(x.v - y.v) ELSE [x EXCEPT !.v = @ + y.v])
  ELSE IF x.t = y.t THEN N(y.v - x.v)
  ELSE IF x.t = "MAXU" /\ y.t = "HALF" /\ 1 + x.v - y.v >= 0 THEN [t |-> "HALF", v |-> 1 + x.v - y.v]
  ELSE Unrep
(* the amount fits a balance b (a plain natural) *)
Covers(b, x) == x.t = "N" /\ x.v <= b
Unlimited(x) == x = MAXU

-----------------------------------------------------------------------------
(* state records and their updates *)
MkState(b, s, a) == [bal |-> b, supply |-> s, allow |-> a]

Move(S, t, from, to, k) == [S EXCEPT !.bal[t][from] = @ - k, !.bal[t][to] = @ + k]
Destroy(S, t, from, k)  == [S EXCEPT !.bal[t][from] = @ - k, !.supply[t] = @ - k]
SetAllow(S, t, o, s, v, shared) ==
  IF shared THEN [S EXCEPT !.allow = [t2 \in DOMAIN S.allow |-> [S.allow[t2] EXCEPT ![o][s] = v]]]
  ELSE [S EXCEPT !.allow[t][o][s] = v]

(* spender s uses amt of o's allowance on token t *)
Spend(S, t, o, s, amt, shared) ==
  LET cur == S.allow[t][o][s] IN
  IF Unlimited(cur) THEN [ok |-> TRUE, S |-> S]
  ELSE IF ~Leq(amt, cur) THEN [ok |-> FALSE, S |-> S]
  ELSE [ok |-> TRUE, S |-> SetAllow(S, t, o, s, Sub(cur, amt), shared)]

NoRet == [k |-> "none", v |-> N(0)]
WordRet(x) == [k |-> "word", v |-> x]
True == WordRet(N(1))

Log(t, kind, a, b, amt) == [token |-> t, kind |-> kind, a |-> a, b |-> b, amt |-> amt]
Failed(S) == [ok |-> FALSE, S |-> S, logs |-> <<>>, ret |-> NoRet]

RwMethods   == {"transfer", "transferFrom", "approve", "burn", "burnFrom"}
ViewMethods == {"balanceOf", "totalSupply", "allowance"}
Methods     == RwMethods \cup ViewMethods

(* The ERC-20 semantics of one call of method m of token t by caller c.               *)
(* a1, a2: address arguments (transfer: to; transferFrom: from, to; approve: spender;  *)
(* burnFrom: from; balanceOf: holder; allowance: owner, spender), amt: the amount.     *)
(* A failing call changes nothing, logs nothing, returns nothing.                      *)
CallResult(S, t, m, c, a1, a2, amt, shared) ==
  CASE m = "transfer" ->
         IF a1 = Zero \/ ~Covers(S.bal[t][c], amt) THEN Failed(S)
         ELSE [ok |-> TRUE, S |-> Move(S, t, c, a1, amt.v), logs |-> <<Log(t, "Transfer", c, a1, amt)>>, ret |-> True]
    [] m = "transferFrom" ->
         IF a1 = Zero \/ a2 = Zero THEN Failed(S)
         ELSE LET sp == IF a1 = c THEN [ok |-> TRUE, S |-> S] ELSE Spend(S, t, a1, c, amt, shared) IN
              IF ~sp.ok \/ ~Covers(S.bal[t][a1], amt) THEN Failed(S)
              ELSE [ok |-> TRUE, S |-> Move(sp.S, t, a1, a2, amt.v), logs |-> <<Log(t, "Transfer", a1, a2, amt)>>, ret |-> True]
    [] m = "approve" ->
         IF a1 = Zero THEN Failed(S)
         ELSE [ok |-> TRUE, S |-> SetAllow(S, t, c, a1, amt, shared), logs |-> <<Log(t, "Approval", c, a1, amt)>>, ret |-> True]
    [] m = "burn" ->
         IF ~Covers(S.bal[t][c], amt) THEN Failed(S)
         ELSE [ok |-> TRUE, S |-> Destroy(S, t, c, amt.v), logs |-> <<Log(t, "Transfer", c, Zero, amt)>>, ret |-> True]
    [] m = "burnFrom" ->
         IF a1 = Zero THEN Failed(S)
         ELSE LET sp == IF a1 = c THEN [ok |-> TRUE, S |-> S] ELSE Spend(S, t, a1, c, amt, shared) IN
              IF ~sp.ok \/ ~Covers(S.bal[t][a1], amt) THEN Failed(S)
              ELSE [ok |-> TRUE, S |-> Destroy(sp.S, t, a1, amt.v), logs |-> <<Log(t, "Transfer", a1, Zero, amt)>>, ret |-> True]
    [] m = "balanceOf"   -> [ok |-> TRUE, S |-> S, logs |-> <<>>, ret |-> WordRet(N(S.bal[t][a1]))]
    [] m = "totalSupply" -> [ok |-> TRUE, S |-> S, logs |-> <<>>, ret |-> WordRet(N(S.supply[t]))]
    [] m = "allowance"   -> [ok |-> TRUE, S |-> S, logs |-> <<>>, ret |-> WordRet(S.allow[t][a1][a2])]

(* environment: a native bank send of k coins of token t's denomination (no allowance involved) *)
SendResult(S, t, from, to, k) ==
  IF k <= S.bal[t][from] THEN [ok |-> TRUE, S |-> Move(S, t, from, to, k)] ELSE [ok |-> FALSE, S |-> S]

-----------------------------------------------------------------------------
(* The design specification: all call sequences of bounded length.          *)
VARIABLES
  bal, supply, allow,   \* the state
  n,                    \* number of steps so far
  last,                 \* history: the last step (method, caller, arguments, outcome)
  logs,                 \* history: every log emitted so far
  burnt,                \* history: coins destroyed per token
  hist                  \* history: the steps so far (what was asked), for B2 replay

vars == <<bal, supply, allow, n, last, logs, burnt, hist>>
view == <<bal, supply, allow, n>>   \* history variables hidden from the fingerprint

St == MkState(bal, supply, allow)

AmountVals == {N(k) : k \in SmallAmounts} \cup {MAXU}
None == "none"

NoLast == [kind |-> "init", t |-> None, m |-> None, c |-> None, a1 |-> None, a2 |-> None, amt |-> N(0), ok |-> TRUE, logs |-> <<>>, ret |-> NoRet]

Init ==
  /\ bal = [t \in Tokens |-> [h \in Holders |-> IF h \in Callers THEN InitBal ELSE 0]]
  /\ supply = [t \in Tokens |-> InitBal * Cardinality(Callers)]
  /\ allow = [t \in Tokens |-> [o \in Holders |-> [s \in Holders |-> N(0)]]]
  /\ n = 0 /\ last = NoLast /\ logs = <<>> /\ burnt = [t \in Tokens |-> 0] /\ hist = <<>>

Apply(r, rec) ==
  /\ bal' = r.S.bal /\ supply' = r.S.supply /\ allow' = r.S.allow
  /\ n' = n + 1
  /\ last' = [rec EXCEPT !.ok = r.ok, !.logs = r.logs, !.ret = r.ret]
  /\ logs' = logs \o r.logs
  /\ burnt' = [t \in Tokens |-> burnt[t] + (supply[t] - r.S.supply[t])]
  /\ hist' = Append(hist, [kind |-> rec.kind, t |-> rec.t, m |-> rec.m, c |-> rec.c, a1 |-> rec.a1, a2 |-> rec.a2, amt |-> rec.amt])

CallRec(t, m, c, a1, a2, amt) == [NoLast EXCEPT !.kind = "call", !.t = t, !.m = m, !.c = c, !.a1 = a1, !.a2 = a2, !.amt = amt]

DoCall(t, m, c, a1, a2, amt) == Apply(CallResult(St, t, m, c, a1, a2, amt, Shared), CallRec(t, m, c, a1, a2, amt))

(* one action per method x caller x arguments *)
Transfer(t, c, to, amt)           == DoCall(t, "transfer", c, to, None, amt)
TransferFrom(t, c, from, to, amt) == DoCall(t, "transferFrom", c, from, to, amt)
Approve(t, c, s, amt)             == DoCall(t, "approve", c, s, None, amt)
Burn(t, c, amt)                   == DoCall(t, "burn", c, None, None, amt)
BurnFrom(t, c, from, amt)         == DoCall(t, "burnFrom", c, from, None, amt)
BalanceOf(t, c, h)                == DoCall(t, "balanceOf", c, h, None, N(0))
TotalSupply(t, c)                 == DoCall(t, "totalSupply", c, None, None, N(0))
Allowance(t, c, o, s)             == DoCall(t, "allowance", c, o, s, N(0))

BankSend(t, from, to, k) ==
  LET r == SendResult(St, t, from, to, k) IN
  Apply([ok |-> r.ok, S |-> r.S, logs |-> <<>>, ret |-> NoRet],
        [NoLast EXCEPT !.kind = "send", !.t = t, !.c = from, !.a1 = to, !.amt = N(k)])

Next ==
  /\ n < MaxCalls
  /\ \E t \in Tokens, c \in Callers :
       \/ \E to \in Holders, amt \in AmountVals : Transfer(t, c, to, amt)
       \/ \E from \in Holders, to \in Holders, amt \in AmountVals : TransferFrom(t, c, from, to, amt)
       \/ \E s \in Holders, amt \in AmountVals : Approve(t, c, s, amt)
       \/ \E amt \in AmountVals : Burn(t, c, amt)
       \/ \E from \in Holders, amt \in AmountVals : BurnFrom(t, c, from, amt)
       \/ \E h \in Holders : BalanceOf(t, c, h)
       \/ TotalSupply(t, c)
       \/ \E o \in Holders, s \in Holders : Allowance(t, c, o, s)
       \/ \E to \in Holders \ {Zero}, k \in SmallAmounts \ {0} : BankSend(t, c, to, k)

Spec == Init /\ [][Next]_vars

(* callers are interchangeable and so are tokens: the exhaustive configs declare them symmetric *)
Sym == Permutations(Callers) \cup Permutations(Tokens)

-----------------------------------------------------------------------------
(* What C10 asks for, stated on the variables (not through CallResult).      *)
RECURSIVE SumOver(_, _)
SumOver(f, D) == IF D = {} THEN 0 ELSE LET x == CHOOSE y \in D : TRUE IN f[x] + SumOver(f, D \ {x})

TypeOK ==
  /\ \A t \in Tokens : supply[t] \in Nat /\ \A h \in Holders : bal[t][h] \in Nat
  /\ \A t \in Tokens, o \in Holders, s \in Holders : allow[t][o][s].t \in {"N", "HALF", "MAXU"} /\ allow[t][o][s].v \in Nat

(* the token ledger is the bank ledger: balances sum to the supply; supply only shrinks by burns *)
Conservation ==
  \A t \in Tokens : /\ SumOver(bal[t], Holders) = supply[t]
                    /\ supply[t] + burnt[t] = InitBal * Cardinality(Callers)

(* views return exactly the variables *)
ViewsExact ==
  last.kind = "call" /\ last.m \in ViewMethods =>
    /\ last.ok
    /\ last.m = "balanceOf"   => last.ret = WordRet(N(bal[last.t][last.a1]))
    /\ last.m = "totalSupply" => last.ret = WordRet(N(supply[last.t]))
    /\ last.m = "allowance"   => last.ret = WordRet(allow[last.t][last.a1][last.a2])

(* the zero address never receives coins and never grants or holds an allowance *)
ZeroIsInert == \A t \in Tokens : bal[t][Zero] = 0 /\ \A h \in Holders : allow[t][Zero][h] = N(0) /\ allow[t][h][Zero] = N(0)

(* vacuity guard, evaluated in the initial state: a fixed scenario of 8 calls (each prefix of length    *)
(* <= MaxCalls is one of the explored behaviours) takes every branch of the semantics                   *)
Witness ==
  n = 0 =>
    LET c1 == CHOOSE c \in Callers : TRUE
        c2 == CHOOSE c \in Callers \ {c1} : TRUE
        c3 == CHOOSE c \in Callers \ {c1, c2} : TRUE
        t  == CHOOSE x \in Tokens : TRUE
        u  == CHOOSE x \in Tokens \ {t} : TRUE
        R(S, m, c, a1, a2, amt) == CallResult(S, t, m, c, a1, a2, amt, FALSE)
        r1 == R(St, "approve", c1, c2, None, N(2))
        r2 == R(r1.S, "transferFrom", c2, c1, c3, N(1))
        r3 == R(r2.S, "burnFrom", c2, c1, None, N(1))
        r4 == R(r3.S, "transferFrom", c2, c1, c3, N(1))                     \* allowance used up
        r5 == R(r3.S, "approve", c1, c2, None, MAXU)
        r6 == R(r5.S, "transferFrom", c2, c1, c3, N(0))
        r7 == R(r5.S, "transfer", c1, Zero, None, N(0))                      \* zero receiver
        r8 == R(r5.S, "burn", c3, None, None, N(InitBal + 2))                \* more than the balance
        r9 == CallResult(r1.S, u, "transferFrom", c2, c1, c3, N(1), FALSE)   \* approval on t is no approval on u
        r1s == CallResult(St, t, "approve", c1, c2, None, N(2), TRUE)
        rA == CallResult(r1s.S, u, "transferFrom", c2, c1, c3, N(1), TRUE)   \* ... but it is with the shared table (D5)
    IN /\ InitBal >= 2 /\ Cardinality(Callers) >= 3 /\ Cardinality(Tokens) >= 2
       /\ r1.ok /\ r1.S.allow[t][c1][c2] = N(2) /\ r1.S.allow[u][c1][c2] = N(0)
       /\ r2.ok /\ r2.S.allow[t][c1][c2] = N(1) /\ r2.S.bal[t][c3] = InitBal + 1 /\ r2.S.bal[t][c1] = InitBal - 1
       /\ r3.ok /\ r3.S.allow[t][c1][c2] = N(0) /\ r3.S.supply[t] = St.supply[t] - 1
       /\ ~r4.ok /\ r4.S = r3.S
       /\ r5.ok /\ r6.ok /\ r6.S.allow[t][c1][c2] = MAXU
       /\ ~r7.ok /\ ~r8.ok /\ ~r9.ok /\ rA.ok

(* a successful state-changing call emits exactly one log that states what happened; *)
(* views and failing calls emit none                                                 *)
ExpectedLog(l) ==
  CASE l.m = "transfer"     -> Log(l.t, "Transfer", l.c, l.a1, l.amt)
    [] l.m = "transferFrom" -> Log(l.t, "Transfer", l.a1, l.a2, l.amt)
    [] l.m = "approve"      -> Log(l.t, "Approval", l.c, l.a1, l.amt)
    [] l.m = "burn"         -> Log(l.t, "Transfer", l.c, Zero, l.amt)
    [] l.m = "burnFrom"     -> Log(l.t, "Transfer", l.a1, Zero, l.amt)
OneLogPerSuccess ==
  /\ (last.kind = "call" /\ last.ok /\ last.m \in RwMethods) => last.logs = <<ExpectedLog(last)>>
  /\ (last.kind # "call" \/ ~last.ok \/ last.m \in ViewMethods) => last.logs = <<>>
LogHistoryGrowsByLast == [][logs' = logs \o last'.logs]_vars

(* a failing call and a view change nothing *)
FailedChangesNothing == [][(~last'.ok \/ (last'.kind = "call" /\ last'.m \in ViewMethods)) => UNCHANGED <<bal, supply, allow, logs>>]_vars

(* nobody moves or burns another holder's coins beyond the allowance that holder approved   *)
(* ON THAT TOKEN; what is used is deducted exactly, unless the allowance is unlimited       *)
NoTheft ==
  [][\A t \in Tokens, o \in Holders :
       bal'[t][o] < bal[t][o] =>
         LET c == last'.c
             d == N(bal[t][o] - bal'[t][o]) IN
         \/ c = o
         \/ /\ last'.kind = "call" /\ last'.t = t
            /\ Leq(d, allow[t][o][c])
            /\ allow'[t][o][c] = (IF Unlimited(allow[t][o][c]) THEN MAXU ELSE Sub(allow[t][o][c], d))]_vars

(* an allowance changes only by the owner's approve or by the spender's spending it on that token *)
AllowanceFrame ==
  [][\A t \in Tokens, o \in Holders, s \in Holders :
       allow'[t][o][s] # allow[t][o][s] =>
         /\ last'.kind = "call" /\ last'.ok /\ last'.t = t
         /\ \/ last'.m = "approve" /\ last'.c = o /\ last'.a1 = s /\ allow'[t][o][s] = last'.amt
            \/ /\ last'.m \in {"transferFrom", "burnFrom"} /\ last'.c = s /\ last'.a1 = o /\ o # s
               /\ allow'[t][o][s] = Sub(allow[t][o][s], last'.amt)]_vars

(* an unlimited allowance stays unlimited until its owner approves again *)
InfiniteAllowanceSticky ==
  [][\A t \in Tokens, o \in Holders, s \in Holders :
       (Unlimited(allow[t][o][s]) /\ ~Unlimited(allow'[t][o][s])) =>
         (last'.kind = "call" /\ last'.m = "approve" /\ last'.t = t /\ last'.c = o /\ last'.a1 = s)]_vars

(* exactly the stated amount moves; every other balance and the other token are untouched *)
BalanceFrame ==
  [][last'.ok /\ last'.kind = "call" /\ last'.m \in {"transfer", "transferFrom", "burn", "burnFrom"} =>
       LET l == last'
           from == IF l.m \in {"transfer", "burn"} THEN l.c ELSE l.a1
           to == CASE l.m = "transfer" -> l.a1 [] l.m = "transferFrom" -> l.a2 [] OTHER -> None
           k == l.amt.v IN
       /\ l.amt.t = "N"
       /\ \A t \in Tokens, h \in Holders :
            bal'[t][h] = bal[t][h] - (IF t = l.t /\ h = from THEN k ELSE 0) + (IF t = l.t /\ h = to THEN k ELSE 0)
       /\ \A t \in Tokens : supply'[t] = supply[t] - (IF t = l.t /\ to = None THEN k ELSE 0)]_vars

(* approve moves no coins *)
ApproveMovesNothing == [][last'.kind = "call" /\ last'.m = "approve" => UNCHANGED <<bal, supply>>]_vars
=============================================================================
