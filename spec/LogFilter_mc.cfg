\* the pinned rule on the whole grid: 363 criteria x 363 logs
SPECIFICATION Spec
CONSTANTS
  MaxPos = 4
  Dev = FALSE
INVARIANTS NoIndexCrash ImplIsRule LongerNeverMatches WildcardsOnlyNeedLength
CHECK_DEADLOCK FALSE
