------------------------------ MODULE LogFilter ------------------------------
(***************************************************************************)
(* C20 clause (a), log subscriptions / log filters with user-chosen        *)
(* criteria: the matching predicate of FilterLogs                          *)
(* (rpc/namespaces/ethereum/eth/filters/utils.go), used by the notifier of *)
(* the websocket `logs` subscription (rpc/websockets.go), by the consumer  *)
(* goroutines of PublicFilterAPI.NewFilter / Logs and by eth_getLogs.      *)
(*                                                                         *)
(* Read from the pinned code (it is go-ethereum's rule):                   *)
(*   a log matches iff  (no addresses given or its address is one of them) *)
(*   and the filter has NOT more topic positions than the log has topics   *)
(*   -- trailing wildcard positions count: [A, null] never matches a log   *)
(*   with the single topic A --                                            *)
(*   and every position is empty (wildcard) or contains the log's topic at *)
(*   that position.                                                        *)
(* The criteria come from users (eth_subscribe / eth_newFilter arguments)  *)
(* and the logs from whatever contracts emit: the consumers run in         *)
(* goroutines without recover, so the implementation must not read a topic *)
(* the log does not have (Go: index out of range = the node dies).         *)
(*                                                                         *)
(* Grid (the one bin/checks_conc.py draws the real subscriptions and the   *)
(* injected logs from; the thorough tier runs ALL pairs through the real   *)
(* code): addresses none / {a1} / {a1,a2}; 0..MaxPos positions, each       *)
(* wildcard / {h1} / {h1,h2}; logs of a1 / a2 / a3 with 0..MaxPos topics   *)
(* from h1, h2, h3.                                                        *)
(*                                                                         *)
(* `Impl` is the implementation as a sequence of reads: which log.Topics[i]*)
(* it touches after its length guard.  Named deviation Dev (a "tolerant"   *)
(* rewrite): the guard only counts positions up to the last non-wildcard   *)
(* one and the topic read is hoisted out of the inner loop, which still    *)
(* ranges over all positions.  TLC must then find the (criteria, log) pair *)
(* that reads past the log's topics; the binding puts that pair first.     *)
(***************************************************************************)
EXTENDS LogMatch, TLC

CONSTANTS MaxPos

AddrSets == {{}, {"a1"}, {"a1", "a2"}}
PosSets  == {{}, {"h1"}, {"h1", "h2"}}
LogAddrs == {"a1", "a2", "a3"}
LogHashes == {"h1", "h2", "h3"}

SeqsUpTo(S, n) == UNION {[1..k -> S] : k \in 0..n}

Filters == [addr : AddrSets, t : SeqsUpTo(PosSets, MaxPos)]
Logs    == [a : LogAddrs, t : SeqsUpTo(LogHashes, MaxPos)]

VARIABLES f, l
vars == <<f, l>>

Init == f \in Filters /\ l \in Logs
Next == UNCHANGED vars
Spec == Init /\ [][Next]_vars

NoIndexCrash == Impl(f, l) # "crash"
NoIndexCrashSig == (Len(f.t) > 0 /\ f.t[1] # {}) => Impl(f, l) # "crash"   \* (witness runs: a criteria that starts with an event signature)
ImplIsRule   == Impl(f, l) = (IF Matches(f, l) THEN "match" ELSE "nomatch")
LongerNeverMatches == Len(f.t) > Len(l.t) => ~Matches(f, l)
WildcardsOnlyNeedLength == ((\A i \in 1..Len(f.t) : f.t[i] = {}) /\ AddrOk(f, l)) => (Matches(f, l) <=> Len(f.t) <= Len(l.t))

(* printed once: the size of the grid (the generator of the binding must agree) *)
ASSUME PrintT(<<"GRID", Cardinality(Filters), Cardinality(Logs)>>)
=============================================================================
