------------------------------ MODULE Genesis ------------------------------
(***************************************************************************)
(* C18 - genesis export / import of the four custom modules.               *)
(*                                                                         *)
(* A world W is what the stores of evm, feemarket, cpc and vauth hold:     *)
(*   code     address -> code id                (absent = no code)         *)
(*   stor     address -> (slot -> value)        raw store entries; an      *)
(*            entry may hold the value 0 (the StateDB writes 32 zero bytes *)
(*            for a slot set back to zero; a genesis file may list one)    *)
(*   evmParams, fm = [baseFee, params]                                     *)
(*   cpc      [meta : address -> [type, name, typed, disabled],            *)
(*             idx : denom -> address, allow : "owner>spender" -> amount,  *)
(*             wl, ver]                                                    *)
(*   proofs   address -> proof                                             *)
(*                                                                         *)
(* ObsCustom(W) is what a user can observe (a zero-valued slot reads like  *)
(* an absent one).  Export / Import are the SPECIFIED functions: the       *)
(* genesis document carries everything observable.  The theorem           *)
(*     ObsCustom(Import(Export(W))) = ObsCustom(W)                         *)
(*     Export(Import(Export(W))) = Export(W)                               *)
(* is checked by TLC for every world of a small domain (Genesis_mc.cfg).   *)
(*                                                                         *)
(* ImplExport / ImplImport model what the pinned code does (x/evm/genesis  *)
(* .go, x/feemarket/genesis.go, x/cpc/genesis.go, x/vauth/module.go):      *)
(* evm accounts are found through the code-hash index, cpc is params + one *)
(* flag, vauth is empty.  Lost(W) names the parts ImplImport(ImplExport(W))*)
(* loses; the design run checks that the losses are exactly the named      *)
(* deviations (section "deviations") and nothing else.                     *)
(***************************************************************************)
EXTENDS Integers, Sequences, FiniteSets, TLC

EmptyFn == [x \in {} |-> 0]
Restrict(f, S) == [x \in (DOMAIN f) \cap S |-> f[x]]

(* storage with zero-valued entries removed: what reads can tell *)
NZ(st) == LET keep(a) == {s \in DOMAIN st[a] : st[a][s] # 0}
              A == {a \in DOMAIN st : keep(a) # {}}
          IN [a \in A |-> [s \in keep(a) |-> st[a][s]]]

ObsCustom(W) ==
  [code |-> W.code, stor |-> NZ(W.stor), evmParams |-> W.evmParams, fm |-> W.fm, cpc |-> W.cpc, proofs |-> W.proofs]

(***************************************************************************)
(* specified export / import: the document carries every part              *)
(***************************************************************************)
Export(W) ==
  [evm |-> [accounts |-> [a \in (DOMAIN W.code) \cup (DOMAIN W.stor) |->
                            [code |-> IF a \in DOMAIN W.code THEN W.code[a] ELSE "none",
                             stor |-> IF a \in DOMAIN W.stor THEN W.stor[a] ELSE EmptyFn]],
            params |-> W.evmParams],
   fm |-> W.fm,
   cpc |-> W.cpc,
   vauth |-> [proofs |-> W.proofs]]

Import(G) ==
  LET acc == G.evm.accounts IN
  [code |-> [a \in {x \in DOMAIN acc : acc[x].code # "none"} |-> acc[a].code],
   stor |-> [a \in {x \in DOMAIN acc : DOMAIN acc[x].stor # {}} |-> acc[a].stor],
   evmParams |-> G.evm.params,
   fm |-> G.fm,
   cpc |-> G.cpc,
   proofs |-> G.vauth.proofs]

RoundTripObs(W) == ObsCustom(Import(Export(W))) = ObsCustom(W)
RoundTripDoc(W) == Export(Import(Export(W))) = Export(W)

(***************************************************************************)
(* the implementation's export / import                                    *)
(***************************************************************************)
IsErc20(m) == m.type = "erc20"
Erc20Of(cpc) == {a \in DOMAIN cpc.meta : IsErc20(cpc.meta[a])}

ImplExport(W) ==
  [evm |-> [accounts |-> [a \in DOMAIN W.code |->                         \* IterateContracts: the code-hash index
                            [code |-> W.code[a], stor |-> IF a \in DOMAIN W.stor THEN W.stor[a] ELSE EmptyFn]],
            params |-> W.evmParams],
   fm |-> W.fm,
   cpc |-> [wl |-> W.cpc.wl, ver |-> W.cpc.ver, flagErc20 |-> FALSE, flagStaking |-> "stk" \in DOMAIN W.cpc.meta],
   vauth |-> [proofs |-> EmptyFn]]

(* InitGenesis of cpc: params, then the contracts the flags stand for, created with the defaults D *)
ImplImportCpc(g, D, nonce) ==
  LET m0 == [a \in {"b32"} |-> D.b32]
      m1 == IF g.flagStaking THEN [a \in {"b32", "stk"} |-> IF a = "stk" THEN D.stk ELSE D.b32] ELSE m0
      nat == "dyn" \o ToString(nonce)
      m2 == IF g.flagErc20 THEN [a \in (DOMAIN m1) \cup {nat} |-> IF a = nat THEN D.native ELSE m1[a]] ELSE m1
  IN [meta |-> m2, idx |-> IF g.flagErc20 THEN [d \in {D.bondDenom} |-> nat] ELSE EmptyFn, allow |-> EmptyFn, wl |-> g.wl, ver |-> g.ver]

ImplImport(G, D, nonce) ==
  LET acc == G.evm.accounts IN
  [code |-> [a \in {x \in DOMAIN acc : acc[x].code # "none"} |-> acc[a].code],
   stor |-> [a \in {x \in DOMAIN acc : DOMAIN acc[x].stor # {}} |-> acc[a].stor],
   evmParams |-> G.evm.params,
   fm |-> G.fm,
   cpc |-> ImplImportCpc(G.cpc, D, nonce),
   proofs |-> EmptyFn]

(***************************************************************************)
(* deviations: the named losses of the implementation's round trip.        *)
(* Each is (signature, condition on the original world under which the     *)
(* part is lost, what the re-imported world shows instead).                *)
(***************************************************************************)
Codeless(W) == {a \in DOMAIN NZ(W.stor) : a \notin DOMAIN W.code}
DevSigs == {"Export/evm-storage-of-codeless-account-dropped", "Export/cpc-erc20-metadata-dropped", "Export/cpc-allowances-dropped",
            "Export/cpc-staking-metadata-replaced-by-defaults", "Export/cpc-disabled-flags-dropped", "Export/vauth-proofs-dropped"}

(* the parts in which two observations differ, as deviation signatures where a deviation explains the difference,
   as "Unexplained/<part>" otherwise *)
Lost(W, D) ==
  LET O == ObsCustom(W)
      P == ObsCustom(ImplImport(ImplExport(W), D, 0))
      Undis(m) == [a \in DOMAIN m |-> [m[a] EXCEPT !.disabled = FALSE]]
      nonErc(m) == Restrict(m, (DOMAIN m) \ {a \in DOMAIN m : IsErc20(m[a])})
      T(c, s) == IF c THEN {s} ELSE {}
  IN   T(O.code # P.code, "Unexplained/Evm-code")
  \cup T(Restrict(O.stor, DOMAIN W.code) # Restrict(P.stor, DOMAIN W.code), "Unexplained/Evm-storage")
  \cup T(Codeless(W) # {}, "Export/evm-storage-of-codeless-account-dropped")
  \cup T(Codeless(W) # {} /\ \E a \in Codeless(W) : a \in DOMAIN P.stor, "Unexplained/Evm-storage-codeless")
  \cup T(O.evmParams # P.evmParams, "Unexplained/Evm-params")
  \cup T(O.fm # P.fm, "Unexplained/FeeMarket")
  \cup T(Erc20Of(O.cpc) # {}, "Export/cpc-erc20-metadata-dropped")
  \cup T(Erc20Of(P.cpc) # {} \/ P.cpc.idx # EmptyFn, "Unexplained/Cpc-erc20")
  \cup T(O.cpc.allow # EmptyFn, "Export/cpc-allowances-dropped")
  \cup T(P.cpc.allow # EmptyFn, "Unexplained/Cpc-allowances")
  \cup T("stk" \in DOMAIN O.cpc.meta /\ [O.cpc.meta["stk"] EXCEPT !.disabled = FALSE] # D.stk, "Export/cpc-staking-metadata-replaced-by-defaults")
  \cup T(\E a \in DOMAIN O.cpc.meta : O.cpc.meta[a].disabled, "Export/cpc-disabled-flags-dropped")
  \cup T(DOMAIN nonErc(O.cpc.meta) # DOMAIN nonErc(P.cpc.meta), "Unexplained/Cpc-set-of-fixed-contracts")
  \cup T(O.cpc.wl # P.cpc.wl \/ O.cpc.ver # P.cpc.ver, "Unexplained/Cpc-params")
  \cup T(O.proofs # EmptyFn, "Export/vauth-proofs-dropped")
  \cup T(P.proofs # EmptyFn, "Unexplained/Vauth")

ImplLossesAreTheNamedDeviations(W, D) == Lost(W, D) \subseteq DevSigs
(* and a world without any of the deviating content round-trips through the implementation *)
Plain(W, D) ==
  /\ Codeless(W) = {} /\ Erc20Of(W.cpc) = {} /\ W.cpc.allow = EmptyFn /\ W.proofs = EmptyFn
  /\ \A a \in DOMAIN W.cpc.meta : ~W.cpc.meta[a].disabled
  /\ "stk" \in DOMAIN W.cpc.meta => W.cpc.meta["stk"] = D.stk
  /\ "b32" \in DOMAIN W.cpc.meta /\ W.cpc.meta["b32"] = D.b32
  /\ W.cpc.idx = EmptyFn
ImplRoundTripsPlainWorlds(W, D) ==
  Plain(W, D) => /\ ObsCustom(ImplImport(ImplExport(W), D, 0)) = ObsCustom(W)
                 /\ ImplExport(ImplImport(ImplExport(W), D, 0)) = ImplExport(W)
=============================================================================
