------------------------------ MODULE EthTx_mc ------------------------------
(***************************************************************************)
(* Exhaustive design-level check of EthTx.tla within small constants:      *)
(* every transaction shape x every observable outcome x every block        *)
(* position, for two blocks of up to MaxTx transactions.  Gas units are    *)
(* abstract (intrinsic gas 2, limits 1..5).  The step laws are action      *)
(* properties over the ghost record `last`, which the VIEW hides.          *)
(***************************************************************************)
EXTENDS EthTx

CONSTANTS MaxTx, MaxBlocks, MaxGasChoices, Prices, Gases, GasUseds, Values, Nonces, Witness

McMinGas == 1
McMaxGas == {-1, 4}

McPrograms ==
  [pc0 |-> [e0 |-> <<>>,
            e1 |-> <<[op |-> "SSTORE", slot |-> "s0", val |-> 1], [op |-> "LOG", n |-> 1]>>,
            e2 |-> <<[op |-> "SSTORE", slot |-> "s0", val |-> 0], [op |-> "REVERT"]>>,
            e3 |-> <<[op |-> "CALL", kind |-> "CALL", to |-> "a1", sel |-> "e0", value |-> 1], [op |-> "SSTORE", slot |-> "s1", val |-> 1]>>,
            e4 |-> <<[op |-> "SELFDESTRUCT", to |-> "a1"]>>,
            e5 |-> <<[op |-> "CALL", kind |-> "STATICCALL", to |-> "c0", sel |-> "e1", value |-> 0]>>,
            e6 |-> <<[op |-> "SELFDESTRUCT", to |-> "c0"]>>],
   prt |-> [e0 |-> <<>>],
   pin |-> [e0 |-> <<[op |-> "SSTORE", slot |-> "s0", val |-> 1]>>]]

VARIABLES S, last, adm, nblocks, ntx
vars == <<S, last, adm, nblocks, ntx>>
view == <<S, adm, nblocks, ntx>>

Supply0 == 20

W0 == [bal  |-> [a0 |-> 12, a1 |-> 6, c0 |-> 2, fc |-> 0, evm |-> 0, distr |-> 0],
       bal2 |-> [c0 |-> 1],
       seq  |-> [a0 |-> 0, a1 |-> 0],
       ex   |-> [a0 |-> TRUE, a1 |-> TRUE, c0 |-> TRUE, fc |-> TRUE, evm |-> TRUE, distr |-> TRUE, m0 |-> TRUE],
       code |-> [c0 |-> "pc0"],
       stor |-> [c0 |-> [s0 |-> 1]],
       kind |-> [fc |-> "module", evm |-> "module", distr |-> "module", m0 |-> "module"],
       vend |-> EmptyFn,
       supply |-> Supply0, supply2 |-> 1, burnt |-> 0, burnt2 |-> 0,
       logs |-> <<>>, refund |-> 0, sd |-> {}, touched |-> {}, orig |-> EmptyFn]

NoLast == [kind |-> "none"]

Init ==
  /\ \E mg \in MaxGasChoices :
       S = [w |-> W0, baseFee |-> 1, minGP |-> 0, maxGas |-> mg, now |-> 5, h |-> 2, blockGas |-> 0, txCount |-> 0,
            gasOf |-> <<>>, logsOf |-> <<>>, blooms |-> <<>>, enableCreate |-> TRUE, enableCall |-> TRUE]
  /\ last = NoLast /\ adm = {} /\ nblocks = 1 /\ ntx = 0
  /\ (Witness => \A i \in 1..10 : TLCSet(i, FALSE))

Outs == {"ok", "revert", "oog", "other", "writeprot"}
Leaf(st) == [st |-> st, ch |-> <<>>]
\* observed outcome trees: a root with zero or one child
RootOuts == {Leaf(st) : st \in Outs} \cup {[st |-> st, ch |-> <<Leaf(c)>>] : st \in Outs, c \in Outs}

\* Transaction shapes.  The sender is a0 (a1 only lends its key for the signer-mismatch case).
Targets == {<<"a1", "e0">>, <<"x0", "e0">>, <<"create", "e0">>} \cup {<<"c0", e>> : e \in {"e0", "e1", "e2", "e3", "e4", "e5", "e6"}} \cup {<<"m0", "e0">>}
Auths == {<<"a0", "ok">>, <<"a1", "ok">>, <<"a0", "other">>}
Fees == {<<0, p, 0>> : p \in Prices} \cup {<<2, p, tp>> : p \in Prices, tp \in {0, 1}}

Mk(au, n, f, g, v, tg) ==
  [from |-> "a0", signer |-> au[1], chain |-> au[2], nonce |-> n, type |-> f[1], price |-> f[2], tip |-> f[3], gas |-> g,
   value |-> v, to |-> tg[1], sel |-> tg[2], tamper |-> "none", shape |-> "ok", init |-> "pin", runtime |-> "prt", newaddr |-> "k0"]

DummyObs == [intrinsic |-> 2, gasUsed |-> 2, gasBeforeRefund |-> 2, gasUsedRes |-> 2, root |-> Leaf("ok"), logBits |-> <<>>, bloomBits |-> <<>>]

\* exits that do not depend on the observation
PreExec(t) ==
  IF S.maxGas > 0 /\ S.blockGas >= S.maxGas THEN "dropped"
  ELSE IF EthAnteReject(S, t) THEN "ante"
  ELSE IF CoreError(AnteWorld(S, t), t, DummyObs) THEN "core"
  ELSE "exec"

ClassIdx(c) == CASE c = "dropped" -> 1 [] c = "ante" -> 2 [] c = "core" -> 3 [] c = "panic" -> 4 [] c = "blockgas" -> 5
                 [] c = "ok" -> 6 [] c = "vmerr" -> 7 [] OTHER -> 10

Record(t, o, res) ==
  /\ S' = res.S
  /\ last' = [kind |-> "eth", t |-> t, o |-> o, class |-> res.class, admitted |-> res.admitted,
              gasUsed |-> IF res.admitted THEN res.gasUsed ELSE 0, eff |-> IF res.admitted THEN res.eff ELSE 0,
              moved |-> IF res.admitted THEN res.moved ELSE 0, receipt |-> res.receipt]
  /\ adm' = IF res.admitted THEN adm \cup {<<t.from, t.nonce, Cardinality({x \in adm : x[1] = t.from /\ x[2] = t.nonce})>>} ELSE adm
  /\ ntx' = ntx + 1
  /\ UNCHANGED nblocks
  /\ (Witness => /\ TLCSet(ClassIdx(res.class), TRUE)
                 /\ (res.S.w.burnt > S.w.burnt /\ res.S.w.burnt2 > S.w.burnt2 => TLCSet(8, TRUE))
                 /\ ((res.class = "ok" /\ res.receipt.contract # "none") => TLCSet(9, TRUE)))

EthTx ==
  /\ ntx < MaxTx
  /\ \E au \in Auths, n \in Nonces, f \in Fees, g \in Gases, v \in Values, tg \in Targets :
       LET t == Mk(au, n, f, g, v, tg) IN
       IF PreExec(t) # "exec"
         THEN Record(t, DummyObs, EthStep(S, t, DummyObs))
         ELSE \E gu \in {x \in GasUseds : x <= g}, root \in (IF tg[1] \in {"c0", "create"} THEN RootOuts ELSE {Leaf("ok")}) :
                LET o == [DummyObs EXCEPT !.gasUsed = gu, !.gasBeforeRefund = gu, !.gasUsedRes = gu, !.root = root]
                    res == EthStep(S, t, o)
                IN res.cons /\ Record(t, o, res)

NextBlock ==
  /\ nblocks < MaxBlocks
  /\ S' = BeginBlockState([S EXCEPT !.baseFee = Next(S.baseFee, GasForFeeMarket(S), S.maxGas, S.minGP)], S.h + 1, S.now + 5)
  /\ last' = [kind |-> "block", pre |-> S]
  /\ nblocks' = nblocks + 1 /\ ntx' = 0
  /\ UNCHANGED adm

NextMc == EthTx \/ NextBlock
SpecMc == Init /\ [][NextMc]_vars

(***************************************************************************)
(* Vacuity guard (separate single-worker run with Witness = TRUE): every   *)
(* exit class, a burn and a successful creation must be reached in the     *)
(* bounded model, otherwise the laws above were never exercised on them.   *)
(***************************************************************************)
WitnessAll ==
  LET missing == {i \in 1..9 : TLCGet(i) # TRUE} IN
  IF missing = {} THEN TRUE ELSE Print(<<"VACUOUS: never reached (1 dropped 2 ante 3 core 4 panic 5 blockgas 6 ok 7 vmerr 8 burn 9 created)", missing>>, FALSE)

(***************************************************************************)
(* C04                                                                     *)
(***************************************************************************)
SupplyLaw == S.w.supply = Supply0 - S.w.burnt /\ S.w.supply2 = 1 - S.w.burnt2
ConservationInv == Conservation(S.w) /\ NoNegative(S.w)
EvmModuleEmptyInv == EvmModuleEmpty(S.w)
FeeLaw == [][last'.kind = "eth" /\ last'.admitted =>
               Bal(S'.w, "fc") - Bal(S.w, "fc") = last'.gasUsed * last'.eff]_vars
SupplyNeverGrows == [][S'.w.supply <= S.w.supply /\ S'.w.supply2 <= S.w.supply2]_vars

(***************************************************************************)
(* C05                                                                     *)
(***************************************************************************)
ChargeLaw == [][last'.kind = "eth" /\ last'.admitted /\ Ex(S'.w, last'.t.from) =>
                  Bal(S'.w, last'.t.from) - Bal(S.w, last'.t.from) = 0 - (last'.gasUsed * last'.eff) - last'.moved]_vars
OutsideVmUsesLimit == [][last'.kind = "eth" /\ last'.class \in {"core", "panic", "blockgas"} => last'.gasUsed = last'.t.gas]_vars
RejectedChangesNothing == [][last'.kind = "eth" /\ ~last'.admitted =>
                               S'.w = S.w /\ S'.txCount = S.txCount /\ S'.gasOf = S.gasOf]_vars
FloorLaw == [][last'.kind = "eth" /\ last'.admitted => last'.eff >= S.baseFee /\ last'.eff >= S.minGP]_vars
CumulativeInv == [][last'.kind = "eth" /\ last'.class \in {"ok", "vmerr"} =>
                      last'.receipt.cum = SumSeq(S'.gasOf) /\ last'.receipt.txIdx = S.txCount
                      /\ last'.receipt.logIdx = SumSeq(S.logsOf)]_vars

(***************************************************************************)
(* C06                                                                     *)
(***************************************************************************)
\* a (sender, nonce) pair is admitted at most once, and only with a proper signature for this chain
NoReplay == \A x \in adm : x[3] = 0
AuthLaw == [][last'.kind = "eth" /\ last'.admitted =>
                last'.t.chain = "ok" /\ last'.t.signer = last'.t.from /\ last'.t.nonce = Nonce(S.w, last'.t.from)
                /\ Code(S.w, last'.t.from) = "none"]_vars
\* the nonce moves by exactly one for an admitted tx (whatever the exit), and never otherwise
NonceLaw == [][\A a \in {"a0", "a1"} :
                 Nonce(S'.w, a) = Nonce(S.w, a) + (IF last'.kind = "eth" /\ last'.admitted /\ last'.t.from = a THEN 1 ELSE 0)]_vars

(***************************************************************************)
(* C13 / C20(b)                                                            *)
(***************************************************************************)
\* what EndBlock needs: one gas / log-count / receipt entry per counted transaction
ReceiptsExist == Len(S.gasOf) = S.txCount /\ Len(S.logsOf) = S.txCount /\ Len(S.blooms) = S.txCount
StatusLaw == [][last'.kind = "eth" /\ last'.class \in {"ok", "vmerr"} =>
                  (last'.receipt.status = 1 <=> last'.o.root.st = "ok")
                  /\ (last'.receipt.contract # "none" <=> (last'.t.to = "create" /\ last'.o.root.st = "ok"))
                  /\ (last'.receipt.status = 0 => last'.receipt.logs = <<>>)]_vars

(***************************************************************************)
(* C03 at transaction level: a tx whose root frame failed leaves exactly   *)
(* the nonce increment and the fee.                                        *)
(***************************************************************************)
VmErrLeavesNonceAndFee ==
  [][last'.kind = "eth" /\ last'.class = "vmerr" =>
       LET t == last'.t  fee == last'.gasUsed * last'.eff
           expect == [S.w EXCEPT !.bal = Put(Put(S.w.bal, t.from, Bal(S.w, t.from) - fee), "fc", Bal(S.w, "fc") + fee),
                                 !.seq = Put(S.w.seq, t.from, t.nonce + 1)]
       IN \A a \in DOMAIN S'.w.bal \cup DOMAIN S.w.bal :
            /\ Bal(S'.w, a) = Bal(expect, a) /\ Nonce(S'.w, a) = Nonce(expect, a)
            /\ Code(S'.w, a) = Code(S.w, a) /\ StorOf(S'.w, a) = StorOf(S.w, a)]_vars
=============================================================================
