----------------------------- MODULE TraceEthTx -----------------------------
(***************************************************************************)
(* Trace validation of recorded executions of the real application against *)
(* EthTx.tla.  The harness drives real blocks through FinalizeBlock/Commit *)
(* and logs, per line, one of                                              *)
(*   Genesis   the projected genesis state (starts a new trace)            *)
(*   Begin     height, header time                                         *)
(*   Eth       an Ethereum transaction: its fields (t), what was observed  *)
(*             (o: gas numbers, frame outcomes) and what the consensus     *)
(*             result showed (r: code, events, receipt)                    *)
(*   Cosmos    a bank send in the Cosmos lane                              *)
(*   End       block gas seen by the fee market, next base fee, block bloom*)
(*   State     full projection of the committed state                      *)
(* The trace specification is deterministic: every line is explained by    *)
(* exactly one action of the specification or not at all.  A line that is  *)
(* not explained sets `err` to <<line, name of the violated law>> and the  *)
(* invariant NoErr fails, so the runner knows which law broke where.       *)
(***************************************************************************)
EXTENDS EthTx, Json

Trace == ndJsonDeserialize("trace.ndjson")
TracePrograms == JsonDeserialize("programs.json")

(* Focus: the groups of laws whose violation this run reports.  A line that breaks a law
   outside Focus is counted in `skipped`, the model goes on, and at the next State line the
   model adopts the recorded state, so that the laws in Focus stay checked for the rest of
   the trace (one property's check must not raise another property's alarm). *)
CONSTANT Focus

VARIABLES l, S, err, nAdmitted, cls, skipped
tvars == <<l, S, err, nAdmitted, cls, skipped>>

OK == <<"ok", "">>

AllGroups == {"Frames", "Admit", "Outside", "TxIndex", "CoreGas", "ReceiptStatus", "ReceiptGas", "Cumulative", "Logs",
              "Contract", "LogIndex", "Bloom", "GasBounds", "Refund", "EffPrice", "Seq", "Fee", "Supply", "EvmModule", "Cosmos",
              "EndPanic", "FeeMarket", "BlockBloom", "Exists", "Bal", "Bal2", "Code", "Storage", "BaseFee"}

S0 == [w |-> [bal |-> EmptyFn, bal2 |-> EmptyFn, seq |-> EmptyFn, ex |-> EmptyFn, code |-> EmptyFn, stor |-> EmptyFn,
              kind |-> EmptyFn, vend |-> EmptyFn, supply |-> 0, supply2 |-> 0, burnt |-> 0, burnt2 |-> 0,
              logs |-> <<>>, refund |-> 0, sd |-> {}, touched |-> {}, orig |-> EmptyFn],
       baseFee |-> 0, minGP |-> 0, maxGas |-> -1, now |-> 0, h |-> 0, blockGas |-> 0, txCount |-> 0,
       gasOf |-> <<>>, logsOf |-> <<>>, blooms |-> <<>>, enableCreate |-> TRUE, enableCall |-> TRUE]

TraceInit == l = 1 /\ S = S0 /\ err = <<>> /\ nAdmitted = 0 /\ cls = EmptyFn /\ skipped = <<>>

Bump(f, k) == Put(f, k, Get(f, k, 0) + 1)

Ev == Trace[l]

(* first failing check of a sequence of <<name, bool>> given as nested IFs is done by callers *)
Fail(c) == <<l, c[1], c[2]>>

WorldOfGenesis(e) ==
  [bal  |-> [a \in DOMAIN e.accts |-> e.accts[a].bal],
   bal2 |-> [a \in DOMAIN e.accts |-> e.accts[a].bal2],
   seq  |-> [a \in DOMAIN e.accts |-> e.accts[a].seq],
   ex   |-> [a \in DOMAIN e.accts |-> e.accts[a].ex],
   code |-> [a \in DOMAIN e.accts |-> e.accts[a].code],
   stor |-> [a \in DOMAIN e.accts |-> e.accts[a].stor],
   kind |-> [a \in DOMAIN e.accts |-> e.accts[a].kind],
   vend |-> [a \in DOMAIN e.accts |-> e.accts[a].vend],
   supply |-> e.supply, supply2 |-> e.supply2, burnt |-> 0, burnt2 |-> 0,
   logs |-> <<>>, refund |-> 0, sd |-> {}, touched |-> {}, orig |-> EmptyFn]

StateMatches(w, e) ==
  /\ DOMAIN w.bal \subseteq DOMAIN e.accts
  /\ \A a \in DOMAIN e.accts :
       /\ Bal(w, a) = e.accts[a].bal
       /\ Bal2(w, a) = e.accts[a].bal2
       /\ Nonce(w, a) = e.accts[a].seq
       /\ Ex(w, a) = e.accts[a].ex
       /\ Code(w, a) = e.accts[a].code
       /\ StorOf(w, a) = e.accts[a].stor
  /\ w.supply = e.supply
  /\ w.supply2 = e.supply2

(* every field of the state that differs, as law names; a law in Focus is reported first *)
StateDiffs(w, e) ==
  LET A == DOMAIN e.accts
      T(c, x) == IF c THEN <<x>> ELSE <<>>
  IN   T(~(DOMAIN w.bal \subseteq A), <<"Exists", "state-domain">>)
    \o T(\E a \in A : Bal(w, a) # e.accts[a].bal, <<"Bal", "state-balance">>)
    \o T(\E a \in A : Bal2(w, a) # e.accts[a].bal2, <<"Bal2", "state-balance-other-denoms">>)
    \o T(\E a \in A : Nonce(w, a) # e.accts[a].seq, <<"Seq", "state-sequence">>)
    \o T(\E a \in A : Ex(w, a) # e.accts[a].ex, <<"Exists", "state-account-exists">>)
    \o T(\E a \in A : Code(w, a) # e.accts[a].code, <<"Code", "state-code">>)
    \o T(\E a \in A : StorOf(w, a) # e.accts[a].stor, <<"Storage", "state-storage">>)
    \o T(w.supply # e.supply, <<"Supply", "state-supply">>)
    \o T(w.supply2 # e.supply2, <<"Supply", "state-supply-other-denoms">>)

PickLaw(ds) ==
  IF ds = <<>> THEN OK
  ELSE IF \E i \in 1..Len(ds) : ds[i][1] \in Focus
         THEN ds[CHOOSE i \in 1..Len(ds) : ds[i][1] \in Focus /\ \A k \in 1..(i - 1) : ds[k][1] \notin Focus]
         ELSE ds[1]

(* expected logs vs the receipt's logs: address and topic count, in order *)
LogsMatch(exp, got) ==
  /\ Len(exp) = Len(got)
  /\ \A i \in 1..Len(exp) : exp[i].addr = got[i].addr /\ exp[i].n = got[i].n

(* bloom of the receipt = union of the reference bloom bits of exactly its logs *)
ExpectedBloom(o, logs) == UNION {ToSet(o.logBits[i]) : i \in 1..Len(o.logBits)}

EthCheck(e, res) ==
  LET t == e.t  o == e.o  r == e.r IN
  IF ~res.cons THEN (IF o.root.st = "notrun" THEN <<"Admit", "admitted-by-the-model-but-never-run">>
                     ELSE <<"Frames", "frames-inconsistent-with-program">>)
  ELSE IF res.class \in {"dropped", "ante"} THEN
       (IF r.code = 0 THEN <<"Admit", "rejected-but-code-0">>
        ELSE IF r.hasEthEvent THEN <<"Admit", "rejected-but-ethereum_tx-event">>
        ELSE IF r.hasReceipt THEN <<"Admit", "rejected-but-receipt">>
        ELSE OK)
  ELSE IF res.class \in {"core", "panic", "blockgas"} THEN
       (IF r.code = 0 THEN <<"Outside", "failed-outside-vm-but-code-0">>
        ELSE IF ~r.hasEthEvent THEN <<"TxIndex", "admitted-without-ethereum_tx-event">>
        ELSE IF r.ethEventTxIdx # S.txCount THEN <<"TxIndex", "ethereum_tx-event-index">>
        ELSE IF r.hasReceipt THEN <<"Outside", "failed-outside-vm-but-receipt">>
        ELSE IF res.class = "core" /\ r.gasUsed # t.gas THEN <<"CoreGas", "core-error-must-consume-gas-limit">>
        ELSE OK)
  ELSE \* ok / vmerr
       LET rc == res.receipt IN
       IF r.code # 0 THEN <<"Outside", "executed-but-code-nonzero">>
       ELSE IF ~r.hasEthEvent THEN <<"TxIndex", "admitted-without-ethereum_tx-event">>
       ELSE IF r.ethEventTxIdx # rc.txIdx THEN <<"TxIndex", "ethereum_tx-event-index">>
       ELSE IF ~r.hasReceipt THEN <<"Outside", "executed-without-receipt">>
       ELSE IF r.receipt.status # rc.status THEN <<"ReceiptStatus", "status">>
       ELSE IF r.receipt.gasUsed # rc.gasUsed THEN <<"ReceiptGas", "receipt-gasUsed">>
       ELSE IF r.receipt.cum # rc.cum THEN <<"Cumulative", "cumulativeGas">>
       ELSE IF r.receipt.txIdx # rc.txIdx THEN <<"TxIndex", "receipt-txIndex">>
       ELSE IF ~LogsMatch(rc.logs, r.receipt.logs) THEN <<"Logs", "receipt-logs">>
       ELSE IF Len(rc.logs) > 0 /\ r.receipt.logIdx # rc.logIdx THEN <<"LogIndex", "first-log-index-in-block">>
       ELSE IF r.receipt.contract # rc.contract THEN <<"Contract", "contractAddress">>
       ELSE IF ToSet(o.bloomBits) # ExpectedBloom(o, rc.logs) THEN <<"Bloom", "receipt-bloom">>
       ELSE IF Len(rc.logs) # Len(o.logBits) THEN <<"Bloom", "bloom-log-count">>
       ELSE IF ~(o.intrinsic <= o.gasUsed /\ o.gasUsed <= t.gas) THEN <<"GasBounds", "intrinsic<=gasUsed<=gasLimit">>
       ELSE IF o.gasUsedRes # o.gasUsed THEN <<"ReceiptGas", "result-vs-receipt">>
       ELSE IF o.gasBeforeRefund > t.gas \/ o.gasBeforeRefund < o.gasUsed THEN <<"Refund", "gas-before-refund-range">>
       ELSE IF (o.gasBeforeRefund - o.gasUsed) * 5 > o.gasBeforeRefund THEN <<"Refund", "refund-above-one-fifth">>
       ELSE IF (o.gasBeforeRefund - o.gasUsed) # Min(Max(res.refundCounter, 0), o.gasBeforeRefund \div 5) THEN <<"Refund", "refund-not-min(counter,fifth)">>
       ELSE IF r.receipt.effPrice # res.eff THEN <<"EffPrice", "effectiveGasPrice">>
       ELSE OK

(* C04/C05 on one step, by comparing the worlds before and after *)
LawCheck(t, res) ==
  LET w0 == S.w  w1 == res.S.w IN
  IF ~res.admitted THEN (IF w1 # w0 THEN <<"Admit", "rejected-tx-changed-state">> ELSE OK)
  ELSE
    LET dSender == Bal(w1, t.from) - Bal(w0, t.from)
        dFc == Bal(w1, "fc") - Bal(w0, "fc")
        paid == res.gasUsed * res.eff
    IN IF Nonce(w1, t.from) # Nonce(w0, t.from) + 1 /\ ~(t.from \in DOMAIN w1.ex /\ ~w1.ex[t.from]) THEN <<"Seq", "nonce-not-advanced-by-one">>
       ELSE IF dFc # paid THEN <<"Fee", "collector-gain-differs-from-fee-paid">>
       ELSE IF w1.supply # w0.supply - (w1.burnt - w0.burnt) THEN <<"Supply", "changed-beyond-burns">>
       ELSE IF w1.supply > w0.supply THEN <<"Supply", "increased">>
       ELSE IF ~EvmModuleEmpty(w1) THEN <<"EvmModule", "non-zero-balance">>
       ELSE OK

(* Settle(c, Sok): c is the first broken law of this line (or OK); Sok the model's next state *)
Settle(c, Sok) ==
  IF c = OK THEN S' = Sok /\ UNCHANGED <<err, skipped>>
  ELSE IF c[1] \in Focus THEN err' = Fail(c) /\ PrintT(<<"LAWBROKEN", l, c[1], c[2]>>) /\ UNCHANGED <<S, skipped>>
  ELSE S' = Sok /\ skipped' = Append(skipped, Fail(c)) /\ UNCHANGED err

DoGenesis ==
  /\ Ev.ev = "Genesis"
  /\ S' = [S0 EXCEPT !.w = WorldOfGenesis(Ev), !.baseFee = Ev.baseFee, !.minGP = Ev.minGP, !.maxGas = Ev.maxGas,
                   !.enableCreate = Ev.enableCreate, !.enableCall = Ev.enableCall]
  /\ UNCHANGED <<err, nAdmitted, cls, skipped>>

DoBegin ==
  /\ Ev.ev = "Begin"
  /\ S' = BeginBlockState(S, Ev.h, Ev.time)
  /\ UNCHANGED <<err, nAdmitted, cls, skipped>>

DoEth ==
  /\ Ev.ev = "Eth"
  /\ LET res == EthStep(S, Ev.t, Ev.o)
         c1 == EthCheck(Ev, res)
         c2 == IF c1 = OK THEN LawCheck(Ev.t, res) ELSE c1
     IN /\ Settle(c2, res.S)
        /\ nAdmitted' = nAdmitted + (IF res.admitted THEN 1 ELSE 0)
        /\ cls' = Bump(cls, "eth." \o res.class)

DoCosmos ==
  /\ Ev.ev = "Cosmos"
  /\ LET res == CosmosStep(S, Ev.t, Ev.o)
         bad == IF res.class = "ante" /\ Ev.r.code = 0 /\ ~(S.maxGas > 0 /\ S.blockGas >= S.maxGas) /\ Ev.t.gas > 0 /\ CosmosEffPrice(S, Ev.t) < Floor(S)
                  THEN <<"Admit", "cosmos-tx-below-the-price-floor-executed">>       \* C09: the floor binds the Cosmos lane too
                ELSE IF res.class \in {"dropped", "ante", "msgfail", "blockgas"} /\ Ev.r.code = 0 THEN <<"Cosmos", "failed-but-code-0">>
                ELSE IF res.class = "ok" /\ Ev.r.code # 0 THEN <<"Cosmos", "ok-but-code-nonzero">>
                ELSE OK
     IN /\ Settle(bad, res.S)
        /\ cls' = Bump(cls, "cosmos." \o res.class)
        /\ UNCHANGED nAdmitted

DoEnd ==
  /\ Ev.ev = "End"
  /\ LET hasGov == "gov" \in DOMAIN Ev
         SG == IF hasGov THEN GovEndBlock(S, Ev.gov) ELSE S      \* the gov end-blocker comes first
         bad == IF Ev.panic THEN <<"EndPanic", "block-panicked">>
                ELSE IF Ev.blockGas # -1 /\ Ev.blockGas # GasForFeeMarket(S) THEN <<"FeeMarket", "block-gas">>
                ELSE IF ~EndBlockOk(SG, Ev.nextBaseFee) THEN <<"FeeMarket", IF hasGov THEN "next-base-fee-after-param-change" ELSE "next-base-fee">>
                ELSE IF Ev.nextBaseFee < SG.minGP THEN <<"FeeMarket", "next-base-fee-below-min-gas-price">>
                ELSE IF ToSet(Ev.blockBloomBits) # BlockBloom(S) THEN <<"BlockBloom", "block-bloom">>
                ELSE OK
     IN /\ Settle(bad, [(IF hasGov THEN AfterEndBlock(SG, Ev.gov) ELSE SG) EXCEPT !.baseFee = Ev.nextBaseFee])
        /\ cls' = IF hasGov THEN Bump(cls, IF Ev.gov.passed THEN "end.gov-params-executed" ELSE "end.gov-proposal-rejected") ELSE cls
        /\ UNCHANGED nAdmitted

(* the recorded state replaces the model's when they differ outside Focus *)
Adopt(e) == [S EXCEPT !.w = [WorldOfGenesis(e) EXCEPT !.burnt = S.w.burnt, !.burnt2 = S.w.burnt2], !.baseFee = e.baseFee]

DoState ==
  /\ Ev.ev = "State"
  /\ LET c == PickLaw(StateDiffs(S.w, Ev) \o (IF S.baseFee # Ev.baseFee THEN << <<"BaseFee", "state-baseFee">> >> ELSE <<>>))
     IN /\ Settle(c, IF c = OK THEN S ELSE Adopt(Ev))
        /\ UNCHANGED <<nAdmitted, cls>>

TraceNext ==
  /\ l <= Len(Trace)
  /\ err = <<>>
  /\ l' = l + 1
  /\ (DoGenesis \/ DoBegin \/ DoEth \/ DoCosmos \/ DoEnd \/ DoState)

TraceSpec == TraceInit /\ [][TraceNext]_tvars

NoErr == err = <<>>

(* printed once, when the last line has been consumed: what the run exercised *)
Coverage == (l = Len(Trace) + 1 /\ err = <<>>) => PrintT(<<"COVERAGE", ToJsonObject(cls), nAdmitted, "SKIPPED", skipped>>)

(* every line consumed: the run ended at l = Len(Trace) + 1 without error *)
TraceAccepted ==
  LET d == TLCGet("stats").diameter IN
  IF d - 1 = Len(Trace) THEN TRUE
  ELSE Print(<<"TRACE NOT ACCEPTED: consumed", d - 1, "of", Len(Trace)>>, FALSE)
=============================================================================
