----------------------------- MODULE TraceEthTx -----------------------------
(***************************************************************************)
(* Trace validation of recorded executions of the real application against *)
(* EthTx.tla.  The harness drives real blocks through FinalizeBlock/Commit *)
(* and logs, per line, one of                                              *)
(*   Genesis   the projected genesis state (starts a new trace)            *)
(*   Begin     height, header time                                         *)
(*   Eth       an Ethereum transaction: its fields (t), what was observed  *)
(*             (o: gas numbers, frame outcomes) and what the consensus     *)
(*             result showed (r: code, events, receipt)                    *)
(*   Cosmos    a bank send in the Cosmos lane                              *)
(*   End       block gas seen by the fee market, next base fee, block bloom*)
(*   State     full projection of the committed state                      *)
(* The trace specification is deterministic: every line is explained by    *)
(* exactly one action of the specification or not at all.  A line that is  *)
(* not explained sets `err` to <<line, name of the violated law>> and the  *)
(* invariant NoErr fails, so the runner knows which law broke where.       *)
(***************************************************************************)
EXTENDS EthTx, Json

Trace == ndJsonDeserialize("trace.ndjson")
TracePrograms == JsonDeserialize("programs.json")

VARIABLES l, S, err, nAdmitted, cls
tvars == <<l, S, err, nAdmitted, cls>>

S0 == [w |-> [bal |-> EmptyFn, bal2 |-> EmptyFn, seq |-> EmptyFn, ex |-> EmptyFn, code |-> EmptyFn, stor |-> EmptyFn,
              kind |-> EmptyFn, vend |-> EmptyFn, supply |-> 0, supply2 |-> 0, burnt |-> 0, burnt2 |-> 0,
              logs |-> <<>>, refund |-> 0, sd |-> {}, touched |-> {}, orig |-> EmptyFn],
       baseFee |-> 0, minGP |-> 0, maxGas |-> -1, now |-> 0, h |-> 0, blockGas |-> 0, txCount |-> 0,
       gasOf |-> <<>>, logsOf |-> <<>>, blooms |-> <<>>]

TraceInit == l = 1 /\ S = S0 /\ err = <<>> /\ nAdmitted = 0 /\ cls = EmptyFn

Bump(f, k) == Put(f, k, Get(f, k, 0) + 1)

Ev == Trace[l]

(* first failing check of a sequence of <<name, bool>> given as nested IFs is done by callers *)
Fail(name) == <<l, name>>

WorldOfGenesis(e) ==
  [bal  |-> [a \in DOMAIN e.accts |-> e.accts[a].bal],
   bal2 |-> [a \in DOMAIN e.accts |-> e.accts[a].bal2],
   seq  |-> [a \in DOMAIN e.accts |-> e.accts[a].seq],
   ex   |-> [a \in DOMAIN e.accts |-> e.accts[a].ex],
   code |-> [a \in DOMAIN e.accts |-> e.accts[a].code],
   stor |-> [a \in DOMAIN e.accts |-> e.accts[a].stor],
   kind |-> [a \in DOMAIN e.accts |-> e.accts[a].kind],
   vend |-> [a \in DOMAIN e.accts |-> e.accts[a].vend],
   supply |-> e.supply, supply2 |-> e.supply2, burnt |-> 0, burnt2 |-> 0,
   logs |-> <<>>, refund |-> 0, sd |-> {}, touched |-> {}, orig |-> EmptyFn]

StateMatches(w, e) ==
  /\ DOMAIN w.bal \subseteq DOMAIN e.accts
  /\ \A a \in DOMAIN e.accts :
       /\ Bal(w, a) = e.accts[a].bal
       /\ Bal2(w, a) = e.accts[a].bal2
       /\ Nonce(w, a) = e.accts[a].seq
       /\ Ex(w, a) = e.accts[a].ex
       /\ Code(w, a) = e.accts[a].code
       /\ StorOf(w, a) = e.accts[a].stor
  /\ w.supply = e.supply
  /\ w.supply2 = e.supply2

(* which field of the state differs: for diagnostics *)
StateDiff(w, e) ==
  IF ~(DOMAIN w.bal \subseteq DOMAIN e.accts) THEN "State.domain"
  ELSE IF \E a \in DOMAIN e.accts : Bal(w, a) # e.accts[a].bal THEN "State.bal"
  ELSE IF \E a \in DOMAIN e.accts : Bal2(w, a) # e.accts[a].bal2 THEN "State.bal2"
  ELSE IF \E a \in DOMAIN e.accts : Nonce(w, a) # e.accts[a].seq THEN "State.seq"
  ELSE IF \E a \in DOMAIN e.accts : Ex(w, a) # e.accts[a].ex THEN "State.exists"
  ELSE IF \E a \in DOMAIN e.accts : Code(w, a) # e.accts[a].code THEN "State.code"
  ELSE IF \E a \in DOMAIN e.accts : StorOf(w, a) # e.accts[a].stor THEN "State.storage"
  ELSE IF w.supply # e.supply THEN "State.supply"
  ELSE IF w.supply2 # e.supply2 THEN "State.supply2"
  ELSE "ok"

(* expected logs vs the receipt's logs: address and topic count, in order *)
LogsMatch(exp, got) ==
  /\ Len(exp) = Len(got)
  /\ \A i \in 1..Len(exp) : exp[i].addr = got[i].addr /\ exp[i].n = got[i].n

(* bloom of the receipt = union of the reference bloom bits of exactly its logs *)
ExpectedBloom(o, logs) == UNION {ToSet(o.logBits[i]) : i \in 1..Len(o.logBits)}

EthCheck(e, res) ==
  LET t == e.t  o == e.o  r == e.r IN
  IF ~res.cons THEN "Eth.frames-inconsistent-with-program"
  ELSE IF res.class \in {"dropped", "ante"} THEN
       (IF r.code = 0 THEN "Eth.rejected-but-code-0"
        ELSE IF r.hasEthEvent THEN "Eth.rejected-but-ethereum_tx-event"
        ELSE IF r.hasReceipt THEN "Eth.rejected-but-receipt"
        ELSE "ok")
  ELSE IF res.class \in {"core", "panic", "blockgas"} THEN
       (IF r.code = 0 THEN "Eth.failed-outside-vm-but-code-0"
        ELSE IF ~r.hasEthEvent THEN "Eth.admitted-without-ethereum_tx-event"
        ELSE IF r.ethEventTxIdx # S.txCount THEN "Eth.ethereum_tx-index"
        ELSE IF r.hasReceipt THEN "Eth.failed-outside-vm-but-receipt"
        ELSE IF res.class = "core" /\ r.gasUsed # t.gas THEN "Eth.core-error-must-consume-gas-limit"
        ELSE "ok")
  ELSE \* ok / vmerr
       LET rc == res.receipt IN
       IF r.code # 0 THEN "Eth.executed-but-code-nonzero"
       ELSE IF ~r.hasEthEvent THEN "Eth.admitted-without-ethereum_tx-event"
       ELSE IF r.ethEventTxIdx # rc.txIdx THEN "Eth.ethereum_tx-index"
       ELSE IF ~r.hasReceipt THEN "Eth.executed-without-receipt"
       ELSE IF r.receipt.status # rc.status THEN "Receipt.status"
       ELSE IF r.receipt.gasUsed # rc.gasUsed THEN "Receipt.gasUsed"
       ELSE IF r.receipt.cum # rc.cum THEN "Receipt.cumulativeGas"
       ELSE IF r.receipt.txIdx # rc.txIdx THEN "Receipt.txIndex"
       ELSE IF ~LogsMatch(rc.logs, r.receipt.logs) THEN "Receipt.logs"
       ELSE IF r.receipt.contract # rc.contract THEN "Receipt.contractAddress"
       ELSE IF ToSet(o.bloomBits) # ExpectedBloom(o, rc.logs) THEN "Receipt.bloom"
       ELSE IF Len(rc.logs) # Len(o.logBits) THEN "Receipt.bloom-log-count"
       ELSE IF ~(o.intrinsic <= o.gasUsed /\ o.gasUsed <= t.gas) THEN "Gas.bounds"
       ELSE IF o.gasUsedRes # o.gasUsed THEN "Gas.result-vs-receipt"
       ELSE IF o.gasBeforeRefund > t.gas \/ o.gasBeforeRefund < o.gasUsed THEN "Gas.before-refund"
       ELSE IF (o.gasBeforeRefund - o.gasUsed) * 5 > o.gasBeforeRefund THEN "Gas.refund-above-one-fifth"
       ELSE IF (o.gasBeforeRefund - o.gasUsed) # Min(Max(res.refundCounter, 0), o.gasBeforeRefund \div 5) THEN "Gas.refund-not-capped-counter"
       ELSE IF r.receipt.effPrice # res.eff THEN "Receipt.effectiveGasPrice"
       ELSE "ok"

(* C04/C05 on one step, by comparing the worlds before and after *)
LawCheck(t, res) ==
  LET w0 == S.w  w1 == res.S.w IN
  IF ~res.admitted THEN (IF w1 # w0 THEN "Admission.rejected-tx-changed-state" ELSE "ok")
  ELSE
    LET dSender == Bal(w1, t.from) - Bal(w0, t.from)
        dFc == Bal(w1, "fc") - Bal(w0, "fc")
        paid == res.gasUsed * res.eff
    IN IF Nonce(w1, t.from) # Nonce(w0, t.from) + 1 /\ ~(t.from \in DOMAIN w1.ex /\ ~w1.ex[t.from]) THEN "Nonce.not-advanced-by-one"
       ELSE IF dFc # paid THEN "Fee.collector-gain-differs-from-fee-paid"
       ELSE IF w1.supply # w0.supply - (w1.burnt - w0.burnt) THEN "Supply.changed-beyond-burns"
       ELSE IF w1.supply > w0.supply THEN "Supply.increased"
       ELSE IF ~EvmModuleEmpty(w1) THEN "EvmModule.non-zero-balance"
       ELSE "ok"

DoGenesis ==
  /\ Ev.ev = "Genesis"
  /\ S' = [S0 EXCEPT !.w = WorldOfGenesis(Ev), !.baseFee = Ev.baseFee, !.minGP = Ev.minGP, !.maxGas = Ev.maxGas]
  /\ UNCHANGED <<err, nAdmitted, cls>>

DoBegin ==
  /\ Ev.ev = "Begin"
  /\ S' = BeginBlockState(S, Ev.h, Ev.time)
  /\ UNCHANGED <<err, nAdmitted, cls>>

DoEth ==
  /\ Ev.ev = "Eth"
  /\ LET res == EthStep(S, Ev.t, Ev.o)
         c1 == EthCheck(Ev, res)
         c2 == IF c1 = "ok" THEN LawCheck(Ev.t, res) ELSE c1
     IN IF c2 = "ok"
          THEN /\ S' = res.S /\ err' = err /\ nAdmitted' = nAdmitted + (IF res.admitted THEN 1 ELSE 0)
               /\ cls' = Bump(cls, "eth." \o res.class)
               /\ (Ev.class = res.class \/ Ev.class = "any")     \* the class the driver aimed for is informational
          ELSE /\ err' = Fail(c2) /\ UNCHANGED <<S, nAdmitted, cls>>

DoCosmos ==
  /\ Ev.ev = "Cosmos"
  /\ LET res == CosmosStep(S, Ev.t, Ev.o)
         bad == IF res.class \in {"dropped", "ante", "msgfail", "blockgas"} /\ Ev.r.code = 0 THEN "Cosmos.failed-but-code-0"
                ELSE IF res.class = "ok" /\ Ev.r.code # 0 THEN "Cosmos.ok-but-code-nonzero"
                ELSE "ok"
     IN IF bad = "ok" THEN S' = res.S /\ cls' = Bump(cls, "cosmos." \o res.class) /\ UNCHANGED <<err, nAdmitted>>
        ELSE err' = Fail(bad) /\ UNCHANGED <<S, nAdmitted, cls>>

DoEnd ==
  /\ Ev.ev = "End"
  /\ LET bad == IF Ev.panic THEN "EndBlock.panicked"
                ELSE IF Ev.blockGas # -1 /\ Ev.blockGas # GasForFeeMarket(S) THEN "EndBlock.block-gas"
                ELSE IF ~EndBlockOk(S, Ev.nextBaseFee) THEN "FeeMarket.next-base-fee"
                ELSE IF ToSet(Ev.blockBloomBits) # BlockBloom(S) THEN "EndBlock.block-bloom"
                ELSE "ok"
     IN IF bad = "ok" THEN S' = [S EXCEPT !.baseFee = Ev.nextBaseFee] /\ UNCHANGED <<err, nAdmitted, cls>>
        ELSE err' = Fail(bad) /\ UNCHANGED <<S, nAdmitted, cls>>

DoState ==
  /\ Ev.ev = "State"
  /\ LET d == StateDiff(S.w, Ev) IN
     IF d = "ok" /\ S.baseFee = Ev.baseFee THEN UNCHANGED <<S, err, nAdmitted, cls>>
     ELSE err' = Fail(IF d = "ok" THEN "State.baseFee" ELSE d) /\ UNCHANGED <<S, nAdmitted, cls>>

TraceNext ==
  /\ l <= Len(Trace)
  /\ err = <<>>
  /\ l' = l + 1
  /\ (DoGenesis \/ DoBegin \/ DoEth \/ DoCosmos \/ DoEnd \/ DoState)

TraceSpec == TraceInit /\ [][TraceNext]_tvars

NoErr == err = <<>>

(* printed once, when the last line has been consumed: what the run exercised *)
Coverage == (l = Len(Trace) + 1 /\ err = <<>>) => PrintT(<<"COVERAGE", ToJsonObject(cls), nAdmitted>>)

(* every line consumed: the run ended at l = Len(Trace) + 1 without error *)
TraceAccepted ==
  LET d == TLCGet("stats").diameter IN
  IF d - 1 = Len(Trace) THEN TRUE
  ELSE Print(<<"TRACE NOT ACCEPTED: consumed", d - 1, "of", Len(Trace)>>, FALSE)
=============================================================================
