--------------------------- MODULE TraceRevertTree ---------------------------
(***************************************************************************)
(* C03 (precompile part), binding B1: every vector of RevertTree.tla       *)
(* (vectors.ndjson, written by TLC) was executed by the harness against    *)
(* the real application as one transaction through generated forwarding   *)
(* contracts.  Logged per vector: receipt status, whether any key of the   *)
(* bank / cpc / staking / distribution / evm / auth stores changed (fee,   *)
(* nonce, per-block bookkeeping excluded), per leaf whether exactly its    *)
(* effect is present (balance / supply / allowance / delegation delta),    *)
(* the receipt's log kinds in order, and - through the tracer hook - how   *)
(* every frame and every leaf call actually exited.  TLC judges each line  *)
(* with Expect of the design module:                                       *)
(*   Status   receipt status = outcome of the top frame                    *)
(*   Effect   leaf effect present  <=>  all frames above it completed      *)
(*   Stores   some store key changed <=> some leaf survives                *)
(*   Logs     receipt logs = logs of the surviving leaves, in order        *)
(*   Vacuity  the frames did not exit as generated / a leaf call failed    *)
(*   Binding  the trace is not the complete vector list                    *)
(* All lines are judged.                                                   *)
(***************************************************************************)
EXTENDS RevertTree

CONSTANT Strict   \* FALSE: partial trace (replay), skip the completeness laws

Trace == ndJsonDeserialize("trace.ndjson")
Vecs  == ndJsonDeserialize("vectors.ndjson")

VARIABLES l, nbad, cls
tvars == <<vec, l, nbad, cls>>

Ev == Trace[l]
Bump(f, k) == [x \in (DOMAIN f) \cup {k} |-> IF x = k THEN (IF k \in DOMAIN f THEN f[k] ELSE 0) + 1 ELSE f[x]]
OK == <<"ok", "">>

(* the vector a line talks about, rebuilt from the line *)
VecOf(e) ==
  [shape |-> e.shape, kinds |-> e.kinds, modes |-> e.modes,
   leaves |-> IF e.shape = "memo" THEN <<[method |-> e.methods[1], anc |-> {}]>>
              ELSE IF e.shape = "path" THEN <<[method |-> e.methods[1], anc |-> 1..Len(e.modes)]>>
              ELSE <<[method |-> e.methods[1], anc |-> {1, 2}], [method |-> e.methods[2], anc |-> {1}]>>]
FlatKey(x) == [shape |-> x.shape, kinds |-> x.kinds, modes |-> x.modes, methods |-> x.methods]

(* shape "memo": numbers are logged (pre = allowance before the transaction, n, a, b as in RevertTree.tla), flags / view = what *)
(* the three calls returned, final = allowance record after the block, moved = coins moved to the receiver / burnt              *)
MemoJudge(e) ==
  LET v == VecOf(e)
      s == MemoSurvives(v)
      x == Expect(v)
      ap == e.kinds[1] = "approve"
      flag1 == IF e.modes[1] = "ok" THEN 1 ELSE 0
      view  == IF ap THEN (IF s THEN e.n ELSE e.pre) ELSE (IF s THEN e.pre - e.a ELSE e.pre)
      flag3 == IF ap THEN (IF s THEN 1 ELSE 0) ELSE 1
      final == IF ap THEN (IF s THEN e.n - e.a ELSE e.pre) ELSE view - e.b
      moved == IF ap THEN (IF s THEN e.a ELSE 0) ELSE (IF s THEN e.a ELSE 0) + e.b
  IN IF e.status # 1 \/ Len(e.flags) # 3 \/ e.flags[1] # flag1 \/ e.flags[2] # 1 THEN <<"Vacuity", "memo-calls-did-not-run-as-generated">>
     ELSE IF e.view # view THEN (IF s THEN <<"Vacuity", "memo-control-view">> ELSE <<"Effect", "allowance-change-of-reverted-frame-visible-to-later-call">>)
     ELSE IF e.flags[3] # flag3 THEN (IF s \/ flag3 = 1 THEN <<"Vacuity", "memo-spend-failed">> ELSE <<"Effect", "spend-accepted-on-allowance-of-reverted-frame">>)
     ELSE IF e.moved # moved THEN (IF s THEN <<"Vacuity", "memo-control-amount">> ELSE <<"Effect", "coins-moved-by-reverted-frame-or-on-its-allowance">>)
     ELSE IF e.final # final THEN (IF s THEN <<"Vacuity", "memo-control-allowance">> ELSE <<"Effect", "allowance-record-keeps-change-of-reverted-frame">>)
     ELSE IF e.changed # x.changed THEN <<"Stores", "memo-store-diff-differs">>
     ELSE IF Len(e.logs) > Len(x.logs) THEN <<"Logs", "log-of-failed-frame-kept">>
     ELSE IF e.logs # x.logs THEN <<"Logs", "log-order-or-kind">>
     ELSE OK

Judge(e) ==
  LET v == VecOf(e)
      x == Expect(v)
      n == Len(v.leaves)
      logs == SelectSeq(e.logs, LAMBDA k : k # "WithdrawReward")
  IN IF Strict /\ (e.id # l \/ l > Len(Vecs) \/ FlatKey(Vecs[e.id]) # FlatKey(e)) THEN <<"Binding", "line-is-not-the-next-vector">>
     ELSE IF Strict /\ v \notin VectorSet THEN <<"Binding", "vector-outside-the-models-input-space">>
     ELSE IF e.shape = "memo" THEN MemoJudge(e)
     ELSE IF e.frames # e.modes \/ Len(e.leafExit) # n \/ \E j \in 1..Len(e.leafExit) : e.leafExit[j] # "ok"
       THEN <<"Vacuity", "frames-or-leaves-did-not-run-as-generated">>
     ELSE IF e.status # x.status THEN <<"Status", "receipt-status-differs-from-top-frame-outcome">>
     ELSE IF \E j \in 1..n : e.effects[j] /\ ~x.surv[j]
       THEN <<"Effect", "effect-of-failed-frame-survived-" \o v.leaves[CHOOSE j \in 1..n : e.effects[j] /\ ~x.surv[j]].method>>
     ELSE IF \E j \in 1..n : ~e.effects[j] /\ x.surv[j]
       THEN <<"Effect", "effect-of-completed-frames-lost-" \o v.leaves[CHOOSE j \in 1..n : ~e.effects[j] /\ x.surv[j]].method>>
     ELSE IF e.changed /\ ~x.changed THEN <<"Stores", "stores-changed-although-no-leaf-survives">>
     ELSE IF ~e.changed /\ x.changed THEN <<"Stores", "stores-unchanged-although-a-leaf-survives">>
     ELSE IF Len(logs) > Len(x.logs) THEN <<"Logs", "log-of-failed-frame-kept">>
     ELSE IF Len(logs) < Len(x.logs) THEN <<"Logs", "log-of-completed-frames-missing">>
     ELSE IF logs # x.logs THEN <<"Logs", "log-order-or-kind">>
     ELSE OK

Class(e) ==
  LET v == VecOf(e) x == Expect(v) IN
  IF e.shape = "memo" THEN "memo." \o e.kinds[1] \o (IF MemoSurvives(v) THEN ".control" ELSE ".in-reverted-frame") ELSE
  e.shape \o (IF \A i \in DOMAIN e.modes : e.modes[i] = "ok" THEN ".control"
              ELSE IF x.changed THEN ".partly-kept" ELSE IF e.modes[1] = "ok" THEN ".inner-frame-failed" ELSE ".top-frame-failed")

TrVector ==
  /\ Ev.ev = "Vector"
  /\ LET c == Judge(Ev) IN
       IF c = OK THEN UNCHANGED nbad ELSE nbad' = nbad + 1 /\ PrintT(<<"LAWBROKEN", l, c[1], c[2]>>)
  /\ cls' = Bump(cls, Class(Ev))
  /\ vec' = VecOf(Ev)

Complete == ~Strict \/ (Len(Trace) = Len(Vecs) /\ Len(Vecs) = Cardinality(VectorSet) /\ {FlatKey(x) : x \in ToSet(Vecs)} = {Flat(v) : v \in VectorSet})

TraceInit ==
  /\ vec = CHOOSE v \in VectorSet : TRUE
  /\ l = 1 /\ cls = [x \in {} |-> 0]
  /\ nbad = IF Complete THEN 0 ELSE 1
  /\ Complete \/ PrintT(<<"LAWBROKEN", 0, "Binding", "trace-is-not-the-complete-vector-list">>)

TraceNext == l <= Len(Trace) /\ l' = l + 1 /\ TrVector
TraceSpec == TraceInit /\ [][TraceNext]_tvars

Coverage == (l = Len(Trace) + 1) => (PrintT(<<"COVERAGE", ToJsonObject(cls), Len(Trace), "SKIPPED", <<>>>>) /\ PrintT(<<"SUMMARY", "bad", nbad, "deviations", 0>>))

TraceAccepted ==
  LET d == TLCGet("stats").diameter IN
  IF d - 1 = Len(Trace) THEN TRUE
  ELSE Print(<<"TRACE NOT ACCEPTED: consumed", d - 1, "of", Len(Trace)>>, FALSE)
=============================================================================
