SPECIFICATION Spec
CONSTANTS
  MaxBlocks = 2
  MaxTxs = 2
  Kinds = {"ok", "failed", "refused"}
  BlockChoices <- McBlocks
  MaxLen <- McMaxLen
  Starts = {0, 1}
  MaxCrashes = 2
  Atomic = FALSE
  AllowReindex = FALSE
  Known = {}
INVARIANTS Converges
CHECK_DEADLOCK FALSE
