--------------------------- MODULE TraceErc20Cpc ---------------------------
(***************************************************************************)
(* C10, binding B3 (and B2): trace validation of histories recorded from   *)
(* the real application against Erc20Cpc.tla.                              *)
(*                                                                         *)
(* The harness (harness/cpc/erc20.go) runs a chain with two ERC-20         *)
(* precompiles (token "A" = native denomination, deployed by the genesis   *)
(* flag; token "B" = a second denomination, deployed through the real      *)
(* deployment message) and logs one line per step:                         *)
(*   Genesis   universe + projection of the initial state                  *)
(*   Call      one ERC-20 call issued as a real Ethereum transaction,      *)
(*             directly by an EOA or through a forwarding contract (CALL / *)
(*             DELEGATECALL): what was asked (token, method, effective     *)
(*             caller, arguments), what came back (admitted by the ante    *)
(*             handler, receipt status, return word, decoded receipt logs, *)
(*             fee numbers) and the projection after the block             *)
(*   BankSend  a native MsgSend of one of the two denominations            *)
(* The projection `obs` holds bank balances / supplies read from x/bank,   *)
(* the same through the balanceOf / totalSupply views (eth_call), the      *)
(* allowance table read through the allowance view of EACH token and       *)
(* through the keeper's getter (per token when the keeper has a            *)
(* contract-scoped getter; sparse: "owner>spender" -> value, absent = 0).  *)
(*                                                                         *)
(* Every step is deterministic: the expected outcome is computed with      *)
(* CallResult / SendResult of Erc20Cpc.tla from the model state and the    *)
(* logged arguments, and every logged observation must equal it.  Fees of  *)
(* the native denomination are environment steps whose amounts are read    *)
(* from the log (C05 judges them): payer -> "other" before the call, the   *)
(* refund back after it.  "other" lumps all accounts outside the universe. *)
(*                                                                         *)
(* Known findings are named deviations (DESIGN.md 2.7), enabled only when  *)
(* their id is in Known; a step that only a deviation explains is recorded *)
(* in `dev` and printed, so the runner can report the finding's signature. *)
(***************************************************************************)
EXTENDS Erc20Cpc, Json

CONSTANT Known

Trace == ndJsonDeserialize("trace.ndjson")

ToSet(s) == {s[i] : i \in DOMAIN s}
TraceTokens  == ToSet(Trace[1].tokens)
TraceHolders == ToSet(Trace[1].holders) \cup {"other"}
TraceCallers == ToSet(Trace[1].callers)
Projected == ToSet(Trace[1].holders)
Owners    == ToSet(Trace[1].owners)
Spenders  == ToSet(Trace[1].spenders)
FeeToken  == "A"

VARIABLES l, err, dev, cls
tvars == <<bal, supply, allow, n, last, logs, burnt, hist, l, err, dev, cls>>

OK == <<"ok", "">>
Ev == Trace[l]

Bump(f, k) == [x \in (DOMAIN f) \cup {k} |-> IF x = k THEN (IF k \in DOMAIN f THEN f[k] ELSE 0) + 1 ELSE f[x]]

(* sparse allowance object of the log: absent = 0 *)
AllowObs(m, o, s) == LET k == o \o ">" \o s IN IF k \in DOMAIN m THEN m[k] ELSE N(0)

(***************************************************************************)
(* D5 (finding): the code keys its allowance table by (owner, spender)     *)
(* only, so an approval given on one ERC-20 precompile is an approval on   *)
(* every other one, and spending it on any token decrements it for all.    *)
(* Exactly that and nothing more: the call is evaluated with one table     *)
(* shared by all tokens.                                                   *)
(***************************************************************************)
Dev_D5_AllowanceSharedAcrossTokens(S, e) == CallResult(S, e.token, e.method, e.caller, e.a1, e.a2, e.amt, TRUE)

Proper(S, e) == CallResult(S, e.token, e.method, e.caller, e.a1, e.a2, e.amt, FALSE)

(* the logged observation against the expected state X *)
ObsCheck(o, X) ==
  IF \E t \in TraceTokens, h \in Projected : o.bal[t][h] # X.bal[t][h]
    THEN LET p == CHOOSE p \in TraceTokens \X Projected : o.bal[p[1]][p[2]] # X.bal[p[1]][p[2]]
         IN <<"Bal", "bank-balance-differs-token-" \o p[1] \o "-holder-" \o p[2]>>
  ELSE IF \E t \in TraceTokens : o.supply[t] # X.supply[t]
    THEN <<"Supply", "bank-supply-differs-token-" \o (CHOOSE t \in TraceTokens : o.supply[t] # X.supply[t])>>
  ELSE IF \E t \in TraceTokens, ow \in Owners, s \in Spenders : AllowObs(o.allowV[t], ow, s) # X.allow[t][ow][s]
    THEN <<"Allow", "allowance-view-differs-token-" \o (CHOOSE t \in TraceTokens : \E ow \in Owners, s \in Spenders : AllowObs(o.allowV[t], ow, s) # X.allow[t][ow][s])>>
  ELSE IF \E t \in TraceTokens, h \in Projected : o.balV[t][h] # N(o.bal[t][h])
    THEN <<"ViewBal", "balanceOf-differs-from-bank">>
  ELSE IF \E t \in TraceTokens : o.supplyV[t] # N(o.supply[t])
    THEN <<"ViewSupply", "totalSupply-differs-from-bank">>
  ELSE IF \E t \in TraceTokens, ow \in Owners, s \in Spenders : AllowObs(o.allowK[t], ow, s) # AllowObs(o.allowV[t], ow, s)
    THEN <<"AllowStore", "keeper-table-differs-from-the-allowance-view">>
  ELSE IF o.strayAllow # 0 THEN <<"AllowStore", "entries-outside-the-universe">>
  ELSE OK

LogMatches(g, x) == g.addr = "tok" \o x.token /\ g.kind = x.kind /\ g.a = x.a /\ g.b = x.b /\ g.amt = x.amt

(* first broken law of a Call line given the expected result r and expected final state X *)
CallCheck(e, r, X) ==
  IF e.ok # r.ok THEN <<"Status", e.method \o (IF r.ok THEN "-failed-but-must-succeed" ELSE "-succeeded-but-must-fail")>>
  ELSE LET oc == ObsCheck(e.obs, X) IN
    IF oc # OK THEN oc
    ELSE IF Len(e.logs) > Len(r.logs) THEN <<"Logs", e.method \o "-extra-log">>
    ELSE IF Len(e.logs) < Len(r.logs) THEN <<"Logs", e.method \o "-missing-log">>
    ELSE IF \E i \in 1..Len(r.logs) : ~LogMatches(e.logs[i], r.logs[i]) THEN <<"Logs", e.method \o "-log-content">>
    ELSE IF e.ret # r.ret THEN <<"Ret", e.method \o "-return-data">>
    ELSE OK

Adopt(X) == bal' = X.bal /\ supply' = X.supply /\ allow' = X.allow

TrGenesis ==
  /\ Ev.ev = "Genesis"
  /\ LET o == Ev.obs IN
     /\ bal' = [t \in TraceTokens |-> [h \in TraceHolders |->
                  IF h = "other" THEN o.supply[t] - SumOver(o.bal[t], Projected) ELSE o.bal[t][h]]]
     /\ supply' = [t \in TraceTokens |-> o.supply[t]]
     /\ allow' = [t \in TraceTokens |-> [ow \in TraceHolders |-> [s \in TraceHolders |-> N(0)]]]
     /\ LET c == ObsCheck(o, [bal |-> bal', supply |-> supply', allow |-> allow']) IN
        IF c = OK THEN UNCHANGED err ELSE err' = <<l, c[1], c[2]>> /\ PrintT(<<"LAWBROKEN", l, c[1], c[2]>>)
  /\ n' = 0 /\ UNCHANGED <<last, logs, burnt, hist, dev>>
  /\ cls' = Bump(cls, "traces")

TrCall ==
  /\ Ev.ev = "Call"
  /\ LET e  == Ev
         S0 == St
         S1 == IF e.admitted THEN Move(S0, FeeToken, e.payer, "other", e.maxFee) ELSE S0
         rp == IF e.admitted THEN Proper(S1, e) ELSE Failed(S1)
         rd == IF e.admitted THEN Dev_D5_AllowanceSharedAcrossTokens(S1, e) ELSE Failed(S1)
         Xp == IF e.admitted THEN Move(rp.S, FeeToken, "other", e.payer, e.refund) ELSE S0
         Xd == IF e.admitted THEN Move(rd.S, FeeToken, "other", e.payer, e.refund) ELSE S0
         feeOk == ~e.admitted \/ (0 <= e.refund /\ e.refund <= e.maxFee /\ e.maxFee <= S0.bal[FeeToken][e.payer])
         cp == IF ~feeOk THEN <<"Fee", "fee-numbers-inconsistent">> ELSE CallCheck(e, rp, Xp)
         cd == IF ~feeOk THEN cp ELSE CallCheck(e, rd, Xd)
         outcome == IF ~e.admitted THEN "ante" ELSE IF e.ok THEN "ok" ELSE "fail"
     IN /\ IF cp = OK THEN Adopt(Xp) /\ UNCHANGED <<err, dev>>
           ELSE IF "D5" \in Known /\ cd = OK
             THEN Adopt(Xd) /\ dev' = dev \cup {"D5"} /\ UNCHANGED err
                  /\ PrintT(<<"DEVIATION", l, "D5", cp[1], cp[2]>>)
           ELSE LET c == IF "D5" \in Known /\ dev # {} THEN cd ELSE cp IN
                err' = <<l, c[1], c[2]>> /\ PrintT(<<"LAWBROKEN", l, c[1], c[2]>>) /\ UNCHANGED <<bal, supply, allow, dev>>
        /\ LET c1 == Bump(Bump(cls, e.method \o "." \o outcome), "via." \o e.via)
               (* vacuity counter: successful burns while the cpc module account (through which burns are routed) holds the token *)
               parked == "cpcmod" \in Projected /\ e.ok /\ e.method \in {"burn", "burnFrom"} /\ e.amt.t = "N" /\ e.amt.v > 0
                         /\ S0.bal[e.token]["cpcmod"] > 0
           IN cls' = IF parked THEN Bump(c1, "burn.ok.while-module-account-holds") ELSE c1
  /\ n' = n + 1 /\ UNCHANGED <<last, logs, burnt, hist>>

TrBankSend ==
  /\ Ev.ev = "BankSend"
  /\ LET e  == Ev
         S0 == St
         S1 == IF e.admitted THEN Move(S0, FeeToken, e.from, "other", e.fee) ELSE S0
         r  == IF e.admitted THEN SendResult(S1, e.token, e.from, e.to, e.amt) ELSE [ok |-> FALSE, S |-> S0]
         c  == IF e.admitted /\ e.fee > S0.bal[FeeToken][e.from] THEN <<"Fee", "fee-numbers-inconsistent">>
               ELSE IF e.ok # r.ok THEN <<"Status", IF r.ok THEN "banksend-failed-but-must-succeed" ELSE "banksend-succeeded-but-must-fail">>
               ELSE ObsCheck(e.obs, r.S)
     IN /\ IF c = OK THEN Adopt(r.S) /\ UNCHANGED err
           ELSE err' = <<l, c[1], c[2]>> /\ PrintT(<<"LAWBROKEN", l, c[1], c[2]>>) /\ UNCHANGED <<bal, supply, allow>>
        /\ cls' = Bump(cls, "banksend." \o (IF ~e.admitted THEN "ante" ELSE IF e.ok THEN "ok" ELSE "fail"))
  /\ n' = n + 1 /\ UNCHANGED <<last, logs, burnt, hist, dev>>

TraceInit ==
  /\ bal = [t \in TraceTokens |-> [h \in TraceHolders |-> 0]]
  /\ supply = [t \in TraceTokens |-> 0]
  /\ allow = [t \in TraceTokens |-> [o \in TraceHolders |-> [s \in TraceHolders |-> N(0)]]]
  /\ n = 0 /\ last = NoLast /\ logs = <<>> /\ burnt = [t \in TraceTokens |-> 0] /\ hist = <<>>
  /\ l = 1 /\ err = <<>> /\ dev = {} /\ cls = [x \in {} |-> 0]

TraceNext ==
  /\ l <= Len(Trace)
  /\ err = <<>>
  /\ l' = l + 1
  /\ (TrGenesis \/ TrCall \/ TrBankSend)

TraceSpec == TraceInit /\ [][TraceNext]_tvars

(* printed once, when the last line has been consumed *)
Coverage == (l = Len(Trace) + 1 /\ err = <<>>) => (PrintT(<<"COVERAGE", ToJsonObject(cls), Len(Trace), "SKIPPED", <<>>>>) /\ PrintT(<<"DEVUSED", dev>>))

TraceAccepted ==
  LET d == TLCGet("stats").diameter IN
  IF d - 1 = Len(Trace) THEN TRUE
  ELSE Print(<<"TRACE NOT ACCEPTED: consumed", d - 1, "of", Len(Trace)>>, FALSE)
=============================================================================
