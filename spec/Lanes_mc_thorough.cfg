SPECIFICATION Spec
CONSTANTS
  MaxD = 6
  PairD = 6
  PairLeaves <- ThoroughPairLeaves
  FeeVars = {"eq", "more", "less", "denom", "none"}
  GasVars = {"eq", "more", "less"}
  TripleElemSet <- ThoroughTripleElems
INVARIANTS
  Inv_WellFormed
  Inv_ExactlyOneLane
  Inv_EthOnlyIfClean
  Inv_NoRestrictedThroughCosmosLane
  Inv_DepthLimit
  Inv_ModeIndependence
  Inv_EvmOnlyInEthLane
POSTCONDITION Dump
CHECK_DEADLOCK FALSE
