SPECIFICATION Spec
CONSTANTS
  MaxD = 5
  PairD = 5
  PairLeaves <- ThoroughPairLeaves
  TripleElemSet <- ThoroughTripleElems
INVARIANTS
  Inv_WellFormed
  Inv_ExactlyOneLane
  Inv_EthOnlyIfClean
  Inv_NoRestrictedThroughCosmosLane
  Inv_DepthLimit
  Inv_ModeIndependence
  Inv_EvmOnlyInEthLane
POSTCONDITION Dump
CHECK_DEADLOCK FALSE
