SPECIFICATION Spec
CONSTANT MaxDepth = 3
CONSTANT Methods <- QuickMethods
CONSTANT SiblingPairs <- QuickPairs
INVARIANT Defined
INVARIANT Inhabited
POSTCONDITION WriteVectors
CHECK_DEADLOCK FALSE
