---------------------------- MODULE FeeMarket_mc ----------------------------
(***************************************************************************)
(* Exhaustive small-domain check of the base-fee recurrence (C09) with TLC:*)
(* every start fee 0..MaxB, every block fill 0..limit in every block of a  *)
(* history of MaxBlocks blocks, every max-gas setting of MaxGases          *)
(* (including -1 = unlimited, 0 and 1 where the gas target is zero) and    *)
(* every integer minimum gas price 0..MaxMinP.                             *)
(*                                                                         *)
(* Governance: a block's end-blockers may execute a passed x/feemarket     *)
(* MsgUpdateParams, which stores the proposal's parameters VERBATIM (new   *)
(* minimum gas price, and whatever base fee the proposal carries).  The    *)
(* application orders the fee market end-blocker last (EndOrder =          *)
(* "gov-then-fee", app/modules.go orderEndBlockers), so the floor and the  *)
(* EIP-1559 step are applied to the updated parameters within the same     *)
(* block and AtLeastMinAfterFirst survives parameter changes.  EndOrder =  *)
(* "fee-then-gov" is the named deviation: the next block starts with the   *)
(* proposal's raw base fee, below the new floor (FeeMarket_mc_dev_order).  *)
(***************************************************************************)
EXTENDS FeeMarket

CONSTANTS MaxB, MaxMinP, MaxGases, MaxBlocks, UnlimitedUsed, EndOrder, GovFull

VARIABLES b, maxGas, minP, h, used, gv
vars == <<b, maxGas, minP, h, used, gv>>

McMaxGases == {-1, 0, 1, 2, 3, 8, 12}
McMaxGasesThorough == {-1, 0, 1, 2, 3, 4, 7, 8, 12, 20}

Fill(mg) == IF mg = -1 THEN 0..UnlimitedUsed ELSE 0..mg

Init == b \in 0..MaxB /\ maxGas \in MaxGases /\ minP \in 0..MaxMinP /\ h = 0 /\ used = 0 /\ gv = FALSE

(* the fee market end-blocker on stored parameters (bb, mp) *)
FeeEnd(bb, u, mp) == IF Defined(u, maxGas) THEN Next(bb, u, maxGas, mp) ELSE FMax(bb, mp)   \* where the formula is undefined: keep the fee

(* what a passed proposal may carry: any minimum gas price, and a base fee copied from some earlier query *)
GovB == {0, 1, MaxB \div 2}
Proposals == {[on |-> FALSE, minP |-> 0, b |-> 0]} \cup
             (IF GovFull = "none" THEN {} ELSE
              {[on |-> TRUE, minP |-> m, b |-> nb] : m \in (IF GovFull = "full" THEN 0..MaxMinP ELSE {0, MaxMinP}),
                                                     nb \in (IF GovFull = "full" THEN GovB ELSE {0, MaxB \div 2})})

McNext ==
  /\ h < MaxBlocks
  /\ h' = h + 1
  /\ UNCHANGED maxGas
  /\ \E u \in Fill(maxGas), g \in Proposals :
       /\ used' = u
       /\ gv' = g.on
       /\ minP' = IF g.on THEN g.minP ELSE minP
       /\ b' = IF ~g.on THEN FeeEnd(b, u, minP)
               ELSE IF EndOrder = "gov-then-fee" THEN FeeEnd(g.b, u, g.minP)
               ELSE g.b                                  \* "fee-then-gov": the proposal overwrites what the fee market just stored

Spec == Init /\ [][McNext]_vars

T == maxGas \div 2

NonNeg == b >= 0
AtLeastMinAfterFirst == h > 0 => b >= minP
TotalLaw == [][\A u \in Fill(maxGas) : Defined(u, maxGas) \/ maxGas \div 2 = 0]_vars
UnchangedAtTarget == [][~gv' /\ maxGas >= 0 /\ used' = T /\ b >= minP => b' = b]_vars
UpAtLeastOne == [][~gv' /\ maxGas >= 2 /\ used' > T => b' >= b + 1]_vars
UpAtMostEighthPlusOne == [][~gv' /\ maxGas >= 2 /\ used' > T /\ used' <= 2 * T /\ b >= minP => b' <= b + FMax(b \div 8, 1)]_vars
DownBounded == [][~gv' /\ (maxGas = -1 \/ used' < T) /\ b >= minP => b' <= b /\ b' >= b - (b \div 8) /\ b' >= minP]_vars
(* the step is monotone in the block fill *)
Monotone == [][\A u1, u2 \in Fill(maxGas) : u1 <= u2 /\ Defined(u1, maxGas) /\ Defined(u2, maxGas) => Step(b, u1, maxGas) <= Step(b, u2, maxGas)]_vars
(* the implementation predicate accepts exactly the specified value where the formula is defined *)
NextOkExact == [][~gv' /\ Defined(used', maxGas) => NextOk(b, used', maxGas, minP, b') /\ ~NextOk(b, used', maxGas, minP, b' + 1)]_vars
(* a parameter change is followed, in the same block, by floor and step on the updated parameters *)
GovThenFee == [][gv' /\ Defined(used', maxGas) => b' >= minP' /\ \E nb \in GovB : NextOk(nb, used', maxGas, minP', b')]_vars
=============================================================================
