---------------------------- MODULE FeeMarket_mc ----------------------------
(***************************************************************************)
(* Exhaustive small-domain check of the base-fee recurrence (C09) with TLC:*)
(* every start fee 0..MaxB, every block fill 0..limit in every block of a  *)
(* history of MaxBlocks blocks, every max-gas setting of MaxGases          *)
(* (including -1 = unlimited, 0 and 1 where the gas target is zero) and    *)
(* every integer minimum gas price 0..MaxMinP.                             *)
(***************************************************************************)
EXTENDS FeeMarket

CONSTANTS MaxB, MaxMinP, MaxGases, MaxBlocks, UnlimitedUsed

VARIABLES b, maxGas, minP, h, used
vars == <<b, maxGas, minP, h, used>>

McMaxGases == {-1, 0, 1, 2, 3, 8, 12}
McMaxGasesThorough == {-1, 0, 1, 2, 3, 4, 7, 8, 12, 20}

Fill(mg) == IF mg = -1 THEN 0..UnlimitedUsed ELSE 0..mg

Init == b \in 0..MaxB /\ maxGas \in MaxGases /\ minP \in 0..MaxMinP /\ h = 0 /\ used = 0

McNext ==
  /\ h < MaxBlocks
  /\ h' = h + 1
  /\ UNCHANGED <<maxGas, minP>>
  /\ \E u \in Fill(maxGas) :
       /\ used' = u
       /\ b' = IF Defined(u, maxGas) THEN Next(b, u, maxGas, minP) ELSE FMax(b, minP)   \* where the formula is undefined: keep the fee

Spec == Init /\ [][McNext]_vars

T == maxGas \div 2

NonNeg == b >= 0
AtLeastMinAfterFirst == h > 0 => b >= minP
TotalLaw == [][\A u \in Fill(maxGas) : Defined(u, maxGas) \/ maxGas \div 2 = 0]_vars
UnchangedAtTarget == [][maxGas >= 0 /\ used' = T /\ b >= minP => b' = b]_vars
UpAtLeastOne == [][maxGas >= 2 /\ used' > T => b' >= b + 1]_vars
UpAtMostEighthPlusOne == [][maxGas >= 2 /\ used' > T /\ used' <= 2 * T /\ b >= minP => b' <= b + FMax(b \div 8, 1)]_vars
DownBounded == [][(maxGas = -1 \/ used' < T) /\ b >= minP => b' <= b /\ b' >= b - (b \div 8) /\ b' >= minP]_vars
(* the step is monotone in the block fill *)
Monotone == [][\A u1, u2 \in Fill(maxGas) : u1 <= u2 /\ Defined(u1, maxGas) /\ Defined(u2, maxGas) => Step(b, u1, maxGas) <= Step(b, u2, maxGas)]_vars
(* the implementation predicate accepts exactly the specified value where the formula is defined *)
NextOkExact == [][Defined(used', maxGas) => NextOk(b, used', maxGas, minP, b') /\ ~NextOk(b, used', maxGas, minP, b' + 1)]_vars
=============================================================================
