SPECIFICATION Spec
CONSTANT Senders <- McSenders
CONSTANT Gov = "gov"
CONSTANT Denoms <- McDenoms
CONSTANT BondDenom = "d1"
CONSTANT DynAddrs <- McDynAddrs
CONSTANT Names <- McNames
CONSTANT MaxVer = 2
CONSTANT MaxOps = 5
CONSTANT InitWL <- McInitWL
INVARIANT RegistryLaws
INVARIANT ExposureExact
PROPERTY TypeStable
PROPERTY VersionMonotone
PROPERTY OnlyWhitelisted
PROPERTY AcceptedOnlyIfAllowed
PROPERTY ParamsOnlyByGov
CHECK_DEADLOCK FALSE
