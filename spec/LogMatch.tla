------------------------------ MODULE LogMatch ------------------------------
(***************************************************************************)
(* The matching rule of FilterLogs and its implementation as reads         *)
(* (constant module shared by LogFilter.tla - the grid - and               *)
(* TraceLogFilter.tla - the judge of recorded executions).  See            *)
(* LogFilter.tla for the reading of the pinned code.                       *)
(* A filter is [addr: set of addresses, t: sequence of sets of hashes],    *)
(* a log is [a: address, t: sequence of hashes].                           *)
(***************************************************************************)
EXTENDS Integers, Sequences, FiniteSets

CONSTANT Dev       \* named deviation: trailing wildcards not counted by the guard, topic read hoisted

(* ------------------------------------------------------------------ the rule *)
AddrOk(f, l) == f.addr = {} \/ l.a \in f.addr

Matches(f, l) ==
  /\ AddrOk(f, l)
  /\ Len(f.t) <= Len(l.t)
  /\ \A i \in 1..Len(f.t) : f.t[i] = {} \/ l.t[i] \in f.t[i]

(* ------------------------------------------------------------------ the implementation as reads *)
Required(t) == IF \E i \in 1..Len(t) : t[i] # {} THEN CHOOSE i \in 1..Len(t) : t[i] # {} /\ \A j \in (i+1)..Len(t) : t[j] = {} ELSE 0

Guard(f, l) == IF Dev THEN Required(f.t) > Len(l.t) ELSE Len(f.t) > Len(l.t)
Reads(f)    == IF Dev THEN 1..Len(f.t) ELSE {i \in 1..Len(f.t) : f.t[i] # {}}

Impl(f, l) ==
  IF ~AddrOk(f, l) \/ Guard(f, l) THEN "nomatch"
  ELSE IF \E i \in Reads(f) : i > Len(l.t) THEN "crash"             \* index out of range
  ELSE IF \A i \in 1..Len(f.t) : f.t[i] = {} \/ l.t[i] \in f.t[i] THEN "match" ELSE "nomatch"

=============================================================================
