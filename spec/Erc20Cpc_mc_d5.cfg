SPECIFICATION Spec
CONSTANT Tokens = {"A", "B"}
CONSTANT Holders = {"h1", "h2", "h3", "Z", "M"}
CONSTANT Callers = {"h1", "h2", "h3"}
CONSTANT Zero = "Z"
CONSTANT SmallAmounts = {0, 1, 2}
CONSTANT InitBal = 2
CONSTANT MaxCalls = 2
CONSTANT Shared = TRUE
VIEW view
PROPERTY AllowanceFrame
CHECK_DEADLOCK FALSE
