SPECIFICATION Spec
CONSTANT Kinds <- McKinds
CONSTANT MaxDepth = 2
CONSTANT Pre = {"foreign"}
CONSTANT Bypass = TRUE
INVARIANT RoNeverWrites
INVARIANT StaticIsInert
INVARIANT RwHasGas
INVARIANT RoAreViews
INVARIANT ControlsWrite
INVARIANT Total
CHECK_DEADLOCK FALSE
