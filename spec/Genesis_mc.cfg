SPECIFICATION Spec
CONSTANT FullDomain = TRUE
INVARIANT TheoremObs
INVARIANT TheoremDoc
INVARIANT ImplLosses
INVARIANT ImplPlain
CHECK_DEADLOCK FALSE
