SPECIFICATION Spec
CONSTANTS
  MaxD = 4
  PairD = 3
  PairLeaves <- QuickPairLeaves
  FeeVars = {"eq", "more", "less"}
  GasVars = {"eq", "more", "less"}
  TripleElemSet <- QuickTripleElems
INVARIANTS
  Inv_WellFormed
  Inv_ExactlyOneLane
  Inv_EthOnlyIfClean
  Inv_NoRestrictedThroughCosmosLane
  Inv_DepthLimit
  Inv_ModeIndependence
  Inv_EvmOnlyInEthLane
POSTCONDITION Dump
CHECK_DEADLOCK FALSE
