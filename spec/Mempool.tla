------------------------------ MODULE Mempool ------------------------------
(***************************************************************************)
(* Mempool admission (CheckTx / ReCheckTx) of Ethereum transactions.       *)
(*                                                                         *)
(* The application keeps a volatile CHECK STATE next to the committed      *)
(* state: a branch of the last committed state that every accepted CheckTx *)
(* writes its admission effects to (fee moved to the fee collector, sender *)
(* sequence + 1), so that a second transaction of the same sender with the *)
(* next nonce is admissible before the first is in a block.  Commit throws *)
(* the check state away and starts it again from the new committed state;  *)
(* CometBFT then re-checks what is left in its mempool.                    *)
(*                                                                         *)
(* CheckStep(S, chk, t, o, nodeMin) - the same admission predicate as      *)
(* block execution (EthTx.tla: EthAnteReject, AnteWorld, CoreError), read  *)
(* against the check state, plus what only the mempool does:               *)
(*   - the node's own minimum gas price (node-local configuration; at the  *)
(*     first admission only, a re-check does not apply it again)           *)
(*   - a TRIAL EXECUTION of the transaction on a throw-away branch: a      *)
(*     consensus-level error or a panic of the engine refuses the          *)
(*     transaction; a VM error (revert, out of gas) does not; nothing the  *)
(*     trial writes survives.                                              *)
(* Laws (C05: "a transaction rejected at admission costs nothing and       *)
(* changes nothing"; C06: nonce = sequence at admission; C08: admission    *)
(* never touches committed state):                                         *)
(*   Verdict      accepted <=> the predicate                               *)
(*   Rejected     a refused transaction leaves the check state unchanged   *)
(*   Accepted     the check state changes by exactly the admission effects *)
(*   Reset        after a commit the check state is the committed state    *)
(***************************************************************************)
EXTENDS EthTx

CheckStep(S, chk, t, o, nodeMin) ==
  LET Sc == [S EXCEPT !.w = chk, !.blockGas = 0]
      rej == EthAnteReject(Sc, t) \/ EffPrice(t, S.baseFee) < nodeMin
      wA == AnteWorld(Sc, t)
      core == ~rej /\ CoreError(wA, t, o)
      run0 == IF rej \/ core THEN [cons |-> TRUE, st |-> "ok"] ELSE RunRoot(wA, t, o, S.now)
      (* no frame was observed although the model expects the trial to run: the real code refused earlier - a verdict question *)
      run == IF ~run0.cons /\ o.root.st = "notrun" THEN [cons |-> TRUE, st |-> "ok"] ELSE run0
      acc == ~rej /\ ~core /\ run.st # "panic"
  IN [accepted |-> acc,
      cons |-> run.cons,
      chk |-> IF acc THEN wA ELSE chk,
      why |-> IF rej THEN "admission" ELSE IF core THEN "consensus-error-in-trial" ELSE IF run.st = "panic" THEN "engine-panic-in-trial" ELSE "none"]
=============================================================================
