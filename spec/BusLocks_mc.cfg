\* lock order of the event bus as pinned: deadlock-free for all interleavings (quick size; _thorough: MaxOps = 3)
SPECIFICATION MCSpec
CONSTANTS
  NTopics = 2
  NSubs = 2
  Rounds = 2
  MaxOps = 2
  MaxMsgs = 1
  Deviations = {}
INVARIANTS LockInv NoBusDeadlock
CHECK_DEADLOCK TRUE
