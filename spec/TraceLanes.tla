----------------------------- MODULE TraceLanes -----------------------------
(***************************************************************************)
(* B1 binding of Lanes.tla: the harness built, for every vector the design *)
(* run wrote, a real transaction and ran it through the real application   *)
(* in the vector's mode; it recorded one line per vector:                  *)
(*   {"ev":"Vector","vec":id,"shape":{..},"got":{accepted, code, ethEvent, *)
(*     sigEvent, receipt, actions, observed, ..}}                          *)
(* and, after every delivered block,                                       *)
(*   {"ev":"Block","unproven":[..]}   accounts found at the addresses that *)
(*                                     have no ownership proof             *)
(* TLC judges every line: the verdict of the real ante handler against     *)
(* Verdict(shape), the observed lane markers against Lane(shape), and which*)
(* message handler ran.  A broken law does not stop the run: all are       *)
(* reported, one string "LAWBROKEN|line|group|detail" each.                *)
(***************************************************************************)
EXTENDS Lanes, Json

Trace == ndJsonDeserialize("trace.ndjson")

(* CheckIds: the trace must answer exactly the vectors the design run wrote (vectors.ndjson), line l = vector l,
   same shape, and the expectation written there must be what this module computes (exhaustive binding) *)
CONSTANT CheckIds
Vectors == IF CheckIds THEN ndJsonDeserialize("vectors.ndjson") ELSE <<>>

VARIABLES l, nerr, cls
tvars == <<l, nerr, cls>>

OK == <<"ok", "">>
Get(f, k, d) == IF k \in DOMAIN f THEN f[k] ELSE d
Bump(f, k) == [x \in DOMAIN f \cup {k} |-> IF x = k THEN Get(f, k, 0) + 1 ELSE f[x]]

Ev == Trace[l]

VectorCheck(e) ==
  LET s == e.shape  g == e.got IN
  IF ~WellFormed(s) THEN <<"Domain", "shape-outside-the-model">>
  ELSE IF CheckIds /\ (e.vec # l \/ e.vec \notin 1..Len(Vectors)) THEN <<"Domain", "vector-id-out-of-order">>
  ELSE IF CheckIds /\ (Vectors[e.vec].shape # s \/ Vectors[e.vec].expect # Expect(s)) THEN <<"Domain", "shape-or-expectation-differs-from-the-enumerated-vector">>
  ELSE
  LET v == Verdict(s)  lane == Lane(s) IN
  (* the verdict of the composed ante handler *)
  IF v = "reject" /\ g.accepted THEN <<"Isolation", "accepted-but-must-be-refused:" \o Reason(s)>>
  ELSE IF v = "accept" /\ ~g.accepted THEN <<"Acceptance", "refused-but-admissible:" \o lane>>
  (* the EVM message handler ran => Ethereum lane, admitted *)
  ELSE IF g.receipt /\ ~MayRunEvm(s) THEN <<"Isolation", "evm-handler-ran-outside-the-ethereum-lane">>
  ELSE IF g.receipt /\ ~g.accepted THEN <<"Isolation", "evm-handler-ran-for-a-refused-transaction">>
  (* a refused transaction leaves no events *)
  ELSE IF ~g.accepted /\ (g.ethEvent \/ g.sigEvent \/ g.receipt) THEN <<"Lane", "refused-but-events">>
  (* exactly one lane: the markers of exactly the lane the shape belongs to *)
  ELSE IF g.accepted /\ g.observed /\ lane = "eth" /\ ~(g.ethEvent /\ ~g.sigEvent) THEN <<"Lane", "ethereum-shape-without-exactly-the-ethereum-lane-markers">>
  ELSE IF g.accepted /\ g.observed /\ lane = "cosmos" /\ ~(g.sigEvent /\ ~g.ethEvent) THEN <<"Lane", "cosmos-shape-without-exactly-the-cosmos-lane-markers">>
  (* an admitted Ethereum transaction runs the EVM handler where messages are executed *)
  ELSE IF MustRunEvm(s) /\ g.accepted /\ g.code = 0 /\ ~g.receipt THEN <<"Lane", "ethereum-transaction-executed-without-evm-handler">>
  ELSE IF lane = "cosmos" /\ g.accepted /\ g.observed /\ g.code = 0 /\ Len(g.actions) # Len(s.msgs) THEN <<"Lane", "cosmos-transaction-executed-other-than-its-messages">>
  ELSE OK

BlockCheck(e) == IF Len(e.unproven) # 0 THEN <<"Isolation", "account-created-at-an-address-without-ownership-proof">> ELSE OK

ClassOf(e) == Lane(e.shape) \o "." \o Verdict(e.shape) \o "." \o (IF e.got.accepted THEN "accepted" ELSE "refused") \o "." \o e.shape.mode

TraceInit == l = 1 /\ nerr = 0 /\ cls = <<>>

TraceNext ==
  /\ l <= Len(Trace)
  /\ l' = l + 1
  /\ LET c == IF Ev.ev = "Vector" THEN VectorCheck(Ev) ELSE IF Ev.ev = "Block" THEN BlockCheck(Ev) ELSE <<"Domain", "unknown-event">>
     IN /\ nerr' = IF c = OK THEN nerr ELSE nerr + 1
        /\ IF c = OK THEN TRUE ELSE PrintT("LAWBROKEN|" \o ToString(l) \o "|" \o c[1] \o "|" \o c[2])
        /\ cls' = IF Ev.ev = "Vector" /\ c = OK /\ WellFormed(Ev.shape) THEN Bump(cls, ClassOf(Ev)) ELSE cls

TraceSpec == TraceInit /\ [][TraceNext]_tvars

(* printed once, as one string, when the last line has been consumed *)
Coverage == (l = Len(Trace) + 1) => PrintT("COVERAGE|" \o ToString(nerr) \o "|" \o ToJsonObject(cls))

NVectorLines == Cardinality({i \in 1..Len(Trace) : Trace[i].ev = "Vector"})

TraceAccepted ==
  LET d == TLCGet("stats").diameter IN
  IF CheckIds /\ NVectorLines # Len(Vectors) THEN Print(<<"TRACE DOES NOT ANSWER EVERY VECTOR", NVectorLines, Len(Vectors)>>, FALSE)
  ELSE IF d - 1 = Len(Trace) THEN TRUE
  ELSE Print(<<"TRACE NOT ACCEPTED: consumed", d - 1, "of", Len(Trace)>>, FALSE)
=============================================================================
