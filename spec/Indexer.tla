------------------------------ MODULE Indexer ------------------------------
(***************************************************************************)
(* Property C14: the Ethereum transaction index and the JSON-RPC views are *)
(* functions of the consensus results of the chain.                        *)
(*                                                                         *)
(* chain    sequence of blocks; chain[h] = [h, bh, baseFee, txs]; a tx is  *)
(*          the summary of one consensus result:                           *)
(*            eth       the tx is a single MsgEthereumTx                   *)
(*            code      0 | 1  (ExecTxResult.Code = 0 or not)              *)
(*            ethEvent  the result carries the `ethereum_tx` event, i.e.   *)
(*                      the tx passed admission (ante) and got an EVM tx   *)
(*                      index; its ante effects (fee, nonce) are committed *)
(*            rcpt      the `tx_receipt` event if present: status, gasUsed,*)
(*                      cum, txIdx, logs, contract, vmErr, effPrice        *)
(*            hash, from (declared sender), gas (limit), type, price, tip  *)
(* kv       the index database: byHash : hash -> [h, txIdx, ethIdx, failed]*)
(*                              byIdx  : <<h, ethIdx>> -> hash             *)
(* pending  writes of the open batch (memory of the indexing process)      *)
(* up       the indexing process is alive                                  *)
(*                                                                         *)
(* What the property fixes (and the code must implement):                  *)
(*  - a transaction of the block *in the Ethereum sense* is an admitted    *)
(*    one: Admitted(t).  A tx refused before or in ante changed nothing,   *)
(*    has no EVM tx index, no gas, and is not part of any view.            *)
(*  - its position (eth tx index) = number of admitted txs before it in    *)
(*    the block: the index consensus itself assigns (the `ethereum_tx`     *)
(*    event's txIndex, the receipt's TransactionIndex).                    *)
(*  - failed = result code # 0, or no receipt, or receipt with VM error.   *)
(*  - gas used of an admitted tx without receipt (failed outside the VM:   *)
(*    consensus error, handler panic, block gas exceeded) = its gas limit: *)
(*    that is what the sender was charged in ante and what consensus adds  *)
(*    to the cumulative gas of the following receipts.                     *)
(***************************************************************************)
EXTENDS Integers, Sequences, FiniteSets, TLC

CONSTANTS BlockChoices(_),\* design runs: the blocks consensus may commit at a height
          MaxLen,        \* design runs: longest chain explored
          Starts,        \* heights at which the service may be enabled (index empty)
          MaxCrashes,
          Atomic,        \* TRUE: one atomic batch per block (the real KVIndexer); FALSE: each write hits the database at once
          AllowReindex,  \* design runs: also re-index already indexed blocks in any order
          Known          \* names of the known deviations that are enabled (see Dev_* below); {} = the property

NoFn == [x \in {} |-> 0]
PutK(f, k, v) == [x \in (DOMAIN f) \cup {k} |-> IF x = k THEN v ELSE f[x]]
MaxOf(S) == CHOOSE x \in S : \A y \in S : y <= x

(***************************************************************************)
(* Consensus-derived facts about one block.                                *)
(***************************************************************************)
Admitted(t) == t.eth /\ (t.code = 0 \/ t.ethEvent)
Failed(t) == t.code # 0 \/ ~t.rcpt.present \/ t.rcpt.vmErr
GasOf(t) == IF t.rcpt.present THEN t.rcpt.gasUsed ELSE t.gas

(* 0-based Ethereum index of the tx at (1-based) position i *)
EthIdxOf(txs, i) == Cardinality({j \in 1..(i - 1) : Admitted(txs[j])})

RECURSIVE AdmFrom(_, _)
AdmFrom(txs, i) == IF i > Len(txs) THEN <<>>
                   ELSE (IF Admitted(txs[i]) THEN <<i>> ELSE <<>>) \o AdmFrom(txs, i + 1)
(* positions of the admitted txs, in block order *)
AdmPos(txs) == AdmFrom(txs, 1)

RECURSIVE CumAt(_, _)
(* cumulative gas after position i: every admitted tx up to i counts with GasOf *)
CumAt(txs, i) == IF i = 0 THEN 0
                 ELSE CumAt(txs, i - 1) + (IF Admitted(txs[i]) THEN GasOf(txs[i]) ELSE 0)

RECURSIVE LogsBefore(_, _)
(* number of logs of the receipts before position i *)
LogsBefore(txs, i) == IF i <= 1 THEN 0
                      ELSE LogsBefore(txs, i - 1) + (IF Admitted(txs[i - 1]) /\ txs[i - 1].rcpt.present THEN Len(txs[i - 1].rcpt.logs) ELSE 0)

(***************************************************************************)
(* Index(chain): the specified index.                                      *)
(***************************************************************************)
NoVal == [h |-> 0, txIdx |-> 0, ethIdx |-> 0, failed |-> FALSE]
HVal(h, txs, i) == [h |-> h, txIdx |-> i - 1, ethIdx |-> EthIdxOf(txs, i), failed |-> Failed(txs[i])]
HWrite(h, txs, i) == [fam |-> "H", hash |-> txs[i].hash, h |-> 0, i |-> 0, v |-> HVal(h, txs, i)]
IWrite(h, txs, i) == [fam |-> "I", hash |-> txs[i].hash, h |-> h, i |-> EthIdxOf(txs, i), v |-> NoVal]

RECURSIVE WritesOf(_, _, _)
WritesOf(h, txs, ps) == IF ps = <<>> THEN <<>>
                        ELSE <<HWrite(h, txs, Head(ps)), IWrite(h, txs, Head(ps))>> \o WritesOf(h, txs, Tail(ps))
(* the physical writes of block h, in the order the indexer issues them *)
BlockWrites(b) == WritesOf(b.h, b.txs, AdmPos(b.txs))

EmptyKv == [byHash |-> NoFn, byIdx |-> NoFn]
ApplyWrite(kv, w) == IF w.fam = "H" THEN [kv EXCEPT !.byHash = PutK(@, w.hash, w.v)]
                     ELSE IF w.fam = "I" THEN [kv EXCEPT !.byIdx = PutK(@, <<w.h, w.i>>, w.hash)]
                     ELSE kv
RECURSIVE ApplyWrites(_, _)
ApplyWrites(kv, ws) == IF ws = <<>> THEN kv ELSE ApplyWrites(ApplyWrite(kv, Head(ws)), Tail(ws))

RECURSIVE IndexSkip(_, _, _, _)
(* index of the blocks lo+1 .. hi, without the heights in skip *)
IndexSkip(ch, lo, hi, skip) ==
  IF hi <= lo THEN EmptyKv
  ELSE LET prev == IndexSkip(ch, lo, hi - 1, skip)
       IN IF hi \in skip THEN prev ELSE ApplyWrites(prev, BlockWrites(ch[hi]))
Index(ch, lo, hi) == IndexSkip(ch, lo, hi, {})

(* the resume rule reads the last block found in the (height, index) family *)
LastBlock(kv) == IF DOMAIN kv.byIdx = {} THEN -1 ELSE MaxOf({k[1] : k \in DOMAIN kv.byIdx})

(***************************************************************************)
(* RpcView: what the JSON-RPC views must report, from the chain alone.     *)
(***************************************************************************)
EffPriceOf(t, baseFee) == IF t.type = 2 THEN (IF t.tip + baseFee < t.price THEN t.tip + baseFee ELSE t.price) ELSE t.price

TxView(b, i) ==
  LET t == b.txs[i] IN
  [hash |-> t.hash, from |-> t.from, gas |-> t.gas, type |-> t.type, h |-> b.h, bh |-> b.bh, idx |-> EthIdxOf(b.txs, i)]

(* receipt view; `synthetic` tells that consensus produced no receipt and the view is derived *)
ReceiptView(b, i) ==
  LET t == b.txs[i] IN
  IF t.rcpt.present
    THEN [hash |-> t.hash, from |-> t.from, h |-> b.h, bh |-> b.bh, type |-> t.type, synthetic |-> FALSE,
          status |-> t.rcpt.status, gasUsed |-> t.rcpt.gasUsed, cum |-> t.rcpt.cum, idx |-> t.rcpt.txIdx,
          logs |-> t.rcpt.logs, contract |-> t.rcpt.contract, effPrice |-> t.rcpt.effPrice]
    ELSE [hash |-> t.hash, from |-> t.from, h |-> b.h, bh |-> b.bh, type |-> t.type, synthetic |-> TRUE,
          status |-> 0, gasUsed |-> t.gas, cum |-> CumAt(b.txs, i), idx |-> EthIdxOf(b.txs, i),
          logs |-> <<>>, contract |-> "none", effPrice |-> EffPriceOf(t, b.baseFee)]

RECURSIVE HashesAt(_, _)
HashesAt(b, ps) == IF ps = <<>> THEN <<>> ELSE <<b.txs[Head(ps)].hash>> \o HashesAt(b, Tail(ps))
RECURSIVE TxViewsAt(_, _)
TxViewsAt(b, ps) == IF ps = <<>> THEN <<>> ELSE <<TxView(b, Head(ps))>> \o TxViewsAt(b, Tail(ps))
RECURSIVE LogGroupsAt(_, _)
(* one group per receipt, in block order *)
LogGroupsAt(b, ps) == IF ps = <<>> THEN <<>>
                      ELSE (IF b.txs[Head(ps)].rcpt.present THEN <<b.txs[Head(ps)].rcpt.logs>> ELSE <<>>) \o LogGroupsAt(b, Tail(ps))

BlockTxHashes(b) == HashesAt(b, AdmPos(b.txs))
BlockTxViews(b) == TxViewsAt(b, AdmPos(b.txs))
BlockGasUsed(b) == CumAt(b.txs, Len(b.txs))
BlockTxCount(b) == Len(AdmPos(b.txs))
BlockLogGroups(b) == LogGroupsAt(b, AdmPos(b.txs))
RECURSIVE Flatten(_)
Flatten(ss) == IF ss = <<>> THEN <<>> ELSE Head(ss) \o Flatten(Tail(ss))
BlockLogs(b) == Flatten(BlockLogGroups(b))

(* consensus facts of a block are coherent with the positional rules (C13's business; here a precondition) *)
ConsensusCoherent(b) ==
  \A i \in 1..Len(b.txs) :
    LET t == b.txs[i] IN
    Admitted(t) =>
      /\ (t.ethEvent => t.evIdx = EthIdxOf(b.txs, i))
      /\ (t.rcpt.present =>
            /\ t.rcpt.txIdx = EthIdxOf(b.txs, i)
            /\ t.rcpt.cum = CumAt(b.txs, i)
            /\ \A k \in 1..Len(t.rcpt.logs) : t.rcpt.logs[k].li = LogsBefore(b.txs, i) + k - 1 /\ t.rcpt.logs[k].ti = t.rcpt.txIdx)

(* the views reached through the index (the lookups the backend performs) *)
ViaHashTx(kv, ch, x) ==
  IF x \in DOMAIN kv.byHash THEN LET r == kv.byHash[x] IN [found |-> TRUE, v |-> TxView(ch[r.h], r.txIdx + 1)]
  ELSE [found |-> FALSE, v |-> 0]
ViaIdxTx(kv, ch, h, i) ==
  IF <<h, i>> \in DOMAIN kv.byIdx THEN ViaHashTx(kv, ch, kv.byIdx[<<h, i>>]) ELSE [found |-> FALSE, v |-> 0]

(***************************************************************************)
(* The indexing service.                                                   *)
(***************************************************************************)
VARIABLES chain,    \* the committed blocks (grows: "for all chains" = every way consensus may extend it)
          start,    \* chain height when the service was enabled (-1: not yet); the index covers the blocks after it
          kv, pending, up, cur, pos, next, crashes, skipped
vars == <<chain, start, kv, pending, up, cur, pos, next, crashes, skipped>>
tip == Len(chain)

Init ==
  /\ chain = <<>> /\ start = -1
  /\ kv = EmptyKv /\ pending = <<>> /\ up = FALSE /\ cur = 0 /\ pos = 0
  /\ next = 0
  /\ crashes = 0 /\ skipped = {}

(* consensus commits the next block, whatever its transactions and their outcomes *)
Commit ==
  /\ Len(chain) < MaxLen
  /\ \E b \in BlockChoices(Len(chain) + 1) : chain' = Append(chain, b)
  /\ UNCHANGED <<start, kv, pending, up, cur, pos, next, crashes, skipped>>

(* the operator enables the indexing service for the first time (empty index): it covers the blocks from now on *)
Enable ==
  /\ start = -1 /\ Len(chain) \in Starts
  /\ start' = Len(chain) /\ up' = TRUE /\ next' = Len(chain) + 1
  /\ UNCHANGED <<chain, kv, pending, cur, pos, crashes, skipped>>

(* the service opens the batch of the next block *)
BeginBatch(h) ==
  /\ up /\ cur = 0 /\ h = next /\ h <= tip
  /\ cur' = h /\ pos' = 1 /\ pending' = <<>>
  /\ UNCHANGED <<chain, start, kv, up, next, crashes, skipped>>

(* out-of-order re-indexing of a block that has been indexed before (index-eth-tx command) *)
Reindex(h) ==
  /\ AllowReindex /\ up /\ cur = 0 /\ h \in (start + 1)..(next - 1) /\ h \notin skipped
  /\ cur' = h /\ pos' = 1 /\ pending' = <<>>
  /\ UNCHANGED <<chain, start, kv, up, next, crashes, skipped>>

(* one physical write: into the batch, or - were the indexer not batching - into the database *)
PhysWrite ==
  /\ up /\ cur # 0
  /\ LET ws == BlockWrites(chain[cur]) IN
       /\ pos <= Len(ws)
       /\ IF Atomic THEN pending' = Append(pending, ws[pos]) /\ kv' = kv
                    ELSE kv' = ApplyWrite(kv, ws[pos]) /\ pending' = pending
  /\ pos' = pos + 1
  /\ UNCHANGED <<chain, start, up, cur, next, crashes, skipped>>

(* the batch is written: all its operations reach the database atomically *)
Flush ==
  /\ up /\ cur # 0 /\ pos > Len(BlockWrites(chain[cur]))
  /\ kv' = ApplyWrites(kv, pending)
  /\ pending' = <<>> /\ cur' = 0 /\ pos' = 0
  /\ next' = IF cur + 1 > next THEN cur + 1 ELSE next
  /\ UNCHANGED <<chain, start, up, crashes, skipped>>

(* the process dies between any two physical writes: memory (the open batch) is lost, the database keeps what was flushed *)
Crash ==
  /\ up /\ crashes < MaxCrashes
  /\ up' = FALSE /\ pending' = <<>> /\ cur' = 0 /\ pos' = 0 /\ next' = 0
  /\ crashes' = crashes + 1
  /\ UNCHANGED <<chain, start, kv, skipped>>

(* restart: resume after the last block found in the index; an index without any block means: nothing
   of the blocks after `start` has been indexed yet *)
Restart ==
  /\ ~up /\ start # -1 /\ up' = TRUE
  /\ next' = (IF LastBlock(kv) = -1 THEN start ELSE LastBlock(kv)) + 1
  /\ UNCHANGED <<chain, start, kv, pending, cur, pos, crashes, skipped>>

(* Known deviation D21 (server/indexer_service.go OnStart): an empty index is taken for "index from the
   current chain height on", also on a restart: the blocks start+1 .. tip are never indexed. *)
DevD21 == "Converges/empty-index-restart-skips-to-latest"
Dev_D21_Restart ==
  /\ DevD21 \in Known
  /\ ~up /\ start # -1 /\ LastBlock(kv) = -1 /\ up' = TRUE
  /\ next' = tip + 1
  /\ skipped' = skipped \cup ((start + 1)..tip)
  /\ UNCHANGED <<chain, start, kv, pending, cur, pos, crashes>>

Next ==
  \/ Commit \/ Enable
  \/ \E h \in 1..Len(chain) : BeginBatch(h) \/ Reindex(h)
  \/ PhysWrite \/ Flush \/ Crash \/ Restart \/ Dev_D21_Restart

Progress == Commit \/ Enable \/ (\E h \in 1..Len(chain) : BeginBatch(h)) \/ PhysWrite \/ Flush \/ Restart

Spec == Init /\ [][Next]_vars /\ WF_vars(Progress)

(***************************************************************************)
(* Properties.                                                             *)
(***************************************************************************)
CaughtUp == up /\ cur = 0 /\ next > tip

(* after any crash schedule followed by catch-up the index is the function of the chain *)
Converges == CaughtUp => kv = IndexSkip(chain, start, tip, skipped)

(* the same without the allowance for known deviations: what an enabled deviation must violate *)
ConvergesStrict == CaughtUp => kv = Index(chain, start, tip)

(* ... and catch-up is always reached (crashes are finitely many) *)
EventuallyCaughtUp == <>[](start # -1 => CaughtUp)

(* by hash and by (height, index) agree with each other and with the real position *)
LookupAgree ==
  /\ \A x \in DOMAIN kv.byHash :
       LET r == kv.byHash[x] IN
       /\ r.h \in 1..Len(chain) /\ (r.txIdx + 1) \in 1..Len(chain[r.h].txs)
       /\ LET t == chain[r.h].txs[r.txIdx + 1] IN
            /\ t.hash = x /\ Admitted(t)
            /\ r.ethIdx = EthIdxOf(chain[r.h].txs, r.txIdx + 1)
            /\ r.failed = Failed(t)
       /\ (Atomic => <<r.h, r.ethIdx>> \in DOMAIN kv.byIdx /\ kv.byIdx[<<r.h, r.ethIdx>>] = x)
  /\ \A k \in DOMAIN kv.byIdx :
       (Atomic => kv.byIdx[k] \in DOMAIN kv.byHash /\ kv.byHash[kv.byIdx[k]].h = k[1] /\ kv.byHash[kv.byIdx[k]].ethIdx = k[2])

IndexedHeights == IF up THEN {h \in (start + 1)..(next - 1) : h \notin skipped} ELSE {}

(* once a block has been indexed every Ethereum transaction of it is found, by hash and by (block, index),
   and the views reached through the index are the views of the chain *)
Complete ==
  \A h \in IndexedHeights : \A i \in 1..Len(chain[h].txs) :
    LET t == chain[h].txs[i] IN
    Admitted(t) =>
      /\ ViaHashTx(kv, chain, t.hash) = [found |-> TRUE, v |-> TxView(chain[h], i)]
      /\ ViaIdxTx(kv, chain, h, EthIdxOf(chain[h].txs, i)) = [found |-> TRUE, v |-> TxView(chain[h], i)]

(* indexing a block again changes nothing *)
Idempotent == \A h \in IndexedHeights : (cur = 0 => ApplyWrites(kv, BlockWrites(chain[h])) = kv)

(* the positional rules agree with what consensus itself wrote into events and receipts *)
ChainsCoherent == \A h \in 1..Len(chain) : ConsensusCoherent(chain[h])
=============================================================================
