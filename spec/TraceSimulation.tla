-------------------------- MODULE TraceSimulation --------------------------
(***************************************************************************)
(* C08: trace validation of the real application.  Lines:                  *)
(*   SimGenesis  digest of every key-value pair of every mounted store,    *)
(*               last commit id (starts a trace)                           *)
(*   SimReq      one simulation / query request: kind, key (identity of    *)
(*               the request incl. the height it asks about), store digest *)
(*               and commit id before and after, digest of the answer      *)
(*   SimPredict  a predictable call answered at the tip (or a gas          *)
(*               estimate): what delivery must show                        *)
(*   SimBlock    a block: new digest and commit id; for the predicted call *)
(*               delivered FIRST in it: return data, logs, gas used, class *)
(* Laws (Simulation.tla): Frame - no request changes any store or the      *)
(* commit id, and nothing changes between requests either; Repeat - the    *)
(* same request about the same height gets the same answer, also after     *)
(* later blocks; Predict - delivery equals the prediction (return data,    *)
(* logs, class, and gas used for the same gas limit); Estimate - the       *)
(* estimate used as gas limit does not run out of gas.                     *)
(***************************************************************************)
EXTENDS Integers, Sequences, TLC, Json

Trace == ndJsonDeserialize("trace.ndjson")
CONSTANTS Focus, Known
AllGroups == {"Frame", "Repeat", "Predict", "Estimate", "Panic"}

VARIABLES l, digest, commit, seen, preds, err, cls, used
tvars == <<l, digest, commit, seen, preds, err, cls, used>>

Get(f, k, d) == IF k \in DOMAIN f THEN f[k] ELSE d
Put(f, k, v) == [x \in (DOMAIN f) \cup {k} |-> IF x = k THEN v ELSE f[x]]
EmptyFn == [x \in {} |-> 0]
Bump(f, k) == Put(f, k, Get(f, k, 0) + 1)
OK == <<"ok", "">>
Ev == Trace[l]

TraceInit == l = 1 /\ digest = "" /\ commit = "" /\ seen = EmptyFn /\ preds = EmptyFn /\ err = <<>> /\ cls = EmptyFn /\ used = {}

(* a law whose name is in Known is a recorded finding (named deviation): it is noted in `used` and the trace goes on *)
Settle(c) == IF c = OK \/ c[1] \notin Focus THEN UNCHANGED <<err, used>>
             ELSE IF (c[1] \o "/" \o c[2]) \in Known THEN used' = used \cup {c[1] \o "/" \o c[2]} /\ UNCHANGED err
             ELSE err' = <<l, c[1], c[2]>> /\ PrintT(<<"LAWBROKEN", l, c[1], c[2]>>) /\ UNCHANGED used

DoGenesis ==
  /\ Ev.ev = "SimGenesis"
  /\ digest' = Ev.digest /\ commit' = Ev.commit /\ seen' = EmptyFn /\ preds' = EmptyFn
  /\ cls' = Bump(cls, "histories") /\ UNCHANGED <<err, used>>

IsPanic(s) == Len(s) >= 5 /\ SubSeq(s, 1, 5) = "panic"

DoReq ==
  /\ Ev.ev = "SimReq"
  /\ LET c == IF IsPanic(Ev.status) THEN <<"Panic", "request-panicked-" \o Ev.kind>>
              ELSE IF Ev.pre # digest THEN <<"Frame", "stores-changed-between-requests-before-" \o Ev.kind>>
              ELSE IF Ev.post # Ev.pre THEN <<"Frame", "stores-changed-by-" \o Ev.kind>>
              ELSE IF Ev.commitPre # commit \/ Ev.commitPost # commit THEN <<"Frame", "commit-id-changed-by-" \o Ev.kind>>
              ELSE IF Ev.key \in DOMAIN seen /\ seen[Ev.key] # Ev.resp THEN <<"Repeat", "same-request-same-height-different-answer-" \o Ev.kind>>
              ELSE OK
     IN /\ Settle(c)
        /\ seen' = IF Ev.key \in DOMAIN seen THEN seen ELSE Put(seen, Ev.key, Ev.resp)
        /\ digest' = Ev.post
        /\ cls' = Bump(Bump(cls, "req." \o Ev.kind), IF Ev.key \in DOMAIN seen THEN "repeated" ELSE "first")
        /\ UNCHANGED <<commit, preds>>

DoPredict ==
  /\ Ev.ev = "SimPredict"
  /\ preds' = Put(preds, Ev.id, Ev)
  /\ cls' = Bump(cls, "predict." \o Ev.what)
  /\ UNCHANGED <<digest, commit, seen, err, used>>

Oog(c) == c = "vmerr:out of gas"

Discharge(d) ==
  IF d.id \notin DOMAIN preds THEN OK
  ELSE LET p == preds[d.id] IN
       IF p.what = "estimate" THEN
            (IF d.code # 0 /\ d.reason = "destroy-guard" THEN <<"Predict", "commit-destroy-guard-not-simulated">>
             ELSE IF d.code # 0 THEN <<"Estimate", "delivery-with-the-estimate-was-refused">>
             ELSE IF Oog(d.class) THEN <<"Estimate", "ran-out-of-gas-with-the-estimate">> ELSE OK)
       (* Dev_D24: eth_call does not run the StateDB commit pass, so the destroy guard (C15) that makes the delivered
          transaction fail as a whole is not simulated *)
       ELSE IF d.code # 0 /\ d.reason = "destroy-guard" THEN <<"Predict", "commit-destroy-guard-not-simulated">>
       ELSE IF d.code # 0 THEN <<"Predict", "predicted-call-was-refused-at-delivery">>
       ELSE IF d.class # p.result.class THEN <<"Predict", "outcome-class">>
       ELSE IF d.ret # p.result.ret THEN <<"Predict", "return-data">>
       ELSE IF d.logs # p.result.logs THEN <<"Predict", "logs">>
       ELSE IF d.gas = p.gas /\ d.gasUsed # p.result.gasUsed THEN <<"Predict", "gas-used">>
       ELSE OK

DoBlock ==
  /\ Ev.ev = "SimBlock"
  /\ LET bad == {i \in 1..Len(Ev.delivered) : Discharge(Ev.delivered[i]) # OK}
         c == IF Ev.panic THEN <<"Panic", "block-panicked">>
              ELSE IF bad = {} THEN OK ELSE Discharge(Ev.delivered[CHOOSE i \in bad : TRUE])
     IN /\ Settle(c)
        /\ digest' = Ev.digest /\ commit' = Ev.commit
        /\ preds' = EmptyFn
        /\ cls' = Bump(cls, IF Len(Ev.delivered) > 0 THEN "blocks-discharging" ELSE "blocks")
        /\ UNCHANGED seen

TraceNext == l <= Len(Trace) /\ err = <<>> /\ l' = l + 1 /\ (DoGenesis \/ DoReq \/ DoPredict \/ DoBlock)
TraceSpec == TraceInit /\ [][TraceNext]_tvars
Coverage == (l = Len(Trace) + 1 /\ err = <<>>) => PrintT(<<"COVERAGE", ToJsonObject(cls), 0, "SKIPPED", <<>>>>) /\ PrintT(<<"DEVIATIONS", used>>)
TraceAccepted ==
  LET d == TLCGet("stats").diameter IN
  IF d - 1 = Len(Trace) THEN TRUE ELSE Print(<<"TRACE NOT ACCEPTED: consumed", d - 1, "of", Len(Trace)>>, FALSE)
=============================================================================
