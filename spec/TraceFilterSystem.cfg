\* trace validation; constants are taken from the trace header by bin/checks_conc.py (judge)
SPECIFICATION TraceSpec
CONSTANTS
  NTopics = 2
  NClients = 3
  Rounds = 3
  MaxEvents = 100000
  MaxPolls = 100000
  MaxTicks = 0
  MaxFires = 0
  Api = FALSE
  Known = {"D11", "D12", "D25", "D26"}
  SpinTopics = {2}
  BufCap = 100000
  RespCap = 100000
  WithIndexer = FALSE
  MaxHeaders = 0
  TraceMode = TRUE
  Foreign = FALSE
INVARIANTS NoLostTopic LockInv RealNoCrash Coverage
POSTCONDITION TraceAccepted
CHECK_DEADLOCK FALSE
