SPECIFICATION SpecMc
CONSTANT Programs <- NoPrograms
CONSTANT MaxOps = 4
CONSTANT MaxDepth = 2
CONSTANT Witness = TRUE
INVARIANT W_NoCommitPanic
INVARIANT W_NoCommitDelete
INVARIANT W_NoGuardPanic
INVARIANT W_NoLockPanic
INVARIANT W_NoDeepRevert
CHECK_DEADLOCK FALSE
