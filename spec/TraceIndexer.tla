---------------------------- MODULE TraceIndexer ----------------------------
(***************************************************************************)
(* Trace validation for property C14 against Indexer.tla.                  *)
(*                                                                         *)
(* The harness (harness/rpc) records real blocks and real FinalizeBlock    *)
(* results of a harness chain and then                                     *)
(*  (1) runs the real KVIndexer - through the real EVMIndexerService or by *)
(*      calling IndexBlock directly - over a database wrapper that logs    *)
(*      every physical operation and can kill the process before the n-th; *)
(*  (2) queries the real rpc/backend over the recorded chain.              *)
(* Lines:                                                                  *)
(*   Chain      consensus facts of every block (starts a new chain)        *)
(*   Sched      a new crash schedule: empty database, start height         *)
(*   Restart    the service (re)starts: LastIndexedBlock() it saw, chain tip*)
(*   Tip        the chain grows to tip while the service runs              *)
(*   IndexBlock the service hands block h to IndexBlock                    *)
(*   BeginBatch / PhysWrite(batched, w) / Flush    database operations     *)
(*   Crash      the process died (before the next operation)               *)
(*   Caught     the service reports it has caught up                       *)
(*   Kv         full dump of the surviving database                        *)
(*   Lookup     KVIndexer.GetByTxHash / GetByBlockAndIndex                 *)
(*   Compare    final dump equals the dump of the uninterrupted run        *)
(*   Rpc        one JSON-RPC backend query and its result                  *)
(* The model state follows the log with the batch semantics of Indexer.tla;*)
(* the laws compare what the code stored / answered with Index(chain) and  *)
(* RpcView(chain, q).  A line that breaks a law in Focus sets err and      *)
(* prints <<"LAWBROKEN", line, group, detail>>; outside Focus it is        *)
(* collected in `skipped` and the run goes on.                             *)
(***************************************************************************)
EXTENDS Indexer, Json

CONSTANT Focus

Trace == ndJsonDeserialize("trace.ndjson")

TrBlocks(h) == {}

VARIABLES l, M, err, seen, cnt, used
tvars == <<l, M, err, seen, cnt, used>>

OK == <<"ok", "">>

(* Known deviation D22 (rpc/backend/tx_info.go GetTransactionReceipt): the synthetic receipt of a tx that
   failed outside the VM adds the gas limit of every *refused* Ethereum tx in front of it to cumulativeGasUsed
   (when its own Ethereum index is > 0). *)
DevD22 == "RpcReceipt/synthetic-cumulativeGasUsed-counts-refused-txs"

(* Known deviation D23 (server/indexer_service.go OnStart): when the node has pruned blocks the index has not
   reached yet (last indexed block < earliest available block) the service continues *after* the earliest
   available block instead of *with* it: that block is never indexed. *)
DevD23 == "Converges/pruned-restart-skips-earliest-available-block"

M0 == [chain |-> <<>>, full |-> EmptyKv, kv |-> EmptyKv, pending |-> <<>>, up |-> FALSE, cur |-> 0, start |-> 0, tip |-> 0,
       skip |-> {}, pruned |-> {}, skip23 |-> {}, mode |-> "none", done |-> {}, curFlushed |-> FALSE, expect |-> EmptyKv, devSched |-> FALSE, sched |-> "none", viewDev |-> FALSE]

(* the design module's own variables are not used here (the model state is the record M) *)
TraceInit == /\ l = 1 /\ M = M0 /\ err = <<>> /\ seen = <<>> /\ cnt = NoFn /\ used = {}
             /\ chain = <<>> /\ start = -1 /\ kv = EmptyKv /\ pending = <<>> /\ up = FALSE /\ cur = 0 /\ pos = 0
             /\ next = 0 /\ crashes = 0 /\ skipped = {}

Ev == Trace[l]
Bump(f, k) == PutK(f, k, (IF k \in DOMAIN f THEN f[k] ELSE 0) + 1)

(* Settle(c, M1): c = first broken law of this line or OK; M1 = next model state *)
Settle(c, M1) ==
  IF c = OK THEN M' = M1 /\ UNCHANGED <<err, seen>>
  ELSE IF c[1] \in Focus THEN err' = <<l, c[1], c[2]>> /\ PrintT(<<"LAWBROKEN", l, c[1], c[2]>>) /\ UNCHANGED <<M, seen>>
  ELSE M' = M1 /\ seen' = (IF Len(seen) < 40 THEN Append(seen, <<l, c[1], c[2]>>) ELSE seen) /\ UNCHANGED err

RECURSIVE FirstBad(_)
(* first element of a sequence of <<condition-that-must-hold, <<group, detail>>>> whose condition is false *)
FirstBad(cs) == IF cs = <<>> THEN OK ELSE IF ~Head(cs)[1] THEN Head(cs)[2] ELSE FirstBad(Tail(cs))

(* prefer a broken law in Focus; else the first broken one *)
RECURSIVE AllBad(_)
AllBad(cs) == IF cs = <<>> THEN <<>> ELSE (IF ~Head(cs)[1] THEN <<Head(cs)[2]>> ELSE <<>>) \o AllBad(Tail(cs))
Pick(cs) ==
  LET bad == AllBad(cs) IN
  IF bad = <<>> THEN OK
  ELSE IF \E i \in 1..Len(bad) : bad[i][1] \in Focus
         THEN bad[CHOOSE i \in 1..Len(bad) : bad[i][1] \in Focus /\ \A k \in 1..(i - 1) : bad[k][1] \notin Focus]
         ELSE bad[1]

(***************************************************************************)
(* database dumps                                                          *)
(***************************************************************************)
RECURSIVE KvOfDump(_)
KvOfDump(d) == IF d = <<>> THEN EmptyKv ELSE ApplyWrite(KvOfDump(Tail(d)), Head(d))
HasForeign(d) == \E i \in 1..Len(d) : d[i].fam \notin {"H", "I"}

(***************************************************************************)
(* chain / schedule lines                                                  *)
(***************************************************************************)
DoChain ==
  /\ Ev.ev = "Chain"
  /\ LET ch == Ev.blocks
         c == IF \A h \in 1..Len(ch) : ch[h].h = h /\ ConsensusCoherent(ch[h]) THEN OK
              ELSE <<"Consensus", "events-and-receipts-disagree-with-positions">>
     IN Settle(c, [M0 EXCEPT !.chain = ch, !.full = Index(ch, 0, Len(ch))])
  /\ cnt' = Bump(cnt, "chains")
  /\ UNCHANGED used

DoSched ==
  /\ Ev.ev = "Sched"
  /\ M' = [M0 EXCEPT !.chain = M.chain, !.full = M.full, !.start = Ev.start, !.tip = Ev.start, !.mode = Ev.mode, !.sched = Ev.id]
  /\ cnt' = Bump(cnt, "sched." \o Ev.mode)
  /\ UNCHANGED <<err, seen, used>>

DoRestart ==
  /\ Ev.ev = "Restart"
  /\ LET last == LastBlock(M.kv)
         c == IF Ev.last # last THEN <<"ResumeExact", "LastIndexedBlock-differs-from-last-block-in-index">> ELSE OK
         (* what D21 does: an empty index on a restart = start from the current tip *)
         sk == IF Ev.run > 0 /\ last = -1 /\ M.mode = "service" THEN M.skip \cup ((M.start + 1)..Ev.tip) ELSE M.skip
         (* blocks the node has pruned before the index reached them cannot be indexed (legitimately missing);
            the earliest available one can - D23 skips it *)
         gap == M.mode = "service" /\ last # -1 /\ last < Ev.earliest
         pr == IF gap THEN M.pruned \cup ((last + 1)..(Ev.earliest - 1)) ELSE M.pruned
         s23 == IF gap THEN M.skip23 \cup {Ev.earliest} ELSE M.skip23
     IN Settle(c, [M EXCEPT !.up = TRUE, !.tip = Ev.tip, !.skip = sk, !.pruned = pr, !.skip23 = s23, !.pending = <<>>, !.cur = 0])
  /\ UNCHANGED <<cnt, used>>

DoTip ==
  /\ Ev.ev = "Tip"
  /\ M' = [M EXCEPT !.tip = Ev.tip]
  /\ UNCHANGED <<err, seen, cnt, used>>

(* a block counts as indexed (for Idempotent) once the IndexBlock call that flushed it is over - an indexer may flush
   several times per block; whether that is safe is decided by Converges on the crash schedules *)
Finished(m) == IF m.cur # 0 /\ m.curFlushed THEN m.done \cup {m.cur} ELSE m.done

DoIndexBlock ==
  /\ Ev.ev = "IndexBlock"
  /\ M' = [M EXCEPT !.cur = Ev.h, !.done = Finished(M), !.curFlushed = FALSE]
  /\ UNCHANGED <<err, seen, cnt, used>>

DoBeginBatch ==
  /\ Ev.ev = "BeginBatch"
  /\ M' = [M EXCEPT !.pending = <<>>]
  /\ UNCHANGED <<err, seen, cnt, used>>

DoPhysWrite ==
  /\ Ev.ev = "PhysWrite"
  /\ M' = IF Ev.batched THEN [M EXCEPT !.pending = Append(@, Ev.w)] ELSE [M EXCEPT !.kv = ApplyWrite(@, Ev.w)]
  /\ cnt' = Bump(cnt, IF Ev.batched THEN "write.batched" ELSE "write.direct")
  /\ UNCHANGED <<err, seen, used>>

(* the batch reaches the database atomically; re-indexing an indexed block must change nothing *)
DoFlush ==
  /\ Ev.ev = "Flush"
  /\ LET kv1 == ApplyWrites(M.kv, M.pending)
         c == IF M.cur \in M.done /\ kv1 # M.kv THEN <<"Idempotent", "re-indexing-a-block-changed-the-index">> ELSE OK
     IN Settle(c, [M EXCEPT !.kv = kv1, !.pending = <<>>, !.curFlushed = TRUE])
  /\ cnt' = Bump(cnt, IF M.cur \in M.done THEN "flush.again" ELSE "flush.first")
  /\ UNCHANGED used

DoCrash ==
  /\ Ev.ev = "Crash"
  /\ M' = [M EXCEPT !.pending = <<>>, !.up = FALSE, !.cur = 0, !.curFlushed = FALSE]
  /\ cnt' = Bump(cnt, IF M.pending # <<>> THEN "crash.open-batch" ELSE "crash.no-open-writes")
  /\ UNCHANGED <<err, seen, used>>

DoCaught ==
  /\ Ev.ev = "Caught"
  /\ M' = [M EXCEPT !.tip = Ev.tip, !.done = Finished(M), !.cur = 0, !.curFlushed = FALSE]
  /\ UNCHANGED <<err, seen, cnt, used>>

(* a dump binds the model's database to the real one; at catch-up it must be Index(chain) *)
DoKv ==
  /\ Ev.ev = "Kv"
  /\ LET d == KvOfDump(Ev.dump)
         want == IndexSkip(M.chain, M.start, M.tip, M.pruned)
         w21 == IndexSkip(M.chain, M.start, M.tip, M.pruned \cup M.skip)
         w23 == IndexSkip(M.chain, M.start, M.tip, M.pruned \cup M.skip23)
         wantDev == IndexSkip(M.chain, M.start, M.tip, M.pruned \cup (IF DevD21 \in Known THEN M.skip ELSE {}) \cup (IF DevD23 \in Known THEN M.skip23 ELSE {}))
         caught == Ev.when = "caught-up"
         devOk == caught /\ d # want /\ d = wantDev /\ ~HasForeign(Ev.dump)
         c == IF d # M.kv THEN <<"Binding", "database-dump-differs-from-the-model-database">>
              ELSE IF ~caught THEN OK
              ELSE IF HasForeign(Ev.dump) THEN <<"Converges", "index-holds-keys-that-are-no-function-of-the-chain">>
              ELSE IF d = want THEN OK
              ELSE IF devOk THEN OK
              ELSE IF d = w21 THEN <<"Converges", "empty-index-restart-skips-to-latest">>
              ELSE IF d = w23 THEN <<"Converges", "pruned-restart-skips-earliest-available-block">>
              ELSE <<"Converges", "index-after-catch-up-differs-from-Index(chain)">>
     IN /\ Settle(c, [M EXCEPT !.expect = IF devOk THEN wantDev ELSE want, !.devSched = devOk])
        /\ used' = IF devOk THEN used \cup (IF d # w23 \/ M.skip23 = {} THEN {DevD21} ELSE {}) \cup (IF d # w21 \/ M.skip = {} THEN {DevD23} ELSE {}) ELSE used
        /\ cnt' = IF caught THEN Bump(cnt, IF M.mode = "service" THEN (IF M.skip # {} \/ M.done # {} THEN "caught.service" ELSE "caught.service-empty") ELSE "caught.direct") ELSE cnt

(* KVIndexer.GetByTxHash / GetByBlockAndIndex are functions of the index contents alone (M.kv, bound to the real
   database by every dump; at catch-up M.kv = Index(chain)): whichever instance answers - the one that indexed, a fresh
   one after a restart before it indexes anything, one that never indexes - every tx in the index is found both ways
   with the same record, the record is the tx's real position in the chain, and nothing else is found. *)
RealRecord(x, r) ==
  /\ r.h \in 1..Len(M.chain) /\ (r.txIdx + 1) \in 1..Len(M.chain[r.h].txs)
  /\ LET t == M.chain[r.h].txs[r.txIdx + 1] IN
       t.hash = x /\ Admitted(t) /\ r.ethIdx = EthIdxOf(M.chain[r.h].txs, r.txIdx + 1) /\ r.failed = Failed(t)

DoLookup ==
  /\ Ev.ev = "Lookup"
  /\ LET E == M.kv
         c == IF Ev.by = "hash" THEN
                LET has == Ev.hash \in DOMAIN E.byHash IN
                IF has /\ ~Ev.res.found THEN <<"LookupAgree", "indexed-tx-not-found-by-hash">>
                ELSE IF ~has /\ Ev.res.found THEN <<"LookupAgree", "by-hash-finds-a-tx-that-is-not-in-the-index">>
                ELSE IF has /\ Ev.res.r # E.byHash[Ev.hash] THEN <<"LookupAgree", "by-hash-record-differs-from-index">>
                ELSE IF has /\ ~RealRecord(Ev.hash, Ev.res.r) THEN <<"LookupAgree", "by-hash-record-differs-from-real-position">>
                ELSE OK
              ELSE
                LET k == <<Ev.h, Ev.i>>
                    has == k \in DOMAIN E.byIdx /\ E.byIdx[k] \in DOMAIN E.byHash
                IN IF has /\ ~Ev.res.found THEN <<"LookupAgree", "indexed-tx-not-found-by-block-and-index">>
                   ELSE IF ~has /\ Ev.res.found THEN <<"LookupAgree", "by-block-and-index-finds-a-tx-that-is-not-in-the-index">>
                   ELSE IF has /\ (Ev.res.r # E.byHash[E.byIdx[k]] \/ Ev.hash # E.byIdx[k]) THEN <<"LookupAgree", "by-block-and-index-differs-from-by-hash">>
                   ELSE IF has /\ (Ev.res.r.h # Ev.h \/ Ev.res.r.ethIdx # Ev.i) THEN <<"LookupAgree", "by-block-and-index-record-is-at-another-position">>
                   ELSE OK
     IN Settle(c, M)
  /\ cnt' = Bump(cnt, "lookup." \o Ev.when \o "." \o Ev.by)
  /\ UNCHANGED used

DoCompare ==
  /\ Ev.ev = "Compare"
  /\ LET c == IF Ev.sameAsUninterrupted \/ M.devSched THEN OK ELSE <<"Converges", "final-index-differs-from-uninterrupted-run">>
     IN Settle(c, M)
  /\ cnt' = Bump(Bump(cnt, "schedules"), IF M.devSched THEN "schedules.dev" ELSE "schedules.clean")
  /\ UNCHANGED used

(***************************************************************************)
(* JSON-RPC views                                                          *)
(***************************************************************************)
N == Len(M.chain)
Blk(h) == M.chain[h]
ValidH(h) == h \in 1..N

TxEq(got, want) ==
  <<  <<got.hash = want.hash, <<"RpcTx", "hash">>>>,
      <<got.from = want.from, <<"RpcTx", "sender">>>>,
      <<got.h = want.h, <<"RpcTx", "blockNumber">>>>,
      <<got.idx = want.idx, <<"RpcTx", "transactionIndex">>>>,
      <<got.bh = want.bh, <<"RpcTx", "blockHash">>>>,
      <<got.gas = want.gas, <<"RpcTx", "gas">>>>,
      <<got.type = want.type, <<"RpcTx", "type">>>> >>

LogEq(g, w) == g.addr = w.addr /\ g.n = w.n /\ g.li = w.li /\ g.ti = w.ti /\ g.h = w.h /\ g.th = w.th
LogsEq(gs, ws) == Len(gs) = Len(ws) /\ \A i \in 1..Len(ws) : LogEq(gs[i], ws[i])
GroupsEq(gs, ws) == Len(gs) = Len(ws) /\ \A i \in 1..Len(ws) : LogsEq(gs[i], ws[i])

(* gas limits of the refused Ethereum txs in front of position i (what D22 adds) *)
RECURSIVE RefusedGasBefore(_, _)
RefusedGasBefore(txs, i) == IF i <= 1 THEN 0
                            ELSE RefusedGasBefore(txs, i - 1) + (IF txs[i - 1].eth /\ ~Admitted(txs[i - 1]) THEN txs[i - 1].gas ELSE 0)

RcptEq(got, want, b, i) ==
  LET d22 == want.synthetic /\ want.idx > 0 /\ got.cum # want.cum /\ got.cum = want.cum + RefusedGasBefore(b.txs, i) IN
  <<  <<got.hash = want.hash, <<"RpcReceipt", "transactionHash">>>>,
      <<got.from = want.from, <<"RpcReceipt", "sender">>>>,
      <<got.status = want.status, <<"RpcReceipt", "status">>>>,
      <<got.gasUsed = want.gasUsed, <<"RpcReceipt", "gasUsed">>>>,
      <<got.cum = want.cum \/ (d22 /\ DevD22 \in Known),
            IF d22 THEN <<"RpcReceipt", "synthetic-cumulativeGasUsed-counts-refused-txs">> ELSE <<"RpcReceipt", "cumulativeGasUsed">>>>,
      <<got.idx = want.idx, <<"RpcReceipt", "transactionIndex">>>>,
      <<got.h = want.h, <<"RpcReceipt", "blockNumber">>>>,
      <<got.bh = want.bh, <<"RpcReceipt", "blockHash">>>>,
      <<got.contract = want.contract, <<"RpcReceipt", "contractAddress">>>>,
      <<LogsEq(got.logs, want.logs), <<"RpcReceipt", "logs">>>>,
      <<\A k \in 1..Len(got.logs) : got.logs[k].bh = want.bh, <<"LogBlockHash", "receipt-log-blockHash">>>>,
      <<got.type = want.type, <<"RpcReceipt", "type">>>>,
      <<got.bloomOk, <<"Bloom", "receipt-bloom-is-not-the-bloom-of-its-logs">>>>,
      <<want.synthetic \/ got.effPrice = want.effPrice, <<"EffPrice", "effectiveGasPrice-differs-from-consensus-receipt">>>>,
      <<~want.synthetic \/ got.effPrice = want.effPrice, <<"EffPriceSynthetic", "effectiveGasPrice-of-synthetic-receipt-differs-from-price-charged">>>> >>

RcptUsesD22(got, want, b, i) ==
  want.synthetic /\ want.idx > 0 /\ got.cum # want.cum /\ got.cum = want.cum + RefusedGasBefore(b.txs, i) /\ DevD22 \in Known

(* result kinds *)
IsVal(r) == r.k = "val"
Absent(r) == r.k \in {"null", "err"}

(* expectation for a key that denotes nothing: null or an error, never data *)
WantNothing(r, what) ==
  IF r.k = "val" THEN <<"RpcUnknown", what \o "-returned-data-for-a-key-that-denotes-nothing">>
  ELSE IF r.k = "panic" THEN <<"UnknownKeyPanic", what \o "-panics-on-unknown-key">>
  ELSE OK

(* a key that denotes something: data required when the block is indexed; on the fallback paths (empty index)
   null/err are tolerated, wrong data is not *)
NeedVal(r, what) ==
  IF r.k = "val" THEN OK
  ELSE IF ~Ev.indexed /\ r.k \in {"null", "err"} THEN OK
  ELSE <<"RpcError", what \o "-answers-" \o r.k \o "-for-an-indexed-key">>

RpcCheck ==
  LET r == Ev.res  m == Ev.m  E == M.full IN
  IF m \in {"txByHash", "receipt"} THEN
     IF Ev.hash \notin DOMAIN E.byHash THEN WantNothing(r, m)
     ELSE LET p == E.byHash[Ev.hash]  b == Blk(p.h)  i == p.txIdx + 1 IN
          IF ~IsVal(r) THEN NeedVal(r, m)
          ELSE IF m = "txByHash" THEN Pick(TxEq(r.v, TxView(b, i)))
          ELSE Pick(RcptEq(r.v, ReceiptView(b, i), b, i))
  ELSE IF m \in {"txByNumIdx", "txByHashIdx"} THEN
     IF ~ValidH(Ev.h) \/ Ev.i >= BlockTxCount(Blk(Ev.h)) THEN WantNothing(r, m)
     ELSE IF ~IsVal(r) THEN NeedVal(r, m)
     ELSE Pick(TxEq(r.v, TxView(Blk(Ev.h), AdmPos(Blk(Ev.h).txs)[Ev.i + 1])))
  ELSE IF m \in {"blockByNum", "blockByHash"} THEN
     IF ~ValidH(Ev.h) THEN WantNothing(r, m)
     ELSE IF ~IsVal(r) THEN NeedVal(r, m)
     ELSE LET b == Blk(Ev.h)  g == r.v IN
          Pick(<< <<g.h = b.h, <<"RpcBlock", "number">>>>,
                  <<g.bh = b.bh, <<"RpcBlock", "hash">>>>,
                  <<Len(g.txs) = BlockTxCount(b), <<"RpcBlock", "transaction-count">>>>,
                  <<Len(g.txs) # BlockTxCount(b) \/
                      (IF Ev.full THEN \A k \in 1..Len(g.txs) : Pick(TxEq(g.txs[k], BlockTxViews(b)[k])) = OK
                                  ELSE g.txs = BlockTxHashes(b)), <<"RpcBlock", "transactions">>>>,
                  <<g.gasUsed = BlockGasUsed(b), <<"RpcBlock", "gasUsed">>>> >>)
  ELSE IF m = "txCount" THEN
     IF ~ValidH(Ev.h) THEN WantNothing(r, m)
     ELSE IF ~IsVal(r) THEN NeedVal(r, m)
     ELSE IF r.v = BlockTxCount(Blk(Ev.h)) THEN OK ELSE <<"RpcBlock", "transaction-count">>
  ELSE IF m \in {"logsByHeight", "logsByBlockHash"} THEN
     IF ~ValidH(Ev.h) THEN WantNothing(r, m)
     ELSE IF ~IsVal(r) THEN NeedVal(r, m)
     ELSE IF GroupsEq(r.v, BlockLogGroups(Blk(Ev.h))) THEN OK ELSE <<"RpcLogs", m>>
  ELSE IF m = "filterBlock" THEN
     IF ~ValidH(Ev.h) THEN WantNothing(r, m)
     ELSE IF ~IsVal(r) THEN NeedVal(r, m)
     ELSE IF ~LogsEq(r.v, BlockLogs(Blk(Ev.h))) THEN <<"RpcLogs", "eth_getLogs-by-block-hash">>
     ELSE IF \E k \in 1..Len(r.v) : r.v[k].bh # Blk(Ev.h).bh THEN <<"LogBlockHash", "eth_getLogs-log-blockHash">>
     ELSE OK
  ELSE IF m = "filterRange" THEN
     IF ~IsVal(r) THEN NeedVal(r, m)
     ELSE LET RECURSIVE All(_)
              All(h) == IF h > N THEN <<>> ELSE BlockLogs(Blk(h)) \o All(h + 1)
          IN IF ~LogsEq(r.v, All(1)) THEN <<"RpcLogs", "eth_getLogs-range">>
             ELSE IF \E k \in 1..Len(r.v) : r.v[k].bh # Blk(r.v[k].h).bh THEN <<"LogBlockHash", "eth_getLogs-log-blockHash">>
             ELSE OK
  ELSE <<"Binding", "unknown-rpc-method">>

RpcUsesD22 ==
  /\ Ev.m = "receipt" /\ Ev.res.k = "val" /\ Ev.hash \in DOMAIN M.full.byHash
  /\ LET p == M.full.byHash[Ev.hash]  b == Blk(p.h)  i == p.txIdx + 1 IN RcptUsesD22(Ev.res.v, ReceiptView(b, i), b, i)

DoRpc ==
  /\ Ev.ev = "Rpc"
  /\ Settle(RpcCheck, [M EXCEPT !.viewDev = IF Ev.m = "filterRange" THEN FALSE ELSE (@ \/ RpcUsesD22)])
  /\ used' = IF RpcUsesD22 THEN used \cup {DevD22} ELSE used
  /\ LET c1 == Bump(cnt, "rpc." \o Ev.m \o (IF Ev.indexed THEN "" ELSE ".fallback") \o "." \o Ev.res.k)
     IN cnt' = IF Ev.m = "filterRange" THEN Bump(c1, IF M.viewDev THEN "views.dev" ELSE "views.clean") ELSE c1

TraceNext ==
  /\ l <= Len(Trace)
  /\ err = <<>>
  /\ l' = l + 1
  /\ UNCHANGED vars
  /\ (DoChain \/ DoSched \/ DoRestart \/ DoTip \/ DoIndexBlock \/ DoBeginBatch \/ DoPhysWrite \/ DoFlush \/ DoCrash
      \/ DoCaught \/ DoKv \/ DoLookup \/ DoCompare \/ DoRpc)

TraceSpec == TraceInit /\ [][TraceNext]_<<tvars, vars>>

(* printed once, when the last line has been consumed *)
Coverage == (l = Len(Trace) + 1 /\ err = <<>>) =>
              PrintT(<<"COVERAGE", ToJsonObject(cnt), Cardinality(used), "SKIPPED", seen>>) /\ PrintT(<<"DEVIATIONS", used>>)

TraceAccepted ==
  LET d == TLCGet("stats").diameter IN
  IF d - 1 = Len(Trace) THEN TRUE
  ELSE Print(<<"TRACE NOT ACCEPTED: consumed", d - 1, "of", Len(Trace)>>, FALSE)
=============================================================================
