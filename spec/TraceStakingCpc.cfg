SPECIFICATION TraceSpec
INVARIANT Coverage
POSTCONDITION TraceAccepted
CHECK_DEADLOCK FALSE
