-------------------------- MODULE FilterSystem_sim --------------------------
(***************************************************************************)
(* Schedule generation for the replayer (binding i): FilterSystem plus a   *)
(* history variable that records, per step, which goroutine moved from     *)
(* which label and the choices it made.  Used                              *)
(*  - in model-checking mode with VIEW vars (the history is invisible to   *)
(*    the state comparison) to obtain the counterexample schedule of a     *)
(*    named deviation as JSON, and                                         *)
(*  - in simulation mode to sample schedules that end in a quiescent state.*)
(***************************************************************************)
EXTENDS FilterSystem, Json

VARIABLE hist

ProcStep(p) ==
  CASE p = EL  -> eventLoop
    [] p = CE  -> consumeEvents
    [] p = SRC -> source
    [] p = TL  -> timeoutLoop
    [] p = IH  -> idxHeader
    [] p = IM  -> idxMain
    [] p = IQ  -> idxEnv
    [] p \in PTs -> publishTopic(p)
    [] p \in CLs -> client(p)
    [] p \in UNs -> unsub(p)
    [] p \in COs -> consumer(p)

Idle == [p |-> 0, l |-> "idle", to |-> "idle", f |-> 0, t |-> 0, obs |-> Observable]

Step(p) ==
  /\ ProcStep(p)
  /\ hist' = Append(hist, [p |-> p, l |-> pc[p], to |-> pc'[p], f |-> f',
                           t |-> IF p \in CLs THEN ct'[p] ELSE IF p = SRC /\ resp' # <<>> THEN resp'[Len(resp')] ELSE 0,
                           obs |-> 0])

SimInit == Init /\ hist = <<>>
SimNext == \/ \E p \in ProcSet : Step(p)
           \/ /\ Quiescent /\ (hist = <<>> \/ hist[Len(hist)].l # "idle")
              /\ hist' = Append(hist, Idle) /\ UNCHANGED vars
SimSpec == SimInit /\ [][SimNext]_<<vars, hist>>

View == vars

Sched == PrintT(<<"SCHED", ToJson(hist)>>)

(* the properties, printing the schedule that leads to the violation *)
CexNoCrash      == NoCrash \/ ~Sched
CexNoLostTopic  == NoLostTopic \/ ~Sched
CexLostD12      == (NoLostTopic \/ "D12" \notin devUsed) \/ ~Sched     \* lost through the stale publisher
CexLostD25      == (NoLostTopic \/ devUsed # {"D25"}) \/ ~Sched         \* lost through the join without install
CexNoLeak       == NoLeakedPublisher \/ ~Sched
CexAgreement    == TopicAgreement \/ ~Sched
(* a goroutine that spins: the consumer came back to its select after errCh was closed (D26) *)
NoSpin          == \A s \in Subs : ~(/\ errClosed[s] /\ s \in coSpawned /\ pc[CO(s)] = "co_sel" /\ "D26" \in devUsed
                                     /\ ~subCh[s].closed /\ topicChans[subTopic[s]] # 0       \* the topic lives on: nothing will end the spin
                                     /\ pc[EL] = "el_wait" /\ uninstallQ = {} /\ \A x \in Subs : unReq[x] = 0
                                     /\ \A c \in CLs : pc[c] = "Done")
CexNoSpin       == NoSpin \/ ~Sched
(* the indexer service's OnStart is stuck in its quit re-broadcast (D27) *)
NoStuckQuit     == ~(quit /\ quitBuf = 1 /\ ((pc[IM] = "im_q" /\ pc[IH] = "ih_done") \/ (pc[IH] = "ih_q" /\ pc[IM] = "im_done")))
CexNoStuckQuit  == NoStuckQuit \/ ~Sched

(* simulation: print every behaviour that reached quiescence *)
DumpQuiescent == (hist # <<>> /\ hist[Len(hist)].l = "idle") => Sched
=============================================================================
