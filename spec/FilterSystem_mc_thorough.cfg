\* thorough: 3 clients (3 channel generations), all interleavings
SPECIFICATION MCSpec
CONSTANTS
  NTopics = 1
  NClients = 3
  Rounds = 1
  MaxEvents = 1
  MaxPolls = 0
  MaxTicks = 0
  MaxFires = 0
  Api = FALSE
  Known = {}
  SpinTopics = {}
  BufCap = 1
  RespCap = 1
  WithIndexer = FALSE
  MaxHeaders = 0
  TraceMode = FALSE
  Foreign = FALSE
INVARIANTS NoCrash NoLostTopic LockInv NoLeakedPublisher TopicAgreement IndexerInv
CHECK_DEADLOCK TRUE
