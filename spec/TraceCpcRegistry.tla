------------------------- MODULE TraceCpcRegistry -------------------------
(***************************************************************************)
(* C17 binding: TLC judges operation trees / sequences executed against the *)
(* real application (harness/misc/cpcreg.go).  Lines:                      *)
(*   Genesis  flags, whitelist, candidate addresses, reference behaviour of*)
(*            the standard precompiles, registry projection, probes        *)
(*   Op       d = depth of the state the operation was applied to (the     *)
(*            lines of one genesis form a tree in DFS order; a linear      *)
(*            scenario has d = 0, 1, 2, ...), the operation, its result,   *)
(*            the registry projection afterwards, the probes afterwards    *)
(* The model keeps the stack of registries along the current tree path.    *)
(* For every line: accepted => the property's necessary conditions held    *)
(* in the parent state; the recorded registry = the specified effect (or   *)
(* the unchanged parent for a rejected operation); the state laws hold on  *)
(* the recorded registry; the three views (raw store, gRPC queries, keeper *)
(* iteration used by NewEVM) agree; and every probe of every candidate     *)
(* address in every execution mode shows exactly Exposure(registry, addr). *)
(***************************************************************************)
EXTENDS CpcRegistry, Json

Trace == ndJsonDeserialize("trace.ndjson")

TraceDynAddrs == [i \in 1..16 |-> "dyn" \o ToString(i - 1)]
KnownVer == 1     \* the pinned tree knows protocol version 1 only

VARIABLES l, stack, G, err, cls
tvars == <<l, stack, G, err, cls>>

OK == <<"ok", "">>
ToSet(s) == {s[i] : i \in 1..Len(s)}
Bump(f, k) == PutF(f, k, (IF k \in DOMAIN f THEN f[k] ELSE 0) + 1)
BumpN(f, k, n) == PutF(f, k, (IF k \in DOMAIN f THEN f[k] ELSE 0) + n)

Ev == Trace[l]

(* the design-level variables of CpcRegistry.tla are not used by the trace specification *)
DesignIdle == reg = 0 /\ supplyPos = 0 /\ known = 0 /\ last = 0 /\ nops = 0

TraceInit == DesignIdle /\ l = 1 /\ stack = <<>> /\ G = [none |-> TRUE] /\ err = <<>> /\ cls = EmptyF

(* the recorded registry as a model registry *)
RegOf(g) ==
  [meta |-> [a \in DOMAIN g.meta |-> MetaRec(g.meta[a].type, g.meta[a].denom, g.meta[a].name, g.meta[a].symbol, g.meta[a].decimals, g.meta[a].disabled)],
   idx |-> [d \in DOMAIN g.idx |-> g.idx[d]],
   nonce |-> g.nonce, wl |-> ToSet(g.wl), ver |-> g.ver]

Shape(R) == [meta |-> [a \in DOMAIN R.meta |-> <<R.meta[a].type, R.meta[a].denom, R.meta[a].disabled>>], idx |-> R.idx, nonce |-> R.nonce, wl |-> R.wl, ver |-> R.ver]

First(cs) == IF \E i \in 1..Len(cs) : cs[i] # OK THEN cs[CHOOSE i \in 1..Len(cs) : cs[i] # OK /\ \A k \in 1..(i - 1) : cs[k] = OK] ELSE OK
Law(cond, g, d) == IF cond THEN OK ELSE <<g, d>>

(* laws on one recorded projection, whatever produced it *)
ProjectionLaws(g) ==
  LET L == RegOf(g) IN
  First(<<
    Law(\A a \in DOMAIN g.meta : g.meta[a].keyOk, "Store", "record-address-differs-from-key"),
    Law(g.other = 0, "Store", "unknown-keys"),
    Law(KeysCoherent(L), "Inv", "unknown-type"),
    Law(OneErc20PerDenom(L), "Inv", "OneErc20PerDenom"),
    Law(IdxMatchesMeta(L), "Inv", "IdxMatchesMeta"),
    Law(FixedAddrTypes(L), "Inv", "type-vs-address-class"),
    Law(DynBelowNonce(L), "Inv", "UniqueAddr-next-dynamic-address-not-free"),
    Law(L.nonce = 0 \/ g.modAcc, "Inv", "module-account-missing"),
    Law(g.rawTok = g.qTok, "Views", "grpc-contracts-vs-store"),
    Law(g.rawTok = g.kTok, "Views", "keeper-iteration-vs-store"),
    Law(g.idxQ = g.idx, "Views", "grpc-by-denom-vs-index"),
    Law(g.wlQ = g.wl /\ g.verQ = g.ver, "Views", "grpc-params-vs-store")
  >>)

(* recorded registry vs the model's *)
StateDiff(L, R) ==
  First(<<
    Law(DOMAIN L.meta = DOMAIN R.meta, "Meta", "set-of-registered-addresses"),
    Law(\A a \in DOMAIN L.meta \cap DOMAIN R.meta : L.meta[a].type = R.meta[a].type, "Meta", "TypeStable-or-wrong-type"),
    Law(\A a \in DOMAIN L.meta \cap DOMAIN R.meta : L.meta[a].disabled = R.meta[a].disabled, "Meta", "disabled-flag"),
    Law(L.meta = R.meta, "Meta", "name-symbol-decimals-denom"),
    Law(L.idx = R.idx, "Idx", "denom-index"),
    Law(L.nonce = R.nonce, "Nonce", "module-account-sequence"),
    Law(L.wl = R.wl, "Params", "whitelist"),
    Law(L.ver = R.ver, "Params", "version")
  >>)

(***************************************************************************)
(* exposure (g = the Genesis line of the current trace: candidates, modes, *)
(* reference behaviour of the standard precompiles, bech32 prefix token)   *)
(***************************************************************************)
Status(g, L, a) == IF a \in DOMAIN L.meta THEN Exposure(L, a) ELSE IF a \in DOMAIN g.std THEN "std" ELSE "absent"

(* what the frame at address a must show for probe input i: <<class, detail>> *)
HExp(g, L, a, i) ==
  LET st == Status(g, L, a) IN
  IF st = "absent" THEN <<"empty", "">>
  ELSE IF st = "refused" THEN <<"fail", "disabled">>
  ELSE IF st = "std" THEN g.std[a][i]
  ELSE LET t == L.meta[a].type IN
       IF i = "in1" THEN (IF t \in {"erc20", "staking"} THEN <<"data", L.meta[a].name>> ELSE <<"fail", "revert">>)
       ELSE (IF t = "bech32" THEN <<"data", g.hrp>> ELSE <<"fail", "revert">>)

Str(h) == IF h[2] = "" THEN h[1] ELSE h[1] \o ":" \o h[2]
(* what the caller of the API sees *)
UExp(h, mode, via) ==
  IF mode = "check" THEN "admitted"
  ELSE IF mode = "estimate" THEN (IF via = "direct" /\ h[1] = "fail" THEN "fail" ELSE "ok")
  ELSE IF h[1] = "fail" THEN "fail" ELSE Str(h)
Cell(g, L, a, i, mode, via) == LET h == HExp(g, L, a, i) IN Str(h) \o "|" \o UExp(h, mode, via)

FullProbeBad(g, L, p) ==
  {x \in (ToSet(g.cands) \X {"d1", "d2", "x1"} \X (1..Len(g.modes))) :
     \/ x[1] \notin DOMAIN p
     \/ (IF x[2] # "d1" /\ g.modes[x[3]] = "estimate" THEN p[x[1]][x[2]][x[3]] # "skipped" ELSE   \* eth_estimateGas only with the plain probe
         p[x[1]][x[2]][x[3]] # Cell(g, L, x[1], IF x[2] = "d2" THEN "in2" ELSE "in1", g.modes[x[3]], IF x[2] = "x1" THEN p[x[1]].xk[x[3]] ELSE "direct"))}
LiteProbeBad(g, L, p) == {a \in ToSet(g.cands) : a \notin DOMAIN p \/ p[a] # Cell(g, L, a, "in1", "eth_call", "direct")}

(* name of the first broken exposure law: the status the registry demands and the mode in which the call disagrees *)
ProbeLaw(g, e, L) ==
  IF "noprobe" \in DOMAIN e THEN OK
  ELSE IF e.full THEN
    LET bad == FullProbeBad(g, L, e.probe) IN
    IF bad = {} THEN OK
    ELSE LET b == CHOOSE x \in bad : TRUE
             dbg == PrintT(<<"PROBE-MISMATCH", b, IF b[1] \in DOMAIN e.probe THEN e.probe[b[1]][b[2]][b[3]] ELSE "missing", "expected",
                            Cell(g, L, b[1], IF b[2] = "d2" THEN "in2" ELSE "in1", g.modes[b[3]], IF b[2] = "x1" THEN e.probe[b[1]].xk[b[3]] ELSE "direct")>>)
         IN IF ~dbg THEN OK ELSE <<"Exposure", Status(g, L, b[1]) \o "-address-" \o (IF b[2] = "x1" THEN "via-proxy-" ELSE "") \o "in-mode-" \o g.modes[b[3]]>>
  ELSE
    LET bad == LiteProbeBad(g, L, e.probe) IN
    IF bad = {} THEN OK ELSE <<"Exposure", Status(g, L, CHOOSE x \in bad : TRUE) \o "-address-in-mode-eth_call">>

ProbeCounts(g, e, L, f) ==
  IF "noprobe" \in DOMAIN e THEN f
  ELSE LET n == IF e.full THEN 16 ELSE 1
           cnt(st) == n * Cardinality({a \in ToSet(g.cands) : Status(g, L, a) = st})
       IN BumpN(BumpN(BumpN(BumpN(f, "probe.runs", cnt("runs")), "probe.refused", cnt("refused")), "probe.absent", cnt("absent")), "probe.std", cnt("std"))

(***************************************************************************)
(* lines                                                                   *)
(***************************************************************************)
Fail2(c) == <<l, c[1], c[2]>>

Settle(c) ==
  IF c = OK THEN UNCHANGED err
  ELSE err' = Fail2(c) /\ PrintT(<<"LAWBROKEN", l, c[1], c[2]>>)

DoGenesis ==
  /\ Ev.ev = "Genesis"
  /\ G' = Ev
  /\ LET L == RegOf(Ev.reg)
         g == GenesisRegistry(Ev.flags, ToSet(Ev.wl), Ev.reg.supplyPos)
         c == First(<<
                Law(g.ok, "Genesis", "model-genesis-not-defined"),
                ProjectionLaws(Ev.reg),
                Law(Shape(L) = Shape(g.R), "Genesis", "registry-differs-from-flags"),
                ProbeLaw(Ev, Ev, L)
              >>)
     IN /\ Settle(c)
        /\ stack' = <<L>>
        /\ cls' = Bump(ProbeCounts(Ev, Ev, L, cls), "genesis." \o (IF Ev.flags.erc20 THEN "erc20" ELSE "-") \o (IF Ev.flags.staking THEN "staking" ELSE "-"))

Authority(op) == IF op.route = "gov" THEN Gov ELSE "not-gov"

OpCheck(R, e) ==
  LET op == e.op  res == e.res  sp == e.reg.supplyPos IN
  CASE op.k = "DeployErc20" ->
         IF res.ok THEN
           [c |-> First(<<
                    Law(op.sender \in R.wl, "Whitelist", "erc20-deployed-by-non-whitelisted-sender"),
                    Law(op.denom \notin DOMAIN R.idx /\ \A a \in Erc20s(R) : R.meta[a].denom # op.denom, "Erc20", "second-contract-for-denom"),
                    Law(op.denom \in DOMAIN sp /\ sp[op.denom], "Erc20", "deployed-for-denom-without-supply"),
                    Law(res.addr = Dyn(R.nonce), "Addr", "not-the-next-dynamic-address"),
                    Law(res.addr \notin DOMAIN R.meta, "Addr", "UniqueAddr-address-reused")>>),
            R |-> AfterDeployErc20(R, op.denom, op.name, op.symbol, op.decimals)]
         ELSE [c |-> OK, R |-> R]
    [] op.k = "DeployStaking" ->
         IF res.ok THEN
           [c |-> First(<<
                    Law(op.sender \in R.wl, "Whitelist", "staking-deployed-by-non-whitelisted-sender"),
                    Law(Stk \notin DOMAIN R.meta, "Addr", "UniqueAddr-staking-redeployed"),
                    Law(res.addr = Stk, "Addr", "staking-not-at-fixed-address")>>),
            R |-> AfterDeployStaking(R, IF Stk \in DOMAIN e.reg.meta THEN e.reg.meta[Stk].name ELSE "none", op.symbol, op.decimals)]
         ELSE [c |-> OK, R |-> R]
    [] op.k = "UpdateParams" ->
         IF res.ok THEN
           [c |-> First(<<
                    Law(Authority(op) = Gov, "Params", "updated-without-governance-authority"),
                    Law(op.ver >= R.ver, "Version", "VersionMonotone-decreased"),
                    Law(op.ver >= 1 /\ op.ver <= KnownVer, "Version", "unknown-version-accepted")>>),
            R |-> AfterUpdateParams(R, [wl |-> ToSet(op.wl), ver |-> op.ver])]
         ELSE [c |-> OK, R |-> R]
    [] op.k = "SetDisabled" ->
         IF res.ok THEN [c |-> Law(op.addr \in DOMAIN R.meta, "Meta", "flag-set-on-unregistered-address"),
                         R |-> IF op.addr \in DOMAIN R.meta THEN AfterSetDisabled(R, op.addr, op.flag) ELSE R]
         ELSE [c |-> OK, R |-> R]
    [] op.k = "Retype" ->
         [c |-> Law(~res.ok, "Type", IF op.asNew THEN "UniqueAddr-redeploy-over-existing-accepted" ELSE "TypeStable-type-change-accepted"), R |-> R]
    [] op.k = "RawVersion" -> [c |-> OK, R |-> [R EXCEPT !.ver = op.ver]]
    [] OTHER -> [c |-> <<"Trace", "unknown-op">>, R |-> R]

DoOp ==
  /\ Ev.ev = "Op"
  /\ UNCHANGED G
  /\ IF Ev.d + 1 > Len(stack) THEN err' = Fail2(<<"Trace", "depth-without-parent">>) /\ UNCHANGED <<stack, cls>>
     ELSE
     LET R == stack[Ev.d + 1]
         L == RegOf(Ev.reg)
         oc == OpCheck(R, Ev)
         c == First(<<
                oc.c,
                Law(TypeStableStep(R, L), "Type", "TypeStable"),
                Law(Ev.op.k = "RawVersion" \/ VersionMonotoneStep(R, L), "Version", "VersionMonotone"),
                Law(NonceMonotoneStep(R, L), "Nonce", "decreased"),
                Law(Ev.res.ok \/ L = R, "Rejected", "rejected-operation-changed-the-registry"),
                ProjectionLaws(Ev.reg),
                StateDiff(L, oc.R),
                ProbeLaw(G, Ev, L)
              >>)
     IN /\ Settle(c)
        /\ stack' = Append(SubSeq(stack, 1, Ev.d + 1), L)
        /\ cls' = Bump(ProbeCounts(G, Ev, L, cls), "op." \o Ev.op.k \o (IF Ev.res.ok THEN ".accepted" ELSE ".rejected"))

TraceNext ==
  /\ l <= Len(Trace)
  /\ err = <<>>
  /\ l' = l + 1
  /\ UNCHANGED vars
  /\ (DoGenesis \/ DoOp)

TraceSpec == TraceInit /\ [][TraceNext]_<<tvars, vars>>

(* printed once, when the last line has been consumed: what the run exercised *)
Coverage == (l = Len(Trace) + 1 /\ err = <<>>) => PrintT(<<"COVERAGE", ToJsonObject(cls), Len(Trace), "SKIPPED", <<>>>>)

TraceAccepted ==
  LET d == TLCGet("stats").diameter IN
  IF d - 1 = Len(Trace) THEN TRUE
  ELSE Print(<<"TRACE NOT ACCEPTED: consumed", d - 1, "of", Len(Trace)>>, FALSE)
=============================================================================
