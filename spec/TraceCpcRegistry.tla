------------------------- MODULE TraceCpcRegistry -------------------------
(***************************************************************************)
(* C17 binding: TLC judges operation trees / sequences executed against the *)
(* real application (harness/misc/cpcreg.go).  Lines:                      *)
(*   Genesis  flags, whitelist, candidate addresses, reference behaviour of*)
(*            the standard precompiles, registry projection, probes        *)
(*   Op       d = depth of the state the operation was applied to (the     *)
(*            lines of one genesis form a tree in DFS order; a linear      *)
(*            scenario has d = 0, 1, 2, ...), the operation, its result,   *)
(*            the registry projection afterwards, the probes afterwards    *)
(* The model keeps the stack of registries along the current tree path.    *)
(* For every line: accepted => the property's necessary conditions held    *)
(* in the parent state; the recorded registry = the specified effect (or   *)
(* the unchanged parent for a rejected operation); the state laws hold on  *)
(* the recorded registry; the three views (raw store, gRPC queries, keeper *)
(* iteration used by NewEVM) agree; and every probe of every candidate     *)
(* address in every execution mode shows exactly Exposure(registry, addr), *)
(* whatever the call looks like: a method selector, an empty calldata with *)
(* or without value, 1-3 bytes, top-level or through a proxy contract - a  *)
(* registered enabled contract is always DISPATCHED (answers or fails      *)
(* inside the precompile, keeps no value), a disabled one refuses, any     *)
(* other address is a plain account (or go-ethereum's standard precompile).*)
(***************************************************************************)
EXTENDS CpcRegistry, Json

Trace == ndJsonDeserialize("trace.ndjson")

TraceDynAddrs == [i \in 1..160 |-> "dyn" \o ToString(i - 1)]
KnownVer == 1     \* the pinned tree knows protocol version 1 only

VARIABLES l, stack, G, err, cls
tvars == <<l, stack, G, err, cls>>

OK == <<"ok", "">>
ToSet(s) == {s[i] : i \in 1..Len(s)}
Bump(f, k) == PutF(f, k, (IF k \in DOMAIN f THEN f[k] ELSE 0) + 1)
BumpN(f, k, n) == PutF(f, k, (IF k \in DOMAIN f THEN f[k] ELSE 0) + n)

Ev == Trace[l]

(* the design-level variables of CpcRegistry.tla are not used by the trace specification *)
DesignIdle == reg = 0 /\ supplyPos = 0 /\ known = 0 /\ last = 0 /\ nops = 0

TraceInit == DesignIdle /\ l = 1 /\ stack = <<>> /\ G = [none |-> TRUE] /\ err = <<>> /\ cls = EmptyF

(* the recorded registry as a model registry *)
RegOf(g) ==
  [meta |-> [a \in DOMAIN g.meta |-> MetaRec(g.meta[a].type, g.meta[a].denom, g.meta[a].name, g.meta[a].symbol, g.meta[a].decimals, g.meta[a].disabled)],
   idx |-> [d \in DOMAIN g.idx |-> g.idx[d]],
   nonce |-> g.nonce, wl |-> ToSet(g.wl), ver |-> g.ver]

Shape(R) == [meta |-> [a \in DOMAIN R.meta |-> <<R.meta[a].type, R.meta[a].denom, R.meta[a].disabled>>], idx |-> R.idx, nonce |-> R.nonce, wl |-> R.wl, ver |-> R.ver]

First(cs) == IF \E i \in 1..Len(cs) : cs[i] # OK THEN cs[CHOOSE i \in 1..Len(cs) : cs[i] # OK /\ \A k \in 1..(i - 1) : cs[k] = OK] ELSE OK
Law(cond, g, d) == IF cond THEN OK ELSE <<g, d>>

(* laws on one recorded projection, whatever produced it *)
ProjectionLaws(g) ==
  LET L == RegOf(g) IN
  First(<<
    Law(\A a \in DOMAIN g.meta : g.meta[a].keyOk, "Store", "record-address-differs-from-key"),
    Law(g.other = 0, "Store", "unknown-keys"),
    Law(KeysCoherent(L), "Inv", "unknown-type"),
    Law(OneErc20PerDenom(L), "Inv", "OneErc20PerDenom"),
    Law(IdxMatchesMeta(L), "Inv", "IdxMatchesMeta"),
    Law(FixedAddrTypes(L), "Inv", "type-vs-address-class"),
    Law(DynBelowNonce(L), "Inv", "UniqueAddr-next-dynamic-address-not-free"),
    Law(L.nonce = 0 \/ g.modAcc, "Inv", "module-account-missing"),
    Law(g.rawTok = g.qTok, "Views", "grpc-contracts-vs-store"),
    Law(g.rawTok = g.kTok, "Views", "keeper-iteration-vs-store"),
    Law(g.idxQ = g.idx, "Views", "grpc-by-denom-vs-index"),
    Law(g.wlQ = g.wl /\ g.verQ = g.ver, "Views", "grpc-params-vs-store")
  >>)

(* recorded registry vs the model's *)
StateDiff(L, R) ==
  First(<<
    Law(DOMAIN L.meta = DOMAIN R.meta, "Meta", "set-of-registered-addresses"),
    Law(\A a \in DOMAIN L.meta \cap DOMAIN R.meta : L.meta[a].type = R.meta[a].type, "Meta", "TypeStable-or-wrong-type"),
    Law(\A a \in DOMAIN L.meta \cap DOMAIN R.meta : L.meta[a].disabled = R.meta[a].disabled, "Meta", "disabled-flag"),
    Law(L.meta = R.meta, "Meta", "name-symbol-decimals-denom"),
    Law(L.idx = R.idx, "Idx", "denom-index"),
    Law(L.nonce = R.nonce, "Nonce", "module-account-sequence"),
    Law(L.wl = R.wl, "Params", "whitelist"),
    Law(L.ver = R.ver, "Params", "version")
  >>)

(***************************************************************************)
(* exposure (g = the Genesis line of the current trace: candidates, modes, *)
(* reference behaviour of the standard precompiles, bech32 prefix token)   *)
(***************************************************************************)
Status(g, L, a) == IF a \in DOMAIN L.meta THEN Exposure(L, a) ELSE IF a \in DOMAIN g.std THEN "std" ELSE "absent"

(* probe inputs: in1 = name(), in2 = bech32 prefix view (they select a method of some contract type), e = empty calldata,
   s1..s3 = 1-3 bytes (shorter than a selector); CpcRegistry!InputClasses *)
NoMethodInputs == {"e", "s1", "s2", "s3"}

(* what the frame at address a may show for probe input i: a set of <<class, detail>>.
   For a registered enabled contract and an input that selects none of its methods the demand is "dispatched": the call fails
   inside the precompile (the pinned fork reverts: fewer than 4 bytes / unknown selector), it is NOT a successful call to a plain
   account and it is not the refusal of a disabled contract; the exact failure kind is left open. *)
DispatchedFailure == {<<"fail", "revert">>, <<"fail", "oog">>, <<"fail", "other">>}
HExp(g, L, a, i) ==
  LET st == Status(g, L, a) IN
  IF st = "absent" THEN {<<"empty", "">>}                                  \* CallClass = plain-account
  ELSE IF st = "refused" THEN {<<"fail", "disabled">>}                     \* CallClass = refused
  ELSE IF st = "std" THEN {g.std[a][i]}                                    \* go-ethereum's own precompile, gas-aware reference
  ELSE LET t == L.meta[a].type IN                                          \* CallClass = answers / reverts-in-precompile
       IF i = "in1" /\ t \in {"erc20", "staking"} THEN {<<"data", L.meta[a].name>>}
       ELSE IF i = "in2" /\ t = "bech32" THEN {<<"data", g.hrp>>}
       ELSE IF i \in NoMethodInputs THEN DispatchedFailure
       ELSE {<<"fail", "revert">>}

Str(h) == IF h[2] = "" THEN h[1] ELSE h[1] \o ":" \o h[2]
(* what the caller of the API sees *)
UExp(h, mode, via) ==
  IF mode = "check" THEN "admitted"
  ELSE IF mode = "estimate" THEN (IF via = "direct" /\ h[1] = "fail" THEN "fail" ELSE "ok")
  ELSE IF h[1] = "fail" THEN "fail" ELSE Str(h)
Cells(g, L, a, i, mode, via) == {Str(h) \o "|" \o UExp(h, mode, via) : h \in HExp(g, L, a, i)}

Cols == {"d1", "d2", "x1", "e0", "e1", "r"}
(* the sampled part of the matrix: eth_estimateGas (a binary search) only with the plain probes d1 and e0; the value probe e1
   and the rotating probe r in deliver, simulate and eth_call only.  28 judged cells per address. *)
Skipped(c, mode) == \/ (c \notin {"d1", "e0"} /\ mode = "estimate")
                    \/ (c \in {"e1", "r"} /\ mode \notin {"deliver", "simulate", "eth_call"})
InputOf(pa, c, m) == IF c \in {"d1", "x1"} THEN "in1" ELSE IF c = "d2" THEN "in2" ELSE IF c \in {"e0", "e1"} THEN "e" ELSE pa.rin[m]
ViaOf(pa, c, m) == IF c = "x1" THEN pa.xk[m] ELSE IF c = "r" THEN pa.rvia[m] ELSE "direct"
FullProbeBad(g, L, p) ==
  {x \in (ToSet(g.cands) \X Cols \X (1..Len(g.modes))) :
     \/ x[1] \notin DOMAIN p
     \/ (IF Skipped(x[2], g.modes[x[3]]) THEN p[x[1]][x[2]][x[3]] # "skipped"
         ELSE p[x[1]][x[2]][x[3]] \notin Cells(g, L, x[1], InputOf(p[x[1]], x[2], x[3]), g.modes[x[3]], ViaOf(p[x[1]], x[2], x[3])))}
(* the lite probe covers every candidate and every registered contract (the "many contracts" scenario registers far more
   contracts than there are candidates) *)
LiteProbeBad(g, L, p) == {a \in ToSet(g.cands) \cup DOMAIN L.meta : a \notin DOMAIN p \/ p[a] \notin Cells(g, L, a, "in1", "eth_call", "direct")}
(* lines without the full matrix: the top-level empty-calldata probe of every registered contract in every mode *)
(* e.sel, when present, names the addresses probed in every mode instead (first / 100th / 101st / last registered contract
   by deployment and by store order, the next dynamic address, a fresh address), with name() as well (e.sel1) *)
AllModeTargets(e, L) == IF "sel" \in DOMAIN e THEN ToSet(e.sel) ELSE DOMAIN L.meta
Reg0Bad(g, L, e) ==
  {x \in AllModeTargets(e, L) \X (1..Len(g.modes)) :
     \/ x[1] \notin DOMAIN e.reg0 \/ e.reg0[x[1]][x[2]] \notin Cells(g, L, x[1], "e", g.modes[x[2]], "direct")}
Sel1Bad(g, L, e) ==
  IF "sel" \notin DOMAIN e THEN {}
  ELSE {x \in ToSet(e.sel) \X (1..Len(g.modes)) :
          \/ x[1] \notin DOMAIN e.sel1 \/ e.sel1[x[1]][x[2]] \notin Cells(g, L, x[1], "in1", g.modes[x[2]], "direct")}

(* value: the wei an address gains during the delivered probes = the value probes that reach it and succeed there
   (direct e1 in deliver mode; the rotating probe when it forwards value 1 through the CALL proxy); a dispatched-and-reverted or
   refused call keeps nothing (CpcRegistry!KeepsValue) *)
DeliverIdx(g) == CHOOSE m \in 1..Len(g.modes) : g.modes[m] = "deliver"
Keeps(g, L, a, i) == \A h \in HExp(g, L, a, i) : h[1] # "fail"
ExpectedGain(g, L, a, pa) ==
  LET m == DeliverIdx(g) IN
    (IF pa.rval[m] = 1 /\ pa.rvia[m] = "CALL" /\ Keeps(g, L, a, pa.rin[m]) THEN 1 ELSE 0)
  + (IF a # "mod" /\ Keeps(g, L, a, "e") THEN 1 ELSE 0)     \* no value is sent to the module account (blocked bank recipient)
BalBad(g, L, e) == {a \in ToSet(g.cands) : a \notin DOMAIN e.bal \/ e.bal[a][2] - e.bal[a][1] # ExpectedGain(g, L, a, e.probe[a])}

InputTag(i) == IF i = "e" THEN "empty-calldata-" ELSE IF i \in NoMethodInputs THEN "short-calldata-" ELSE ""

(* name of the first broken exposure law: the status the registry demands, the route, the input shape and the mode *)
ProbeLaw(g, e, L) ==
  IF "noprobe" \in DOMAIN e THEN OK
  ELSE IF e.full THEN
    LET bad == FullProbeBad(g, L, e.probe) IN
    IF bad # {} THEN
         LET b == CHOOSE x \in bad : TRUE
             i == IF b[1] \in DOMAIN e.probe THEN InputOf(e.probe[b[1]], b[2], b[3]) ELSE "in1"
             v == IF b[1] \in DOMAIN e.probe THEN ViaOf(e.probe[b[1]], b[2], b[3]) ELSE "direct"
             dbg == PrintT(<<"PROBE-MISMATCH", b, i, v, IF b[1] \in DOMAIN e.probe THEN e.probe[b[1]][b[2]][b[3]] ELSE "missing", "expected one of",
                            Cells(g, L, b[1], i, g.modes[b[3]], v)>>)
         IN IF ~dbg THEN OK ELSE <<"Exposure", Status(g, L, b[1]) \o "-address-" \o (IF v # "direct" THEN "via-proxy-" ELSE "") \o InputTag(i) \o "in-mode-" \o g.modes[b[3]]>>
    ELSE LET bb == BalBad(g, L, e) IN
         IF bb = {} THEN OK ELSE <<"Exposure", Status(g, L, CHOOSE x \in bb : TRUE) \o "-address-balance-after-value-probes">>
  ELSE
    LET bad == LiteProbeBad(g, L, e.probe)
        bad0 == Reg0Bad(g, L, e)
        bad1 == Sel1Bad(g, L, e) IN
    IF bad # {} THEN <<"Exposure", Status(g, L, CHOOSE x \in bad : TRUE) \o "-address-in-mode-eth_call">>
    ELSE IF bad0 # {} THEN LET b == CHOOSE x \in bad0 : TRUE IN <<"Exposure", Status(g, L, b[1]) \o "-address-empty-calldata-in-mode-" \o g.modes[b[2]]>>
    ELSE IF bad1 # {} THEN LET b == CHOOSE x \in bad1 : TRUE IN <<"Exposure", Status(g, L, b[1]) \o "-address-in-mode-" \o g.modes[b[2]]>>
    ELSE OK

ProbeCounts(g, e, L, f) ==
  IF "noprobe" \in DOMAIN e THEN f
  ELSE LET n == IF e.full THEN 28 ELSE 1
           probed == IF e.full THEN ToSet(g.cands) ELSE ToSet(g.cands) \cup DOMAIN L.meta
           cnt(st) == n * Cardinality({a \in probed : Status(g, L, a) = st})
           nreg == IF "sel" \in DOMAIN e THEN Cardinality(ToSet(e.sel) \cap DOMAIN L.meta) ELSE Cardinality(DOMAIN L.meta)
           f1 == BumpN(BumpN(BumpN(BumpN(f, "probe.runs", cnt("runs")), "probe.refused", cnt("refused")), "probe.absent", cnt("absent")), "probe.std", cnt("std"))
           zs == Cardinality({a \in Erc20s(L) : ~L.meta[a].disabled /\ L.meta[a].denom \in DOMAIN e.reg.supplyPos /\ ~e.reg.supplyPos[L.meta[a].denom]})
           f0 == IF e.full THEN BumpN(f1, "probe.running-erc20-with-zero-supply", n * zs) ELSE f1
       IN BumpN(f0, "probe.registered-toplevel-empty-calldata", (IF e.full THEN 9 ELSE 6) * nreg)   \* e0 (6 modes) [+ e1 (3 modes)] per registered contract

(***************************************************************************)
(* lines                                                                   *)
(***************************************************************************)
Fail2(c) == <<l, c[1], c[2]>>

Settle(c) ==
  IF c = OK THEN UNCHANGED err
  ELSE err' = Fail2(c) /\ PrintT(<<"LAWBROKEN", l, c[1], c[2]>>)

(* first broken registry law and first broken exposure law of one line: both are printed *)
Settle2(c, pc) ==
  IF c = OK THEN Settle(pc)
  ELSE Settle(c) /\ (pc = OK \/ PrintT(<<"LAWBROKEN-ALSO", l, pc[1], pc[2]>>))

DoGenesis ==
  /\ Ev.ev = "Genesis"
  /\ G' = Ev
  /\ LET L == RegOf(Ev.reg)
         g == GenesisRegistry(Ev.flags, ToSet(Ev.wl), Ev.reg.supplyPos)
         c == First(<<
                Law(g.ok, "Genesis", "model-genesis-not-defined"),
                ProjectionLaws(Ev.reg),
                Law(Shape(L) = Shape(g.R), "Genesis", "registry-differs-from-flags"),
                ProbeLaw(Ev, Ev, L)
              >>)
     IN /\ Settle(c)
        /\ stack' = <<L>>
        /\ cls' = Bump(ProbeCounts(Ev, Ev, L, cls), "genesis." \o (IF Ev.flags.erc20 THEN "erc20" ELSE "-") \o (IF Ev.flags.staking THEN "staking" ELSE "-"))

Authority(op) == IF op.route = "gov" THEN Gov ELSE "not-gov"

(* several deploy transactions of one sender in one block: the single-deployment laws, folded over the block *)
RECURSIVE BatchCheck(_, _, _, _, _, _)
BatchCheck(R, sender, items, oks, addrs, sp) ==
  IF items = <<>> THEN [c |-> OK, R |-> R]
  ELSE LET it == items[1]
           one == IF oks[1] THEN
                    [c |-> First(<<
                             Law(sender \in R.wl, "Whitelist", "erc20-deployed-by-non-whitelisted-sender"),
                             Law(it.denom \notin DOMAIN R.idx /\ \A a \in Erc20s(R) : R.meta[a].denom # it.denom, "Erc20", "second-contract-for-denom"),
                             Law(it.denom \in DOMAIN sp /\ sp[it.denom], "Erc20", "deployed-for-denom-without-supply"),
                             Law(addrs[1] = Dyn(R.nonce), "Addr", "not-the-next-dynamic-address"),
                             Law(addrs[1] \notin DOMAIN R.meta, "Addr", "UniqueAddr-address-reused")>>),
                     R |-> AfterDeployErc20(R, it.denom, it.name, it.symbol, it.decimals)]
                  ELSE [c |-> OK, R |-> R]
       IN IF one.c # OK THEN one ELSE BatchCheck(one.R, sender, Tail(items), Tail(oks), Tail(addrs), sp)

OpCheck(R, e) ==
  LET op == e.op  res == e.res  sp == e.reg.supplyPos IN
  CASE op.k = "DeployErc20" ->
         IF res.ok THEN
           [c |-> First(<<
                    Law(op.sender \in R.wl, "Whitelist", "erc20-deployed-by-non-whitelisted-sender"),
                    Law(op.denom \notin DOMAIN R.idx /\ \A a \in Erc20s(R) : R.meta[a].denom # op.denom, "Erc20", "second-contract-for-denom"),
                    Law(op.denom \in DOMAIN sp /\ sp[op.denom], "Erc20", "deployed-for-denom-without-supply"),
                    Law(res.addr = Dyn(R.nonce), "Addr", "not-the-next-dynamic-address"),
                    Law(res.addr \notin DOMAIN R.meta, "Addr", "UniqueAddr-address-reused")>>),
            R |-> AfterDeployErc20(R, op.denom, op.name, op.symbol, op.decimals)]
         ELSE [c |-> OK, R |-> R]
    [] op.k = "DeployErc20Batch" -> BatchCheck(R, op.sender, op.items, res.oks, res.addrs, sp)
    [] op.k = "DeployStaking" ->
         IF res.ok THEN
           [c |-> First(<<
                    Law(op.sender \in R.wl, "Whitelist", "staking-deployed-by-non-whitelisted-sender"),
                    Law(Stk \notin DOMAIN R.meta, "Addr", "UniqueAddr-staking-redeployed"),
                    Law(res.addr = Stk, "Addr", "staking-not-at-fixed-address")>>),
            R |-> AfterDeployStaking(R, IF Stk \in DOMAIN e.reg.meta THEN e.reg.meta[Stk].name ELSE "none", op.symbol, op.decimals)]
         ELSE [c |-> OK, R |-> R]
    [] op.k = "UpdateParams" ->
         IF res.ok THEN
           [c |-> First(<<
                    Law(Authority(op) = Gov, "Params", "updated-without-governance-authority"),
                    Law(op.ver >= R.ver, "Version", "VersionMonotone-decreased"),
                    Law(op.ver >= 1 /\ op.ver <= KnownVer, "Version", "unknown-version-accepted")>>),
            R |-> AfterUpdateParams(R, [wl |-> ToSet(op.wl), ver |-> op.ver])]
         ELSE [c |-> OK, R |-> R]
    [] op.k = "SetDisabled" ->
         IF res.ok THEN [c |-> Law(op.addr \in DOMAIN R.meta, "Meta", "flag-set-on-unregistered-address"),
                         R |-> IF op.addr \in DOMAIN R.meta THEN AfterSetDisabled(R, op.addr, op.flag) ELSE R]
         ELSE [c |-> OK, R |-> R]
    [] op.k = "Retype" ->
         [c |-> Law(~res.ok, "Type", IF op.asNew THEN "UniqueAddr-redeploy-over-existing-accepted" ELSE "TypeStable-type-change-accepted"), R |-> R]
    [] op.k = "RawVersion" -> [c |-> OK, R |-> [R EXCEPT !.ver = op.ver]]
    (* bank operations: the total supply of a denomination drained to zero through the ERC-20 precompile / minted back.
       They are no registry operations: the registry - and with it the wiring judged by the exposure laws - is unchanged. *)
    [] op.k \in {"Drain", "MintBack"} -> [c |-> OK, R |-> R]
    [] OTHER -> [c |-> <<"Trace", "unknown-op">>, R |-> R]

DoOp ==
  /\ Ev.ev = "Op"
  /\ UNCHANGED G
  /\ IF Ev.d + 1 > Len(stack) THEN err' = Fail2(<<"Trace", "depth-without-parent">>) /\ UNCHANGED <<stack, cls>>
     ELSE
     LET R == stack[Ev.d + 1]
         L == RegOf(Ev.reg)
         oc == OpCheck(R, Ev)
         c == First(<<
                oc.c,
                Law(TypeStableStep(R, L), "Type", "TypeStable"),
                Law(Ev.op.k = "RawVersion" \/ VersionMonotoneStep(R, L), "Version", "VersionMonotone"),
                Law(NonceMonotoneStep(R, L), "Nonce", "decreased"),
                Law(Ev.res.ok \/ Ev.op.k = "DeployErc20Batch" \/ L = R, "Rejected", "rejected-operation-changed-the-registry"),
                Law(Ev.op.k \notin {"Drain", "MintBack"} \/ L = R, "Registry", "changed-by-a-bank-supply-change"),
                ProjectionLaws(Ev.reg),
                StateDiff(L, oc.R)
              >>)
         pc == ProbeLaw(G, Ev, L)     \* the exposure laws are judged on their own: reported next to a broken registry law
     IN /\ Settle2(c, pc)
        /\ stack' = Append(SubSeq(stack, 1, Ev.d + 1), L)
        /\ cls' = Bump(ProbeCounts(G, Ev, L, cls), "op." \o Ev.op.k \o (IF Ev.res.ok THEN ".accepted" ELSE ".rejected"))

TraceNext ==
  /\ l <= Len(Trace)
  /\ err = <<>>
  /\ l' = l + 1
  /\ UNCHANGED vars
  /\ (DoGenesis \/ DoOp)

TraceSpec == TraceInit /\ [][TraceNext]_<<tvars, vars>>

(* printed once, when the last line has been consumed: what the run exercised *)
Coverage == (l = Len(Trace) + 1 /\ err = <<>>) => PrintT(<<"COVERAGE", ToJsonObject(cls), Len(Trace), "SKIPPED", <<>>>>)

TraceAccepted ==
  LET d == TLCGet("stats").diameter IN
  IF d - 1 = Len(Trace) THEN TRUE
  ELSE Print(<<"TRACE NOT ACCEPTED: consumed", d - 1, "of", Len(Trace)>>, FALSE)
=============================================================================
