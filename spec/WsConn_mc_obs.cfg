\* observation (not a requirement): a notification can be written before the subscription id -> TLC shows the schedule
SPECIFICATION MCSpec
CONSTANTS
  R = 0
  S = 1
  E = 1
  U = 0
  Bypass = FALSE
  TraceMode = FALSE
  defaultInitValue = defaultInitValue
INVARIANTS AckBeforeNotify
CHECK_DEADLOCK TRUE
