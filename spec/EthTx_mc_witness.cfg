SPECIFICATION SpecMc
CONSTANT Programs <- McPrograms
CONSTANT MinGasLimit <- McMinGas
CONSTANT MaxTx = 3
CONSTANT MaxBlocks = 1
CONSTANT MaxGasChoices <- McMaxGas
CONSTANT Prices = {1}
CONSTANT Gases = {2, 4}
CONSTANT GasUseds = {2, 4}
CONSTANT Values = {0, 13}
CONSTANT Nonces = {0, 1}
CONSTANT Witness = TRUE
VIEW view
POSTCONDITION WitnessAll
CHECK_DEADLOCK FALSE
