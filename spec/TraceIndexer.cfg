SPECIFICATION TraceSpec
CONSTANTS
  BlockChoices <- TrBlocks
  MaxLen = 0
  Starts = {}
  MaxCrashes = 0
  Atomic = TRUE
  AllowReindex = FALSE
  Known = {}
  Focus = {"Converges", "LookupAgree", "Idempotent", "Binding", "RpcTx", "RpcReceipt", "RpcBlock", "RpcLogs", "RpcUnknown", "RpcError"}
INVARIANT Coverage
POSTCONDITION TraceAccepted
CHECK_DEADLOCK FALSE
