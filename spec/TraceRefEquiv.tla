--------------------------- MODULE TraceRefEquiv ---------------------------
(***************************************************************************)
(* C02: every Ethereum transaction is executed twice from the same         *)
(* pre-state and block context - by the real evermint application and by   *)
(* go-ethereum's own state transition (core.ApplyMessage) over its own     *)
(* state database - and this module states the PERMITTED-DIFFERENCE        *)
(* relation of the property, literally:                                    *)
(*   Equiv(e, g) ==                                                        *)
(*     same outcome class (ok / VM-error class / rejected),                *)
(*     same return data, same gas used, same logs (address, topics, data), *)
(*     and for every address the same nonce, code and storage, and the     *)
(*     same balance - except that go-ethereum pays the effective tip       *)
(*     (gasUsed x (effective price - base fee)) to the coinbase where      *)
(*     evermint pre-pays the whole fee to the fee collector.               *)
(* The two other permitted differences (registered custom precompiles and  *)
(* the coinbase are warm) are applied to the reference run by the harness, *)
(* so gas is compared exactly.                                             *)
(* A transaction go-ethereum refuses as invalid (consensus-level error)    *)
(* must not execute in evermint either: both sides "rejected" (evermint    *)
(* may still charge the fee, that is C05's business), nothing else is      *)
(* compared for it.                                                        *)
(***************************************************************************)
EXTENDS Integers, Sequences, TLC, Json

Trace == ndJsonDeserialize("trace.ndjson")

VARIABLES l, err, cls
tvars == <<l, err, cls>>

Get(f, k, d) == IF k \in DOMAIN f THEN f[k] ELSE d
Put(f, k, v) == [x \in (DOMAIN f) \cup {k} |-> IF x = k THEN v ELSE f[x]]
EmptyFn == [x \in {} |-> 0]
Bump(f, k) == Put(f, k, Get(f, k, 0) + 1)
OK == <<"ok", "">>
Ev == Trace[l]

Rejected(c) == c = "rejected" \/ (Len(c) >= 9 /\ SubSeq(c, 1, 9) = "rejected:")

Equiv(x) ==
  LET e == x.evm  g == x.ref  A == DOMAIN g.post IN
  IF Rejected(g.class) \/ Rejected(e.class) THEN
       (IF Rejected(g.class) /\ Rejected(e.class) THEN OK ELSE <<"Class", "one-side-rejected-the-other-executed">>)
  ELSE IF e.class # g.class THEN <<"Class", "outcome-class">>
  ELSE IF e.gasUsed # g.gasUsed THEN <<"Gas", "gas-used">>
  ELSE IF e.ret # g.ret THEN <<"Ret", "return-data">>
  ELSE IF e.logs # g.logs THEN <<"Logs", "logs">>
  ELSE IF DOMAIN e.post # A THEN <<"Shape", "address-sets-differ">>
  ELSE IF \E a \in A : e.post[a].nonce # g.post[a].nonce THEN <<"Nonce", "nonce">>
  ELSE IF \E a \in A : e.post[a].code # g.post[a].code THEN <<"Code", "code">>
  ELSE IF \E a \in A : e.post[a].stor # g.post[a].stor THEN <<"Storage", "storage">>
  ELSE IF \E a \in A : a # x.coinbase /\ e.post[a].bal # g.post[a].bal THEN <<"Balance", "balance">>
  ELSE IF x.coinbase \in A /\ e.post[x.coinbase].bal # g.post[x.coinbase].bal - g.gasUsed * x.tip THEN <<"Balance", "coinbase-balance-beyond-the-tip">>
  ELSE OK

TraceInit == l = 1 /\ err = <<>> /\ cls = EmptyFn

DoGenesis == Ev.ev = "RefGenesis" /\ cls' = Bump(cls, "histories") /\ UNCHANGED err
DoTx ==
  /\ Ev.ev = "RefTx"
  /\ LET c == IF Ev.panic THEN <<"Panic", "block-panicked">> ELSE Equiv(Ev) IN
     /\ cls' = Bump(cls, IF Ev.panic THEN "panic" ELSE "class." \o Ev.ref.class)
     /\ IF c = OK THEN UNCHANGED err ELSE err' = <<l, c[1], c[2]>> /\ PrintT(<<"LAWBROKEN", l, c[1], c[2]>>)

TraceNext == l <= Len(Trace) /\ err = <<>> /\ l' = l + 1 /\ (DoGenesis \/ DoTx)
TraceSpec == TraceInit /\ [][TraceNext]_tvars
Coverage == (l = Len(Trace) + 1 /\ err = <<>>) => PrintT(<<"COVERAGE", ToJsonObject(cls), 0, "SKIPPED", <<>>>>)
TraceAccepted ==
  LET d == TLCGet("stats").diameter IN
  IF d - 1 = Len(Trace) THEN TRUE ELSE Print(<<"TRACE NOT ACCEPTED: consumed", d - 1, "of", Len(Trace)>>, FALSE)
=============================================================================
