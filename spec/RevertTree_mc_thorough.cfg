SPECIFICATION Spec
CONSTANT MaxDepth = 4
CONSTANT Methods <- ThoroughMethods
CONSTANT SiblingPairs <- ThoroughPairs
INVARIANT Defined
INVARIANT Inhabited
POSTCONDITION WriteVectors
CHECK_DEADLOCK FALSE
