SPECIFICATION TraceSpec
CONSTANT Senders = {}
CONSTANT Gov = "gov"
CONSTANT Denoms = {}
CONSTANT BondDenom = "wei"
CONSTANT DynAddrs <- TraceDynAddrs
CONSTANT Names = {}
CONSTANT MaxVer = 1
CONSTANT MaxOps = 0
CONSTANT InitWL = {}
INVARIANT Coverage
POSTCONDITION TraceAccepted
CHECK_DEADLOCK FALSE
