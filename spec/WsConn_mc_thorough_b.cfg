\* thorough size (b): two notifications per subscription, two unsubscribes
SPECIFICATION MCSpec
CONSTANTS
  R = 2
  S = 2
  E = 2
  U = 2
  Bypass = FALSE
  TraceMode = FALSE
  defaultInitValue = defaultInitValue
INVARIANTS TypeOK OneWriter NoCrash MuxInv NoWsDeadlock
CHECK_DEADLOCK TRUE
