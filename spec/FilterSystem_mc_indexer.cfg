\* the indexer service's two loops
SPECIFICATION MCSpec
CONSTANTS
  NTopics = 1
  NClients = 0
  Rounds = 1
  MaxEvents = 0
  MaxPolls = 0
  MaxTicks = 0
  MaxFires = 0
  Api = FALSE
  Known = {}
  SpinTopics = {}
  BufCap = 1
  RespCap = 1
  WithIndexer = TRUE
  MaxHeaders = 3
  TraceMode = FALSE
  Foreign = FALSE
INVARIANTS NoCrash NoLostTopic LockInv NoLeakedPublisher TopicAgreement IndexerInv
CHECK_DEADLOCK TRUE
