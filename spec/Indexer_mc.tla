---------------------------- MODULE Indexer_mc ----------------------------
(***************************************************************************)
(* Exhaustive design runs of Indexer.tla: every chain of at most MaxBlocks *)
(* blocks with at most MaxTxs transactions of the kinds in Kinds, every    *)
(* start height in Starts, every crash point (between any two physical     *)
(* writes, at most MaxCrashes crashes per behaviour), re-indexing of       *)
(* indexed blocks in any order.                                            *)
(*   cosmos   not an Ethereum tx                                           *)
(*   ok       executed, receipt status 1, one log, gas used 2 of limit 3   *)
(*   vmerr    executed, receipt status 0 (VM error), gas used 3            *)
(*   failed   admitted, failed outside the VM (consensus error / handler   *)
(*            panic / block gas exceeded): code # 0, `ethereum_tx` event,  *)
(*            no receipt                                                   *)
(*   refused  dropped before ante or refused by ante: code # 0, no event   *)
(***************************************************************************)
EXTENDS Indexer

CONSTANTS MaxBlocks, MaxTxs, Kinds

GasLimit == 3

NoRcpt == [present |-> FALSE, status |-> 0, gasUsed |-> 0, cum |-> 0, txIdx |-> 0, logs |-> <<>>, contract |-> "none",
           vmErr |-> FALSE, effPrice |-> 0]

(* the txs of a block from its kinds, with the consensus bookkeeping (eth index e, cumulative gas c, log count n) *)
RECURSIVE MkTxs(_, _, _, _, _, _)
MkTxs(h, ks, i, e, c, n) ==
  IF i > Len(ks) THEN <<>>
  ELSE
    LET k == ks[i]
        base == [eth |-> k # "cosmos", code |-> IF k \in {"failed", "refused"} THEN 1 ELSE 0,
                 ethEvent |-> k \in {"ok", "vmerr", "failed"}, evIdx |-> IF k \in {"ok", "vmerr", "failed"} THEN e ELSE -1,
                 hash |-> <<h, i>>, from |-> "a", gas |-> GasLimit, type |-> 0, price |-> 1, tip |-> 0, rcpt |-> NoRcpt]
        used == IF k = "ok" THEN 2 ELSE GasLimit
        t == IF k = "ok" THEN [base EXCEPT !.rcpt = [present |-> TRUE, status |-> 1, gasUsed |-> 2, cum |-> c + 2, txIdx |-> e,
                                                      logs |-> << [addr |-> "c", n |-> 1, li |-> n, ti |-> e, h |-> h, th |-> <<h, i>>] >>,
                                                      contract |-> "none", vmErr |-> FALSE, effPrice |-> 1]]
             ELSE IF k = "vmerr" THEN [base EXCEPT !.rcpt = [present |-> TRUE, status |-> 0, gasUsed |-> GasLimit, cum |-> c + GasLimit, txIdx |-> e,
                                                      logs |-> <<>>, contract |-> "none", vmErr |-> TRUE, effPrice |-> 1]]
             ELSE base
        adm == k \in {"ok", "vmerr", "failed"}
    IN <<t>> \o MkTxs(h, ks, i + 1, IF adm THEN e + 1 ELSE e, IF adm THEN c + used ELSE c, IF k = "ok" THEN n + 1 ELSE n)

MkBlock(h, ks) == [h |-> h, bh |-> <<"b", h>>, baseFee |-> 1, txs |-> MkTxs(h, ks, 1, 0, 0, 0)]

KindSeqs == UNION {[1..n -> Kinds] : n \in 0..MaxTxs}
McMaxLen == MaxBlocks
McBlocks(h) == {MkBlock(h, ks) : ks \in KindSeqs}

(* witnesses (vacuity guards): each must be violated, i.e. the situation is reachable *)
W_CrashWithOpenBatch == ~(~up /\ crashes > 0 /\ kv # EmptyKv /\ Len(chain) = MaxBlocks /\ kv # Index(chain, start, Len(chain)))
W_CaughtUpAfterCrash == ~(CaughtUp /\ crashes = MaxCrashes /\ Len(chain) = MaxBlocks /\ DOMAIN kv.byHash # {})
W_FailedIndexed == ~(\E x \in DOMAIN kv.byHash : kv.byHash[x].failed /\ kv.byHash[x].ethIdx > 0)
W_Reindexed == ~(cur # 0 /\ cur < next /\ pos > 1)
W_RefusedBeforeAdmitted == ~(\E x \in DOMAIN kv.byHash : kv.byHash[x].txIdx > kv.byHash[x].ethIdx)
=============================================================================
