# failed flag inverted for txs failing outside the VM (block gas exceeded ...)
p='/tmp/wt/rpc/indexer/kv_indexer.go'; s=open(p).read()
a='''					txResult.Failed = true
					return'''
assert a in s
s=s.replace(a,'''					txResult.Failed = false
					return''')
open(p,'w').write(s)
