# LastIndexedBlock off by one (too high)
p='/tmp/wt/rpc/indexer/kv_indexer.go'; s=open(p).read()
a='''	if !it.Valid() {
		return -1, nil
	}
	return parseBlockNumberFromKey(it.Key())
}

// LoadFirstBlock'''
assert a in s
s=s.replace(a,'''	if !it.Valid() {
		return -1, nil
	}
	n, err := parseBlockNumberFromKey(it.Key())
	return n + 1, err
}

// LoadFirstBlock''')
open(p,'w').write(s)
