# tx by (block, index): fallback list does not skip refused txs (EthMsgsFromCometBFTBlock)
p='/tmp/wt/rpc/rpc/backend/blocks.go'; s=open(p).read()
a='''		if evmtypes.TxWasDroppedPreAnteHandleDueToBlockGasExcess(txResults[i]) {
			continue
		}

		tx, err := b.clientCtx.TxConfig.TxDecoder()(tx)'''
assert a in s
s=s.replace(a,'''		_ = txResults[i]
		tx, err := b.clientCtx.TxConfig.TxDecoder()(tx)''')
open(p,'w').write(s)
