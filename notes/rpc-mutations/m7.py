# a receipt with VM error is not "failed" any more (rpc/types/events.go)
p='/tmp/wt/rpc/rpc/types/events.go'; s=open(p).read()
a='''		case evmtypes.AttributeKeyReceiptVmError:
			tx.Failed = true'''
assert a in s
s=s.replace(a,'''		case evmtypes.AttributeKeyReceiptVmError:
			tx.Failed = false''')
open(p,'w').write(s)
