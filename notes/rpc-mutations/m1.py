# eth tx index counts a refused tx
p='/tmp/wt/rpc/indexer/kv_indexer.go'; s=open(p).read()
a='''		if evmtypes.TxWasDroppedPreAnteHandleDueToBlockGasExcess(result) {
			continue
		}'''
assert a in s
s=s.replace(a,'''		if evmtypes.TxWasDroppedPreAnteHandleDueToBlockGasExcess(result) {
			ethTxIndex++
			continue
		}''')
open(p,'w').write(s)
