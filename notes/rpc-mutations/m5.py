# synthetic receipt of a failed tx reports status 1
p='/tmp/wt/rpc/rpc/backend/tx_info.go'; s=open(p).read()
a='''			Status:            ethtypes.ReceiptStatusFailed,'''
assert a in s
s=s.replace(a,'''			Status:            ethtypes.ReceiptStatusSuccessful,''')
open(p,'w').write(s)
