# block view: cumulative gas of a synthetic receipt omits itself / block gasUsed omits failed tx
p='/tmp/wt/rpc/rpc/backend/blocks.go'; s=open(p).read()
a='''				CumulativeGasUsed: transaction.Gas(), // compute below'''
assert a in s
s=s.replace(a,'''				CumulativeGasUsed: 0, // compute below''')
open(p,'w').write(s)
