#!/bin/bash
# usage: run.sh mN
cd /tmp/wt/rpc && git checkout -q -- . && git apply /verif/notes/rpc-fix-synthetic-receipt-cumulative-gas.diff && git apply /verif/notes/rpc-fix-indexer-resume-after-pruning.diff && python3 /tmp/rpc-mut/$1.py && git diff --stat | tail -1
cd /verif && VERIF_C14_SKIP_DESIGN=1 VERIF_ASSUME_KNOWN="Converges/empty-index-restart-skips-to-latest,RpcReceipt/synthetic-cumulativeGasUsed-counts-refused-txs,Converges/pruned-restart-skips-earliest-available-block" VERIF_REPO=/tmp/wt/rpc bin/check C14 --tier quick > /tmp/rpc-mut/$1.out 2>&1
echo "$1 exit $?"; grep -E "VIOLATION|law:|INFRA|KNOWN-FINDING|C14 quick" /tmp/rpc-mut/$1.out | cut -c1-260
cd /tmp/wt/rpc && git checkout -q -- . 
