# the (height, index) key is written directly to the database, outside the batch
p='/tmp/wt/rpc/indexer/kv_indexer.go'; s=open(p).read()
a='''						resErr = saveTxResult(kv.clientCtx.Codec, batch, txHash, &txResult)'''
assert a in s
s=s.replace(a,'''						resErr = saveTxResult(kv.clientCtx.Codec, batch, txHash, &txResult)
						_ = kv.db.Set(TxIndexKey(txResult.Height, txResult.EthTxIndex), txHash.Bytes())''')
open(p,'w').write(s)
