// Package trace writes ndjson traces for TLC and refuses numbers TLC cannot hold.
package trace

import (
	"bufio"
	"encoding/json"
	"fmt"
	"math/big"
	"os"
)

// M is a JSON object.
type M = map[string]interface{}

// Limit is the largest magnitude TLC's 32-bit integers can hold safely in sums.
const Limit = int64(1) << 31

// ErrTooBig is raised (as panic) when a value does not fit TLC integers: an infrastructure
// error of the driver (exit 2), never a verdict.
type ErrTooBig struct{ V string }

func (e ErrTooBig) Error() string { return "number does not fit TLC integers: " + e.V }

// I converts a big integer to a JSON number, panicking with ErrTooBig when it is out of range.
func I(b *big.Int) int64 {
	if b == nil {
		return 0
	}
	if !b.IsInt64() || b.Int64() >= Limit || b.Int64() <= -Limit {
		panic(ErrTooBig{b.String()})
	}
	return b.Int64()
}

// U converts an unsigned number.
func U(u uint64) int64 {
	if u >= uint64(Limit) {
		panic(ErrTooBig{fmt.Sprint(u)})
	}
	return int64(u)
}

// W is an ndjson writer.
type W struct {
	f *os.File
	b *bufio.Writer
	N int
}

// Create opens path for writing.
func Create(path string) *W {
	f, err := os.Create(path)
	if err != nil {
		panic(err)
	}
	return &W{f: f, b: bufio.NewWriterSize(f, 1<<20)}
}

// Emit writes one event.
func (w *W) Emit(ev M) {
	bz, err := json.Marshal(ev)
	if err != nil {
		panic(err)
	}
	w.b.Write(bz)
	w.b.WriteByte('\n')
	w.N++
}

// Close flushes.
func (w *W) Close() {
	w.b.Flush()
	w.f.Close()
}

// WriteJSON writes v as one JSON document.
func WriteJSON(path string, v interface{}) {
	bz, err := json.Marshal(v)
	if err != nil {
		panic(err)
	}
	if err := os.WriteFile(path, bz, 0o644); err != nil {
		panic(err)
	}
}
