package rpc

import (
	"fmt"
	"sync"
	"time"

	"cosmossdk.io/log"
	sdkdb "github.com/cosmos/cosmos-db"
	"github.com/cosmos/cosmos-sdk/client"
	"github.com/ethereum/go-ethereum/common"

	"github.com/EscanBE/evermint/v12/indexer"
	evmserver "github.com/EscanBE/evermint/v12/server"
	evertypes "github.com/EscanBE/evermint/v12/types"

	"verifharness/trace"
)

// Sched is one crash schedule of the indexing service over one recorded chain.
type Sched struct {
	ID    string
	Start int64  // chain height at which the service is started for the first time (index is empty)
	Tip   int64  // height the chain has reached when the service catches up / is restarted
	Die   []int  // per run: die immediately before this physical operation (0 = run to the end)
	Mode  string // "service" (real EVMIndexerService) | "direct" (IndexBlock driven in the given order)
	// pruning scenario (service mode): run 0 catches up to Tip1 and is stopped gracefully; before run 1 the node has
	// pruned its block store: blocks below Earliest are gone
	Tip1     int64
	Earliest int64
	Order    []int64 // direct mode: heights in the order they are indexed (may repeat, may go backwards)
}

// SchedResult is what one schedule produced.
type SchedResult struct {
	Events  []trace.M
	Final   []interface{} // dump of the surviving store after the last run
	Crashes int
	Ops     int // physical operations of the uninterrupted part (run 0 when Die[0]==0)
	Stuck   string
}

type evlog struct {
	mu sync.Mutex
	ev []trace.M
}

// flushedAfterIndexBlock: the log shows IndexBlock(h) followed by a Flush.
func (l *evlog) flushedAfterIndexBlock(h int64) bool {
	l.mu.Lock()
	defer l.mu.Unlock()
	seen := false
	for _, e := range l.ev {
		switch e["ev"] {
		case "IndexBlock":
			seen = e["h"].(int64) == h
		case "Flush":
			if seen {
				return true
			}
		}
	}
	return false
}

func (l *evlog) add(m trace.M) {
	l.mu.Lock()
	l.ev = append(l.ev, m)
	l.mu.Unlock()
}

// ClientCtx is the client context the indexer and the backend need (codec + tx config + node client).
func ClientCtx(r *Rec, node client.CometRPC) client.Context {
	enc := r.C.Enc
	ctx := client.Context{}.WithChainID(r.C.App.ChainID()).WithTxConfig(enc.TxConfig).WithCodec(enc.Codec).
		WithInterfaceRegistry(enc.InterfaceRegistry).WithLegacyAmino(enc.Amino)
	if node != nil {
		ctx = ctx.WithClient(node)
	}
	return ctx
}

func waitFor(timeout time.Duration, cond func() bool) bool {
	dl := time.Now().Add(timeout)
	for !cond() {
		if time.Now().After(dl) {
			return false
		}
		time.Sleep(300 * time.Microsecond)
	}
	return true
}

// RunSched executes one schedule against the real indexer (and, in service mode, the real
// EVMIndexerService) over a fresh surviving store.
func RunSched(r *Rec, n *Names, s Sched) SchedResult {
	lg := &evlog{}
	inner := sdkdb.NewMemDB()
	dec := &KVDecoder{N: n, Cdc: r.C.Enc.Codec}
	res := SchedResult{}
	lg.add(trace.M{"ev": "Sched", "id": s.ID, "mode": s.Mode, "start": s.Start, "tip": s.Tip})
	for run, die := range s.Die {
		stub := NewStub(r, s.Tip)
		if run == 0 && s.Mode == "service" {
			stub = NewStub(r, s.Start)
		}
		runTip := s.Tip
		if run == 0 && s.Tip1 > 0 {
			runTip = s.Tip1
		}
		if run > 0 && s.Earliest > 0 {
			stub.SetEarliest(s.Earliest)
		}
		stub.OnResults = func(h int64) { lg.add(trace.M{"ev": "IndexBlock", "h": h, "mode": s.Mode}) }
		db := NewCrashDB(inner, die, dec, lg.add)
		cctx := ClientCtx(r, stub)
		idx := indexer.NewKVIndexer(db, log.NewNopLogger(), cctx)
		last, err := idx.LastIndexedBlock()
		if err != nil {
			panic(err)
		}
		lg.add(trace.M{"ev": "Restart", "run": run, "last": last, "tip": stub.Tip(), "earliest": stub.Earliest()})
		if run > 0 {
			// a FRESH KVIndexer over the surviving database, before it indexes anything: its two lookups are
			// functions of the index contents alone
			// heights up to the last block in the index and one beyond (everything above is trivially absent)
			upTo := last + 1
			if upTo < 1 {
				upTo = 1
			}
			if upTo > s.Tip {
				upTo = s.Tip
			}
			for _, ev := range Lookups(r, n, idx, upTo-1, "fresh-after-restart") {
				lg.add(ev)
			}
		}
		died := false
		switch s.Mode {
		case "service":
			svc := evmserver.NewEVMIndexerService(idx, stub)
			done := make(chan interface{}, 1)
			go func() {
				defer func() { done <- recover() }()
				_ = svc.Start() // blocks in OnStart until Stop; a Died panic of the database ends it
			}()
			isDead := func() bool {
				select {
				case p := <-done:
					if _, ok := p.(Died); !ok {
						panic(fmt.Sprintf("indexer service ended unexpectedly: %v", p))
					}
					died = true
					return true
				default:
					return false
				}
			}
			if !waitFor(10*time.Second, func() bool { return isDead() || idx.IsReady() }) {
				res.Stuck = "service never became ready"
			}
			if run == 0 && !died && runTip > s.Start {
				// the chain grows while the service is running
				lg.add(trace.M{"ev": "Tip", "tip": runTip})
				stub.SetTip(runTip)
				ok := waitFor(10*time.Second, func() bool {
					if isDead() {
						return true
					}
					return stub.ResultsServed(runTip)
				})
				if ok && !died {
					// BlockResults(tip) has been served: IndexBlock(tip) follows; wait until its batch has been written
					// (or, for an indexer that writes differently, until IndexBlock has returned)
					if !waitFor(10*time.Second, func() bool {
						if isDead() {
							return true
						}
						if lg.flushedAfterIndexBlock(runTip) {
							return true
						}
						l, _ := idx.GetLastRequestIndexedBlock()
						return l >= runTip
					}) {
						res.Stuck = "IndexBlock(tip) never finished"
					}
				}
				if !ok {
					res.Stuck = "service did not fetch the tip"
				}
			}
			_ = svc.Stop()
		case "direct":
			func() {
				defer func() {
					if p := recover(); p != nil {
						if _, ok := p.(Died); !ok {
							panic(p)
						}
						died = true
					}
				}()
				order := s.Order
				if run > 0 || order == nil {
					// the resume rule as the specification states it: continue after the last block found, else after Start
					from := last
					if from == -1 {
						from = s.Start
					}
					order = nil
					for h := from + 1; h <= s.Tip; h++ {
						order = append(order, h)
					}
				}
				for _, h := range order {
					b := r.Blocks[h]
					lg.add(trace.M{"ev": "IndexBlock", "h": h, "mode": s.Mode})
					if err := idx.IndexBlock(b.Block, b.Res.TxResults); err != nil {
						panic(err)
					}
				}
			}()
		}
		if run == 0 && die == 0 {
			res.Ops = db.Ops
		}
		if died {
			res.Crashes++
			lg.add(trace.M{"ev": "Kv", "when": "after-crash", "dump": dec.Dump(inner)})
			continue
		}
		// caught up: observe the two lookups for every hash of the chain and a few foreign keys
		if s.Mode == "direct" {
			runTip = s.Tip
		}
		lg.add(trace.M{"ev": "Caught", "tip": runTip})
		lg.add(trace.M{"ev": "Kv", "when": "caught-up", "dump": dec.Dump(inner)})
		for _, ev := range Lookups(r, n, idx, runTip, "caught-up") {
			lg.add(ev)
		}
		if res.Crashes == 0 {
			// an instance that never indexed anything itself (read-only use of the index, e.g. another process or a
			// JSON-RPC node started on an existing index database)
			ro := indexer.NewKVIndexer(inner, log.NewNopLogger(), ClientCtx(r, nil))
			for _, ev := range Lookups(r, n, ro, runTip, "read-only-instance") {
				lg.add(ev)
			}
		}
		if run == 0 && s.Earliest > 0 && len(s.Die) > 1 {
			continue // graceful stop, the node prunes, the service is started again
		}
		break
	}
	res.Final = dec.Dump(inner)
	res.Events = lg.ev
	return res
}

// Lookups queries the real indexer by hash for every Ethereum tx hash of the chain (and an unknown one)
// and by (height, index) for every height and index 0..4.
func Lookups(r *Rec, n *Names, idx *indexer.KVIndexer, tip int64, when string) []trace.M {
	var out []trace.M
	conv := func(h int64, txIdx uint32, ethIdx int32, failed bool) trace.M {
		return trace.M{"found": true, "r": trace.M{"h": h, "txIdx": int64(txIdx), "ethIdx": int64(ethIdx), "failed": failed}}
	}
	notfound := func() trace.M { return trace.M{"found": false, "r": noVal()} }
	hashes := append([]common.Hash{}, n.Hashes...)
	for _, h := range hashes {
		q := trace.M{"ev": "Lookup", "when": when, "by": "hash", "hash": n.TxKnown(h), "res": notfound()}
		if tr, err := idx.GetByTxHash(h); err == nil {
			q["res"] = conv(tr.Height, tr.TxIndex, tr.EthTxIndex, tr.Failed)
		}
		out = append(out, q)
	}
	q := trace.M{"ev": "Lookup", "when": when, "by": "hash", "hash": "unknown", "res": notfound()}
	if tr, err := idx.GetByTxHash(common.HexToHash("0xdeadbeef")); err == nil {
		q["res"] = conv(tr.Height, tr.TxIndex, tr.EthTxIndex, tr.Failed)
	}
	out = append(out, q)
	byRec := map[evertypes.TxResult]string{}
	for _, hh := range hashes {
		if t2, err := idx.GetByTxHash(hh); err == nil {
			byRec[*t2] = n.TxKnown(hh)
		}
	}
	for h := int64(1); h <= tip+1; h++ {
		lim := int32(2) // every index a tx of the block can have, and one or two beyond
		if rb, ok := r.Blocks[h]; ok {
			lim = int32(len(rb.Txs)) + 2
		}
		for i := int32(0); i < lim; i++ {
			q := trace.M{"ev": "Lookup", "when": when, "by": "index", "h": h, "i": int64(i), "res": notfound(), "hash": "none"}
			if tr, err := idx.GetByBlockAndIndex(h, i); err == nil {
				q["res"] = conv(tr.Height, tr.TxIndex, tr.EthTxIndex, tr.Failed)
				// which hash does the (height, index) key point to: read back through the by-hash family
				if tok, ok := byRec[*tr]; ok {
					q["hash"] = tok
				}
			}
			out = append(out, q)
		}
	}
	return out
}
