package rpc

import (
	"encoding/binary"
	"sync"

	sdkdb "github.com/cosmos/cosmos-db"
	"github.com/cosmos/cosmos-sdk/codec"
	"github.com/ethereum/go-ethereum/common"

	evertypes "github.com/EscanBE/evermint/v12/types"

	"verifharness/trace"
)

// Died is the panic value of a write attempted by a process that has been killed.
type Died struct{ AtOp int }

// CrashDB wraps the surviving store (a cosmos-db MemDB) of the indexer.  It counts physical write
// operations - Set/Delete on the database, Set/Delete on a batch, and the batch's Write - and kills
// the "process" (panics with Died) immediately before operation number DieBefore (1-based; 0 = never).
//
// Batch semantics are those of the wrapped MemDB, stated honestly: operations on a batch only
// accumulate in memory (lost when the process dies); Write applies all of them under the
// database lock, i.e. atomically, so there is no crash point inside Write.  Direct Set/Delete
// on the database are applied at once.  After death every operation panics again: a dead
// process writes nothing; the inner MemDB is what survives.
type CrashDB struct {
	sdkdb.DB // inner store: reads, iterators
	inner    sdkdb.DB

	mu        sync.Mutex
	DieBefore int
	Ops       int
	Dead      bool
	Log       func(trace.M) // one event per physical operation
	Dec       *KVDecoder
}

func NewCrashDB(inner sdkdb.DB, dieBefore int, dec *KVDecoder, log func(trace.M)) *CrashDB {
	return &CrashDB{DB: inner, inner: inner, DieBefore: dieBefore, Dec: dec, Log: log}
}

// op accounts for one physical operation; panics when the process is (or becomes) dead.
func (d *CrashDB) op() {
	d.mu.Lock()
	defer d.mu.Unlock()
	if d.Dead {
		panic(Died{d.Ops})
	}
	if d.DieBefore > 0 && d.Ops+1 == d.DieBefore {
		d.Dead = true
		d.Log(trace.M{"ev": "Crash", "afterOps": d.Ops})
		panic(Died{d.Ops})
	}
	d.Ops++
}

func (d *CrashDB) Set(k, v []byte) error {
	d.op()
	d.Log(trace.M{"ev": "PhysWrite", "batched": false, "w": d.Dec.Write(k, v)})
	return d.inner.Set(k, v)
}

func (d *CrashDB) SetSync(k, v []byte) error { return d.Set(k, v) }

func (d *CrashDB) Delete(k []byte) error {
	d.op()
	d.Log(trace.M{"ev": "PhysWrite", "batched": false, "w": d.Dec.Write(k, nil)})
	return d.inner.Delete(k)
}

func (d *CrashDB) DeleteSync(k []byte) error { return d.Delete(k) }

func (d *CrashDB) NewBatch() sdkdb.Batch {
	d.mu.Lock()
	dead := d.Dead
	d.mu.Unlock()
	if dead {
		panic(Died{d.Ops})
	}
	d.Log(trace.M{"ev": "BeginBatch"})
	return &crashBatch{d: d, b: d.inner.NewBatch()}
}

func (d *CrashDB) NewBatchWithSize(int) sdkdb.Batch { return d.NewBatch() }

type crashBatch struct {
	d *CrashDB
	b sdkdb.Batch
}

func (b *crashBatch) Set(k, v []byte) error {
	b.d.op()
	b.d.Log(trace.M{"ev": "PhysWrite", "batched": true, "w": b.d.Dec.Write(k, v)})
	return b.b.Set(k, v)
}

func (b *crashBatch) Delete(k []byte) error {
	b.d.op()
	b.d.Log(trace.M{"ev": "PhysWrite", "batched": true, "w": b.d.Dec.Write(k, nil)})
	return b.b.Delete(k)
}

func (b *crashBatch) Write() error {
	b.d.op()
	err := b.b.Write()
	if err == nil {
		b.d.Log(trace.M{"ev": "Flush"})
	}
	return err
}

func (b *crashBatch) WriteSync() error { return b.Write() }

// Close of an unwritten batch discards it (deferred by IndexBlock; also runs while the death panic unwinds).
func (b *crashBatch) Close() error              { return b.b.Close() }
func (b *crashBatch) GetByteSize() (int, error) { return b.b.GetByteSize() }

// KVDecoder turns physical keys/values of the indexer database into the tokens of the traces.
// It knows the physical layout (prefix 1: hash -> TxResult, prefix 2: (height, eth index) -> hash);
// the *meaning* is checked by the specification.
type KVDecoder struct {
	N   *Names
	Cdc codec.Codec
}

// noVal is the value slot of a write of the (height, index) family (TLC wants uniform record shapes).
func noVal() trace.M {
	return trace.M{"h": int64(0), "txIdx": int64(0), "ethIdx": int64(0), "failed": false}
}

// Write describes one physical key/value pair as a uniform record:
// fam "H": hash -> (h, txIdx, ethIdx, failed) ; fam "I": (h, i) -> hash ; fam "?": anything else.
func (kd *KVDecoder) Write(k, v []byte) trace.M {
	switch {
	case len(k) == 33 && k[0] == 1:
		var r evertypes.TxResult
		if err := kd.Cdc.Unmarshal(v, &r); err != nil {
			break
		}
		return trace.M{"fam": "H", "hash": kd.N.TxKnown(common.BytesToHash(k[1:])), "h": int64(0), "i": int64(0),
			"v": trace.M{"h": r.Height, "txIdx": int64(r.TxIndex), "ethIdx": int64(r.EthTxIndex), "failed": r.Failed}}
	case len(k) == 17 && k[0] == 2 && len(v) == 32:
		return trace.M{"fam": "I", "hash": kd.N.TxKnown(common.BytesToHash(v)), "h": trace.U(binary.BigEndian.Uint64(k[1:9])),
			"i": trace.U(binary.BigEndian.Uint64(k[9:17])), "v": noVal()}
	}
	return trace.M{"fam": "?", "hash": common.Bytes2Hex(k) + "=" + common.Bytes2Hex(v), "h": int64(0), "i": int64(0), "v": noVal()}
}

// Dump lists the whole content of the surviving store as [[key, value], ...] in key order.
func (kd *KVDecoder) Dump(db sdkdb.DB) []interface{} {
	it, err := db.Iterator(nil, nil)
	if err != nil {
		panic(err)
	}
	defer it.Close()
	out := []interface{}{}
	for ; it.Valid(); it.Next() {
		k := append([]byte{}, it.Key()...)
		v := append([]byte{}, it.Value()...)
		out = append(out, kd.Write(k, v))
	}
	return out
}
