package rpc

import (
	"fmt"
	"math/rand"
	"os"
	"sort"
	"strconv"
	"strings"

	sdk "github.com/cosmos/cosmos-sdk/types"
	banktypes "github.com/cosmos/cosmos-sdk/x/bank/types"
	"github.com/ethereum/go-ethereum/common"
	"github.com/ethereum/go-ethereum/crypto"

	"verifharness/chain"
	"verifharness/drivers"
	"verifharness/prog"
)

// The history generator of this family: blocks mixing Ethereum and Cosmos transactions of every
// outcome class.  It re-uses the contract menu and the transaction builder of the EthTx family
// (drivers.StdMenu, World.BuildEth); the dice below are a local copy of the unexported
// genEthSpec / genCosmosSend of drivers/ethtx.go, biased towards what C14 needs: blocks with
// several Ethereum txs, logs, failures outside the VM, block gas exhaustion, refused txs in
// front of executed ones, re-submission of refused txs in later blocks.

func freshAddr(i int) common.Address {
	return common.HexToAddress(fmt.Sprintf("0x00000000000000000000000000000000f4e5%04x", i))
}

func floorDec(s string) int64 {
	if i := strings.Index(s, "."); i >= 0 {
		s = s[:i]
	}
	n, _ := strconv.ParseInt(s, 10, 64)
	return n
}

func pick[T any](r *rand.Rand, xs ...T) T { return xs[r.Intn(len(xs))] }

func maxI(a, b int64) int64 {
	if a > b {
		return a
	}
	return b
}

// GenTx is one generated transaction.
type GenTx struct {
	Bz         []byte
	Eth        bool
	Hash       common.Hash
	From       string
	Aim        string
	Gas        uint64
	Type       int
	Price, Tip int64
}

// Gen is a chain under generation.
type Gen struct {
	W       *drivers.World
	Rec     *Rec
	R       *rand.Rand
	created int
	stratum int
	resend  []GenTx // refused txs that may be included again later
	calm    bool    // current block: valid txs only (to fill the block gas meter)
	// mixed-lane blocks: senders reserved for the failing Cosmos-lane txs, and "this Ethereum tx must simply execute"
	avoid      map[string]bool
	forceValid bool
}

// NewGen builds a fresh harness chain (small-magnitude genesis, standard contract menu).
func NewGen(seed int64, tid string, tbl *prog.Table) *Gen { return NewGenMaxGas(seed, tid, tbl, false) }

// NewGenMaxGas: unlimited=true switches the block gas limit off (chains with a big block).
func NewGenMaxGas(seed int64, tid string, tbl *prog.Table, unlimited bool) *Gen {
	r := rand.New(rand.NewSource(seed))
	maxGas := int64(-1)
	if r.Intn(5) < 2 && !unlimited {
		maxGas = int64(150000 + r.Intn(5)*50000)
	}
	// universe, genesis accounts and contract menu are those of the EthTx family (kept in one place: drivers.NewEthWorld)
	w, _ := drivers.NewEthWorld(tbl, r, tid, func(o *chain.Opts) {
		o.MaxGas = maxGas
		o.MinGasPrice = "0"
		if unlimited {
			// a chain with a big block must execute its txs: keep the EVM switched on whatever the shared dice said
			o.EvmDisableCall, o.EvmDisableCreate = false, false
		}
	})
	return &Gen{W: w, Rec: NewRec(w.C), R: r}
}

func sortedKeys(m map[string][]prog.Op) []string {
	var ks []string
	for k := range m {
		ks = append(ks, k)
	}
	sort.Strings(ks)
	return ks
}

const (
	nKinds = 4
	nPert  = 12 // 0..7 perturbations, 8..11 none
)

func (g *Gen) ethSpec(nextNonce map[string]uint64, baseFee int64) drivers.EthSpec {
	r, w := g.R, g.W
	g.stratum++
	forceKind, forcePert := -1, -1
	if g.stratum%3 == 0 {
		k := (g.stratum / 3) % (nKinds * nPert)
		forceKind, forcePert = k%nKinds, k/nKinds
	}
	i := r.Intn(len(w.C.Accts))
	for g.avoid[fmt.Sprintf("a%d", i)] {
		i = (i + 1) % len(w.C.Accts)
	}
	if g.forceValid {
		forceKind, forcePert = pick(r, 0, 2), 31
	}
	from := w.C.Accts[i]
	s := drivers.EthSpec{From: from, FromName: fmt.Sprintf("a%d", i), Signer: from, Chain: "ok", Tamper: "none", Shape: "ok", Init: "none", Runtime: "none", NewAddr: "none"}
	seq, ok := nextNonce[s.FromName]
	if !ok {
		seq = w.C.Seq(from.Addr)
	}
	s.Nonce = seq
	s.Type = r.Intn(3)
	s.AL = s.Type > 0 && r.Intn(3) == 0
	floor := maxI(baseFee, floorDec(w.C.Opts.MinGasPrice))
	s.Price = floor + int64(r.Intn(4))
	if s.Type == 2 {
		s.Tip = int64(r.Intn(4))
		s.Price = floor + int64(r.Intn(6))
	}
	kk := r.Intn(20)
	switch forceKind {
	case 0:
		kk = 0 // transfer
	case 1:
		kk = 3 // create
	case 2:
		kk = 6 // logger
	case 3:
		kk = 12 // any contract
	}
	switch k := kk; {
	case k < 3:
		s.To = pick(r, "a0", "a1", "a2", "a3", "x0", "x1", "z0", "c3", "c0")
		s.Value = int64(r.Intn(30))
		s.Gas = pick(r, uint64(21000), 21000, 30000, 60000)
	case k < 5:
		s.To = "create"
		s.Init = w.Tid + "_" + pick(r, "i0", "i1", "i2")
		s.Runtime = w.Tid + "_rt"
		s.Value = int64(r.Intn(3))
		s.Gas = pick(r, uint64(53000), 100000, 200000, 300000)
	case k < 10:
		s.To = "c1" // the logger: 0..4 logs, nested calls with and without reverted logs
		s.Sel = pick(r, "e0", "e1", "e2", "e3")
		s.Gas = pick(r, uint64(60000), 100000, 200000)
	default:
		ci := r.Intn(7)
		s.To = fmt.Sprintf("c%d", ci)
		s.Sel = pick(r, sortedKeys(w.T.Ops[w.Tid+"_"+s.To])...)
		s.Value = int64(r.Intn(8))
		s.Gas = pick(r, uint64(30000), 60000, 100000, 200000, 300000)
	}
	s.Class = "valid"
	pk := r.Intn(32)
	if forcePert >= 0 {
		pk = forcePert
	}
	if g.calm && r.Intn(5) != 0 {
		pk = 31
	}
	switch k := pk; {
	case k == 0:
		s.Nonce = seq + 1
		s.Class = "nonce-future"
	case k == 1 && seq > 0:
		s.Nonce = seq - 1
		s.Class = "nonce-stale"
	case k == 2:
		s.Signer = w.C.Accts[(i+1)%len(w.C.Accts)]
		s.Class = "signer-mismatch"
	case k == 3:
		s.Price = floor - 1
		s.Class = "price-below-floor"
	case k == 4:
		s.Value = 2_000_000_000
		s.Class = "value-above-balance"
	case k == 5:
		s.Gas = 20999
		s.Class = "gas-below-intrinsic"
	case k == 6:
		s.Gas = 2_000_000
		s.Class = "gas-huge"
	case k == 7 && s.To != "create":
		s.To, s.Sel, s.Gas = "c3", "e5", 200000 // SELFDESTRUCT to a module account
		s.Class = "destroy-to-module"
	}
	if s.To == "create" {
		na := crypto.CreateAddress(s.From.Addr, s.Nonce)
		if n, ok := w.U.ByAddr[na]; ok {
			s.NewAddr = n
		} else {
			s.NewAddr = fmt.Sprintf("n%d", g.created)
			g.created++
			w.U.Add(s.NewAddr, na)
		}
	}
	switch s.Class {
	case "valid", "value-above-balance", "gas-below-intrinsic", "gas-huge", "destroy-to-module":
		eff := s.Price
		if s.Type == 2 && s.Tip+baseFee < s.Price {
			eff = s.Tip + baseFee
		}
		if eff >= floor && w.C.Bal(from.Addr, chain.Denom).Int64() >= int64(s.Gas)*eff {
			nextNonce[s.FromName] = seq + 1
		}
	}
	return s
}

func (g *Gen) cosmosSend(nextNonce map[string]uint64, baseFee int64) GenTx {
	r, w := g.R, g.W
	i := r.Intn(len(w.C.Accts))
	from := w.C.Accts[i]
	fname := fmt.Sprintf("a%d", i)
	seq, ok := nextNonce[fname]
	if !ok {
		seq = w.C.Seq(from.Addr)
	}
	useSeq := seq
	if r.Intn(8) == 0 {
		useSeq = seq + 1
	}
	toName := pick(r, "a0", "a1", "a2", "x2", "c0")
	amount := int64(1 + r.Intn(50))
	if r.Intn(10) == 0 {
		amount = 2_000_000_000
	}
	gas := uint64(125000)
	aim := "cosmos"
	if r.Intn(4) == 0 {
		// runs out of its OWN gas limit (code 11 "out of gas", like a block gas overflow, but the block gas meter is fine)
		gas = uint64(30000 + r.Intn(30001))
		aim = "cosmos-own-gas"
	}
	price := baseFee + int64(r.Intn(3))
	msg := banktypes.NewMsgSend(from.Acc(), w.U.A(toName).Bytes(), sdk.NewCoins(sdk.NewInt64Coin(chain.Denom, amount)))
	bz, err := w.C.CosmosTx(from, []sdk.Msg{msg}, chain.CosmosTxOpts{Gas: gas, GasPrice: price, Seq: &useSeq})
	if err != nil {
		panic(err)
	}
	if useSeq == seq && gas >= 125000 && w.C.Bal(from.Addr, chain.Denom).Int64() >= int64(gas)*price {
		nextNonce[fname] = seq + 1
	}
	return GenTx{Bz: bz, Eth: false, From: fname, Aim: aim}
}

// cosmosFail builds a Cosmos-lane bank send from a reserved sender that fails in a chosen way, without touching the
// block gas meter's limit: "oog" (its own gas limit far below need => code 11), "funds" (amount above balance),
// "seq" (future sequence), "sig" (bad signature => unauthorized).
func (g *Gen) cosmosFail(kind string, i int, baseFee int64) GenTx {
	r, w := g.R, g.W
	from := w.C.Accts[i]
	seq := w.C.Seq(from.Addr)
	o := chain.CosmosTxOpts{Gas: 125000, GasPrice: baseFee + int64(r.Intn(3)), Seq: &seq}
	amount := int64(1 + r.Intn(50))
	switch kind {
	case "oog":
		o.Gas = uint64(30000 + r.Intn(30001))
	case "funds":
		amount = 2_000_000_000
	case "seq":
		s2 := seq + 1
		o.Seq = &s2
	case "sig":
		o.BadSig = true
	}
	msg := banktypes.NewMsgSend(from.Acc(), w.U.A(pick(r, "a0", "a1", "x2")).Bytes(), sdk.NewCoins(sdk.NewInt64Coin(chain.Denom, amount)))
	bz, err := w.C.CosmosTx(from, []sdk.Msg{msg}, o)
	if err != nil {
		panic(err)
	}
	return GenTx{Bz: bz, Eth: false, From: fmt.Sprintf("a%d", i), Aim: "cosmos-fail-" + kind}
}

// MixedLaneBlock: failing Cosmos-lane txs (own-gas out of gas first, then two other failure kinds) BEFORE, BETWEEN and AFTER
// Ethereum txs that simply execute, in one block: C E C E E C.  Three senders are reserved for the Cosmos lane so
// that the Ethereum txs' nonces are not disturbed.
func (g *Gen) MixedLaneBlock() (*RecBlock, []GenTx, bool) {
	r, c := g.R, g.W.C
	nextNonce := map[string]uint64{}
	baseFee := c.BaseFee().Int64()
	perm := r.Perm(len(c.Accts))
	g.avoid = map[string]bool{}
	for _, i := range perm[:3] {
		g.avoid[fmt.Sprintf("a%d", i)] = true
	}
	kinds := []string{"oog", "funds", "seq", "sig"}
	r.Shuffle(len(kinds), func(i, j int) { kinds[i], kinds[j] = kinds[j], kinds[i] })
	// the own-gas failure is the one a block-gas heuristic can mistake: put it in front in 2 of 3 blocks
	if r.Intn(3) != 0 {
		for i, k := range kinds {
			if k == "oog" {
				kinds[0], kinds[i] = kinds[i], kinds[0]
			}
		}
	}
	var txs []GenTx
	ci := 0
	g.forceValid = true
	for _, slot := range "CECEEC" {
		if slot == 'C' {
			txs = append(txs, g.cosmosFail(kinds[ci], perm[ci], baseFee))
			ci++
			continue
		}
		s := g.ethSpec(nextNonce, baseFee)
		bz, _, _, hash := g.W.BuildEth(s)
		txs = append(txs, GenTx{Bz: bz, Eth: true, Hash: hash, From: s.FromName, Aim: s.Class, Gas: s.Gas, Type: s.Type, Price: s.Price, Tip: s.Tip})
	}
	g.forceValid, g.avoid = false, nil
	var raw [][]byte
	var aims []string
	for _, t := range txs {
		raw = append(raw, t.Bz)
		aims = append(aims, t.Aim)
	}
	rb, ok := g.Rec.Deliver(raw, aims)
	return rb, txs, ok
}

// BigBlock generates and delivers one block with n Ethereum txs: mostly plain transfers and logger calls from the
// funded accounts (consecutive nonces per sender), with failing ones in between (refused: future nonce, bad signer,
// price below floor; admitted but failed outside the VM: value above balance, gas below intrinsic; VM errors).
func (g *Gen) BigBlock(n int) (*RecBlock, []GenTx, bool) {
	r, c := g.R, g.W.C
	nextNonce := map[string]uint64{}
	baseFee := c.BaseFee().Int64()
	var txs []GenTx
	g.calm = true
	for i := 0; i < n; i++ {
		s := g.ethSpec(nextNonce, baseFee)
		// keep the block cheap: transfers and logger calls only, modest gas limits
		if s.To == "create" || (s.To != "c1" && s.Sel != "") || s.Gas > 300000 {
			if s.Class == "valid" || s.Class == "gas-huge" || s.Class == "destroy-to-module" {
				s.To, s.Sel, s.Init, s.Runtime, s.NewAddr = pick(r, "a0", "a1", "a2", "x0", "c1"), "", "none", "none", "none"
				s.Value, s.Gas = int64(r.Intn(20)), pick(r, uint64(21000), 30000, 60000)
				if s.To == "c1" {
					s.Sel, s.Gas, s.Value = pick(r, "e0", "e1"), 100000, 0
				}
				s.Class = "valid"
			}
		}
		bz, _, _, hash := g.W.BuildEth(s)
		txs = append(txs, GenTx{Bz: bz, Eth: true, Hash: hash, From: s.FromName, Aim: s.Class, Gas: s.Gas, Type: s.Type, Price: s.Price, Tip: s.Tip})
	}
	g.calm = false
	var raw [][]byte
	var aims []string
	for _, t := range txs {
		raw = append(raw, t.Bz)
		aims = append(aims, t.Aim)
	}
	rb, ok := g.Rec.Deliver(raw, aims)
	if ok && os.Getenv("VH_RPC_DEBUG") != "" {
		for i, t := range txs {
			fmt.Fprintln(os.Stderr, "big", i, t.Aim, t.From, rb.Res.TxResults[i].Code, rb.Res.TxResults[i].Log)
		}
	}
	return rb, txs, ok
}

// NextBlock generates and delivers one block. Returns false when the chain halted.
func (g *Gen) NextBlock(maxTxs int) (*RecBlock, []GenTx, bool) {
	r, c := g.R, g.W.C
	n := r.Intn(maxTxs + 1)
	if r.Intn(8) == 0 {
		n = 0
	}
	g.calm = false
	if c.Opts.MaxGas > 0 && r.Intn(2) == 0 {
		g.calm = true
		n = 3 + r.Intn(4)
	}
	nextNonce := map[string]uint64{}
	baseFee := c.BaseFee().Int64()
	var txs []GenTx
	for i := 0; i < n; i++ {
		switch {
		case r.Intn(7) == 0:
			txs = append(txs, g.cosmosSend(nextNonce, baseFee))
		case len(g.resend) > 0 && r.Intn(4) == 0:
			// a tx refused earlier is included again (its nonce may fit now, or it is refused again)
			k := r.Intn(len(g.resend))
			t := g.resend[k]
			g.resend = append(g.resend[:k], g.resend[k+1:]...)
			t.Aim = "resend:" + t.Aim
			dup := false
			for _, x := range txs {
				if x.Hash == t.Hash {
					dup = true
				}
			}
			if !dup {
				txs = append(txs, t)
			}
		default:
			s := g.ethSpec(nextNonce, baseFee)
			bz, _, _, hash := g.W.BuildEth(s)
			txs = append(txs, GenTx{Bz: bz, Eth: true, Hash: hash, From: s.FromName, Aim: s.Class, Gas: s.Gas, Type: s.Type, Price: s.Price, Tip: s.Tip})
		}
	}
	var raw [][]byte
	var aims []string
	for _, t := range txs {
		raw = append(raw, t.Bz)
		aims = append(aims, t.Aim)
	}
	rb, ok := g.Rec.Deliver(raw, aims)
	if !ok {
		return nil, txs, false
	}
	for i, t := range txs {
		if t.Eth && rb.Res.TxResults[i].Code != 0 && (strings.HasPrefix(t.Aim, "nonce-future") || strings.Contains(rb.Res.TxResults[i].Log, "block gas")) && len(g.resend) < 4 {
			g.resend = append(g.resend, t)
		}
	}
	return rb, txs, true
}
