package rpc

import (
	"fmt"
	"strconv"
	"strings"

	abci "github.com/cometbft/cometbft/abci/types"
	"github.com/ethereum/go-ethereum/common"
	"github.com/ethereum/go-ethereum/common/hexutil"
	ethtypes "github.com/ethereum/go-ethereum/core/types"

	evmtypes "github.com/EscanBE/evermint/v12/x/evm/types"

	"verifharness/prog"
	"verifharness/trace"
)

// Names maps hashes and addresses of one recorded chain to the small tokens the traces use.
type Names struct {
	U      *prog.Universe
	tx     map[common.Hash]string
	blk    map[common.Hash]string
	nTx    int
	Hashes []common.Hash // every Ethereum tx hash met, in order of first appearance
}

func NewNames(u *prog.Universe) *Names {
	return &Names{U: u, tx: map[common.Hash]string{}, blk: map[common.Hash]string{}}
}

// Tx names a transaction hash (same hash, same token: a re-submitted tx keeps its name).
func (n *Names) Tx(h common.Hash) string {
	if t, ok := n.tx[h]; ok {
		return t
	}
	t := fmt.Sprintf("t%d", n.nTx)
	n.nTx++
	n.tx[h] = t
	n.Hashes = append(n.Hashes, h)
	return t
}

// TxKnown returns the token of a known hash or "?<hex>".
func (n *Names) TxKnown(h common.Hash) string {
	if t, ok := n.tx[h]; ok {
		return t
	}
	return "?" + h.Hex()[:12]
}

func (n *Names) Blk(h common.Hash) string {
	if t, ok := n.blk[h]; ok {
		return t
	}
	return "?" + h.Hex()[:12]
}

// SetBlk names a block hash.
func (n *Names) SetBlk(h common.Hash, tok string) { n.blk[h] = tok }

func (n *Names) Addr(a common.Address) string { return n.U.Name(a) }

func attr(ev abci.Event, key string) (string, bool) {
	for _, a := range ev.Attributes {
		if a.Key == key {
			return a.Value, true
		}
	}
	return "", false
}

func atoi(s string) int64 {
	n, err := strconv.ParseInt(s, 10, 64)
	if err != nil {
		panic(fmt.Errorf("consensus event attribute is not a number: %q", s))
	}
	return n
}

// LogSum is one log as the consensus receipt carries it.
func logSum(n *Names, lg *ethtypes.Log, logIndex, txIndex int64, h int64, txTok string) trace.M {
	return trace.M{"addr": n.Addr(lg.Address), "n": len(lg.Topics), "li": logIndex, "ti": txIndex, "h": h, "th": txTok}
}

// TxSummary derives the consensus facts about tx i of a block from its ExecTxResult alone
// (plus what the generator knows about the tx it built: lane, hash, declared sender, gas limit).
// Nothing here goes through rpc/backend, rpc/types or the indexer.
func TxSummary(n *Names, h int64, g GenTx, res *abci.ExecTxResult) trace.M {
	m := trace.M{"eth": g.Eth, "code": int64(0), "ethEvent": false, "evIdx": int64(-1), "rcpt": noRcpt(),
		"hash": "none", "from": g.From, "gas": trace.U(g.Gas), "type": g.Type, "price": g.Price, "tip": g.Tip, "resGas": clamp(res.GasUsed), "aim": g.Aim, "cls": "cosmos"}
	if res.Code != 0 {
		m["code"] = int64(1)
	}
	if !g.Eth {
		// Cosmos lane: class by result code (coverage only)
		switch {
		case res.Code == 0:
		case res.Code == 11 && strings.Contains(res.Log, "block gas"):
			m["cls"] = "cosmos-blockgas"
		case res.Code == 11:
			m["cls"] = "cosmos-own-gas-c11"
		default:
			m["cls"] = fmt.Sprintf("cosmos-fail-c%d", res.Code)
		}
		return m
	}
	tok := n.Tx(g.Hash)
	m["hash"] = tok
	for _, ev := range res.Events {
		switch ev.Type {
		case evmtypes.EventTypeEthereumTx:
			m["ethEvent"] = true
			if v, ok := attr(ev, evmtypes.AttributeKeyTxIndex); ok {
				m["evIdx"] = atoi(v)
			}
		case evmtypes.EventTypeTxReceipt:
			mar, _ := attr(ev, evmtypes.AttributeKeyReceiptMarshalled)
			rc := &ethtypes.Receipt{}
			if err := rc.UnmarshalBinary(hexutil.MustDecode(mar)); err != nil {
				panic(err)
			}
			r := trace.M{"present": true, "status": trace.U(rc.Status), "cum": trace.U(rc.CumulativeGasUsed)}
			v, _ := attr(ev, evmtypes.AttributeKeyReceiptGasUsed)
			r["gasUsed"] = atoi(v)
			v, _ = attr(ev, evmtypes.AttributeKeyReceiptTxIndex)
			txIdx := atoi(v)
			r["txIdx"] = txIdx
			v, _ = attr(ev, evmtypes.AttributeKeyReceiptEffectiveGasPrice)
			r["effPrice"] = atoi(v)
			v, _ = attr(ev, evmtypes.AttributeKeyReceiptBlockNumber)
			r["h"] = atoi(v)
			v, _ = attr(ev, evmtypes.AttributeKeyReceiptEvmTxHash)
			r["hash"] = n.TxKnown(common.HexToHash(v))
			ca, _ := attr(ev, evmtypes.AttributeKeyReceiptContractAddress)
			r["contract"] = "none"
			if ca != "" {
				r["contract"] = n.Addr(common.HexToAddress(ca))
			}
			_, vmErr := attr(ev, evmtypes.AttributeKeyReceiptVmError)
			r["vmErr"] = vmErr
			start := int64(0)
			if v, ok := attr(ev, evmtypes.AttributeKeyReceiptStartLogIndex); ok {
				start = atoi(v)
			}
			logs := []interface{}{}
			for k, lg := range rc.Logs {
				logs = append(logs, logSum(n, lg, start+int64(k), txIdx, h, tok))
			}
			r["logs"] = logs
			m["rcpt"] = r
		}
	}
	// outcome class (coverage only)
	switch {
	case res.Code == 0 && m["rcpt"].(trace.M)["present"] == true && m["rcpt"].(trace.M)["vmErr"] == false:
		m["cls"] = "ok"
	case res.Code == 0 && m["rcpt"].(trace.M)["present"] == true:
		m["cls"] = "vmerr"
	case res.Code == 0:
		m["cls"] = "code0-noreceipt"
	case m["ethEvent"] == true && strings.Contains(res.Log, "block gas meter"):
		m["cls"] = "blockgas"
	case m["ethEvent"] == true && strings.Contains(res.Log, "panic"):
		m["cls"] = "panic"
	case m["ethEvent"] == true:
		m["cls"] = "core"
	case strings.Contains(res.Log, "no block gas left"):
		m["cls"] = "dropped"
	default:
		m["cls"] = "ante"
	}
	return m
}

// noRcpt is the receipt slot of a tx whose result carries no tx_receipt event (uniform record shape for TLC).
func noRcpt() trace.M {
	return trace.M{"present": false, "status": int64(0), "cum": int64(0), "gasUsed": int64(0), "txIdx": int64(0), "effPrice": int64(0),
		"h": int64(0), "hash": "none", "contract": "none", "vmErr": false, "logs": []interface{}{}}
}

func clamp(g int64) int64 {
	if g < 0 || g >= trace.Limit {
		return trace.Limit - 1
	}
	return g
}
