// Package rpc is the conformance harness of property C14 (indexer + JSON-RPC views):
// it records real blocks and real FinalizeBlock results from a harness chain, serves them
// through a CometBFT RPC client stub, drives the real KVIndexer / EVMIndexerService over a
// crash-injecting database wrapper and the real rpc/backend, and logs everything for
// spec/TraceIndexer.tla.
package rpc

import (
	"fmt"

	abci "github.com/cometbft/cometbft/abci/types"
	cmtproto "github.com/cometbft/cometbft/proto/tendermint/types"
	cmtversion "github.com/cometbft/cometbft/proto/tendermint/version"
	cmttypes "github.com/cometbft/cometbft/types"
	"github.com/ethereum/go-ethereum/common"
	ethcrypto "github.com/ethereum/go-ethereum/crypto"

	"verifharness/chain"
)

// RecBlock is one block as CometBFT would store it: the block and the FinalizeBlock response.
type RecBlock struct {
	H     int64
	Txs   [][]byte
	Res   *abci.ResponseFinalizeBlock
	Block *cmttypes.Block
	ID    cmttypes.BlockID
	Aims  []string // what the generator intended per tx (coverage only, never an oracle)
}

// Rec is a recorded chain.
type Rec struct {
	C      *chain.Chain
	Blocks map[int64]*RecBlock
	First  int64
	Last   int64
	byHash map[string]int64
}

// NewRec starts recording on a chain whose block 1 (empty, run by chain.New) is synthesised.
func NewRec(c *chain.Chain) *Rec {
	r := &Rec{C: c, Blocks: map[int64]*RecBlock{}, First: 1, Last: 0, byHash: map[string]int64{}}
	// block 1 was delivered by chain.New without transactions; its response is not kept by the driver
	r.add(1, nil, &abci.ResponseFinalizeBlock{}, nil)
	return r
}

var fixedValHash = ethcrypto.Keccak256([]byte("verif-harness-validators"))

func (r *Rec) add(h int64, txs [][]byte, res *abci.ResponseFinalizeBlock, aims []string) *RecBlock {
	ctxs := make([]cmttypes.Tx, len(txs))
	for i, t := range txs {
		ctxs[i] = cmttypes.Tx(t)
	}
	blk := cmttypes.MakeBlock(h, ctxs, &cmttypes.Commit{}, nil)
	blk.Header.Version = cmtversion.Consensus{Block: 11}
	blk.Header.ChainID = chain.ChainID
	blk.Header.Time = chain.BlockTime(h)
	blk.Header.ValidatorsHash = fixedValHash
	blk.Header.NextValidatorsHash = fixedValHash
	if len(r.C.Vals) > 0 {
		blk.Header.ProposerAddress = cmttypes.Address(r.C.Vals[r.C.ProposerIdx%len(r.C.Vals)].ConsAddr)
	}
	if prev, ok := r.Blocks[h-1]; ok {
		blk.Header.LastBlockID = prev.ID
		blk.Header.AppHash = prev.Res.AppHash
	}
	id := cmttypes.BlockID{Hash: blk.Hash(), PartSetHeader: cmttypes.PartSetHeader{Total: 1, Hash: ethcrypto.Keccak256([]byte(fmt.Sprintf("parts%d", h)))}}
	rb := &RecBlock{H: h, Txs: txs, Res: res, Block: blk, ID: id, Aims: aims}
	r.Blocks[h] = rb
	r.byHash[string(id.Hash)] = h
	if h > r.Last {
		r.Last = h
	}
	return rb
}

// Deliver runs the next block on the real application and records block and results.
// ok=false when FinalizeBlock panicked or failed (the chain cannot go on).
func (r *Rec) Deliver(txs [][]byte, aims []string) (*RecBlock, bool) {
	bo := r.C.Deliver(txs...)
	if bo.Panic != nil || bo.Err != nil {
		return nil, false
	}
	return r.add(bo.Height, txs, bo.Res, aims), true
}

// BlockHash is the Ethereum-visible hash of block h.
func (r *Rec) BlockHash(h int64) common.Hash { return common.BytesToHash(r.Blocks[h].ID.Hash) }

// ConsParams as a CometBFT type.
func (r *Rec) ConsParams() cmttypes.ConsensusParams {
	p := cmttypes.DefaultConsensusParams()
	cp := r.C.ConsParams
	p.Block.MaxBytes, p.Block.MaxGas = cp.Block.MaxBytes, cp.Block.MaxGas
	p.Evidence.MaxAgeNumBlocks, p.Evidence.MaxAgeDuration, p.Evidence.MaxBytes = cp.Evidence.MaxAgeNumBlocks, cp.Evidence.MaxAgeDuration, cp.Evidence.MaxBytes
	p.Validator.PubKeyTypes = cp.Validator.PubKeyTypes
	return *p
}

var _ = cmtproto.Header{}
