package rpc

import (
	"fmt"
	"math/rand"
	"reflect"
	"strings"
	"sync"

	"verifharness/prog"
	"verifharness/trace"
)

// DriveOpts configures one conformance run.
type DriveOpts struct {
	Seed     int64
	Chains   int
	Blocks   int
	MaxTxs   int
	AllCrash bool // every crash point of every chain through the real service (else a sample per chain)
	Sample   int  // crash points per chain when !AllCrash
	Double   int  // schedules with a second crash during catch-up, per chain
	Workers  int
	Views    bool
	// the first Big chains contain one BIG block of BigMin..BigMax Ethereum txs; every crash point of that block is run
	Big, BigMin, BigMax int
}

// Stats of a run.
type Stats struct {
	Chains, Blocks, EthTxs, Schedules, Crashes, RpcQueries, Events int
	Classes                                                        map[string]int
	Pairs                                                          map[string]bool // distinct (block shape, crash position) pairs with >= 1 Ethereum tx
	ViewShapes                                                     map[string]bool // distinct block shapes with >= 1 admitted Ethereum tx seen through the RPC views
	GoMismatch                                                     int
	Stuck                                                          []string
	OwnGasBeforeEth                                                int   // executed Ethereum txs preceded in their block by a non-Ethereum tx that failed with code 11 from its own gas limit
	BigBlocks                                                      []int // Ethereum txs per big block
	BigCrashPoints                                                 int   // crash points enumerated inside big blocks
}

// ChainEvent is the first line of a chain's trace: the consensus facts of every block.
func ChainEvent(g *Gen, n *Names, tid string, gens map[int64][]GenTx, baseFees map[int64]int64) trace.M {
	r := g.Rec
	var blocks []interface{}
	for h := int64(1); h <= r.Last; h++ {
		rb := r.Blocks[h]
		n.SetBlk(r.BlockHash(h), fmt.Sprintf("b%d", h))
		txs := []interface{}{}
		for i, t := range gens[h] {
			txs = append(txs, TxSummary(n, h, t, rb.Res.TxResults[i]))
		}
		blocks = append(blocks, trace.M{"h": h, "bh": fmt.Sprintf("b%d", h), "baseFee": baseFees[h], "txs": txs})
	}
	return trace.M{"ev": "Chain", "tid": tid, "maxGas": g.W.C.Opts.MaxGas, "blocks": blocks}
}

func shapeOf(ev trace.M, h int64) string {
	for _, b := range ev["blocks"].([]interface{}) {
		bm := b.(trace.M)
		if bm["h"].(int64) == h {
			s := ""
			for _, t := range bm["txs"].([]interface{}) {
				s += t.(trace.M)["cls"].(string)[:2] + "."
			}
			return s
		}
	}
	return ""
}

// Drive generates chains and runs crash schedules and RPC view queries on each; events go to out.
func Drive(out *trace.W, o DriveOpts) Stats {
	st := Stats{Classes: map[string]int{}, Pairs: map[string]bool{}, ViewShapes: map[string]bool{}}
	for ci := 0; ci < o.Chains; ci++ {
		tbl := prog.NewTable()
		tid := fmt.Sprintf("c%d_%d", o.Seed, ci)
		g := NewGenMaxGas(o.Seed*1000003+int64(ci), tid, tbl, ci < o.Big)
		n := NewNames(g.W.U)
		gens := map[int64][]GenTx{}
		baseFees := map[int64]int64{1: g.W.C.BaseFee().Int64()}
		big := ci < o.Big
		bigH := int64(0)
		nBlocks := o.Blocks
		if big {
			nBlocks = 3 // small (until one Ethereum tx executed), BIG, small: the big block dominates the cost of every schedule
		}
		indexedSomething := false // big chains: the index must not be empty when the big block is reached (else D21 explains every crash)
		for b := 0; b < nBlocks; b++ {
			bf := g.W.C.BaseFee().Int64()
			var rb *RecBlock
			var txs []GenTx
			var ok bool
			if big && bigH == 0 && !indexedSomething && b >= 1 && b < 6 {
				nBlocks++ // one more small block in front
			}
			if big && bigH == 0 && (indexedSomething || b >= 6) {
				nBig := o.BigMin + g.R.Intn(o.BigMax-o.BigMin+1)
				rb, txs, ok = g.BigBlock(nBig)
				if ok {
					bigH = rb.H
					st.BigBlocks = append(st.BigBlocks, nBig)
				}
			} else if !big && b%4 == 1 {
				// failing Cosmos-lane txs (own-gas out of gas, funds, sequence, signature) before / between / after executing Ethereum txs
				rb, txs, ok = g.MixedLaneBlock()
			} else {
				rb, txs, ok = g.NextBlock(o.MaxTxs)
			}
			if !ok {
				break
			}
			gens[rb.H] = txs
			baseFees[rb.H] = bf
			ownGas := false // a non-Ethereum tx that ran out of its own gas limit (code 11, block gas meter not involved) seen in this block
			for i, t := range txs {
				res := rb.Res.TxResults[i]
				if t.Eth && res.Code == 0 {
					indexedSomething = true
					if ownGas {
						st.OwnGasBeforeEth++
						ownGas = false
					}
				}
				if !t.Eth && res.Code == 11 && !strings.Contains(res.Log, "block gas") {
					ownGas = true
				}
			}
		}
		r := g.Rec
		ce := ChainEvent(g, n, tid, gens, baseFees)
		out.Emit(ce)
		st.Chains++
		st.Blocks += int(r.Last)
		ethPerBlock := map[int64]int{}
		for _, b := range ce["blocks"].([]interface{}) {
			for _, t := range b.(trace.M)["txs"].([]interface{}) {
				tm := t.(trace.M)
				st.Classes[tm["cls"].(string)]++
				if tm["eth"].(bool) {
					st.EthTxs++
					ethPerBlock[b.(trace.M)["h"].(int64)]++
				}
			}
		}
		rr := rand.New(rand.NewSource(o.Seed*7919 + int64(ci)))

		// uninterrupted run of the real service from the first block on
		base := RunSched(r, n, Sched{ID: tid + "/plain", Start: 1, Tip: r.Last, Die: []int{0}, Mode: "service"})
		var scheds []Sched
		nOps := base.Ops
		pts := []int{}
		for k := 1; k <= nOps; k++ {
			pts = append(pts, k)
		}
		if !o.AllCrash && len(pts) > o.Sample {
			rr.Shuffle(len(pts), func(i, j int) { pts[i], pts[j] = pts[j], pts[i] })
			pts = pts[:o.Sample]
		}
		var bigDouble []Sched
		if bigH > 0 {
			// EVERY crash point of the big block: before each of its physical operations (as the uninterrupted run
			// issued them - an indexer flushing several times per block simply shows more operations here) and right after the last
			lo, hi := opsOfBlock(base.Events, bigH)
			have := map[int]bool{}
			for _, k := range pts {
				have[k] = true
			}
			for k := lo; k <= hi+1 && k <= nOps; k++ {
				if !have[k] {
					pts = append(pts, k)
				}
				st.BigCrashPoints++
			}
			if hi > lo+2 {
				// two crashes inside the big block
				k1 := lo + 1 + rr.Intn(hi-lo-1)
				bigDouble = append(bigDouble, Sched{ID: fmt.Sprintf("%s/bigdie%d+%d", tid, k1, 2), Start: 1, Tip: r.Last, Die: []int{k1, 1 + rr.Intn(hi-lo), 0}, Mode: "service"})
			}
		}
		for _, k := range pts {
			scheds = append(scheds, Sched{ID: fmt.Sprintf("%s/die%d", tid, k), Start: 1, Tip: r.Last, Die: []int{k, 0}, Mode: "service"})
		}
		scheds = append(scheds, bigDouble...)
		for d := 0; d < o.Double && nOps > 2; d++ {
			k1 := 1 + rr.Intn(nOps)
			k2 := 1 + rr.Intn(nOps)
			scheds = append(scheds, Sched{ID: fmt.Sprintf("%s/die%d+%d", tid, k1, k2), Start: 1, Tip: r.Last, Die: []int{k1, k2, 0}, Mode: "service"})
		}
		// service enabled later than genesis: the index covers the blocks after Start only
		if r.Last > 3 {
			s0 := 2 + rr.Int63n(r.Last-2)
			scheds = append(scheds, Sched{ID: fmt.Sprintf("%s/late%d", tid, s0), Start: s0, Tip: r.Last, Die: []int{0}, Mode: "service"})
		}
		// the node prunes its block store while the service is down: first catch up to t1, restart with blocks < e gone
		if r.Last >= 5 {
			t1 := 2 + rr.Int63n(r.Last-4)      // 2 .. Last-3
			e := t1 + 1 + rr.Int63n(r.Last-t1) // t1+1 .. Last (t1+1: pruned exactly up to the indexed point)
			if e > r.Last {
				e = r.Last
			}
			scheds = append(scheds, Sched{ID: fmt.Sprintf("%s/pruned%d-%d", tid, t1, e), Start: 1, Tip: r.Last, Tip1: t1, Earliest: e, Die: []int{0, 0}, Mode: "service"})
		}
		// direct drive of IndexBlock: every block twice; backwards; shuffled with repetitions
		var fwd2, bwd, shuf []int64
		for h := int64(1); h <= r.Last; h++ {
			fwd2 = append(fwd2, h, h)
			bwd = append(bwd, r.Last+1-h)
			shuf = append(shuf, h, h)
		}
		rr.Shuffle(len(shuf), func(i, j int) { shuf[i], shuf[j] = shuf[j], shuf[i] })
		scheds = append(scheds,
			Sched{ID: tid + "/twice", Start: 0, Tip: r.Last, Die: []int{0}, Mode: "direct", Order: fwd2},
			Sched{ID: tid + "/backward", Start: 0, Tip: r.Last, Die: []int{0}, Mode: "direct", Order: bwd},
			Sched{ID: tid + "/shuffled", Start: 0, Tip: r.Last, Die: []int{0}, Mode: "direct", Order: shuf})

		results := make([]SchedResult, len(scheds))
		var wg sync.WaitGroup
		sem := make(chan struct{}, o.Workers)
		for i := range scheds {
			wg.Add(1)
			sem <- struct{}{}
			go func(i int) {
				defer wg.Done()
				defer func() { <-sem }()
				results[i] = RunSched(r, n, scheds[i])
			}(i)
		}
		wg.Wait()
		emit := func(s Sched, res SchedResult) {
			for _, ev := range res.Events {
				out.Emit(ev)
			}
			same := reflect.DeepEqual(res.Final, base.Final)
			if (s.Start != 1 || s.Earliest > 0) && s.Mode == "service" {
				same = true // a later start / a pruned store indexes fewer blocks by definition; judged by the specification only
			}
			if s.Mode == "direct" {
				same = reflect.DeepEqual(res.Final, base.Final)
			}
			if !same {
				st.GoMismatch++
			}
			out.Emit(trace.M{"ev": "Compare", "id": s.ID, "sameAsUninterrupted": same})
			st.Schedules++
			st.Crashes += res.Crashes
			if res.Stuck != "" {
				st.Stuck = append(st.Stuck, s.ID+": "+res.Stuck)
			}
		}
		emit(Sched{ID: tid + "/plain", Start: 1, Mode: "service"}, base)
		for i, s := range scheds {
			emit(s, results[i])
			// distinct non-trivial pairs: (shape of the block being indexed when the process died, position of the death inside it)
			for _, ev := range results[i].Events {
				if ev["ev"] == "Crash" {
					h, pos := blockAtCrash(results[i].Events)
					if ethPerBlock[h] > 0 {
						st.Pairs[fmt.Sprintf("%s@%d", shapeOf(ce, h), pos)] = true
					}
					break
				}
			}
		}
		if o.Views {
			for _, b := range ce["blocks"].([]interface{}) {
				adm := false
				for _, t := range b.(trace.M)["txs"].([]interface{}) {
					switch t.(trace.M)["cls"].(string) {
					case "ok", "vmerr", "core", "panic", "blockgas":
						adm = true
					}
				}
				if adm {
					st.ViewShapes[shapeOf(ce, b.(trace.M)["h"].(int64))] = true
				}
			}
			for _, indexed := range []bool{true, false} {
				v := NewViews(r, n, indexed)
				v.Sample = big
				for _, ev := range v.QueryAll() {
					out.Emit(ev)
					st.RpcQueries++
				}
			}
		}
	}
	st.Events = out.N
	return st
}

// opsOfBlock: first and last physical operation number (1-based) issued while block h was being indexed.
func opsOfBlock(evs []trace.M, h int64) (lo, hi int) {
	op := 0
	var cur int64
	for _, ev := range evs {
		switch ev["ev"] {
		case "IndexBlock":
			cur = ev["h"].(int64)
		case "PhysWrite", "Flush":
			op++
			if cur == h {
				if lo == 0 {
					lo = op
				}
				hi = op
			}
		}
	}
	return lo, hi
}

// blockAtCrash: height being indexed at the first crash and the number of physical writes issued in its batch.
func blockAtCrash(evs []trace.M) (int64, int) {
	var h int64
	pos := 0
	for _, ev := range evs {
		switch ev["ev"] {
		case "IndexBlock":
			h = ev["h"].(int64)
			pos = 0
		case "PhysWrite":
			pos++
		case "Flush":
			pos = -1 // between two blocks
		case "Crash":
			return h, pos
		}
	}
	return h, pos
}
