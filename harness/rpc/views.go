package rpc

import (
	"context"
	"fmt"
	"os"
	"runtime/debug"

	"cosmossdk.io/log"
	sdkdb "github.com/cosmos/cosmos-db"
	"github.com/cosmos/cosmos-sdk/server"
	"github.com/ethereum/go-ethereum/common"
	"github.com/ethereum/go-ethereum/common/hexutil"
	ethtypes "github.com/ethereum/go-ethereum/core/types"
	ethfilters "github.com/ethereum/go-ethereum/eth/filters"

	"github.com/EscanBE/evermint/v12/indexer"
	"github.com/EscanBE/evermint/v12/rpc/backend"
	"github.com/EscanBE/evermint/v12/rpc/namespaces/ethereum/eth/filters"
	rpctypes "github.com/EscanBE/evermint/v12/rpc/types"

	"verifharness/trace"
)

// Views is the real rpc/backend.Backend over the recorded chain: CometBFT client = Stub,
// gRPC queries = ABCI queries against the real application, indexer = a real KVIndexer.
type Views struct {
	R   *Rec
	N   *Names
	B   *backend.Backend
	Idx *indexer.KVIndexer
	// Indexed: every block up to the tip has been given to IndexBlock (otherwise the index is empty
	// and the backend runs on its fallback paths).
	Indexed bool
	// Sample: chains with a big block - query every 4th hash and a handful of indices per block only
	Sample bool
}

// NewViews builds the backend; indexed=false leaves the KV index empty.
func NewViews(r *Rec, n *Names, indexed bool) *Views {
	stub := NewStub(r, r.Last)
	cctx := ClientCtx(r, stub).WithHeight(r.Last)
	sctx := server.NewDefaultContext()
	sctx.Viper.Set("telemetry.global-labels", []interface{}{})
	idx := indexer.NewKVIndexer(sdkdb.NewMemDB(), log.NewNopLogger(), cctx)
	if indexed {
		for h := int64(1); h <= r.Last; h++ {
			b := r.Blocks[h]
			if err := idx.IndexBlock(b.Block, b.Res.TxResults); err != nil {
				panic(err)
			}
		}
	}
	idx.Ready()
	b := backend.NewBackend(sctx, log.NewNopLogger(), cctx, idx)
	return &Views{R: r, N: n, B: b, Idx: idx, Indexed: indexed}
}

// results are uniform records for TLC: k = "val" | "null" | "err" | "panic"
func resVal(v interface{}) trace.M { return trace.M{"k": "val", "v": v, "msg": ""} }
func resNull() trace.M             { return trace.M{"k": "null", "v": 0, "msg": ""} }

func errTok(err error) trace.M {
	s := err.Error()
	if len(s) > 120 {
		s = s[:120]
	}
	return trace.M{"k": "err", "v": 0, "msg": s}
}

func u64(x uint64) int64 { return trace.U(x) }

func (v *Views) txObj(t *rpctypes.RPCTransaction) interface{} {
	if t == nil {
		return nil
	}
	m := trace.M{"hash": v.N.TxKnown(t.Hash), "from": v.N.Addr(t.From), "gas": u64(uint64(t.Gas)), "type": u64(uint64(t.Type)),
		"h": int64(-1), "idx": int64(-1), "bh": "none"}
	if t.BlockNumber != nil {
		m["h"] = trace.I(t.BlockNumber.ToInt())
	}
	if t.TransactionIndex != nil {
		m["idx"] = u64(uint64(*t.TransactionIndex))
	}
	if t.BlockHash != nil {
		m["bh"] = v.N.Blk(*t.BlockHash)
	}
	return m
}

func (v *Views) logObj(lg *ethtypes.Log) trace.M {
	return trace.M{"addr": v.N.Addr(lg.Address), "n": len(lg.Topics), "li": u64(uint64(lg.Index)), "ti": u64(uint64(lg.TxIndex)),
		"h": u64(lg.BlockNumber), "th": v.N.TxKnown(lg.TxHash), "bh": v.N.Blk(lg.BlockHash)}
}

func (v *Views) logList(ls []*ethtypes.Log) []interface{} {
	out := []interface{}{}
	for _, lg := range ls {
		out = append(out, v.logObj(lg))
	}
	return out
}

func (v *Views) rcptObj(r *rpctypes.RPCReceipt) interface{} {
	if r == nil {
		return nil
	}
	m := trace.M{"status": u64(uint64(r.Status)), "gasUsed": u64(uint64(r.GasUsed)), "cum": u64(uint64(r.CumulativeGasUsed)),
		"idx": u64(uint64(r.TransactionIndex)), "h": u64(uint64(r.BlockNumber)), "bh": v.N.Blk(r.BlockHash), "from": v.N.Addr(r.From),
		"hash": v.N.TxKnown(r.TransactionHash), "contract": "none", "logs": v.logList(r.Logs), "effPrice": int64(-1), "type": u64(uint64(r.Type)),
		"bloomOk": r.Bloom == ethtypes.CreateBloom(ethtypes.Receipts{&ethtypes.Receipt{Logs: r.Logs}})}
	if r.ContractAddress != nil {
		m["contract"] = v.N.Addr(*r.ContractAddress)
	}
	if r.EffectiveGasPrice != nil {
		m["effPrice"] = trace.I(r.EffectiveGasPrice.ToInt())
	}
	return m
}

func (v *Views) blockObj(b map[string]interface{}, full bool) interface{} {
	if b == nil {
		return nil
	}
	m := trace.M{"h": u64(uint64(b["number"].(hexutil.Uint64))), "bh": v.N.Blk(common.BytesToHash(b["hash"].(hexutil.Bytes))),
		"gasUsed": trace.I(b["gasUsed"].(*hexutil.Big).ToInt())}
	txs := []interface{}{}
	if l, ok := b["transactions"].([]interface{}); ok {
		for _, t := range l {
			switch x := t.(type) {
			case common.Hash:
				txs = append(txs, v.N.TxKnown(x))
			case *rpctypes.RPCTransaction:
				txs = append(txs, v.txObj(x))
			default:
				panic(fmt.Sprintf("unexpected tx entry %T", t))
			}
		}
	}
	m["txs"] = txs
	return m
}

func safely(out trace.M, f func() (interface{}, error)) {
	defer func() {
		if p := recover(); p != nil {
			if _, ok := p.(trace.ErrTooBig); ok {
				panic(p)
			}
			if os.Getenv("VH_RPC_STACK") != "" {
				fmt.Fprintf(os.Stderr, "PANIC in %v: %v\n%s\n", out["m"], p, debug.Stack())
			}
			out["res"] = trace.M{"k": "panic", "v": 0, "msg": fmt.Sprint(p)[:minI(120, len(fmt.Sprint(p)))]}
		}
	}()
	res, err := f()
	if err != nil {
		out["res"] = errTok(err)
		return
	}
	if res == nil {
		out["res"] = resNull()
		return
	}
	out["res"] = resVal(res)
}

func minI(a, b int) int {
	if a < b {
		return a
	}
	return b
}

// QueryAll runs every query of the property's observation points and returns one event per query.
// deep=false restricts the per-index queries to the interesting range.
func (v *Views) QueryAll() []trace.M {
	var out []trace.M
	q := func(m trace.M, f func() (interface{}, error)) {
		m["ev"] = "Rpc"
		m["indexed"] = v.Indexed
		safely(m, f)
		out = append(out, m)
	}
	b := v.B
	unknownHash := common.HexToHash("0xdeadbeef00000000000000000000000000000000000000000000000000000001")
	hashes := append([]common.Hash{}, v.N.Hashes...)
	for hi, h := range append(hashes, unknownHash) {
		h := h
		if v.Sample && hi%4 != 0 && h != unknownHash {
			continue
		}
		tok := v.N.TxKnown(h)
		if h == unknownHash {
			tok = "unknown"
		}
		q(trace.M{"m": "txByHash", "hash": tok}, func() (interface{}, error) {
			t, err := b.GetTransactionByHash(h)
			return v.txObj(t), err
		})
		q(trace.M{"m": "receipt", "hash": tok}, func() (interface{}, error) {
			r, err := b.GetTransactionReceipt(h)
			return v.rcptObj(r), err
		})
	}
	for h := int64(1); h <= v.R.Last+1; h++ {
		h := h
		nEth := 0
		bhTok := "unknown"
		bh := common.HexToHash(fmt.Sprintf("0xbadb10c%d", h))
		if rb, ok := v.R.Blocks[h]; ok {
			nEth = len(rb.Txs)
			bh = v.R.BlockHash(h)
			bhTok = v.N.Blk(bh)
		}
		for i := 0; i <= nEth+1; i++ {
			i := i
			if v.Sample && i > 2 && i%7 != 0 && i < nEth-15 {
				continue
			}
			q(trace.M{"m": "txByNumIdx", "h": h, "i": i}, func() (interface{}, error) {
				t, err := b.GetTransactionByBlockNumberAndIndex(rpctypes.BlockNumber(h), hexutil.Uint(i))
				return v.txObj(t), err
			})
			q(trace.M{"m": "txByHashIdx", "h": h, "bh": bhTok, "i": i}, func() (interface{}, error) {
				t, err := b.GetTransactionByBlockHashAndIndex(bh, hexutil.Uint(i))
				return v.txObj(t), err
			})
		}
		for _, full := range []bool{false, true} {
			full := full
			q(trace.M{"m": "blockByNum", "h": h, "full": full}, func() (interface{}, error) {
				blk, err := b.GetBlockByNumber(rpctypes.BlockNumber(h), full)
				return v.blockObj(blk, full), err
			})
		}
		q(trace.M{"m": "blockByHash", "h": h, "bh": bhTok, "full": true}, func() (interface{}, error) {
			blk, err := b.GetBlockByHash(bh, true)
			return v.blockObj(blk, true), err
		})
		q(trace.M{"m": "txCount", "h": h}, func() (interface{}, error) {
			n := b.GetBlockTransactionCountByNumber(rpctypes.BlockNumber(h))
			if n == nil {
				return nil, nil
			}
			return int64(*n), nil
		})
		q(trace.M{"m": "logsByHeight", "h": h}, func() (interface{}, error) {
			ls, err := b.GetLogsByHeight(&h)
			if err != nil {
				return nil, err
			}
			return v.logGroups(ls), nil
		})
		q(trace.M{"m": "logsByBlockHash", "h": h, "bh": bhTok}, func() (interface{}, error) {
			ls, err := b.GetLogs(bh)
			if err != nil {
				return nil, err
			}
			return v.logGroups(ls), nil
		})
		// eth_getLogs with a block hash criterion (rpc/namespaces/ethereum/eth/filters)
		q(trace.M{"m": "filterBlock", "h": h, "bh": bhTok}, func() (interface{}, error) {
			f := filters.NewBlockFilter(log.NewNopLogger(), b, ethfilters.FilterCriteria{BlockHash: &bh})
			ls, err := f.Logs(context.Background(), 10000, 10000)
			if err != nil {
				return nil, err
			}
			return v.logList(ls), nil
		})
	}
	// eth_getLogs over the whole chain, no address/topic criteria
	q(trace.M{"m": "filterRange", "from": int64(1), "to": v.R.Last}, func() (interface{}, error) {
		f := filters.NewRangeFilter(log.NewNopLogger(), b, 1, v.R.Last, nil, nil)
		ls, err := f.Logs(context.Background(), 10000, 10000)
		if err != nil {
			return nil, err
		}
		return v.logList(ls), nil
	})
	return out
}

func (v *Views) logGroups(ls [][]*ethtypes.Log) []interface{} {
	out := []interface{}{}
	for _, g := range ls {
		out = append(out, v.logList(g))
	}
	return out
}
