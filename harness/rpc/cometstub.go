package rpc

import (
	"context"
	"fmt"
	"sync"

	abci "github.com/cometbft/cometbft/abci/types"
	cmtbytes "github.com/cometbft/cometbft/libs/bytes"
	cmtrpcclient "github.com/cometbft/cometbft/rpc/client"
	ctypes "github.com/cometbft/cometbft/rpc/core/types"
	cmttypes "github.com/cometbft/cometbft/types"
)

// Stub is a CometBFT RPC client backed by a recorded chain and by the real application's
// Query path (gRPC queries of rpc/backend are ABCI queries against the harness app).
// Only what the indexer service and rpc/backend call is implemented; anything else hits the
// nil embedded interface and panics (so a new dependency is noticed, not silently faked).
type Stub struct {
	cmtrpcclient.Client // nil: unimplemented methods panic

	R *Rec

	mu       sync.Mutex
	tip      int64 // blocks 1..tip are "committed" (visible)
	earliest int64
	subs     map[string]chan ctypes.ResultEvent
	Calls    map[string]int
	served   map[int64]bool
	// OnResults is called when the block results of a height are served (the indexing service asks for
	// them immediately before it indexes the block).
	OnResults func(h int64)
}

// NewStub exposes blocks 1..tip of r.
func NewStub(r *Rec, tip int64) *Stub {
	return &Stub{R: r, tip: tip, earliest: 1, subs: map[string]chan ctypes.ResultEvent{}, Calls: map[string]int{}, served: map[int64]bool{}}
}

func (s *Stub) count(m string) {
	s.Calls[m]++
}

// SetTip makes further blocks visible and publishes their headers to subscribers, like the
// CometBFT event bus does after each commit.
func (s *Stub) SetTip(tip int64) {
	s.mu.Lock()
	old := s.tip
	s.tip = tip
	var chans []chan ctypes.ResultEvent
	for _, c := range s.subs {
		chans = append(chans, c)
	}
	s.mu.Unlock()
	for h := old + 1; h <= tip; h++ {
		ev := ctypes.ResultEvent{Data: cmttypes.EventDataNewBlockHeader{Header: s.R.Blocks[h].Block.Header}}
		for _, c := range chans {
			c <- ev
		}
	}
}

// ResultsServed tells whether BlockResults(h) has been answered.
func (s *Stub) ResultsServed(h int64) bool {
	s.mu.Lock()
	defer s.mu.Unlock()
	return s.served[h]
}

// SetEarliest prunes the block store: heights below e are not served any more.
func (s *Stub) SetEarliest(e int64) {
	s.mu.Lock()
	s.earliest = e
	s.mu.Unlock()
}

func (s *Stub) Earliest() int64 {
	s.mu.Lock()
	defer s.mu.Unlock()
	return s.earliest
}

func (s *Stub) Tip() int64 {
	s.mu.Lock()
	defer s.mu.Unlock()
	return s.tip
}

func (s *Stub) height(h *int64) (int64, error) {
	s.mu.Lock()
	defer s.mu.Unlock()
	if h == nil || *h == 0 {
		return s.tip, nil
	}
	if *h < s.earliest || *h > s.tip {
		return 0, fmt.Errorf("height %d is not available, lowest height is %d, current %d", *h, s.earliest, s.tip)
	}
	return *h, nil
}

func (s *Stub) Status(context.Context) (*ctypes.ResultStatus, error) {
	s.mu.Lock()
	defer s.mu.Unlock()
	s.count("Status")
	tipBlk := s.R.Blocks[s.tip]
	return &ctypes.ResultStatus{SyncInfo: ctypes.SyncInfo{
		LatestBlockHash: tipBlk.ID.Hash, LatestBlockHeight: s.tip, LatestBlockTime: tipBlk.Block.Time,
		EarliestBlockHeight: s.earliest, EarliestBlockTime: s.R.Blocks[s.earliest].Block.Time,
	}}, nil
}

func (s *Stub) Block(_ context.Context, height *int64) (*ctypes.ResultBlock, error) {
	h, err := s.height(height)
	if err != nil {
		return nil, err
	}
	b := s.R.Blocks[h]
	return &ctypes.ResultBlock{BlockID: b.ID, Block: b.Block}, nil
}

func (s *Stub) BlockByHash(_ context.Context, hash []byte) (*ctypes.ResultBlock, error) {
	s.mu.Lock()
	h, ok := s.R.byHash[string(hash)]
	tip := s.tip
	s.mu.Unlock()
	if !ok || h > tip {
		// CometBFT answers an unknown hash with an empty result, not an error
		return &ctypes.ResultBlock{BlockID: cmttypes.BlockID{}, Block: nil}, nil
	}
	b := s.R.Blocks[h]
	return &ctypes.ResultBlock{BlockID: b.ID, Block: b.Block}, nil
}

func (s *Stub) BlockResults(_ context.Context, height *int64) (*ctypes.ResultBlockResults, error) {
	h, err := s.height(height)
	if err != nil {
		return nil, err
	}
	b := s.R.Blocks[h]
	if s.OnResults != nil {
		s.OnResults(h)
	}
	s.mu.Lock()
	s.served[h] = true
	s.mu.Unlock()
	return &ctypes.ResultBlockResults{Height: h, TxsResults: b.Res.TxResults, FinalizeBlockEvents: b.Res.Events,
		ValidatorUpdates: b.Res.ValidatorUpdates, ConsensusParamUpdates: b.Res.ConsensusParamUpdates, AppHash: b.Res.AppHash}, nil
}

func (s *Stub) Header(_ context.Context, height *int64) (*ctypes.ResultHeader, error) {
	h, err := s.height(height)
	if err != nil {
		return nil, err
	}
	hd := s.R.Blocks[h].Block.Header
	return &ctypes.ResultHeader{Header: &hd}, nil
}

func (s *Stub) ConsensusParams(_ context.Context, height *int64) (*ctypes.ResultConsensusParams, error) {
	h, err := s.height(height)
	if err != nil {
		return nil, err
	}
	return &ctypes.ResultConsensusParams{BlockHeight: h, ConsensusParams: s.R.ConsParams()}, nil
}

func (s *Stub) UnconfirmedTxs(context.Context, *int) (*ctypes.ResultUnconfirmedTxs, error) {
	return &ctypes.ResultUnconfirmedTxs{}, nil
}

func (s *Stub) NumUnconfirmedTxs(context.Context) (*ctypes.ResultUnconfirmedTxs, error) {
	return &ctypes.ResultUnconfirmedTxs{}, nil
}

func (s *Stub) ABCIQuery(ctx context.Context, path string, data cmtbytes.HexBytes) (*ctypes.ResultABCIQuery, error) {
	return s.ABCIQueryWithOptions(ctx, path, data, cmtrpcclient.DefaultABCIQueryOptions)
}

// ABCIQueryWithOptions routes to the real application's Query (gRPC query router / store queries).
func (s *Stub) ABCIQueryWithOptions(ctx context.Context, path string, data cmtbytes.HexBytes, opts cmtrpcclient.ABCIQueryOptions) (*ctypes.ResultABCIQuery, error) {
	s.mu.Lock()
	defer s.mu.Unlock()
	res, err := s.R.C.App.Query(ctx, &abci.RequestQuery{Path: path, Data: data, Height: opts.Height, Prove: opts.Prove})
	if err != nil {
		return nil, err
	}
	return &ctypes.ResultABCIQuery{Response: *res}, nil
}

func (s *Stub) Subscribe(_ context.Context, subscriber, _ string, _ ...int) (<-chan ctypes.ResultEvent, error) {
	s.mu.Lock()
	defer s.mu.Unlock()
	c := make(chan ctypes.ResultEvent, 4096)
	s.subs[subscriber] = c
	return c, nil
}

func (s *Stub) Unsubscribe(_ context.Context, subscriber, _ string) error {
	s.mu.Lock()
	defer s.mu.Unlock()
	delete(s.subs, subscriber)
	return nil
}

func (s *Stub) UnsubscribeAll(_ context.Context, subscriber string) error {
	return s.Unsubscribe(context.Background(), subscriber, "")
}
