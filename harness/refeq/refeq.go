// Package refeq executes the same Ethereum transaction twice from the same pre-state and block context:
// through the real evermint application, and through go-ethereum's own state transition
// (core.ApplyMessage) over go-ethereum's own state database (core/state on a memory DB).
// Both outcomes are logged; spec/TraceRefEquiv.tla states which differences are permitted (C02).
package refeq

import (
	"crypto/sha256"
	"encoding/hex"
	"errors"
	"fmt"
	"math/big"
	"math/rand"
	"sort"
	"strings"

	cmtproto "github.com/cometbft/cometbft/proto/tendermint/types"
	sdk "github.com/cosmos/cosmos-sdk/types"
	"github.com/ethereum/go-ethereum/common"
	"github.com/ethereum/go-ethereum/core"
	"github.com/ethereum/go-ethereum/core/rawdb"
	"github.com/ethereum/go-ethereum/core/state"
	ethtypes "github.com/ethereum/go-ethereum/core/types"
	"github.com/ethereum/go-ethereum/core/vm"
	"github.com/ethereum/go-ethereum/crypto"

	evmtypes "github.com/EscanBE/evermint/v12/x/evm/types"

	"verifharness/asm"
	"verifharness/chain"
	"verifharness/obs"
	"verifharness/trace"
)

// NSlots storage slots the generated code uses (0..NSlots-1).
const NSlots = 4

func dg(b []byte) string {
	if len(b) == 0 {
		return "empty"
	}
	h := sha256.Sum256(b)
	return fmt.Sprintf("%d:%s", len(b), hex.EncodeToString(h[:6]))
}

func word(h common.Hash) string {
	if h == (common.Hash{}) {
		return "0"
	}
	b := new(big.Int).SetBytes(h.Bytes())
	if b.BitLen() < 31 {
		return b.String()
	}
	return "x" + hex.EncodeToString(h.Bytes())[:20] + ".." + fmt.Sprint(b.BitLen())
}

// Uni names addresses.
type Uni struct {
	names []string
	addr  map[string]common.Address
	name  map[common.Address]string
	nnew  int
}

func newUni() *Uni { return &Uni{addr: map[string]common.Address{}, name: map[common.Address]string{}} }

func (u *Uni) add(n string, a common.Address) {
	if _, ok := u.name[a]; ok {
		return
	}
	u.names = append(u.names, n)
	u.addr[n] = a
	u.name[a] = n
}

func (u *Uni) nameOf(a common.Address) string {
	if n, ok := u.name[a]; ok {
		return n
	}
	n := fmt.Sprintf("n%d", u.nnew)
	u.nnew++
	u.add(n, a)
	return n
}

func kaddr(i int) common.Address {
	return common.HexToAddress(fmt.Sprintf("0x00000000000000000000000000000000ce11%04x", i))
}

// ---------------------------------------------------------------------------------------------
// random bytecode
// ---------------------------------------------------------------------------------------------

type gen struct {
	r       *rand.Rand
	u       *Uni
	targets []common.Address // anything an address-taking opcode may name
	nk      int
}

func (g *gen) anyAddr() common.Address { return g.targets[g.r.Intn(len(g.targets))] }

// storeTop stores the value on top of the stack into a random slot.
func (g *gen) storeTop(a *asm.A) { a.PushU(uint64(g.r.Intn(NSlots))).Op(asm.SSTORE) }

func (g *gen) initCode(depth int) []byte {
	r := g.r
	switch r.Intn(7) {
	case 0: // constructor reverts after a write
		return asm.New().SStore(0, 1).Revert().Bytes()
	case 1: // self-destructs in the constructor
		return asm.New().SStore(1, 2).SelfDestruct(g.anyAddr()).Bytes()
	case 2: // writes storage, returns empty code
		return asm.New().SStore(uint64(r.Intn(NSlots)), uint64(1+r.Intn(2))).Log(1, 9).Bytes()
	case 3: // invalid
		return asm.New().Op(asm.INVALID).Bytes()
	default:
		pre := asm.New()
		if r.Intn(2) == 0 {
			pre.SStore(uint64(r.Intn(NSlots)), uint64(r.Intn(3)))
		}
		return asm.InitCodeFor(pre.B, g.body(depth+1, 2+r.Intn(3), -1))
	}
}

// body is a random straight-line program. self is the index of the contract it belongs to (-1 = created code).
func (g *gen) body(depth, n, self int) []byte {
	r := g.r
	a := asm.New()
	for i := 0; i < n; i++ {
		switch k := r.Intn(100); {
		case k < 14:
			a.SStore(uint64(r.Intn(NSlots)), uint64(r.Intn(3)))
		case k < 20:
			a.PushU(uint64(r.Intn(NSlots))).Op(asm.SLOAD)
			if r.Intn(2) == 0 {
				g.storeTop(a)
			} else {
				a.Op(asm.POP)
			}
		case k < 30:
			x := g.anyAddr()
			op := []byte{asm.BALANCE, asm.EXTCODESIZE, asm.EXTCODEHASH}[r.Intn(3)]
			a.PushA(x).Op(op)
			if r.Intn(3) == 0 {
				g.storeTop(a)
			} else {
				a.Op(asm.POP)
			}
		case k < 38:
			// environment: ADDRESS ORIGIN CALLER CALLVALUE GASPRICE COINBASE TIMESTAMP NUMBER GASLIMIT CHAINID SELFBALANCE BASEFEE GAS RETURNDATASIZE
			op := []byte{0x30, 0x32, 0x33, 0x34, 0x3a, 0x41, 0x42, 0x43, 0x45, 0x46, 0x47, 0x48, 0x5a, 0x3d}[r.Intn(14)]
			a.Op(op)
			if r.Intn(3) == 0 {
				g.storeTop(a)
			} else {
				a.Op(asm.POP)
			}
		case k < 46:
			a.Log(r.Intn(5), uint64(r.Intn(1000)))
		case k < 76 && depth < 3:
			kind := []byte{asm.CALL, asm.CALL, asm.CALLCODE, asm.DELEGATECALL, asm.STATICCALL}[r.Intn(5)]
			var to common.Address
			switch t := r.Intn(10); {
			case t < 6 && g.nk > 0:
				j := r.Intn(g.nk)
				if self >= 0 && j < self && r.Intn(4) != 0 {
					j = self + r.Intn(g.nk-self) // mostly forward or self: recursion ends by gas
				}
				to = kaddr(j)
			case t < 8:
				to = g.anyAddr()
			case t == 8:
				to = common.BytesToAddress([]byte{byte(1 + r.Intn(9))}) // standard precompiles
			default:
				to = common.BytesToAddress([]byte{0xbe, 0xef, byte(r.Intn(3))}) // non-existent
			}
			o := asm.CallOpts{Gas: []uint64{0, 0, 0, 2300, 9000, 30000, 70000}[r.Intn(7)], Data: []byte{byte(r.Intn(4))}}
			if (kind == asm.CALL || kind == asm.CALLCODE) && r.Intn(3) == 0 {
				o.Value = uint64(r.Intn(4))
			}
			switch r.Intn(4) {
			case 0:
				o.Store, o.StoreSlot = true, uint64(r.Intn(NSlots))
			case 1:
				o.Require = true
			}
			a.Call(kind, to, o)
			if r.Intn(4) == 0 {
				// the same call once more: the callee runs again on what its first run left behind in this transaction
				// (written slots, a self-destruct mark, warm addresses)
				a.Call(kind, to, o)
				if r.Intn(2) == 0 {
					// ... and look at what the callee holds now (a callee that destroyed itself twice must hold nothing)
					a.PushA(to).Op(asm.BALANCE)
					g.storeTop(a)
				}
			}
		case k < 84 && depth < 2:
			var salt *uint64
			if r.Intn(2) == 0 {
				s := uint64(r.Intn(3))
				salt = &s
			}
			var ss *uint64
			if r.Intn(3) == 0 {
				s := uint64(r.Intn(NSlots))
				ss = &s
			}
			a.Create(g.initCode(depth), uint64(r.Intn(3)), salt, ss)
		case k < 87:
			a.SelfDestruct(g.anyAddr())
			return a.Bytes()
		case k < 90:
			return a.Revert().Bytes()
		case k < 92:
			return a.Op(asm.INVALID).Bytes()
		case k < 95:
			return a.ReturnWord(uint64(r.Intn(100))).Bytes()
		default:
			a.PushU(uint64(r.Intn(50))).PushU(uint64(r.Intn(50))).Op(0x01, 0x50) // ADD POP
		}
	}
	return a.Bytes()
}

// ---------------------------------------------------------------------------------------------
// projection
// ---------------------------------------------------------------------------------------------

type acct struct {
	Nonce uint64
	Bal   *big.Int
	Code  []byte
	Stor  map[int]common.Hash
}

func (x acct) m() trace.M {
	st := trace.M{}
	for i := 0; i < NSlots; i++ {
		st[fmt.Sprintf("s%d", i)] = word(x.Stor[i])
	}
	return trace.M{"nonce": trace.U(x.Nonce), "bal": trace.I(x.Bal), "code": dg(x.Code), "stor": st}
}

func readEv(c *chain.Chain, ctx sdk.Context, a common.Address) acct {
	x := acct{Bal: c.App.BankKeeper.GetBalance(ctx, a.Bytes(), chain.Denom).Amount.BigInt(), Stor: map[int]common.Hash{}}
	if acc := c.App.AccountKeeper.GetAccount(ctx, a.Bytes()); acc != nil {
		x.Nonce = acc.GetSequence()
	}
	x.Code = c.App.EvmKeeper.GetCode(ctx, c.App.EvmKeeper.GetCodeHash(ctx, a.Bytes()))
	for i := 0; i < NSlots; i++ {
		x.Stor[i] = c.App.EvmKeeper.GetState(ctx, a, common.BigToHash(big.NewInt(int64(i))))
	}
	return x
}

func readRef(s *state.StateDB, a common.Address) acct {
	x := acct{Nonce: s.GetNonce(a), Bal: new(big.Int).Set(s.GetBalance(a)), Code: s.GetCode(a), Stor: map[int]common.Hash{}}
	for i := 0; i < NSlots; i++ {
		x.Stor[i] = s.GetState(a, common.BigToHash(big.NewInt(int64(i))))
	}
	return x
}

// refDB is go-ethereum's StateDB with the two permitted warmth differences applied to the REFERENCE side:
// registered custom precompiles and the coinbase are warm from the start.
type refDB struct {
	*state.StateDB
	extra []common.Address
}

func (r *refDB) PrepareAccessList(sender common.Address, dst *common.Address, precompiles []common.Address, list ethtypes.AccessList) {
	r.StateDB.PrepareAccessList(sender, dst, append(append([]common.Address{}, precompiles...), r.extra...), list)
}

func errClass(err error) string {
	if err == nil {
		return "ok"
	}
	s := err.Error()
	switch {
	case errors.Is(err, vm.ErrExecutionReverted) || strings.Contains(s, "execution reverted"):
		return "vmerr:revert"
	case errors.Is(err, vm.ErrOutOfGas) || strings.Contains(s, "out of gas") || strings.Contains(s, "gas uint64 overflow"):
		return "vmerr:oog"
	case strings.Contains(s, "invalid opcode"):
		return "vmerr:invalid-opcode"
	case strings.Contains(s, "write protection"):
		return "vmerr:write-protection"
	case strings.Contains(s, "contract address collision"):
		return "vmerr:collision"
	case strings.Contains(s, "max code size"), strings.Contains(s, "contract creation code storage out of gas"):
		return "vmerr:code-store"
	case strings.Contains(s, "insufficient balance for transfer"):
		return "vmerr:insufficient-balance"
	case strings.Contains(s, "stack"):
		return "vmerr:stack"
	case strings.Contains(s, "invalid jump"):
		return "vmerr:jump"
	case strings.Contains(s, "return data out of bounds"):
		return "vmerr:returndata"
	case strings.Contains(s, "depth"):
		return "vmerr:depth"
	case strings.Contains(s, "intrinsic gas"):
		return "rejected:intrinsic-gas"
	case strings.Contains(s, "insufficient funds"):
		return "rejected:insufficient-funds"
	case strings.Contains(s, "nonce too"):
		return "rejected:nonce"
	case strings.Contains(s, "fee cap less than block base fee"), strings.Contains(s, "max fee per gas less than block base fee"):
		return "rejected:fee-cap"
	case strings.Contains(s, "priority fee"):
		return "rejected:tip-above-cap"
	}
	return "other:" + s
}

// logsOf renders logs.
func logsOf(u *Uni, logs []*ethtypes.Log) []interface{} {
	out := []interface{}{}
	for _, l := range logs {
		var tb []byte
		for _, t := range l.Topics {
			tb = append(tb, t.Bytes()...)
		}
		out = append(out, trace.M{"addr": u.nameOf(l.Address), "nt": len(l.Topics), "topics": dg(tb), "data": dg(l.Data)})
	}
	return out
}

// ---------------------------------------------------------------------------------------------
// the driver
// ---------------------------------------------------------------------------------------------

// Opts of a run.
type Opts struct {
	Seed   int64
	Traces int
	Txs    int
}

// Run writes the traces.
func Run(out *trace.W, o Opts) map[string]int {
	obs.Install()
	stats := map[string]int{}
	for ti := 0; ti < o.Traces; ti++ {
		r := rand.New(rand.NewSource(o.Seed*999983 + int64(ti)))
		one(out, r, fmt.Sprintf("q%d_%d", o.Seed, ti), o.Txs, stats)
	}
	return stats
}

func one(out *trace.W, r *rand.Rand, tid string, ntx int, stats map[string]int) {
	u := newUni()
	co := chain.DefaultOpts()
	co.NAccts = 5
	co.BaseFee = int64(4 + r.Intn(8))
	co.MaxGas = -1
	for i := 0; i < co.NAccts; i++ {
		u.add(fmt.Sprintf("a%d", i), chain.NewAcct(fmt.Sprintf("a%d", i)).Addr)
	}
	nk := 4 + r.Intn(3)
	g := &gen{r: r, u: u, nk: nk}
	suicidal := false
	for i := 0; i < nk; i++ {
		u.add(fmt.Sprintf("k%d", i), kaddr(i))
	}
	u.add("zero", common.Address{})
	u.add("x0", common.BytesToAddress([]byte{0xbe, 0xef, 0}))
	u.add("x1", common.BytesToAddress([]byte{0xbe, 0xef, 1}))
	u.add("x2", common.BytesToAddress([]byte{0xbe, 0xef, 2}))
	for _, n := range u.names {
		g.targets = append(g.targets, u.addr[n])
	}
	g.targets = append(g.targets, common.BytesToAddress([]byte{2}), common.BytesToAddress([]byte{4}))
	for i := 0; i < nk; i++ {
		gc := chain.GenContract{Addr: kaddr(i), Code: g.body(0, 3+r.Intn(6), i), Bal: int64(r.Intn(50)), Storage: map[common.Hash]common.Hash{}}
		if i == nk-1 && r.Intn(2) == 0 {
			// reads and writes its (committed, non-zero) storage, then self-destructs: a second call in the same
			// transaction does the same on an account already marked destroyed
			pre := asm.New()
			for n := 1 + r.Intn(3); n > 0; n-- {
				if r.Intn(3) == 0 {
					pre.PushU(uint64(r.Intn(NSlots))).Op(asm.SLOAD)
					g.storeTop(pre)
				} else {
					pre.SStore(uint64(r.Intn(NSlots)), uint64(r.Intn(3)))
				}
			}
			gc.Code = pre.SelfDestruct(g.anyAddr()).Bytes()
			suicidal = true
		}
		for s := 0; s < NSlots; s++ {
			if r.Intn(2) == 0 {
				gc.Storage[common.BigToHash(big.NewInt(int64(s)))] = common.BigToHash(big.NewInt(int64(1 + r.Intn(2))))
			}
		}
		co.Contracts = append(co.Contracts, gc)
	}
	if suicidal && r.Intn(2) == 0 {
		// k0 pays the self-destructor twice in one transaction and records what it holds afterwards and what k0 has left
		last := kaddr(nk - 1)
		drv := asm.New().
			Call(asm.CALL, last, asm.CallOpts{Value: uint64(1 + r.Intn(3)), Data: []byte{0}}).
			Call(asm.CALL, last, asm.CallOpts{Value: uint64(1 + r.Intn(5)), Data: []byte{1}}).
			PushA(last).Op(asm.BALANCE)
		g.storeTop(drv)
		drv.Op(0x47) // SELFBALANCE
		g.storeTop(drv)
		co.Contracts[0].Code = drv.Bytes()
		co.Contracts[0].Bal = int64(20 + r.Intn(30))
		stats["double-self-destruct-driver"]++
	}
	if r.Intn(2) == 0 {
		// k2 creates a contract (CREATE2), looks at its code and calls it, then reverts the whole frame; k3 calls k2, swallows
		// the failure and then looks at the address itself: code size, code hash, a call into it - nothing may be left there
		rt := asm.New().ReturnWord(7).Bytes()
		init := asm.InitCodeFor(nil, rt)
		salt := uint64(5)
		var salt32 [32]byte
		salt32[31] = 5
		ghost := crypto.CreateAddress2(kaddr(2), salt32, crypto.Keccak256(init))
		slot := uint64(r.Intn(NSlots))
		k2 := asm.New().Create(init, 0, &salt, &slot).
			PushA(ghost).Op(asm.EXTCODESIZE).Op(asm.POP).
			Call(asm.CALL, ghost, asm.CallOpts{Data: []byte{0}}).
			Revert()
		k3 := asm.New().Call(asm.CALL, kaddr(2), asm.CallOpts{Data: []byte{0}}).
			PushA(ghost).Op(asm.EXTCODESIZE)
		g.storeTop(k3)
		k3.PushA(ghost).Op(asm.EXTCODEHASH)
		g.storeTop(k3)
		k3.Call(asm.CALL, ghost, asm.CallOpts{Data: []byte{0}, Store: true, StoreSlot: uint64(r.Intn(NSlots)), RetToMem: 32})
		k3.PushU(0x200).Op(0x51) // MLOAD of what the call returned
		g.storeTop(k3)
		co.Contracts[2].Code = k2.Bytes()
		co.Contracts[3].Code = k3.Bytes()
		u.add("ghost", ghost)
		g.targets = append(g.targets, ghost)
		stats["reverted-creation-driver"]++
	}
	c := chain.New(co)
	out.Emit(trace.M{"ev": "RefGenesis", "tid": tid, "baseFee": co.BaseFee})

	for i := 0; i < ntx; i++ {
		// ---- the transaction ----
		si := 1 + r.Intn(co.NAccts-1) // a0 is the proposer's operator = coinbase: never a sender
		from := c.Accts[si]
		nonce := c.Seq(from.Addr)
		baseFee := c.BaseFee().Int64()
		var to *common.Address
		var data []byte
		desc := trace.M{"from": fmt.Sprintf("a%d", si)}
		switch k := r.Intn(10); {
		case k < 6:
			a := kaddr(r.Intn(nk))
			to = &a
			data = []byte{byte(r.Intn(4))}
			desc["to"] = u.nameOf(a)
		case k < 8:
			data = g.initCode(0)
			desc["to"] = "create"
		default:
			a := g.anyAddr()
			to = &a
			desc["to"] = u.nameOf(a)
		}
		value := int64(0)
		if r.Intn(3) == 0 {
			value = int64(r.Intn(20))
		}
		if r.Intn(15) == 0 {
			value = 2_000_000_000 // more than the sender owns
		}
		gas := []uint64{21000, 22000, 25000, 30000, 40000, 53000, 60000, 80000, 100000, 150000, 250000, 400000}[r.Intn(12)]
		if to == nil && gas < 53000 && r.Intn(3) != 0 {
			gas = 60000 + uint64(r.Intn(200000))
		}
		var al ethtypes.AccessList
		typ := r.Intn(3)
		if typ > 0 {
			for n := r.Intn(3); n > 0; n-- {
				t := ethtypes.AccessTuple{Address: g.anyAddr()}
				for s := r.Intn(3); s > 0; s-- {
					t.StorageKeys = append(t.StorageKeys, common.BigToHash(big.NewInt(int64(r.Intn(NSlots)))))
				}
				al = append(al, t)
			}
		}
		price := baseFee + int64(r.Intn(4))
		tip := int64(r.Intn(4))
		var txd ethtypes.TxData
		switch typ {
		case 0:
			txd = &ethtypes.LegacyTx{Nonce: nonce, GasPrice: big.NewInt(price), Gas: gas, To: to, Value: big.NewInt(value), Data: data}
		case 1:
			txd = &ethtypes.AccessListTx{ChainID: big.NewInt(chain.EIP155), Nonce: nonce, GasPrice: big.NewInt(price), Gas: gas, To: to, Value: big.NewInt(value), Data: data, AccessList: al}
		default:
			txd = &ethtypes.DynamicFeeTx{ChainID: big.NewInt(chain.EIP155), Nonce: nonce, GasFeeCap: big.NewInt(price), GasTipCap: big.NewInt(tip), Gas: gas, To: to, Value: big.NewInt(value), Data: data, AccessList: al}
		}
		stx := chain.SignEth(from, txd, chain.EIP155)
		bz := c.WrapEth(chain.EthMsg(stx, from.Addr))
		desc["type"], desc["gas"], desc["value"], desc["nonce"], desc["al"] = typ, trace.U(gas), value, trace.U(nonce), len(al)

		// ---- pre-state and block context, as the application will see them ----
		h := c.Height + 1
		hdr := cmtproto.Header{Height: h, Time: chain.BlockTime(h), ChainID: chain.ChainID, ProposerAddress: c.Vals[0].ConsAddr}
		pre := c.App.BaseApp.NewContextLegacy(true, hdr)
		cfg, err := c.App.EvmKeeper.EVMConfig(pre, nil)
		if err != nil {
			panic(err)
		}
		// candidate addresses: the universe + what CREATE / CREATE2 could produce is discovered from the frames below
		preAccts := map[common.Address]acct{}
		snapshotUni := append([]string{}, u.names...)
		for _, n := range snapshotUni {
			preAccts[u.addr[n]] = readEv(c, pre, u.addr[n])
		}

		// ---- evermint ----
		obs.Drain()
		bo := c.Deliver(bz)
		if bo.Panic != nil || bo.Err != nil {
			out.Emit(trace.M{"ev": "RefTx", "tid": tid, "i": i, "desc": desc, "panic": true, "what": fmt.Sprint(bo.Panic, bo.Err)})
			stats["block-panic"]++
			return
		}
		var ex *obs.Exec
		for _, e := range obs.Drain() {
			if e.Mode == "deliver" && e.TxKey == obs.TxKey(bz) {
				ex = e
			}
		}
		res := bo.Res.TxResults[0]
		evm := trace.M{"class": "rejected", "ret": "none", "gasUsed": int64(0), "logs": []interface{}{}}
		var evLogs []*ethtypes.Log
		executed := false
		for _, ev := range res.Events {
			if ev.Type != evmtypes.EventTypeTxReceipt {
				continue
			}
			executed = true
			for _, at := range ev.Attributes {
				switch at.Key {
				case evmtypes.AttributeKeyReceiptMarshalled:
					rc := &ethtypes.Receipt{}
					if err := rc.UnmarshalBinary(common.FromHex(at.Value)); err != nil {
						panic(err)
					}
					evLogs = rc.Logs
				case evmtypes.AttributeKeyReceiptGasUsed:
					var n int64
					fmt.Sscan(at.Value, &n)
					evm["gasUsed"] = n
				}
			}
		}
		if executed {
			rsp, derr := evmtypes.DecodeTxResponse(res.Data)
			if derr != nil {
				panic(derr)
			}
			cls := "ok"
			if rsp.VmError != "" {
				cls = errClass(errors.New(rsp.VmError))
			}
			evm["class"] = cls
			evm["ret"] = dg(rsp.Ret)
		} else if res.Code != 0 {
			evm["class"] = classifyRejection(res.Log)
		}
		// addresses the execution created or reached
		if ex != nil && ex.Root != nil {
			var walk func(f *obs.Frame)
			walk = func(f *obs.Frame) {
				u.nameOf(f.To)
				for _, ch := range f.Children {
					walk(ch)
				}
			}
			walk(ex.Root)
		}

		// ---- go-ethereum ----
		sdb, err := state.New(common.Hash{}, state.NewDatabase(rawdb.NewMemoryDatabase()), nil)
		if err != nil {
			panic(err)
		}
		for a, x := range preAccts {
			if x.Nonce == 0 && x.Bal.Sign() == 0 && len(x.Code) == 0 && !c.App.AccountKeeper.HasAccount(pre, a.Bytes()) {
				continue
			}
			sdb.CreateAccount(a)
			sdb.SetNonce(a, x.Nonce)
			sdb.SetBalance(a, new(big.Int).Set(x.Bal))
			if len(x.Code) > 0 {
				sdb.SetCode(a, x.Code)
			}
			for s, v := range x.Stor {
				if v != (common.Hash{}) {
					sdb.SetState(a, common.BigToHash(big.NewInt(int64(s))), v)
				}
			}
		}
		root, err := sdb.Commit(false)
		if err != nil {
			panic(err)
		}
		sdb, err = state.New(root, sdb.Database(), nil)
		if err != nil {
			panic(err)
		}
		var extra []common.Address
		for _, m := range c.App.CPCKeeper.GetAllCustomPrecompiledContractsMeta(pre) {
			extra = append(extra, common.BytesToAddress(m.Address))
		}
		extra = append(extra, cfg.CoinBase)
		rdb := &refDB{StateDB: sdb, extra: extra}
		signer := ethtypes.MakeSigner(cfg.ChainConfig, big.NewInt(h))
		msg, err := stx.AsMessage(signer, cfg.BaseFee)
		if err != nil {
			panic(err)
		}
		blockCtx := vm.BlockContext{CanTransfer: core.CanTransfer, Transfer: core.Transfer, GetHash: func(uint64) common.Hash { return common.Hash{} },
			Coinbase: cfg.CoinBase, GasLimit: ^uint64(0), BlockNumber: big.NewInt(h), Time: big.NewInt(chain.BlockTime(h).Unix()),
			Difficulty: big.NewInt(0), BaseFee: cfg.BaseFee}
		rec := &refTracer{}
		sdb.Prepare(stx.Hash(), 0)
		gevm := vm.NewEVM(blockCtx, core.NewEVMTxContext(msg), rdb, cfg.ChainConfig, vm.Config{ExtraEips: cfg.Params.EIPs(), Debug: true, Tracer: rec})
		rres, rerr := core.ApplyMessage(gevm, msg, new(core.GasPool).AddGas(^uint64(0)))
		ref := trace.M{"class": "rejected", "ret": "none", "gasUsed": int64(0), "logs": []interface{}{}}
		if rerr != nil {
			ref["class"] = errClass(rerr)
		} else {
			sdb.Finalise(true)
			ref["class"] = errClass(rres.Err)
			ref["ret"] = dg(rres.ReturnData)
			ref["gasUsed"] = trace.U(rres.UsedGas)
			ref["logs"] = logsOf(u, sdb.GetLogs(stx.Hash(), common.Hash{}))
			if rres.Err != nil {
				ref["logs"] = []interface{}{}
			}
		}
		for _, a := range rec.seen {
			u.nameOf(a)
		}
		evm["logs"] = logsOf(u, evLogs)

		// ---- post-states over the (grown) universe ----
		post := c.Ctx()
		evPost, refPost := trace.M{}, trace.M{}
		names := append([]string{}, u.names...)
		sort.Strings(names)
		for _, n := range names {
			evPost[n] = readEv(c, post, u.addr[n]).m()
			if rerr == nil {
				refPost[n] = readRef(sdb, u.addr[n]).m()
			} else {
				x, ok := preAccts[u.addr[n]]
				if !ok {
					x = acct{Bal: big.NewInt(0), Stor: map[int]common.Hash{}}
				}
				refPost[n] = x.m()
			}
		}
		evm["post"], ref["post"] = evPost, refPost
		effTip := new(big.Int).Sub(msg.GasPrice(), cfg.BaseFee)
		out.Emit(trace.M{"ev": "RefTx", "tid": tid, "i": i, "desc": desc, "panic": false, "evm": evm, "ref": ref,
			"coinbase": u.nameOf(cfg.CoinBase), "tip": trace.I(effTip), "log": trunc(res.Log, 120)})
		stats["txs"]++
		stats["class."+fmt.Sprint(evm["class"])]++
	}
	stats["traces"]++
}

func trunc(s string, n int) string {
	if len(s) > n {
		return s[:n]
	}
	return s
}

func frameErr(e string) string {
	switch {
	case e == "revert":
		return "revert"
	case e == "oog":
		return "oog"
	case e == "writeprot":
		return "write-protection"
	case e == "balance":
		return "insufficient-balance"
	case e == "depth":
		return "depth"
	case strings.HasPrefix(e, "other:"):
		return strings.TrimPrefix(errClass(errors.New(strings.TrimPrefix(e, "other:"))), "vmerr:")
	}
	return e
}

func classifyRejection(log string) string {
	c := errClass(errors.New(log))
	if strings.HasPrefix(c, "rejected:") {
		return c
	}
	return "rejected"
}

// refTracer records the addresses go-ethereum's run reached (so that both post-states are read over the same set).
type refTracer struct {
	seen []common.Address
}

func (t *refTracer) CaptureTxStart(uint64) {}
func (t *refTracer) CaptureTxEnd(uint64)   {}
func (t *refTracer) CaptureStart(_ *vm.EVM, _ common.Address, to common.Address, _ bool, _ []byte, _ uint64, _ *big.Int) {
	t.seen = append(t.seen, to)
}
func (t *refTracer) CaptureEnd([]byte, uint64, timeDuration, error) {}
func (t *refTracer) CaptureEnter(_ vm.OpCode, _ common.Address, to common.Address, _ []byte, _ uint64, _ *big.Int) {
	t.seen = append(t.seen, to)
}
func (t *refTracer) CaptureExit([]byte, uint64, error) {}
func (t *refTracer) CaptureState(uint64, vm.OpCode, uint64, uint64, *vm.ScopeContext, []byte, int, error) {
}
func (t *refTracer) CaptureFault(uint64, vm.OpCode, uint64, uint64, *vm.ScopeContext, int, error) {}

var _ = crypto.Keccak256
