package refeq

import "time"

type timeDuration = time.Duration
