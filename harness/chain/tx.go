package chain

import (
	"context"
	"fmt"
	"math/big"

	sdkmath "cosmossdk.io/math"
	"github.com/cosmos/cosmos-sdk/client"
	codectypes "github.com/cosmos/cosmos-sdk/codec/types"
	sdk "github.com/cosmos/cosmos-sdk/types"
	"github.com/cosmos/cosmos-sdk/types/tx/signing"
	authsigning "github.com/cosmos/cosmos-sdk/x/auth/signing"
	"github.com/ethereum/go-ethereum/common"
	ethtypes "github.com/ethereum/go-ethereum/core/types"

	evmtypes "github.com/EscanBE/evermint/v12/x/evm/types"
)

// Signer returns the go-ethereum signer for a chain id.
func Signer(chainID int64) ethtypes.Signer {
	return ethtypes.LatestSignerForChainID(big.NewInt(chainID))
}

// SignEth signs txdata with a's key for chainID (0 = unprotected homestead signature).
func SignEth(a *Acct, txdata ethtypes.TxData, chainID int64) *ethtypes.Transaction {
	priv, err := a.Priv.ToECDSA()
	if err != nil {
		panic(err)
	}
	var signer ethtypes.Signer
	if chainID == 0 {
		signer = ethtypes.HomesteadSigner{}
	} else {
		signer = Signer(chainID)
	}
	stx, err := ethtypes.SignTx(ethtypes.NewTx(txdata), signer, priv)
	if err != nil {
		panic(err)
	}
	return stx
}

// EthMsg wraps a signed Ethereum transaction in MsgEthereumTx with the declared sender.
// No validation: the harness must be able to build transactions the chain has to refuse.
func EthMsg(stx *ethtypes.Transaction, from common.Address) *evmtypes.MsgEthereumTx {
	bz, err := stx.MarshalBinary()
	if err != nil {
		panic(err)
	}
	return &evmtypes.MsgEthereumTx{MarshalledTx: bz, From: sdk.AccAddress(from.Bytes()).String()}
}

// WrapEth builds the cosmos transaction bytes around msg the way clients do.
func (c *Chain) WrapEth(msg *evmtypes.MsgEthereumTx) []byte {
	tx, err := msg.BuildTx(c.Enc.TxConfig.NewTxBuilder(), Denom)
	if err != nil {
		panic(err)
	}
	bz, err := c.Enc.TxConfig.TxEncoder()(tx)
	if err != nil {
		panic(err)
	}
	return bz
}

// EthTx = sign + wrap, correct chain id and sender.
func (c *Chain) EthTx(a *Acct, txdata ethtypes.TxData) []byte {
	return c.WrapEth(EthMsg(SignEth(a, txdata, EIP155), a.Addr))
}

// EthTxH also returns the Ethereum tx hash.
func (c *Chain) EthTxH(a *Acct, txdata ethtypes.TxData) ([]byte, common.Hash) {
	stx := SignEth(a, txdata, EIP155)
	return c.WrapEth(EthMsg(stx, a.Addr)), stx.Hash()
}

// CosmosTxOpts tune a Cosmos-lane transaction.
type CosmosTxOpts struct {
	Gas            uint64
	GasPrice       int64     // fee = Gas*GasPrice of Denom
	Fee            sdk.Coins // overrides GasPrice when non-nil
	Seq            *uint64   // default: current sequence
	AccNum         *uint64
	Memo           string
	Timeout        uint64
	BadSig         bool
	NoSig          bool
	ExtOpts        []*codectypes.Any
	NonCritExt     []*codectypes.Any
	Payer, Granter sdk.AccAddress
	ChainID        string
}

// CosmosTx builds and signs (SIGN_MODE_DIRECT) a Cosmos-lane transaction.
func (c *Chain) CosmosTx(a *Acct, msgs []sdk.Msg, o CosmosTxOpts) ([]byte, error) {
	b := c.Enc.TxConfig.NewTxBuilder()
	if err := b.SetMsgs(msgs...); err != nil {
		return nil, err
	}
	if o.Gas == 0 {
		o.Gas = 300000
	}
	b.SetGasLimit(o.Gas)
	if o.Fee != nil {
		b.SetFeeAmount(o.Fee)
	} else {
		b.SetFeeAmount(sdk.NewCoins(sdk.NewCoin(Denom, sdkmath.NewIntFromUint64(o.Gas).MulRaw(o.GasPrice))))
	}
	b.SetMemo(o.Memo)
	b.SetTimeoutHeight(o.Timeout)
	if o.Payer != nil {
		b.SetFeePayer(o.Payer)
	}
	if o.Granter != nil {
		b.SetFeeGranter(o.Granter)
	}
	if len(o.ExtOpts) > 0 || len(o.NonCritExt) > 0 {
		eb, ok := b.(interface {
			SetExtensionOptions(...*codectypes.Any)
			SetNonCriticalExtensionOptions(...*codectypes.Any)
		})
		if !ok {
			return nil, fmt.Errorf("builder has no extension options")
		}
		if len(o.ExtOpts) > 0 {
			eb.SetExtensionOptions(o.ExtOpts...)
		}
		if len(o.NonCritExt) > 0 {
			eb.SetNonCriticalExtensionOptions(o.NonCritExt...)
		}
	}
	if o.NoSig {
		return c.Enc.TxConfig.TxEncoder()(b.GetTx())
	}
	ctx := c.Ctx()
	var seq, accNum uint64
	if acc := c.App.AccountKeeper.GetAccount(ctx, a.Acc()); acc != nil {
		seq, accNum = acc.GetSequence(), acc.GetAccountNumber()
	}
	if o.Seq != nil {
		seq = *o.Seq
	}
	if o.AccNum != nil {
		accNum = *o.AccNum
	}
	chainID := ChainID
	if o.ChainID != "" {
		chainID = o.ChainID
	}
	return signDirect(c.Enc.TxConfig, b, a, chainID, accNum, seq, o.BadSig)
}

func signDirect(txc client.TxConfig, b client.TxBuilder, a *Acct, chainID string, accNum, seq uint64, bad bool) ([]byte, error) {
	mode := signing.SignMode_SIGN_MODE_DIRECT
	sig := signing.SignatureV2{PubKey: a.Priv.PubKey(), Data: &signing.SingleSignatureData{SignMode: mode}, Sequence: seq}
	if err := b.SetSignatures(sig); err != nil {
		return nil, err
	}
	sd := authsigning.SignerData{Address: a.Acc().String(), ChainID: chainID, AccountNumber: accNum, Sequence: seq, PubKey: a.Priv.PubKey()}
	bytesToSign, err := authsigning.GetSignBytesAdapter(context.Background(), txc.SignModeHandler(), mode, sd, b.GetTx())
	if err != nil {
		return nil, err
	}
	sigBytes, err := a.Priv.Sign(bytesToSign)
	if err != nil {
		return nil, err
	}
	if bad {
		sigBytes[5] ^= 0x40
	}
	sig.Data = &signing.SingleSignatureData{SignMode: mode, Signature: sigBytes}
	if err := b.SetSignatures(sig); err != nil {
		return nil, err
	}
	return txc.TxEncoder()(b.GetTx())
}
