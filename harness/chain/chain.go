// Package chain is the ABCI driver of the conformance harness: it builds a real
// evermint application on a MemDB from a small-magnitude genesis (every number the
// TLA+ trace specifications see stays below 2^31), feeds it blocks, and reads the
// state back through the public keepers.
package chain

import (
	"encoding/hex"
	"encoding/json"
	"fmt"
	"math/big"
	"sort"
	"time"

	"cosmossdk.io/log"
	sdkmath "cosmossdk.io/math"
	abci "github.com/cometbft/cometbft/abci/types"
	cmtproto "github.com/cometbft/cometbft/proto/tendermint/types"
	cmttypes "github.com/cometbft/cometbft/types"
	sdkdb "github.com/cosmos/cosmos-db"
	"github.com/cosmos/cosmos-sdk/baseapp"
	codectypes "github.com/cosmos/cosmos-sdk/codec/types"
	"github.com/cosmos/cosmos-sdk/crypto/keys/ed25519"
	simtestutil "github.com/cosmos/cosmos-sdk/testutil/sims"
	sdk "github.com/cosmos/cosmos-sdk/types"
	authtypes "github.com/cosmos/cosmos-sdk/x/auth/types"
	banktypes "github.com/cosmos/cosmos-sdk/x/bank/types"
	distrtypes "github.com/cosmos/cosmos-sdk/x/distribution/types"
	govtypes "github.com/cosmos/cosmos-sdk/x/gov/types"
	minttypes "github.com/cosmos/cosmos-sdk/x/mint/types"
	slashingtypes "github.com/cosmos/cosmos-sdk/x/slashing/types"
	stakingtypes "github.com/cosmos/cosmos-sdk/x/staking/types"
	"github.com/ethereum/go-ethereum/common"
	ethcrypto "github.com/ethereum/go-ethereum/crypto"

	chainapp "github.com/EscanBE/evermint/v12/app"
	"github.com/EscanBE/evermint/v12/app/params"
	"github.com/EscanBE/evermint/v12/constants"
	"github.com/EscanBE/evermint/v12/crypto/ethsecp256k1"
	cpctypes "github.com/EscanBE/evermint/v12/x/cpc/types"
	evmtypes "github.com/EscanBE/evermint/v12/x/evm/types"
	feemarkettypes "github.com/EscanBE/evermint/v12/x/feemarket/types"
)

const (
	// Denom is the EVM / staking / fee denomination.
	Denom = constants.BaseDenom
	// Denom2 is a second bank denomination the EVM does not know about.
	Denom2 = "utwo"
	// ChainID of every harness chain.
	ChainID = constants.TestnetFullChainId
	// EIP155 is the EIP-155 chain id derived from ChainID.
	EIP155 = constants.TestnetEIP155ChainId
	// T0 is the genesis time: 2100-01-01, decades away from any wall clock.
	T0 = int64(4102444800)
	// BlockSecs is the header-time distance of consecutive blocks.
	BlockSecs = int64(5)
)

func init() {
	// Validators and delegations with two-digit amounts.
	sdk.DefaultPowerReduction = sdkmath.NewInt(1)
}

// Acct is an externally owned account the harness holds the key of.
type Acct struct {
	Name string
	Priv *ethsecp256k1.PrivKey
	Addr common.Address
}

// Acc returns the cosmos address.
func (a *Acct) Acc() sdk.AccAddress { return sdk.AccAddress(a.Addr.Bytes()) }

// NewAcct derives a deterministic key from a label.
func NewAcct(name string) *Acct {
	seed := ethcrypto.Keccak256([]byte("verif-harness-key/" + name))
	priv := &ethsecp256k1.PrivKey{Key: seed}
	return &Acct{Name: name, Priv: priv, Addr: common.BytesToAddress(priv.PubKey().Address().Bytes())}
}

// GenContract is a contract installed by the evm genesis.
type GenContract struct {
	Addr    common.Address
	Code    []byte
	Storage map[common.Hash]common.Hash
	Bal     int64
	Bal2    int64
}

// Opts describe a genesis.
type Opts struct {
	NAccts               int
	Bal                  int64 // wei per EOA
	Bal2                 int64 // utwo per EOA
	BaseFee              int64
	MinGasPrice          string // legacy dec string
	MaxGas               int64  // consensus param; -1 = unlimited
	NVals                int
	ValBond              int64
	Contracts            []GenContract
	ExtraAccts           []authtypes.GenesisAccount
	ExtraBals            []banktypes.Balance
	CpcDeployErc20Native bool
	CpcDeployStaking     bool
	CpcDeployBech32      bool
	CpcWhitelist         []string
	EvmDisableCreate     bool // x/evm params: enable_create = false
	EvmDisableCall       bool // x/evm params: enable_call = false
	Patch                func(cdc params.EncodingConfig, gs chainapp.GenesisState)
	// node-local options (must not influence consensus results)
	MinGasPricesNode string
	InvCheckPeriod   uint
	// SkipFirstBlock: New returns right after InitChain. Nothing is committed yet, so the chain cannot be read (Ctx, Seq,
	// Bal ...) before its first Deliver: build the transactions of block 1 on a Replica (which has run an empty block 1).
	SkipFirstBlock bool
	EvmTracer      string // app option evm.tracer (json|struct|access_list|markdown): a debugging aid of the node operator
}

// DefaultOpts is the genesis used unless a driver says otherwise.
func DefaultOpts() Opts {
	return Opts{NAccts: 6, Bal: 100_000_000, Bal2: 1000, BaseFee: 10, MinGasPrice: "0", MaxGas: -1, NVals: 1, ValBond: 100}
}

// Val is a genesis validator.
type Val struct {
	Priv     *ed25519.PrivKey
	ConsAddr sdk.ConsAddress
	OpAddr   sdk.ValAddress
	Operator *Acct
}

// Chain is one application instance plus the harness' knowledge about it.
type Chain struct {
	App         *chainapp.Evermint
	DB          *sdkdb.MemDB
	Enc         params.EncodingConfig
	Opts        Opts
	Accts       []*Acct
	Vals        []*Val
	Height      int64 // last committed height
	Genesis     []byte
	ConsParams  *cmtproto.ConsensusParams
	LastAppHash []byte
	ProposerIdx int
}

// NewApp instantiates the application over db.
func NewApp(db sdkdb.DB, o Opts) (*chainapp.Evermint, params.EncodingConfig) {
	enc := chainapp.RegisterEncodingConfig()
	var bopts []func(*baseapp.BaseApp)
	bopts = append(bopts, baseapp.SetChainID(ChainID))
	if o.MinGasPricesNode != "" {
		bopts = append(bopts, baseapp.SetMinGasPrices(o.MinGasPricesNode))
	}
	inv := o.InvCheckPeriod
	if inv == 0 {
		inv = 5
	}
	app := chainapp.NewEvermint(log.NewNopLogger(), db, nil, true, map[int64]bool{}, chainapp.DefaultNodeHome, inv, enc,
		simtestutil.AppOptionsMap{"home": chainapp.DefaultNodeHome, "evm.tracer": o.EvmTracer}, bopts...)
	return app, enc
}

// ConsParams returns consensus params with the given max gas.
func ConsParams(maxGas int64) *cmtproto.ConsensusParams {
	return &cmtproto.ConsensusParams{
		Block:     &cmtproto.BlockParams{MaxBytes: 2000000, MaxGas: maxGas},
		Evidence:  &cmtproto.EvidenceParams{MaxAgeNumBlocks: 302400, MaxAgeDuration: 504 * time.Hour, MaxBytes: 10000},
		Validator: &cmtproto.ValidatorParams{PubKeyTypes: []string{cmttypes.ABCIPubKeyTypeEd25519}},
	}
}

// New builds genesis from o and runs InitChain.
func New(o Opts) *Chain {
	db := sdkdb.NewMemDB()
	app, enc := NewApp(db, o)
	c := &Chain{App: app, DB: db, Enc: enc, Opts: o}
	cdc := app.AppCodec()
	gs := chainapp.NewDefaultGenesisState(enc)

	var genAccs []authtypes.GenesisAccount
	var balances []banktypes.Balance
	for i := 0; i < o.NAccts; i++ {
		a := NewAcct(fmt.Sprintf("a%d", i))
		c.Accts = append(c.Accts, a)
		genAccs = append(genAccs, authtypes.NewBaseAccount(a.Acc(), nil, 0, 0))
		coins := sdk.NewCoins()
		if o.Bal > 0 {
			coins = coins.Add(sdk.NewInt64Coin(Denom, o.Bal))
		}
		if o.Bal2 > 0 {
			coins = coins.Add(sdk.NewInt64Coin(Denom2, o.Bal2))
		}
		balances = append(balances, banktypes.Balance{Address: a.Acc().String(), Coins: coins})
	}
	var evmAccs []evmtypes.GenesisAccount
	for _, gc := range o.Contracts {
		genAccs = append(genAccs, authtypes.NewBaseAccount(sdk.AccAddress(gc.Addr.Bytes()), nil, 0, 0))
		ga := evmtypes.GenesisAccount{Address: gc.Addr.Hex(), Code: hex.EncodeToString(gc.Code)}
		var keys []common.Hash
		for k := range gc.Storage {
			keys = append(keys, k)
		}
		sort.Slice(keys, func(i, j int) bool { return keys[i].Hex() < keys[j].Hex() })
		for _, k := range keys {
			ga.Storage = append(ga.Storage, evmtypes.NewState(k, gc.Storage[k]))
		}
		evmAccs = append(evmAccs, ga)
		coins := sdk.NewCoins()
		if gc.Bal > 0 {
			coins = coins.Add(sdk.NewInt64Coin(Denom, gc.Bal))
		}
		if gc.Bal2 > 0 {
			coins = coins.Add(sdk.NewInt64Coin(Denom2, gc.Bal2))
		}
		if !coins.IsZero() {
			balances = append(balances, banktypes.Balance{Address: sdk.AccAddress(gc.Addr.Bytes()).String(), Coins: coins})
		}
	}
	genAccs = append(genAccs, o.ExtraAccts...)
	balances = append(balances, o.ExtraBals...)

	// validators: operator i is account i (self-delegation ValBond)
	var validators []stakingtypes.Validator
	var delegations []stakingtypes.Delegation
	var signInfos []slashingtypes.SigningInfo
	bonded := sdkmath.ZeroInt()
	for i := 0; i < o.NVals; i++ {
		priv := ed25519.GenPrivKeyFromSecret([]byte(fmt.Sprintf("verif-harness-val/%d", i)))
		pkAny, err := codectypes.NewAnyWithValue(priv.PubKey())
		if err != nil {
			panic(err)
		}
		op := c.Accts[i]
		v := &Val{Priv: priv, ConsAddr: sdk.ConsAddress(priv.PubKey().Address()), OpAddr: sdk.ValAddress(op.Addr.Bytes()), Operator: op}
		c.Vals = append(c.Vals, v)
		bond := sdkmath.NewInt(o.ValBond)
		validators = append(validators, stakingtypes.Validator{
			OperatorAddress: v.OpAddr.String(), ConsensusPubkey: pkAny, Status: stakingtypes.Bonded,
			Tokens: bond, DelegatorShares: sdkmath.LegacyNewDecFromInt(bond), UnbondingTime: time.Unix(0, 0).UTC(),
			Description:       stakingtypes.Description{Moniker: fmt.Sprintf("val%d", i)},
			Commission:        stakingtypes.NewCommission(sdkmath.LegacyZeroDec(), sdkmath.LegacyZeroDec(), sdkmath.LegacyZeroDec()),
			MinSelfDelegation: sdkmath.ZeroInt(),
		})
		delegations = append(delegations, stakingtypes.NewDelegation(op.Acc().String(), v.OpAddr.String(), sdkmath.LegacyNewDecFromInt(bond)))
		signInfos = append(signInfos, slashingtypes.SigningInfo{Address: v.ConsAddr.String(),
			ValidatorSigningInfo: slashingtypes.NewValidatorSigningInfo(v.ConsAddr, 0, 0, time.Unix(0, 0).UTC(), false, 0)})
		bonded = bonded.Add(bond)
	}
	sp := stakingtypes.DefaultParams()
	sp.BondDenom = Denom
	sp.UnbondingTime = 20 * time.Second
	sp.MaxEntries = 3
	gs[stakingtypes.ModuleName] = cdc.MustMarshalJSON(stakingtypes.NewGenesisState(sp, validators, delegations))
	sl := slashingtypes.DefaultGenesisState()
	sl.SigningInfos = signInfos
	sl.Params.SignedBlocksWindow = 1000000
	gs[slashingtypes.ModuleName] = cdc.MustMarshalJSON(sl)
	if bonded.IsPositive() {
		balances = append(balances, banktypes.Balance{Address: authtypes.NewModuleAddress(stakingtypes.BondedPoolName).String(), Coins: sdk.NewCoins(sdk.NewCoin(Denom, bonded))})
	}

	gs[authtypes.ModuleName] = cdc.MustMarshalJSON(authtypes.NewGenesisState(authtypes.DefaultParams(), genAccs))
	total := sdk.NewCoins()
	for _, b := range balances {
		total = total.Add(b.Coins...)
	}
	balances = banktypes.SanitizeGenesisBalances(balances)
	gs[banktypes.ModuleName] = cdc.MustMarshalJSON(banktypes.NewGenesisState(banktypes.DefaultGenesisState().Params, balances, total, nil, nil))

	mg := minttypes.DefaultGenesisState()
	mg.Minter.Inflation = sdkmath.LegacyZeroDec()
	mg.Params.InflationMax = sdkmath.LegacyZeroDec()
	mg.Params.InflationMin = sdkmath.LegacyZeroDec()
	mg.Params.InflationRateChange = sdkmath.LegacyZeroDec()
	mg.Params.MintDenom = Denom
	gs[minttypes.ModuleName] = cdc.MustMarshalJSON(mg)

	dg := distrtypes.DefaultGenesisState()
	dg.Params.CommunityTax = sdkmath.LegacyZeroDec()
	gs[distrtypes.ModuleName] = cdc.MustMarshalJSON(dg)

	fm := feemarkettypes.DefaultGenesisState()
	fm.Params.BaseFee = sdkmath.NewInt(o.BaseFee)
	fm.Params.MinGasPrice = sdkmath.LegacyMustNewDecFromStr(o.MinGasPrice)
	gs[feemarkettypes.ModuleName] = cdc.MustMarshalJSON(fm)

	eg := evmtypes.DefaultGenesisState()
	eg.Accounts = evmAccs
	eg.Params.EnableCreate = !o.EvmDisableCreate
	eg.Params.EnableCall = !o.EvmDisableCall
	gs[evmtypes.ModuleName] = cdc.MustMarshalJSON(eg)

	cg := cpctypes.DefaultGenesis()
	cg.DeployErc20Native = o.CpcDeployErc20Native
	cg.DeployStakingContract = o.CpcDeployStaking
	cg.Params.WhitelistedDeployers = o.CpcWhitelist
	gs[cpctypes.ModuleName] = cdc.MustMarshalJSON(cg)

	if o.Patch != nil {
		o.Patch(enc, gs)
	}
	stateBytes, err := json.Marshal(gs)
	if err != nil {
		panic(err)
	}
	c.Genesis = stateBytes
	c.ConsParams = ConsParams(o.MaxGas)
	if _, err := app.InitChain(&abci.RequestInitChain{ChainId: ChainID, ConsensusParams: c.ConsParams, AppStateBytes: stateBytes, Time: time.Unix(T0, 0).UTC(), InitialHeight: 1}); err != nil {
		panic(fmt.Errorf("InitChain: %w", err))
	}
	if o.SkipFirstBlock {
		return c
	}
	// genesis state becomes readable with the first commit: run the (empty) block 1
	if bo := c.Deliver(); bo.Panic != nil || bo.Err != nil {
		panic(fmt.Errorf("first block: %v %v", bo.Panic, bo.Err))
	}
	return c
}

// Replica builds a fresh application from the same genesis (another node).
func (c *Chain) Replica(nodeOpts func(*Opts)) *Chain {
	o := c.Opts
	if nodeOpts != nil {
		nodeOpts(&o)
	}
	db := sdkdb.NewMemDB()
	app, enc := NewApp(db, o)
	r := &Chain{App: app, DB: db, Enc: enc, Opts: o, Accts: c.Accts, Vals: c.Vals, Genesis: c.Genesis, ConsParams: c.ConsParams}
	if _, err := app.InitChain(&abci.RequestInitChain{ChainId: ChainID, ConsensusParams: c.ConsParams, AppStateBytes: c.Genesis, Time: time.Unix(T0, 0).UTC(), InitialHeight: 1}); err != nil {
		panic(fmt.Errorf("InitChain: %w", err))
	}
	if bo := r.Deliver(); bo.Panic != nil || bo.Err != nil {
		panic(fmt.Errorf("first block: %v %v", bo.Panic, bo.Err))
	}
	return r
}

// Clone copies the committed database and reloads an application from it.
func (c *Chain) Clone() *Chain {
	db := sdkdb.NewMemDB()
	it, err := c.DB.Iterator(nil, nil)
	if err != nil {
		panic(err)
	}
	for ; it.Valid(); it.Next() {
		k := append([]byte{}, it.Key()...)
		v := append([]byte{}, it.Value()...)
		if err := db.Set(k, v); err != nil {
			panic(err)
		}
	}
	it.Close()
	app, enc := NewApp(db, c.Opts)
	return &Chain{App: app, DB: db, Enc: enc, Opts: c.Opts, Accts: c.Accts, Vals: c.Vals, Height: c.Height, Genesis: c.Genesis,
		ConsParams: c.ConsParams, LastAppHash: c.LastAppHash, ProposerIdx: c.ProposerIdx}
}

// BlockTime is the header time of block h.
func BlockTime(h int64) time.Time { return time.Unix(T0+h*BlockSecs, 0).UTC() }

// BlockOut is what one FinalizeBlock+Commit produced.
type BlockOut struct {
	Height int64
	Res    *abci.ResponseFinalizeBlock
	Err    error
	Panic  interface{}
}

// Deliver runs FinalizeBlock and Commit for the next height. A panic of the
// application is caught and reported, never propagated.
func (c *Chain) Deliver(txs ...[]byte) (out BlockOut) {
	h := c.Height + 1
	out.Height = h
	req := &abci.RequestFinalizeBlock{Height: h, Time: BlockTime(h), Txs: txs, Hash: ethcrypto.Keccak256([]byte(fmt.Sprintf("blk%d", h)))}
	if len(c.Vals) > 0 {
		req.ProposerAddress = c.Vals[c.ProposerIdx%len(c.Vals)].ConsAddr
		for _, v := range c.Vals {
			req.DecidedLastCommit.Votes = append(req.DecidedLastCommit.Votes, abci.VoteInfo{
				Validator: abci.Validator{Address: v.ConsAddr, Power: c.Opts.ValBond}, BlockIdFlag: cmtproto.BlockIDFlagCommit})
		}
	}
	func() {
		defer func() {
			if r := recover(); r != nil {
				out.Panic = r
			}
		}()
		out.Res, out.Err = c.App.FinalizeBlock(req)
		if out.Err == nil {
			if _, err := c.App.Commit(); err != nil {
				out.Err = err
			}
		}
	}()
	if out.Panic == nil && out.Err == nil {
		c.Height = h
		c.LastAppHash = out.Res.AppHash
	}
	return out
}

// Ctx returns a read context over the last committed state with the header of
// the last committed block.
func (c *Chain) Ctx() sdk.Context {
	return c.App.BaseApp.NewContextLegacy(true, cmtproto.Header{Height: c.Height, Time: BlockTime(c.Height), ChainID: ChainID})
}

// ModuleAddr is the address of a module account.
func ModuleAddr(name string) common.Address {
	return common.BytesToAddress(authtypes.NewModuleAddress(name).Bytes())
}

// FeeCollector, EvmModule, DistrModule addresses.
var (
	FeeCollector = ModuleAddr(authtypes.FeeCollectorName)
	EvmModule    = ModuleAddr(evmtypes.ModuleName)
	DistrModule  = ModuleAddr(distrtypes.ModuleName)
	GovModule    = ModuleAddr(govtypes.ModuleName)
	BondedPool   = ModuleAddr(stakingtypes.BondedPoolName)
	NotBonded    = ModuleAddr(stakingtypes.NotBondedPoolName)
)

// Bal reads a bank balance from committed state.
func (c *Chain) Bal(a common.Address, denom string) *big.Int {
	return c.App.BankKeeper.GetBalance(c.Ctx(), a.Bytes(), denom).Amount.BigInt()
}

// Supply reads total supply.
func (c *Chain) Supply(denom string) *big.Int {
	return c.App.BankKeeper.GetSupply(c.Ctx(), denom).Amount.BigInt()
}

// Seq reads the account sequence (0 when the account does not exist).
func (c *Chain) Seq(a common.Address) uint64 {
	acc := c.App.AccountKeeper.GetAccount(c.Ctx(), a.Bytes())
	if acc == nil {
		return 0
	}
	return acc.GetSequence()
}

// BaseFee reads the current base fee.
func (c *Chain) BaseFee() *big.Int { return c.App.FeeMarketKeeper.GetBaseFee(c.Ctx()).BigInt() }
