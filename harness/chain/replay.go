package chain

import (
	"fmt"
	"sync"
	"time"

	"github.com/ethereum/go-ethereum/common"

	abci "github.com/cometbft/cometbft/abci/types"
	sdkdb "github.com/cosmos/cosmos-db"
	"github.com/cosmos/cosmos-sdk/crypto/keys/ed25519"
	sdk "github.com/cosmos/cosmos-sdk/types"
)

var (
	nativeErc20Once sync.Once
	nativeErc20Addr common.Address
)

// NativeErc20Addr is the (deterministic) address the ERC-20 precompile of the EVM denomination gets when the genesis deploys it.
func NativeErc20Addr() common.Address {
	nativeErc20Once.Do(func() {
		o := DefaultOpts()
		o.NAccts, o.CpcDeployErc20Native = 1, true
		c := New(o)
		a := c.App.CPCKeeper.GetErc20CustomPrecompiledContractAddressByMinDenom(c.Ctx(), Denom)
		if a == nil {
			panic("native ERC-20 precompile not deployed by genesis")
		}
		nativeErc20Addr = *a
	})
	return nativeErc20Addr
}

// FromGenesis starts a fresh application from recorded genesis bytes (another node / another process):
// everything Deliver needs (validator keys, proposer) is re-derived from the deterministic harness labels.
func FromGenesis(genesis []byte, o Opts) *Chain {
	db := sdkdb.NewMemDB()
	app, enc := NewApp(db, o)
	c := &Chain{App: app, DB: db, Enc: enc, Opts: o, Genesis: genesis, ConsParams: ConsParams(o.MaxGas)}
	for i := 0; i < o.NAccts; i++ {
		c.Accts = append(c.Accts, NewAcct(fmt.Sprintf("a%d", i)))
	}
	for i := 0; i < o.NVals; i++ {
		priv := ed25519.GenPrivKeyFromSecret([]byte(fmt.Sprintf("verif-harness-val/%d", i)))
		op := c.Accts[i]
		c.Vals = append(c.Vals, &Val{Priv: priv, ConsAddr: sdk.ConsAddress(priv.PubKey().Address()), OpAddr: sdk.ValAddress(op.Addr.Bytes()), Operator: op})
	}
	if _, err := app.InitChain(&abci.RequestInitChain{ChainId: ChainID, ConsensusParams: c.ConsParams, AppStateBytes: genesis, Time: time.Unix(T0, 0).UTC(), InitialHeight: 1}); err != nil {
		panic(fmt.Errorf("InitChain: %w", err))
	}
	if bo := c.Deliver(); bo.Panic != nil || bo.Err != nil {
		panic(fmt.Errorf("first block: %v %v", bo.Panic, bo.Err))
	}
	return c
}
