// Command vh_simq: simulation / query requests interleaved with block execution, for spec/TraceSimulation.tla.
package main

import (
	"flag"
	"fmt"
	"os"
	"path/filepath"

	"verifharness/simq"
	"verifharness/trace"
)

func main() {
	defer func() {
		if r := recover(); r != nil {
			if e, ok := r.(trace.ErrTooBig); ok {
				fmt.Fprintln(os.Stderr, "INFRA:", e.Error())
				os.Exit(2)
			}
			panic(r)
		}
	}()
	seed := flag.Int64("seed", 1, "seed")
	traces := flag.Int("traces", 10, "histories")
	blocks := flag.Int("blocks", 8, "blocks per history")
	out := flag.String("out", ".", "output dir")
	flag.Parse()
	w := trace.Create(filepath.Join(*out, "trace.ndjson"))
	stats := simq.Run(w, simq.Opts{Seed: *seed, Traces: *traces, Blocks: *blocks})
	w.Close()
	stats["events"] = w.N
	trace.WriteJSON(filepath.Join(*out, "stats.json"), stats)
	fmt.Println("events", w.N, stats)
}
