package main

import (
	"encoding/json"
	"flag"
	"fmt"
	"math/big"
	"math/rand"
	"os"

	sdkmath "cosmossdk.io/math"
	sdk "github.com/cosmos/cosmos-sdk/types"
	authtypes "github.com/cosmos/cosmos-sdk/x/auth/types"
	banktypes "github.com/cosmos/cosmos-sdk/x/bank/types"
	"github.com/ethereum/go-ethereum/common"
	ethtypes "github.com/ethereum/go-ethereum/core/types"

	evmtypes "github.com/EscanBE/evermint/v12/x/evm/types"

	"verifharness/chain"
)

func init() { cmds["bigcharge"] = cmdBigCharge }

// cmdBigCharge executes Ethereum transactions at real-world magnitudes (balances of 10^27 wei, gas prices up to 10^15, gas
// limits up to 10^10) on the real application, one per block, and records what the sender paid: the numbers are far outside
// TLC's integers, the charge law of EthTx.tla is judged on them by Apalache (spec/ChargeBig.tla).
func cmdBigCharge(args []string) int {
	fs := flag.NewFlagSet("bigcharge", flag.ExitOnError)
	seed := fs.Int64("seed", 1, "seed")
	n := fs.Int("n", 40, "transactions")
	out := fs.String("out", "samples.ndjson", "output file")
	fs.Parse(args)
	r := rand.New(rand.NewSource(*seed*7919 + 11))

	rich := chain.NewAcct("rich")
	huge, _ := new(big.Int).SetString("1000000000000000000000000000", 10) // 10^27
	o := chain.DefaultOpts()
	o.MaxGas = -1
	o.BaseFee = 1_000_000_000
	o.ExtraAccts = append(o.ExtraAccts, authtypes.NewBaseAccount(rich.Acc(), nil, 0, 0))
	o.ExtraBals = append(o.ExtraBals, banktypes.Balance{Address: rich.Acc().String(), Coins: sdk.NewCoins(sdk.NewCoin(chain.Denom, sdkmath.NewIntFromBigInt(huge)))})
	// a contract that clears and sets a storage slot alternately (refund counter in play): SSTORE(0, 1 - SLOAD(0))
	flip := common.HexToAddress("0xc0000000000000000000000000000000000f11b0")
	o.Contracts = append(o.Contracts, chain.GenContract{Addr: flip, Code: []byte{0x60, 0x01, 0x60, 0x00, 0x54, 0x90, 0x03, 0x60, 0x00, 0x55, 0x00},
		Storage: map[common.Hash]common.Hash{{}: common.BigToHash(big.NewInt(1))}})
	c := chain.New(o)
	f, err := os.Create(*out)
	if err != nil {
		panic(err)
	}
	defer f.Close()
	enc := json.NewEncoder(f)
	p10 := func(e int) *big.Int { return new(big.Int).Exp(big.NewInt(10), big.NewInt(int64(e)), nil) }
	bal := func(a common.Address) *big.Int { return c.Bal(a, chain.Denom) }
	supply := func() *big.Int { return c.Supply(chain.Denom) }
	done := 0
	for i := 0; i < *n; i++ {
		baseFee := c.BaseFee()
		gasLimit := []uint64{21000, 100000, 5_000_000, 30_000_000, 1 << 31, 10_000_000_000}[r.Intn(6)]
		price := []*big.Int{new(big.Int).Set(baseFee), new(big.Int).Mul(baseFee, big.NewInt(2)), p10(12), p10(13), p10(15)}[r.Intn(5)]
		tip := []*big.Int{big.NewInt(0), p10(9), new(big.Int).Set(price)}[r.Intn(3)]
		value := []*big.Int{big.NewInt(0), big.NewInt(1), p10(18), p10(21)}[r.Intn(4)]
		typ := r.Intn(3)
		if r.Intn(5) == 0 {
			// a tip beyond 64 bits (2^64 + 1) under a cap of 2^65: nothing in the price arithmetic may be done in machine words
			typ = 2
			tip = new(big.Int).Add(new(big.Int).Lsh(big.NewInt(1), 64), big.NewInt(1))
			price = new(big.Int).Lsh(big.NewInt(1), 65)
			if gasLimit > 5_000_000 {
				gasLimit = 5_000_000
			}
		}
		to := c.Accts[1].Addr
		if r.Intn(3) == 0 {
			to, value = flip, big.NewInt(0)
			if gasLimit < 100000 {
				gasLimit = 100000
			}
		}
		nonce := c.Seq(rich.Addr)
		var txd ethtypes.TxData
		switch typ {
		case 0:
			txd = &ethtypes.LegacyTx{Nonce: nonce, GasPrice: price, Gas: gasLimit, To: &to, Value: value}
		case 1:
			txd = &ethtypes.AccessListTx{ChainID: big.NewInt(chain.EIP155), Nonce: nonce, GasPrice: price, Gas: gasLimit, To: &to, Value: value}
		default:
			txd = &ethtypes.DynamicFeeTx{ChainID: big.NewInt(chain.EIP155), Nonce: nonce, GasFeeCap: price, GasTipCap: tip, Gas: gasLimit, To: &to, Value: value}
		}
		before, rbefore, sbefore := bal(rich.Addr), bal(to), supply()
		bo := c.Deliver(c.EthTx(rich, txd))
		if bo.Panic != nil || bo.Err != nil {
			fmt.Fprintln(os.Stderr, "block failed:", bo.Panic, bo.Err)
			return 2
		}
		res := bo.Res.TxResults[0]
		if res.Code != 0 {
			continue // refused: nothing to judge here (admission is the small-magnitude traces' business)
		}
		rsp, err := evmtypes.DecodeTxResponse(res.Data)
		if err != nil {
			panic(err)
		}
		moved := value
		if rsp.VmError != "" {
			moved = big.NewInt(0)
		}
		enc.Encode(map[string]interface{}{"typ": typ, "price": price.String(), "tip": tip.String(), "baseFee": baseFee.String(),
			"gasLimit": fmt.Sprint(gasLimit), "gasUsed": fmt.Sprint(rsp.GasUsed), "moved": moved.String(),
			"before": before.String(), "after": bal(rich.Addr).String(),
			"recvDelta": new(big.Int).Sub(bal(to), rbefore).String(), "supplyDelta": new(big.Int).Sub(supply(), sbefore).String(),
			"to": map[bool]string{true: "contract", false: "account"}[to == flip], "vmError": rsp.VmError})
		done++
	}
	fmt.Println("samples", done)
	return 0
}
