package main

import (
	"flag"
	"fmt"
	"path/filepath"

	"verifharness/drivers"
	"verifharness/prog"
	"verifharness/trace"
)

func init() { cmds["mempool"] = cmdMempool }

func cmdMempool(args []string) int {
	defer guard()
	fs := flag.NewFlagSet("mempool", flag.ExitOnError)
	seed := fs.Int64("seed", 1, "seed")
	traces := fs.Int("traces", 10, "number of histories")
	rounds := fs.Int("rounds", 6, "rounds per history")
	out := fs.String("out", ".", "output directory")
	fs.Parse(args)
	tbl := prog.NewTable()
	w := trace.Create(filepath.Join(*out, "trace.ndjson"))
	stats := drivers.GenMempool(w, tbl, drivers.MempoolOpts{Seed: *seed, Traces: *traces, Rounds: *rounds})
	w.Close()
	trace.WriteJSON(filepath.Join(*out, "programs.json"), tbl.Ops)
	stats["events"] = w.N
	fmt.Println("events", w.N, stats)
	return 0
}
