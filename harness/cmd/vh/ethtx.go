package main

import (
	"flag"
	"fmt"
	"os"
	"path/filepath"

	"verifharness/drivers"
	"verifharness/prog"
	"verifharness/trace"
)

func init() { cmds["ethtx"] = cmdEthTx }

// guard turns a "number too big for TLC" panic into exit 2.
func guard() {
	if r := recover(); r != nil {
		if e, ok := r.(trace.ErrTooBig); ok {
			fmt.Fprintln(os.Stderr, "INFRA:", e.Error())
			os.Exit(2)
		}
		panic(r)
	}
}

func cmdEthTx(args []string) int {
	defer guard()
	fs := flag.NewFlagSet("ethtx", flag.ExitOnError)
	seed := fs.Int64("seed", 1, "seed")
	traces := fs.Int("traces", 10, "number of histories")
	blocks := fs.Int("blocks", 6, "blocks per history")
	out := fs.String("out", ".", "output directory")
	fs.Parse(args)
	tbl := prog.NewTable()
	w := trace.Create(filepath.Join(*out, "trace.ndjson"))
	stats := drivers.GenEthTx(w, tbl, drivers.EthTxOpts{Seed: *seed, Traces: *traces, Blocks: *blocks})
	w.Close()
	trace.WriteJSON(filepath.Join(*out, "programs.json"), tbl.Ops)
	stats["events"] = w.N
	trace.WriteJSON(filepath.Join(*out, "stats.json"), stats)
	fmt.Println("events", w.N, stats)
	return 0
}
