// Command vh_misc is the harness binary of the check family `misc` (C17 registry, C18 genesis round trip).
package main

import (
	"fmt"
	"os"
)

type cmd func(args []string) int

var cmds = map[string]cmd{}

func main() {
	if len(os.Args) < 2 {
		fmt.Fprintln(os.Stderr, "usage: vh_misc <command> [args]")
		os.Exit(2)
	}
	c, ok := cmds[os.Args[1]]
	if !ok {
		fmt.Fprintln(os.Stderr, "unknown command", os.Args[1])
		os.Exit(2)
	}
	os.Exit(c(os.Args[2:]))
}
