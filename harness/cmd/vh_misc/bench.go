package main

import (
	"fmt"
	"time"

	"github.com/ethereum/go-ethereum/common"

	"verifharness/misc"
	"verifharness/obs"
)

func init() { cmds["bench"] = bench }

func bench(args []string) int {
	obs.Install()
	c := misc.NewRegChain(misc.RegOpts{Erc20Native: true, Staking: true, Whitelist: []int{1}})
	p := &misc.Prober{C: c, From: misc.ProberAcct}
	q := misc.Req{Target: misc.DynAddr(0), Input: common.FromHex("0x06fdde03"), Via: "direct"}
	n := 50
	t := time.Now()
	for i := 0; i < n; i++ {
		p.Simulate(q, 0)
	}
	fmt.Println("simulate", time.Since(t)/time.Duration(n))
	t = time.Now()
	for i := 0; i < n; i++ {
		p.EthCall(q)
	}
	fmt.Println("eth_call", time.Since(t)/time.Duration(n))
	t = time.Now()
	for i := 0; i < n; i++ {
		p.Estimate(q)
	}
	fmt.Println("estimate", time.Since(t)/time.Duration(n))
	t = time.Now()
	for i := 0; i < n; i++ {
		p.Trace(q, 0)
	}
	fmt.Println("trace", time.Since(t)/time.Duration(n))
	t = time.Now()
	for i := 0; i < n; i++ {
		p.Check(q, uint64(i))
	}
	fmt.Println("check", time.Since(t)/time.Duration(n))
	c.Deliver()
	var reqs []misc.Req
	for i := 0; i < n; i++ {
		reqs = append(reqs, q)
	}
	t = time.Now()
	p.Deliver(reqs, 0)
	fmt.Println("deliver", time.Since(t)/time.Duration(n))
	t = time.Now()
	for i := 0; i < 20; i++ {
		c.Clone()
	}
	fmt.Println("clone", time.Since(t)/20)
	return 0
}
