package main

import (
	"flag"
	"fmt"
	"path/filepath"

	"verifharness/misc"
	"verifharness/trace"
)

func init() { cmds["genesis"] = cmdGenesis }

func cmdGenesis(args []string) int {
	defer guard()
	fs := flag.NewFlagSet("genesis", flag.ExitOnError)
	seed := fs.Int64("seed", 1, "seed")
	traces := fs.Int("traces", 8, "number of histories")
	blocks := fs.Int("blocks", 12, "blocks (generator steps) per history")
	every := fs.Int("every", 4, "round trip after every this many steps")
	shard := fs.Int("shard", 0, "shard index")
	shards := fs.Int("shards", 1, "number of shards")
	out := fs.String("out", ".", "output directory")
	fs.Parse(args)
	w := trace.Create(filepath.Join(*out, fmt.Sprintf("trace-%d.ndjson", *shard)))
	st := misc.GenGenesis(w, misc.GenesisGenOpts{Seed: *seed, Traces: *traces, Blocks: *blocks, Every: *every, Shard: *shard, Shards: *shards})
	w.Close()
	trace.WriteJSON(filepath.Join(*out, fmt.Sprintf("stats-%d.json", *shard)), st)
	return 0
}
