package main

import (
	"fmt"
	"time"

	sdk "github.com/cosmos/cosmos-sdk/types"
	"github.com/ethereum/go-ethereum/common"

	cpctypes "github.com/EscanBE/evermint/v12/x/cpc/types"

	"verifharness/chain"
	"verifharness/misc"
	"verifharness/obs"
)

func init() { cmds["explore"] = explore }

func show(tag string, r misc.Raw) {
	s, _ := misc.DecodeString(r.URet)
	hs, _ := misc.DecodeString(r.HOut)
	fmt.Printf("  %-10s admit=%v uok=%v uerr=%q uret=%d(%q) | hseen=%v herr=%q hout=%d(%q) %s\n", tag, r.Admit, r.UOk, r.UErr, len(r.URet), s, r.HSeen, r.HErr, len(r.HOut), hs, r.Detail)
}

func explore(args []string) int {
	obs.Install()
	t0 := time.Now()
	c := misc.NewRegChain(misc.RegOpts{Erc20Native: true, Staking: true, Whitelist: []int{1}})
	fmt.Println("chain up", time.Since(t0))
	d := misc.DumpReg(c)
	fmt.Printf("dump: %d metas idx=%v params=%+v nonce=%d q=%d k=%d\n", len(d.Metas), d.Index, d.Params, d.Nonce, len(d.QMetas), len(d.KMetas))
	w, n := c.Accts[1], c.Accts[2]
	for _, who := range []*chain.Acct{n, w} {
		msg := &cpctypes.MsgDeployErc20ContractRequest{Authority: who.Acc().String(), Name: "Two Coin", Symbol: "TWO", Decimals: 6, MinDenom: chain.Denom2}
		out := misc.DeliverCosmos(c, who, []sdk.Msg{msg}, chain.CosmosTxOpts{})
		fmt.Printf("deploy by %s: code=%d %s log=%q\n", who.Name, out.Code, out.Codespace, out.Log)
	}
	d = misc.DumpReg(c)
	fmt.Printf("dump: %d metas idx=%v nonce=%d\n", len(d.Metas), d.Index, d.Nonce)
	for _, m := range d.Metas {
		fmt.Printf("   %s type=%d name=%q meta=%s dis=%v\n", m.KeyAddr.Hex(), m.Meta.CustomPrecompiledType, m.Meta.Name, m.Meta.TypedMeta, m.Meta.Disabled)
	}
	t1 := time.Now()
	st, why := misc.GovUpdateParams(c, cpctypes.Params{ProtocolVersion: 1, WhitelistedDeployers: []string{w.Acc().String(), n.Acc().String()}})
	fmt.Println("gov:", st, why, time.Since(t1), misc.DumpReg(c).Params)
	st, why = misc.GovUpdateParams(c, cpctypes.Params{ProtocolVersion: 2})
	fmt.Println("gov v2:", st, why)
	// self-authority tx
	out := misc.DeliverCosmos(c, n, []sdk.Msg{&cpctypes.MsgUpdateParams{Authority: n.Acc().String(), NewParams: cpctypes.Params{ProtocolVersion: 1}}}, chain.CosmosTxOpts{})
	fmt.Printf("self-authority: code=%d %s %q\n", out.Code, out.Codespace, out.Log)
	out = misc.DeliverCosmos(c, n, []sdk.Msg{&cpctypes.MsgUpdateParams{Authority: sdk.AccAddress(chain.GovModule.Bytes()).String(), NewParams: cpctypes.Params{ProtocolVersion: 1}}}, chain.CosmosTxOpts{})
	fmt.Printf("forged-authority: code=%d %s %q\n", out.Code, out.Codespace, out.Log)

	p := &misc.Prober{C: c, From: c.Accts[3]}
	name := common.FromHex("0x06fdde03")
	dyn1 := misc.DynAddr(1)
	targets := map[string]common.Address{"dyn0": misc.DynAddr(0), "dyn1": dyn1, "dyn2": misc.DynAddr(2), "stk": cpctypes.CpcStakingFixedAddress, "b32": cpctypes.CpcBech32FixedAddress,
		"p2": common.HexToAddress("0x2"), "p0": {}, "eoa": c.Accts[4].Addr}
	run := func() {
		for _, tn := range []string{"dyn0", "dyn1", "dyn2", "stk", "b32", "p2", "p0", "eoa"} {
			for _, via := range []string{"direct", "STATICCALL", "DELEGATECALL"} {
				q := misc.Req{Target: targets[tn], Input: name, Via: via}
				fmt.Println(tn, via)
				nonce := c.Seq(p.From.Addr)
				show("check", p.Check(q, nonce))
				show("simulate", p.Simulate(q, nonce))
				show("eth_call", p.EthCall(q))
				show("estimate", p.Estimate(q))
				show("trace", p.Trace(q, nonce))
				show("deliver", p.Deliver([]misc.Req{q}, c.Seq(p.From.Addr))[0])
			}
		}
	}
	t2 := time.Now()
	run()
	fmt.Println("probes took", time.Since(t2))
	fmt.Println("disable dyn1:", misc.SetDisabled(c, dyn1, true))
	targets = map[string]common.Address{"dyn1": dyn1}
	for _, via := range []string{"direct", "STATICCALL"} {
		q := misc.Req{Target: dyn1, Input: name, Via: via}
		nonce := c.Seq(p.From.Addr)
		fmt.Println("disabled dyn1", via)
		show("check", p.Check(q, nonce))
		show("simulate", p.Simulate(q, nonce))
		show("eth_call", p.EthCall(q))
		show("estimate", p.Estimate(q))
		show("trace", p.Trace(q, nonce))
		show("deliver", p.Deliver([]misc.Req{q}, c.Seq(p.From.Addr))[0])
	}
	fmt.Println("retype stk:", misc.Retype(c, cpctypes.CpcStakingFixedAddress, false))
	fmt.Println("redeploy stk:", misc.Retype(c, cpctypes.CpcStakingFixedAddress, true))
	misc.RawSetVersion(c, 2)
	st, why = misc.GovUpdateParams(c, cpctypes.Params{ProtocolVersion: 1})
	fmt.Println("gov downgrade:", st, why, misc.DumpReg(c).Params)
	t3 := time.Now()
	c2 := c.Clone()
	fmt.Println("clone", time.Since(t3), c2.Height)
	return 0
}
