package main

import (
	"flag"
	"fmt"
	"os"
	"path/filepath"
	"strconv"
	"strings"

	"verifharness/misc"
	"verifharness/trace"
)

func init() { cmds["registry"] = cmdRegistry }

// guard turns a "number too big for TLC" panic into exit 2.
func guard() {
	if r := recover(); r != nil {
		if e, ok := r.(trace.ErrTooBig); ok {
			fmt.Fprintln(os.Stderr, "INFRA:", e.Error())
			os.Exit(2)
		}
		panic(r)
	}
}

func cmdRegistry(args []string) int {
	defer guard()
	fs := flag.NewFlagSet("registry", flag.ExitOnError)
	seed := fs.Int64("seed", 1, "seed")
	depth := fs.Int("depth", 2, "exhaustive depth of the op tree")
	random := fs.Int("random", 0, "number of random scenarios")
	rlen := fs.Int("len", 8, "ops per random scenario")
	shard := fs.Int("shard", 0, "shard index")
	shards := fs.Int("shards", 1, "number of shards")
	many := fs.String("many", "", "\"many contracts\" scenarios: comma separated numbers of ERC-20 precompiles to register")
	scripted := fs.Bool("scripted", false, "also run the scripted scenarios (shard 0)")
	fullEach := fs.Bool("full", false, "full probe matrix at every node")
	out := fs.String("out", ".", "output directory")
	cfgs := fs.String("cfgs", "", "genesis configurations of the tree part (comma separated indices; empty = all)")
	fs.Parse(args)
	var cfgList []int
	for _, x := range strings.Split(*cfgs, ",") {
		if x != "" {
			n, err := strconv.Atoi(x)
			if err != nil {
				fmt.Fprintln(os.Stderr, "bad -cfgs")
				return 2
			}
			cfgList = append(cfgList, n)
		}
	}
	var manyList []int
	for _, x := range strings.Split(*many, ",") {
		if x != "" {
			n, err := strconv.Atoi(x)
			if err != nil || n < 1 || n > 150 {
				fmt.Fprintln(os.Stderr, "bad -many")
				return 2
			}
			manyList = append(manyList, n)
		}
	}
	// the repository prints to stdout from the keeper; keep our stdout clean by writing results to files only
	w := trace.Create(filepath.Join(*out, fmt.Sprintf("trace-%d.ndjson", *shard)))
	st := misc.GenRegistry(w, misc.RegGenOpts{Seed: *seed, Depth: *depth, Random: *random, RandLen: *rlen, Shard: *shard, Shards: *shards, FullEach: *fullEach, Cfgs: cfgList, Scripted: *scripted, Many: manyList})
	w.Close()
	trace.WriteJSON(filepath.Join(*out, fmt.Sprintf("stats-%d.json", *shard)), st)
	return 0
}
