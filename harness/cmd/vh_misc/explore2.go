package main

import (
	"fmt"

	sdkmath "cosmossdk.io/math"
	feemarkettypes "github.com/EscanBE/evermint/v12/x/feemarket/types"
	authtypes "github.com/cosmos/cosmos-sdk/x/auth/types"
	govtypes "github.com/cosmos/cosmos-sdk/x/gov/types"

	"verifharness/misc"
)

func init() { cmds["explore2"] = explore2 }

func explore2(args []string) int {
	c := misc.NewRegChain(misc.RegOpts{})
	p := c.App.FeeMarketKeeper.GetParams(c.Ctx())
	p.MinGasPrice = sdkmath.LegacyNewDec(3)
	fmt.Println(misc.GovMsg(c, &feemarkettypes.MsgUpdateParams{Authority: authtypes.NewModuleAddress(govtypes.ModuleName).String(), Params: p}))
	p.BaseFee = sdkmath.NewInt(50)
	fmt.Println(misc.GovMsg(c, &feemarkettypes.MsgUpdateParams{Authority: authtypes.NewModuleAddress(govtypes.ModuleName).String(), Params: p}))
	fmt.Println(c.App.FeeMarketKeeper.GetParams(c.Ctx()))
	return 0
}
