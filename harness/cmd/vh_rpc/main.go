// Command vh_rpc is the harness binary of the rpc family (property C14).
package main

import (
	"fmt"
	"os"

	"verifharness/trace"
)

type cmd func(args []string) int

var cmds = map[string]cmd{}

// guard turns a "number too big for TLC" panic into exit 2.
func guard() {
	if r := recover(); r != nil {
		if e, ok := r.(trace.ErrTooBig); ok {
			fmt.Fprintln(os.Stderr, "INFRA:", e.Error())
			os.Exit(2)
		}
		panic(r)
	}
}

func main() {
	if len(os.Args) < 2 {
		fmt.Fprintln(os.Stderr, "usage: vh_rpc <command> [args]")
		os.Exit(2)
	}
	c, ok := cmds[os.Args[1]]
	if !ok {
		fmt.Fprintln(os.Stderr, "unknown command", os.Args[1])
		os.Exit(2)
	}
	os.Exit(c(os.Args[2:]))
}
