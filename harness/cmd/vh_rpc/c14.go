package main

import (
	"flag"
	"fmt"
	"path/filepath"
	"sort"

	rpcfam "verifharness/rpc"
	"verifharness/trace"
)

func init() { cmds["c14"] = cmdC14 }

func cmdC14(args []string) int {
	defer guard()
	fs := flag.NewFlagSet("c14", flag.ExitOnError)
	seed := fs.Int64("seed", 1, "seed")
	chains := fs.Int("chains", 10, "recorded chains")
	blocks := fs.Int("blocks", 5, "blocks per chain")
	maxTxs := fs.Int("maxtxs", 4, "max txs per block")
	all := fs.Bool("allcrash", false, "every crash point of every chain")
	sample := fs.Int("sample", 12, "crash points per chain when not -allcrash")
	double := fs.Int("double", 2, "double-crash schedules per chain")
	workers := fs.Int("workers", 48, "concurrent schedules")
	views := fs.Bool("views", true, "run the RPC view queries")
	big := fs.Int("big", 1, "chains with one BIG block (every crash point of it is run)")
	bigMin := fs.Int("bigmin", 35, "min Ethereum txs of a big block")
	bigMax := fs.Int("bigmax", 48, "max Ethereum txs of a big block")
	out := fs.String("out", ".", "output directory")
	fs.Parse(args)
	w := trace.Create(filepath.Join(*out, "trace.ndjson"))
	st := rpcfam.Drive(w, rpcfam.DriveOpts{Seed: *seed, Chains: *chains, Blocks: *blocks, MaxTxs: *maxTxs, AllCrash: *all, Sample: *sample,
		Double: *double, Workers: *workers, Views: *views, Big: *big, BigMin: *bigMin, BigMax: *bigMax})
	w.Close()
	var pairs []string
	for p := range st.Pairs {
		pairs = append(pairs, p)
	}
	sort.Strings(pairs)
	var shapes []string
	for p := range st.ViewShapes {
		shapes = append(shapes, p)
	}
	sort.Strings(shapes)
	trace.WriteJSON(filepath.Join(*out, "stats.json"), map[string]interface{}{
		"chains": st.Chains, "blocks": st.Blocks, "ethTxs": st.EthTxs, "schedules": st.Schedules, "crashes": st.Crashes,
		"rpcQueries": st.RpcQueries, "events": st.Events, "classes": st.Classes, "pairs": pairs, "viewShapes": shapes, "goMismatch": st.GoMismatch, "stuck": st.Stuck,
		"ownGasBeforeEth": st.OwnGasBeforeEth, "bigBlocks": st.BigBlocks, "bigCrashPoints": st.BigCrashPoints})
	fmt.Println("chains", st.Chains, "schedules", st.Schedules, "crashes", st.Crashes, "rpc", st.RpcQueries, "events", st.Events,
		"classes", st.Classes, "pairs", len(pairs), "goMismatch", st.GoMismatch, "stuck", len(st.Stuck))
	if len(st.Stuck) > 0 {
		fmt.Println("STUCK:", st.Stuck)
		return 3
	}
	return 0
}
