package main

import (
	"flag"
	"fmt"

	"verifharness/prog"
	rpcfam "verifharness/rpc"
)

func init() { cmds["explore"] = cmdExplore }

// explore prints what the consensus results look like per outcome class (development aid).
func cmdExplore(args []string) int {
	defer guard()
	fs := flag.NewFlagSet("explore", flag.ExitOnError)
	seed := fs.Int64("seed", 1, "seed")
	chains := fs.Int("chains", 3, "chains")
	blocks := fs.Int("blocks", 6, "blocks")
	fs.Parse(args)
	cls := map[string]int{}
	for ci := 0; ci < *chains; ci++ {
		tbl := prog.NewTable()
		g := rpcfam.NewGen(*seed*1000+int64(ci), fmt.Sprintf("x%d", ci), tbl)
		n := rpcfam.NewNames(g.W.U)
		fmt.Println("chain", ci, "maxGas", g.W.C.Opts.MaxGas)
		for b := 0; b < *blocks; b++ {
			rb, txs, ok := g.NextBlock(5)
			if !ok {
				fmt.Println("  chain halted")
				break
			}
			for i, t := range txs {
				s := rpcfam.TxSummary(n, rb.H, t, rb.Res.TxResults[i])
				cls[s["cls"].(string)]++
				lg := rb.Res.TxResults[i].Log
				if len(lg) > 90 {
					lg = lg[:90]
				}
				fmt.Printf("  h%d #%d %-8s aim=%-22s code=%d gasLimit=%d resGasUsed=%d wanted=%d evIdx=%v rcpt=%v log=%q\n", rb.H, i, s["cls"], t.Aim,
					rb.Res.TxResults[i].Code, t.Gas, rb.Res.TxResults[i].GasUsed, rb.Res.TxResults[i].GasWanted, s["evIdx"], s["rcpt"], lg)
			}
		}
	}
	fmt.Println(cls)
	return 0
}
