// Command vh_ref: differential traces evermint vs go-ethereum's own state transition, for spec/TraceRefEquiv.tla.
package main

import (
	"flag"
	"fmt"
	"os"
	"path/filepath"

	"verifharness/refeq"
	"verifharness/trace"
)

func main() {
	defer func() {
		if r := recover(); r != nil {
			if e, ok := r.(trace.ErrTooBig); ok {
				fmt.Fprintln(os.Stderr, "INFRA:", e.Error())
				os.Exit(2)
			}
			panic(r)
		}
	}()
	seed := flag.Int64("seed", 1, "seed")
	traces := flag.Int("traces", 20, "histories")
	txs := flag.Int("txs", 6, "transactions per history")
	out := flag.String("out", ".", "output dir")
	flag.Parse()
	w := trace.Create(filepath.Join(*out, "trace.ndjson"))
	stats := refeq.Run(w, refeq.Opts{Seed: *seed, Traces: *traces, Txs: *txs})
	w.Close()
	stats["events"] = w.N
	trace.WriteJSON(filepath.Join(*out, "stats.json"), stats)
	fmt.Println("events", w.N, stats)
}
