// Command vh_sdb records traces of the real StateDB for spec/TraceStateDB.tla.
package main

import (
	"flag"
	"fmt"
	"os"
	"path/filepath"

	"verifharness/sdb"
	"verifharness/trace"
)

func main() {
	defer func() {
		if r := recover(); r != nil {
			if e, ok := r.(trace.ErrTooBig); ok {
				fmt.Fprintln(os.Stderr, "INFRA:", e.Error())
				os.Exit(2)
			}
			panic(r)
		}
	}()
	if len(os.Args) < 2 || os.Args[1] != "gen" {
		fmt.Fprintln(os.Stderr, "usage: vh_sdb gen -seed N -traces N -maxops N -out DIR")
		os.Exit(2)
	}
	fs := flag.NewFlagSet("gen", flag.ExitOnError)
	seed := fs.Int64("seed", 1, "seed")
	traces := fs.Int("traces", 20, "number of histories")
	maxops := fs.Int("maxops", 25, "max operations per StateDB")
	out := fs.String("out", ".", "output directory")
	fs.Parse(os.Args[2:])
	w := trace.Create(filepath.Join(*out, "trace.ndjson"))
	stats := sdb.Gen(w, sdb.Opts{Seed: *seed, Traces: *traces, MaxOps: *maxops})
	w.Close()
	stats["events"] = w.N
	trace.WriteJSON(filepath.Join(*out, "stats.json"), stats)
	fmt.Println("events", w.N, stats)
}
