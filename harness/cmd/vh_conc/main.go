// vh_conc: harness binary of the `conc` family (C20 clause a).
//
//	vh_conc probe               exit 0 when the tree has hook H3, 3 otherwise
//	vh_conc run -plan p.json    run one stress / replay plan in THIS process (a panic of the real
//	                            code kills it: the caller reads exit status and stderr)
//	vh_conc indexer -plan p.json  the same for the indexer service scenarios
//	vh_conc buslock -plan p.json  the directed lock-order scenario on the real event bus
//	vh_conc ws -plan p.json       the real websocket server (rpc/websockets.go) under seeded clients
package main

import (
	"encoding/json"
	"flag"
	"fmt"
	"os"

	"verifharness/conc"
)

func main() {
	if len(os.Args) < 2 {
		fmt.Fprintln(os.Stderr, "usage: vh_conc probe|run|indexer ...")
		os.Exit(2)
	}
	switch os.Args[1] {
	case "probe":
		if conc.HooksPresent() {
			fmt.Println("hooks H3 present")
			os.Exit(0)
		}
		fmt.Println("hooks H3 missing")
		os.Exit(3)
	case "sameid":
		fs := flag.NewFlagSet("sameid", flag.ExitOnError)
		pf := fs.String("plan", "", "plan file")
		_ = fs.Parse(os.Args[2:])
		bz, err := os.ReadFile(*pf)
		if err != nil {
			fmt.Fprintln(os.Stderr, err)
			os.Exit(2)
		}
		var p conc.SameIDPlan
		if err := json.Unmarshal(bz, &p); err != nil {
			fmt.Fprintln(os.Stderr, err)
			os.Exit(2)
		}
		if err := conc.RunSameID(&p); err != nil {
			fmt.Fprintln(os.Stderr, "harness error:", err)
			os.Exit(2)
		}
		os.Exit(0)
	case "buslock":
		fs := flag.NewFlagSet("buslock", flag.ExitOnError)
		pf := fs.String("plan", "", "plan file")
		_ = fs.Parse(os.Args[2:])
		bz, err := os.ReadFile(*pf)
		if err != nil {
			fmt.Fprintln(os.Stderr, err)
			os.Exit(2)
		}
		var p conc.BusLockPlan
		if err := json.Unmarshal(bz, &p); err != nil {
			fmt.Fprintln(os.Stderr, err)
			os.Exit(2)
		}
		if err := conc.RunBusLock(&p); err != nil {
			fmt.Fprintln(os.Stderr, "harness error:", err)
			os.Exit(2)
		}
		os.Exit(0)
	case "ws": // the real websocket server under seeded clients (spec/WsConn.tla)
		fs := flag.NewFlagSet("ws", flag.ExitOnError)
		pf := fs.String("plan", "", "plan file")
		_ = fs.Parse(os.Args[2:])
		bz, err := os.ReadFile(*pf)
		if err != nil {
			fmt.Fprintln(os.Stderr, err)
			os.Exit(2)
		}
		var p conc.WsPlan
		if err := json.Unmarshal(bz, &p); err != nil {
			fmt.Fprintln(os.Stderr, err)
			os.Exit(2)
		}
		if err := conc.RunWs(&p); err != nil {
			fmt.Fprintln(os.Stderr, "harness error:", err)
			os.Exit(2)
		}
		os.Exit(0)
	case "run", "indexer":
		fs := flag.NewFlagSet(os.Args[1], flag.ExitOnError)
		pf := fs.String("plan", "", "plan file")
		_ = fs.Parse(os.Args[2:])
		bz, err := os.ReadFile(*pf)
		if err != nil {
			fmt.Fprintln(os.Stderr, err)
			os.Exit(2)
		}
		if os.Args[1] == "run" {
			var p conc.Plan
			if err := json.Unmarshal(bz, &p); err != nil {
				fmt.Fprintln(os.Stderr, err)
				os.Exit(2)
			}
			if err := conc.Run(&p); err != nil {
				fmt.Fprintln(os.Stderr, "harness error:", err)
				os.Exit(2)
			}
		} else {
			var p conc.IndexerPlan
			if err := json.Unmarshal(bz, &p); err != nil {
				fmt.Fprintln(os.Stderr, err)
				os.Exit(2)
			}
			if err := conc.RunIndexer(&p); err != nil {
				fmt.Fprintln(os.Stderr, "harness error:", err)
				os.Exit(2)
			}
		}
		os.Exit(0)
	}
	fmt.Fprintln(os.Stderr, "unknown command", os.Args[1])
	os.Exit(2)
}
