package main

import (
	"flag"
	"fmt"
	"os"
	"path/filepath"

	"verifharness/cpc"
	"verifharness/trace"
)

func init() { cmds["revert"] = cmdRevert }

// revert: execute the vectors of RevertTree.tla (C03, precompile part) against the real application.
func cmdRevert(args []string) int {
	defer guard()
	fs := flag.NewFlagSet("revert", flag.ExitOnError)
	vectors := fs.String("vectors", "vectors.ndjson", "vectors written by TLC (RevertTree_mc)")
	out := fs.String("out", ".", "output directory")
	seed := fs.Int64("seed", 1, "execution order")
	shard := fs.Int("shard", 0, "this shard")
	shards := fs.Int("shards", 1, "number of shards (vector id modulo)")
	fs.Parse(args)
	w := trace.Create(filepath.Join(*out, fmt.Sprintf("trace-%d.ndjson", *shard)))
	stats := cpc.RunRevertTree(w, *vectors, *seed, *shard, *shards)
	w.Close()
	stats["events"] = w.N
	fmt.Fprintln(os.Stderr, "events", w.N, stats)
	return 0
}
