package main

import (
	"flag"
	"fmt"
	"os"
	"path/filepath"

	"verifharness/cpc"
	"verifharness/trace"
)

// methods: the table of registered precompile methods read from the real executors
// (no EVM transaction involved, so it works even when the EVM wiring panics).
func cmdMethods(args []string) int {
	defer guard()
	fs := flag.NewFlagSet("methods", flag.ExitOnError)
	out := fs.String("out", "methods.json", "output file")
	fs.Parse(args)
	ms := cpc.ListMethodsFresh()
	trace.WriteJSON(*out, ms)
	fmt.Fprintln(os.Stderr, "methods", len(ms))
	return 0
}

// calltree: execute the vectors TLC generated against the real application.
func cmdCallTree(args []string) int {
	defer guard()
	fs := flag.NewFlagSet("calltree", flag.ExitOnError)
	vectors := fs.String("vectors", "vectors.ndjson", "vectors written by TLC (CallTree_mc)")
	out := fs.String("out", ".", "output directory")
	shard := fs.Int("shard", 0, "this shard")
	shards := fs.Int("shards", 1, "number of shards (vector id modulo)")
	only := fs.String("only", "", "run only cpc.method")
	fs.Parse(args)
	w := trace.Create(filepath.Join(*out, fmt.Sprintf("trace-%d.ndjson", *shard)))
	stats := cpc.RunCallTree(w, *vectors, *only, *shard, *shards)
	w.Close()
	stats["events"] = w.N
	trace.WriteJSON(filepath.Join(*out, fmt.Sprintf("stats-%d.json", *shard)), stats)
	fmt.Fprintln(os.Stderr, "events", w.N, stats)
	return 0
}
