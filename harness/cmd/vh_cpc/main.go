// Command vh_cpc is the harness binary of the custom-precompile family (C10, C12).
package main

import (
	"flag"
	"fmt"
	"os"
	"path/filepath"

	"verifharness/cpc"
	"verifharness/trace"
)

type cmd func(args []string) int

var cmds = map[string]cmd{"erc20": cmdErc20, "methods": cmdMethods, "calltree": cmdCallTree}

// guard turns a "number too big for TLC" panic into exit 2.
func guard() {
	if r := recover(); r != nil {
		if e, ok := r.(trace.ErrTooBig); ok {
			fmt.Fprintln(os.Stderr, "INFRA:", e.Error())
			os.Exit(2)
		}
		panic(r)
	}
}

func main() {
	if len(os.Args) < 2 {
		fmt.Fprintln(os.Stderr, "usage: vh_cpc <erc20|methods|calltree> [args]")
		os.Exit(2)
	}
	c, ok := cmds[os.Args[1]]
	if !ok {
		fmt.Fprintln(os.Stderr, "unknown command", os.Args[1])
		os.Exit(2)
	}
	os.Exit(c(os.Args[2:]))
}

func cmdErc20(args []string) int {
	defer guard()
	fs := flag.NewFlagSet("erc20", flag.ExitOnError)
	seed := fs.Int64("seed", 1, "seed")
	traces := fs.Int("traces", 10, "number of histories")
	steps := fs.Int("steps", 25, "steps per history")
	script := fs.String("script", "", "replay call sequences from this JSON file (TLC -simulate output) instead of random ones")
	out := fs.String("out", ".", "output directory")
	fs.Parse(args)
	w := trace.Create(filepath.Join(*out, "trace.ndjson"))
	var stats map[string]int
	if *script != "" {
		stats = cpc.ReplayErc20(w, *script)
	} else {
		stats = cpc.GenErc20(w, *seed, *traces, *steps)
	}
	w.Close()
	stats["events"] = w.N
	trace.WriteJSON(filepath.Join(*out, "stats.json"), stats)
	fmt.Fprintln(os.Stderr, "events", w.N)
	return 0
}
