// Command vh_repl: block histories executed on several replicas, for spec/TraceReplicas.tla.
package main

import (
	"encoding/json"
	"flag"
	"fmt"
	"os"
	"path/filepath"

	"verifharness/chain"
	"verifharness/repl"
	"verifharness/trace"
)

func main() {
	if len(os.Args) < 2 {
		fmt.Fprintln(os.Stderr, "usage: vh_repl run|replay ...")
		os.Exit(2)
	}
	switch os.Args[1] {
	case "run":
		fs := flag.NewFlagSet("run", flag.ExitOnError)
		seed := fs.Int64("seed", 1, "seed")
		n := fs.Int("n", 5, "histories")
		blocks := fs.Int("blocks", 8, "blocks per history")
		out := fs.String("out", ".", "output dir")
		fs.Parse(os.Args[2:])
		w := trace.Create(filepath.Join(*out, "trace.ndjson"))
		self, _ := os.Executable()
		stats := repl.Run(*seed, *n, *blocks, w, self)
		w.Close()
		stats["events"] = w.N
		trace.WriteJSON(filepath.Join(*out, "stats.json"), stats)
		fmt.Println("events", w.N, stats)
	case "replay":
		fs := flag.NewFlagSet("replay", flag.ExitOnError)
		hf := fs.String("history", "", "history file")
		rep := fs.String("rep", "r4", "replica name")
		tracer := fs.String("tracer", "", "value of the node-local option evm.tracer")
		fs.Parse(os.Args[2:])
		bz, err := os.ReadFile(*hf)
		if err != nil {
			panic(err)
		}
		var h repl.History
		if err := json.Unmarshal(bz, &h); err != nil {
			panic(err)
		}
		repl.Replay(&h, *rep, func(o *chain.Opts) { o.EvmTracer = *tracer }, 0, func(m trace.M) {
			b, _ := json.Marshal(m)
			fmt.Println(string(b))
		})
	default:
		os.Exit(2)
	}
}
