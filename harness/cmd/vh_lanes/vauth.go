package main

func cmdVauth(args []string) int { return 2 }
