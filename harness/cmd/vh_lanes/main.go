// vh_lanes: conformance driver of the `lanes` family (C07 Lanes.tla, C16 Vauth.tla).
package main

import (
	"flag"
	"fmt"
	"os"

	"verifharness/lanes"
	"verifharness/trace"
)

func guard() {
	if r := recover(); r != nil {
		switch e := r.(type) {
		case lanes.InfraErr:
			fmt.Fprintln(os.Stderr, "INFRA:", e.Error())
			os.Exit(2)
		case trace.ErrTooBig:
			fmt.Fprintln(os.Stderr, "INFRA:", e.Error())
			os.Exit(2)
		}
		panic(r)
	}
}

func cmdLanes(args []string) int {
	defer guard()
	fs := flag.NewFlagSet("lanes", flag.ExitOnError)
	in := fs.String("vectors", "vectors.ndjson", "vectors written by TLC")
	out := fs.String("out", "trace.ndjson", "trace file")
	shard := fs.Int("shard", 0, "this shard")
	of := fs.Int("of", 1, "number of shards")
	pool := fs.Int("pool", 48, "sender accounts")
	fs.Parse(args)
	all := lanes.ReadVectors(*in)
	var mine []lanes.Vector
	for i, v := range all {
		if i%*of == *shard {
			mine = append(mine, v)
		}
	}
	w := trace.Create(*out)
	st := lanes.Run(mine, w, *pool)
	w.Close()
	fmt.Printf("vectors %d accepted %d rejected %d blocks %d modes %v\n", st.Vectors, st.Accepted, st.Rejected, st.Blocks, st.ByMode)
	return 0
}

func main() {
	if len(os.Args) < 2 {
		fmt.Fprintln(os.Stderr, "usage: vh_lanes lanes|vauth [args]")
		os.Exit(2)
	}
	switch os.Args[1] {
	case "lanes":
		os.Exit(cmdLanes(os.Args[2:]))
	case "vauth":
		os.Exit(cmdVauth(os.Args[2:]))
	}
	fmt.Fprintln(os.Stderr, "unknown command", os.Args[1])
	os.Exit(2)
}
