// Command vh_fm samples the real fee-market EndBlock for spec/FeeMarket*.tla.
package main

import (
	"bufio"
	"encoding/json"
	"flag"
	"fmt"
	"os"

	"verifharness/fm"
)

func main() {
	seed := flag.Int64("seed", 1, "seed")
	n := flag.Int("n", 200, "random samples")
	out := flag.String("out", "samples.ndjson", "output file")
	flag.Parse()
	f, err := os.Create(*out)
	if err != nil {
		panic(err)
	}
	w := bufio.NewWriter(f)
	ss := fm.Gen(*seed, *n)
	panics := 0
	for _, s := range ss {
		bz, _ := json.Marshal(s)
		w.Write(bz)
		w.WriteByte('\n')
		if s.R == "panic" {
			panics++
		}
	}
	w.Flush()
	f.Close()
	fmt.Println("samples", len(ss), "panics", panics)
}
