// vh_staking: conformance driver of property C11 (staking precompile vs native staking).
package main

import (
	"flag"
	"fmt"
	"os"
	"path/filepath"

	"verifharness/staking"
	"verifharness/trace"
)

func guard() {
	if r := recover(); r != nil {
		if e, ok := r.(trace.ErrTooBig); ok {
			fmt.Fprintln(os.Stderr, "INFRA:", e.Error())
			os.Exit(2)
		}
		panic(r)
	}
}

func main() {
	defer guard()
	if len(os.Args) < 2 || os.Args[1] != "twin" {
		fmt.Fprintln(os.Stderr, "usage: vh_staking twin -seed N -traces N -steps N -grids N -out DIR")
		os.Exit(2)
	}
	fs := flag.NewFlagSet("twin", flag.ExitOnError)
	seed := fs.Int64("seed", 1, "seed")
	traces := fs.Int("traces", 4, "random histories")
	steps := fs.Int("steps", 12, "twin steps per history")
	grids := fs.Int("grids", 1, "forged-message grids")
	matrix := fs.Int("matrix", 1, "method x via matrices")
	out := fs.String("out", ".", "output directory")
	fs.Parse(os.Args[2:])
	w := trace.Create(filepath.Join(*out, "trace.ndjson"))
	stats := staking.Generate(w, staking.RunOpts{Seed: *seed, Traces: *traces, Steps: *steps, Grids: *grids, Matrix: *matrix})
	w.Close()
	stats["events"] = w.N
	trace.WriteJSON(filepath.Join(*out, "stats.json"), stats)
	fmt.Fprintln(os.Stderr, "events", w.N)
}
