// Package obs installs the harness' observers into the verif hooks of the repository.
package obs

import (
	"crypto/sha256"
	"encoding/hex"
	"errors"
	"math/big"
	"sync"
	"time"

	sdk "github.com/cosmos/cosmos-sdk/types"
	"github.com/ethereum/go-ethereum/common"
	corevm "github.com/ethereum/go-ethereum/core/vm"

	"github.com/EscanBE/evermint/v12/utils/verifhook"
)

// Frame is one executed call frame as seen by the EVM tracer interface.
type Frame struct {
	Type     string // CALL, STATICCALL, DELEGATECALL, CALLCODE, CREATE, CREATE2, SELFDESTRUCT
	From, To common.Address
	Value    *big.Int
	Gas      uint64
	GasUsed  uint64
	Err      string // "" ok | revert | oog | writeprot | depth | balance | other:<msg>
	Input    []byte
	Output   []byte
	Children []*Frame
}

// Exec is what one EVM instance did.
type Exec struct {
	TxKey      string // sha256 of the cosmos tx bytes ("" for queries)
	Mode       string // deliver | check | recheck | simulate-or-query
	Root       *Frame
	Started    bool
	TxGasLimit uint64 // from CaptureTxStart
	TxGasLeft  uint64 // from CaptureTxEnd
	stack      []*Frame
}

var (
	mu    sync.Mutex
	execs []*Exec
	on    bool
)

// ErrClass maps a VM error to the harness vocabulary.
func ErrClass(err error) string {
	switch {
	case err == nil:
		return ""
	case errors.Is(err, corevm.ErrExecutionReverted):
		return "revert"
	case errors.Is(err, corevm.ErrOutOfGas), errors.Is(err, corevm.ErrCodeStoreOutOfGas), errors.Is(err, corevm.ErrGasUintOverflow):
		return "oog"
	case errors.Is(err, corevm.ErrWriteProtection):
		return "writeprot"
	case errors.Is(err, corevm.ErrDepth):
		return "depth"
	case errors.Is(err, corevm.ErrInsufficientBalance):
		return "balance"
	default:
		return "other:" + err.Error()
	}
}

type rec struct {
	inner corevm.EVMLogger
	e     *Exec
}

func (r *rec) CaptureTxStart(gasLimit uint64) {
	r.e.TxGasLimit = gasLimit
	r.inner.CaptureTxStart(gasLimit)
}

func (r *rec) CaptureTxEnd(restGas uint64) {
	r.e.TxGasLeft = restGas
	r.inner.CaptureTxEnd(restGas)
}

func (r *rec) CaptureStart(env *corevm.EVM, from common.Address, to common.Address, create bool, input []byte, gas uint64, value *big.Int) {
	t := "CALL"
	if create {
		t = "CREATE"
	}
	f := &Frame{Type: t, From: from, To: to, Gas: gas, Value: new(big.Int).Set(nz(value)), Input: append([]byte{}, input...)}
	r.e.Root = f
	r.e.Started = true
	r.e.stack = []*Frame{f}
	r.inner.CaptureStart(env, from, to, create, input, gas, value)
}

func (r *rec) CaptureEnd(output []byte, gasUsed uint64, t time.Duration, err error) {
	if r.e.Root != nil {
		r.e.Root.Err = ErrClass(err)
		r.e.Root.GasUsed = gasUsed
		r.e.Root.Output = append([]byte{}, output...)
	}
	r.inner.CaptureEnd(output, gasUsed, t, err)
}

func (r *rec) CaptureEnter(typ corevm.OpCode, from common.Address, to common.Address, input []byte, gas uint64, value *big.Int) {
	f := &Frame{Type: typ.String(), From: from, To: to, Gas: gas, Value: new(big.Int).Set(nz(value)), Input: append([]byte{}, input...)}
	if n := len(r.e.stack); n > 0 {
		p := r.e.stack[n-1]
		p.Children = append(p.Children, f)
	}
	r.e.stack = append(r.e.stack, f)
	r.inner.CaptureEnter(typ, from, to, input, gas, value)
}

func (r *rec) CaptureExit(output []byte, gasUsed uint64, err error) {
	if n := len(r.e.stack); n > 1 {
		f := r.e.stack[n-1]
		f.Err = ErrClass(err)
		f.GasUsed = gasUsed
		f.Output = append([]byte{}, output...)
		r.e.stack = r.e.stack[:n-1]
	}
	r.inner.CaptureExit(output, gasUsed, err)
}

func (r *rec) CaptureState(pc uint64, op corevm.OpCode, gas, cost uint64, scope *corevm.ScopeContext, rData []byte, depth int, err error) {
	r.inner.CaptureState(pc, op, gas, cost, scope, rData, depth, err)
}

func (r *rec) CaptureFault(pc uint64, op corevm.OpCode, gas, cost uint64, scope *corevm.ScopeContext, depth int, err error) {
	r.inner.CaptureFault(pc, op, gas, cost, scope, depth, err)
}

func nz(v *big.Int) *big.Int {
	if v == nil {
		return new(big.Int)
	}
	return v
}

// TxKey is the key under which executions of a cosmos tx are recorded.
func TxKey(txBytes []byte) string {
	if len(txBytes) == 0 {
		return ""
	}
	h := sha256.Sum256(txBytes)
	return hex.EncodeToString(h[:])
}

// Install turns frame recording on (idempotent).
func Install() {
	mu.Lock()
	defer mu.Unlock()
	if on {
		return
	}
	on = true
	verifhook.TracerWrapper = func(ctx sdk.Context, inner corevm.EVMLogger) corevm.EVMLogger {
		mode := "deliver"
		switch {
		case ctx.IsReCheckTx():
			mode = "recheck"
		case ctx.IsCheckTx():
			mode = "check"
		}
		e := &Exec{TxKey: TxKey(ctx.TxBytes()), Mode: mode}
		mu.Lock()
		execs = append(execs, e)
		mu.Unlock()
		return &rec{inner: inner, e: e}
	}
}

// Drain returns and forgets everything recorded so far.
func Drain() []*Exec {
	mu.Lock()
	defer mu.Unlock()
	out := execs
	execs = nil
	return out
}
