// Package simq interleaves block execution of the real application with every kind of simulation /
// query request (eth_call, estimateGas, TraceTx, TraceBlock, CheckTx, ReCheckTx, Simulate, gRPC queries
// of the custom modules at the latest and at historical heights).  Around every request it digests
// EVERY key-value pair of EVERY mounted store and the last commit id; predictable calls are delivered
// as the next transaction and compared with their prediction.  spec/TraceSimulation.tla judges (C08).
package simq

import (
	"context"
	"crypto/sha256"
	"encoding/hex"
	"encoding/json"
	"fmt"
	"math/big"
	"math/rand"
	"sort"
	"strings"

	"cosmossdk.io/store/rootmulti"
	storetypes "cosmossdk.io/store/types"
	abci "github.com/cometbft/cometbft/abci/types"
	"github.com/cosmos/gogoproto/proto"
	"github.com/ethereum/go-ethereum/common"
	"github.com/ethereum/go-ethereum/common/hexutil"
	ethtypes "github.com/ethereum/go-ethereum/core/types"
	"github.com/ethereum/go-ethereum/crypto"

	cpctypes "github.com/EscanBE/evermint/v12/x/cpc/types"
	evmtypes "github.com/EscanBE/evermint/v12/x/evm/types"
	feemarkettypes "github.com/EscanBE/evermint/v12/x/feemarket/types"
	vauthtypes "github.com/EscanBE/evermint/v12/x/vauth/types"

	"verifharness/asm"
	"verifharness/chain"
	"verifharness/drivers"
	"verifharness/prog"
	"verifharness/trace"
)

func dg(b []byte) string {
	if len(b) == 0 {
		return "empty"
	}
	h := sha256.Sum256(b)
	return fmt.Sprintf("%d:%s", len(b), hex.EncodeToString(h[:8]))
}

// StoreDigest hashes every key-value pair of every store mounted in the application's root multistore
// (IAVL, transient and memory stores alike) as it is right now, committed or not.
func StoreDigest(c *chain.Chain) (string, int) {
	rms, ok := c.App.CommitMultiStore().(*rootmulti.Store)
	if !ok {
		panic("root store is not a rootmulti.Store")
	}
	byName := rms.StoreKeysByName()
	names := make([]string, 0, len(byName))
	for n := range byName {
		names = append(names, n)
	}
	sort.Strings(names)
	h := sha256.New()
	n := 0
	for _, name := range names {
		var kv storetypes.KVStore
		func() {
			defer func() { _ = recover() }()
			kv = rms.GetKVStore(byName[name])
		}()
		if kv == nil {
			continue
		}
		h.Write([]byte("S:" + name))
		it := kv.Iterator(nil, nil)
		for ; it.Valid(); it.Next() {
			h.Write(it.Key())
			h.Write([]byte{0})
			h.Write(it.Value())
			h.Write([]byte{1})
			n++
		}
		it.Close()
	}
	return hex.EncodeToString(h.Sum(nil))[:24], n
}

func commitID(c *chain.Chain) string {
	id := c.App.LastCommitID()
	return fmt.Sprintf("%d:%s", id.Version, hex.EncodeToString(id.Hash)[:16])
}

// envContract returns block-context words: NUMBER TIMESTAMP COINBASE BASEFEE GASLIMIT (160 bytes).
func envCode() []byte {
	a := asm.New()
	for i, op := range []byte{0x43, 0x42, 0x41, 0x48, 0x45} {
		a.Op(op).PushU(uint64(32 * i)).Op(asm.MSTORE)
	}
	return a.ReturnMem(0, 160).Bytes()
}

type call struct {
	id       string
	from     *chain.Acct
	fromName string
	to       *common.Address
	data     []byte
	value    int64
	gas      uint64
	price    int64
	desc     trace.M
}

func (k call) args(withGas bool) []byte {
	m := map[string]interface{}{"from": k.from.Addr.Hex(), "value": hexutil.EncodeBig(big.NewInt(k.value)), "data": hexutil.Encode(k.data),
		"gasPrice": hexutil.EncodeBig(big.NewInt(k.price))}
	if k.to != nil {
		m["to"] = k.to.Hex()
	}
	if withGas {
		m["gas"] = hexutil.EncodeUint64(k.gas)
	}
	bz, _ := json.Marshal(m)
	return bz
}

// branchCode stops when more than n gas is left at entry and otherwise loops until it runs out of gas:
// the gas limit it needs is far above the gas it uses, as with `require(gasleft() > n)` in relayers.
func branchCode(n uint64) []byte {
	a := asm.New()
	a.Op(asm.GAS).PushU(n).Op(0x10) // LT: n < gas
	a.Op(0x61, 0, 0)               // PUSH2 <ok>, patched below
	pos := len(a.B) - 2
	a.Op(asm.JUMPI)
	loop := len(a.B)
	a.Op(asm.JUMPDEST, 0x61, byte(loop>>8), byte(loop), 0x56) // loop: JUMPDEST PUSH2 loop JUMP  (runs out of gas)
	ok := len(a.B)
	a.B[pos], a.B[pos+1] = byte(ok>>8), byte(ok)
	a.Op(asm.JUMPDEST, asm.STOP)
	return a.B
}

type driver struct {
	w     *drivers.World
	c     *chain.Chain
	r     *rand.Rand
	out   *trace.W
	tid   string
	stats map[string]int
	env   common.Address
	gdep  common.Address
	gbr   common.Address
	erc20 common.Address
	ncall int
	// txs of the last block, for tracing
	lastEth    []*evmtypes.MsgEthereumTx
	lastHeight int64
	// requests to re-issue later: key -> replay function
	hist []func()
}

func (d *driver) query(path string, req proto.Message, height int64) ([]byte, string) {
	bz, err := proto.Marshal(req)
	if err != nil {
		panic(err)
	}
	var res *abci.ResponseQuery
	var perr interface{}
	func() {
		defer func() { perr = recover() }()
		res, err = d.c.App.Query(context.Background(), &abci.RequestQuery{Path: path, Data: bz, Height: height})
	}()
	if perr != nil {
		return nil, "panic:" + trunc(fmt.Sprint(perr), 80)
	}
	if err != nil {
		return nil, "err:" + trunc(err.Error(), 80)
	}
	if res.Code != 0 {
		return nil, fmt.Sprintf("code%d:%s", res.Code, trunc(res.Log, 80))
	}
	return res.Value, "ok"
}

func trunc(s string, n int) string {
	if len(s) > n {
		return s[:n]
	}
	return s
}

// around runs f between two digests and emits the request line.
func (d *driver) around(kind, key string, extra trace.M, f func() (resp string, status string)) {
	pre, _ := StoreDigest(d.c)
	cpre := commitID(d.c)
	resp, status := f()
	post, nkeys := StoreDigest(d.c)
	cpost := commitID(d.c)
	ev := trace.M{"ev": "SimReq", "kind": kind, "key": key, "pre": pre, "post": post, "commitPre": cpre, "commitPost": cpost, "resp": resp, "status": status,
		"h": d.c.Height, "predict": "none"}
	for k, v := range extra {
		ev[k] = v
	}
	d.out.Emit(ev)
	d.stats["req."+kind]++
	d.stats["keys"] = nkeys
}

func (d *driver) newCall(predictable bool) call {
	r := d.r
	w := d.w
	d.ncall++
	k := call{id: fmt.Sprintf("%s_c%d", d.tid, d.ncall), price: d.c.BaseFee().Int64() + 1}
	si := r.Intn(4) // a0..a3 deliver; a5 is reserved for mempool trial executions
	k.from, k.fromName = d.c.Accts[si], fmt.Sprintf("a%d", si)
	k.gas = []uint64{60000, 100000, 200000, 300000, 400000}[r.Intn(5)]
	kk := r.Intn(15)
	switch {
	case kk == 13: // no call data, recipient without stored code that executes all the same: a native precompile
		a := common.BytesToAddress([]byte{byte(1 + r.Intn(9))})
		k.to, k.data = &a, nil
		k.value = int64(r.Intn(3))
		k.gas = []uint64{60000, 100000}[r.Intn(2)]
		k.desc = trace.M{"to": fmt.Sprintf("native-precompile-%d", a[19])}
	case kk == 14: // no call data: plain transfer to an account, or to a custom precompiled contract (which reverts on it)
		var a common.Address
		if r.Intn(2) == 0 {
			a = d.erc20
			k.desc = trace.M{"to": "erc20.empty-calldata"}
		} else {
			a = d.c.Accts[r.Intn(4)].Addr
			k.desc = trace.M{"to": "plain-transfer"}
		}
		k.to, k.data = &a, nil
		k.value = int64(r.Intn(5))
	case kk == 12: // gas-dependent branch: needs > 200000 gas at entry, uses ~21000
		a := d.gbr
		k.to, k.data = &a, []byte{0}
		k.gas = []uint64{150000, 300000, 400000}[r.Intn(3)]
		k.desc = trace.M{"to": "gbranch"}
	case kk < 7: // menu contracts (straight-line programs over constants: predictable)
		ci := r.Intn(w.NContracts)
		name := fmt.Sprintf("c%d", ci)
		ents := make([]string, 0)
		for e := range w.T.Ops[w.Tid+"_"+name] {
			ents = append(ents, e)
		}
		sort.Strings(ents)
		sel := ents[r.Intn(len(ents))]
		a := w.U.A(name)
		k.to, k.data = &a, prog.SelData(sel)
		k.value = int64(r.Intn(5))
		k.desc = trace.M{"to": name, "sel": sel}
	case kk < 8: // creation
		k.data = w.T.InitCode(w.Tid+"_"+[]string{"i0", "i1", "i2"}[r.Intn(3)], w.Tid+"_rt")
		k.gas = 300000
		k.desc = trace.M{"to": "create"}
	case kk < 10: // state-changing precompile call (ERC-20 transfer)
		to := d.c.Accts[r.Intn(4)].Addr
		sel := crypto.Keccak256([]byte("transfer(address,uint256)"))[:4]
		data := append(append(append([]byte{}, sel...), common.LeftPadBytes(to.Bytes(), 32)...), common.LeftPadBytes(big.NewInt(int64(1+r.Intn(40))).Bytes(), 32)...)
		a := d.erc20
		k.to, k.data = &a, data
		k.desc = trace.M{"to": "erc20.transfer"}
	case kk < 11: // gas-dependent: the callee burns 63/64 of what is left, the caller then needs 20000+ for a fresh slot
		a := d.gdep
		k.to, k.data = &a, []byte{0}
		k.gas = []uint64{400000, 1000000, 1600000, 2000000}[r.Intn(4)]
		k.desc = trace.M{"to": "gdep"}
	default: // reads the block context: NOT predictable, used for repeatability at a height
		a := d.env
		k.to, k.data = &a, []byte{0}
		k.desc = trace.M{"to": "env"}
		predictable = false
	}
	k.desc["from"], k.desc["gas"], k.desc["value"], k.desc["id"] = k.fromName, trace.U(k.gas), k.value, k.id
	k.desc["predictable"] = predictable && kk != 11
	return k
}

func decodeCall(bz []byte) trace.M {
	rsp := &evmtypes.MsgEthereumTxResponse{}
	if err := rsp.Unmarshal(bz); err != nil {
		return trace.M{"class": "undecodable", "ret": "none", "gasUsed": int64(0), "logs": "none"}
	}
	cls := "ok"
	if rsp.VmError != "" {
		cls = "vmerr:" + trunc(rsp.VmError, 40)
	}
	logs := "nologs"
	if len(rsp.MarshalledReceipt) > 0 {
		rc := &ethtypes.Receipt{}
		if err := rc.UnmarshalBinary(rsp.MarshalledReceipt); err == nil {
			logs = logsDigest(rc.Logs)
		}
	}
	return trace.M{"class": cls, "ret": dg(rsp.Ret), "gasUsed": trace.U(rsp.GasUsed), "logs": logs}
}

func logsDigest(logs []*ethtypes.Log) string {
	var b []byte
	for _, l := range logs {
		b = append(b, l.Address.Bytes()...)
		for _, t := range l.Topics {
			b = append(b, t.Bytes()...)
		}
		b = append(b, 0xff)
		b = append(b, l.Data...)
		b = append(b, 0xfe)
	}
	return fmt.Sprintf("%d/%s", len(logs), dg(b))
}

// Opts of a run.
type Opts struct {
	Seed   int64
	Traces int
	Blocks int
}

// Run writes the traces.
func Run(out *trace.W, o Opts) map[string]int {
	stats := map[string]int{}
	for ti := 0; ti < o.Traces; ti++ {
		r := rand.New(rand.NewSource(o.Seed*1000033 + int64(ti)))
		one(out, r, fmt.Sprintf("m%d_%d", o.Seed, ti), o.Blocks, stats)
	}
	return stats
}

func one(out *trace.W, r *rand.Rand, tid string, blocks int, stats map[string]int) {
	tbl := prog.NewTable()
	envA := common.HexToAddress("0x00000000000000000000000000000000e4e40001")
	gdepA := common.HexToAddress("0x00000000000000000000000000000000e4e40002")
	burnA := common.HexToAddress("0x00000000000000000000000000000000e4e40003")
	gbrA := common.HexToAddress("0x00000000000000000000000000000000e4e40004")
	w, _ := drivers.NewEthWorld(tbl, r, tid, func(o *chain.Opts) {
		o.MaxGas = -1
		o.MinGasPrice = "0"
		o.CpcDeployErc20Native = true
		o.CpcDeployStaking = true
		o.Contracts = append(o.Contracts,
			chain.GenContract{Addr: envA, Code: envCode()},
			chain.GenContract{Addr: burnA, Code: []byte{asm.INVALID}},
			chain.GenContract{Addr: gbrA, Code: branchCode(200000)},
			chain.GenContract{Addr: gdepA, Code: asm.New().Call(asm.CALL, burnA, asm.CallOpts{}).SStore(7, 1).Bytes()})
	})
	c := w.C
	d := &driver{w: w, c: c, r: r, out: out, tid: tid, stats: stats, env: envA, gdep: gdepA, gbr: gbrA}
	if a := c.App.CPCKeeper.GetErc20CustomPrecompiledContractAddressByMinDenom(c.Ctx(), chain.Denom); a != nil {
		d.erc20 = *a
	}
	dig, _ := StoreDigest(c)
	out.Emit(trace.M{"ev": "SimGenesis", "tid": tid, "digest": dig, "commit": commitID(c), "h": c.Height})

	var pending []call // predicted calls to deliver first in the next block
	created := 0
	for b := 0; b < blocks; b++ {
		// ---- requests against the committed state ----
		nreq := 2 + r.Intn(4)
		for q := 0; q < nreq; q++ {
			d.request(&pending)
		}
		// re-issue an older historical request: the answer must not have changed
		if len(d.hist) > 0 && r.Intn(2) == 0 {
			d.hist[r.Intn(len(d.hist))]()
		}
		// ---- governance: now and then the x/evm parameters change with the next block (written into the working set of the
		// root store, as the gov end-blocker's write of the previous block would be); predictions made on the old state are void
		if r.Intn(4) == 0 {
			hdr := c.Ctx().BlockHeader()
			uctx := c.App.BaseApp.NewUncachedContext(false, hdr)
			p := c.App.EvmKeeper.GetParams(uctx)
			if r.Intn(2) == 0 {
				p.EnableCall = !p.EnableCall
			} else {
				p.EnableCreate = !p.EnableCreate
			}
			if err := c.App.EvmKeeper.SetParams(uctx, p); err != nil {
				panic(err)
			}
			pending = nil
			stats["param-changes"]++
		}
		// ---- the next block: predicted calls first, then ordinary traffic ----
		var txs [][]byte
		var delivered []call
		nextNonce := map[string]uint64{}
		d.lastEth = nil
		for _, k := range pending {
			seq, ok := nextNonce[k.fromName]
			if !ok {
				seq = c.Seq(k.from.Addr)
			}
			txd := &ethtypes.LegacyTx{Nonce: seq, GasPrice: big.NewInt(k.price), Gas: k.gas, To: k.to, Value: big.NewInt(k.value), Data: k.data}
			stx := chain.SignEth(k.from, txd, chain.EIP155)
			msg := chain.EthMsg(stx, k.from.Addr)
			txs = append(txs, c.WrapEth(msg))
			d.lastEth = append(d.lastEth, msg)
			nextNonce[k.fromName] = seq + 1
			delivered = append(delivered, k)
			break // only the FIRST transaction of the block runs on the state the prediction was made on
		}
		pending = nil
		baseFee := c.BaseFee().Int64()
		for i := r.Intn(3); i > 0; i-- {
			s := w.GenEthSpec(nextNonce, baseFee, &created)
			if s.FromName == "a5" {
				continue
			}
			bz, _, _, _ := w.BuildEth(s)
			txs = append(txs, bz)
		}
		bo := c.Deliver(txs...)
		if bo.Panic != nil || bo.Err != nil {
			out.Emit(trace.M{"ev": "SimBlock", "h": c.Height + 1, "panic": true, "digest": "none", "commit": "none", "delivered": []interface{}{}})
			stats["block-panic"]++
			return
		}
		d.lastHeight = c.Height
		dig, _ := StoreDigest(c)
		dl := []interface{}{}
		for i, k := range delivered {
			res := bo.Res.TxResults[i]
			m := trace.M{"id": k.id, "code": int64(res.Code), "gas": trace.U(k.gas), "class": "rejected", "ret": "none", "gasUsed": int64(0), "logs": "none", "reason": "none"}
			if res.Code != 0 {
				m["reason"] = "other"
				if strings.Contains(res.Log, "prohibited to destroy") {
					m["reason"] = "destroy-guard" // the StateDB commit refused to delete a protected account: the tx failed as a whole
				}
			}
			if res.Code == 0 {
				if rsp, err := evmtypes.DecodeTxResponse(res.Data); err == nil {
					bz, _ := rsp.Marshal()
					for kk, v := range decodeCall(bz) {
						m[kk] = v
					}
				}
			}
			dl = append(dl, m)
		}
		out.Emit(trace.M{"ev": "SimBlock", "h": c.Height, "panic": false, "digest": dig, "commit": commitID(c), "delivered": dl})
		stats["blocks"]++
	}
	stats["traces"]++
}

func (d *driver) request(pending *[]call) {
	r, c := d.r, d.c
	switch k := r.Intn(20); {
	case k < 5: // eth_call (+ prediction when predictable), issued twice: same answer
		cl := d.newCall(true)
		pred := cl.desc["predictable"].(bool) && len(*pending) == 0
		var first trace.M
		for rep := 0; rep < 2; rep++ {
			extra := trace.M{"desc": cl.desc}
			d.around("eth_call", fmt.Sprintf("eth_call/%s/h%d", cl.id, c.Height), extra, func() (string, string) {
				bz, st := d.query("/ethermint.evm.v1.Query/EthCall", &evmtypes.EthCallRequest{Args: cl.args(true), GasCap: 25_000_000}, 0)
				if st != "ok" {
					return st, st
				}
				m := decodeCall(bz)
				if rep == 0 {
					first = m
				}
				extra["result"] = m
				return dg(bz), "ok"
			})
		}
		if pred && first != nil {
			d.out.Emit(trace.M{"ev": "SimPredict", "id": cl.id, "h": c.Height, "gas": trace.U(cl.gas), "result": first, "what": "call"})
			*pending = append(*pending, cl)
			d.stats["predictions"]++
		}
		// the same call against this height again after later blocks (block-context readers included)
		h := c.Height
		key := fmt.Sprintf("eth_call/%s/h%d", cl.id, h)
		d.hist = append(d.hist, func() {
			d.around("eth_call@past", key, trace.M{"desc": cl.desc}, func() (string, string) {
				bz, st := d.query("/ethermint.evm.v1.Query/EthCall", &evmtypes.EthCallRequest{Args: cl.args(true), GasCap: 25_000_000}, h)
				if st != "ok" {
					return st, st
				}
				return dg(bz), "ok"
			})
		})
	case k < 8: // estimateGas; the estimate is then used as the gas limit of the delivered call
		cl := d.newCall(true)
		var est uint64
		d.around("estimateGas", fmt.Sprintf("estimate/%s/h%d", cl.id, c.Height), trace.M{"desc": cl.desc}, func() (string, string) {
			bz, st := d.query("/ethermint.evm.v1.Query/EstimateGas", &evmtypes.EthCallRequest{Args: cl.args(false), GasCap: 25_000_000}, 0)
			if st != "ok" {
				return st, st
			}
			rsp := &evmtypes.EstimateGasResponse{}
			if err := rsp.Unmarshal(bz); err != nil {
				return "undecodable", "err"
			}
			est = rsp.Gas
			return fmt.Sprint(rsp.Gas), "ok"
		})
		affordable := est > 0 && est < 2_000_000_000 && int64(est)*cl.price+cl.value < c.Bal(cl.from.Addr, chain.Denom).Int64()/2
		if affordable && cl.desc["predictable"].(bool) && len(*pending) == 0 {
			cl.gas = est
			d.out.Emit(trace.M{"ev": "SimPredict", "id": cl.id, "h": c.Height, "gas": trace.U(est), "result": trace.M{"class": "any", "ret": "any", "gasUsed": int64(0), "logs": "any"}, "what": "estimate"})
			*pending = append(*pending, cl)
			d.stats["estimates"]++
		}
	case k < 10 && len(d.lastEth) > 0: // trace a transaction / the block just executed
		i := r.Intn(len(d.lastEth))
		h := d.lastHeight
		if r.Intn(2) == 0 {
			req := &evmtypes.QueryTraceTxRequest{Msg: d.lastEth[i], Predecessors: d.lastEth[:i], BlockNumber: h, BlockTime: chain.BlockTime(h),
				ProposerAddress: c.Vals[0].ConsAddr, TraceConfig: &evmtypes.TraceConfig{}}
			if r.Intn(2) == 0 {
				req.TraceConfig.Tracer = "callTracer"
			}
			d.around("traceTx", fmt.Sprintf("traceTx/%d/%d/%s", h, i, req.TraceConfig.Tracer), nil, func() (string, string) {
				bz, st := d.query("/ethermint.evm.v1.Query/TraceTx", req, h-1)
				if st != "ok" {
					return st, st
				}
				return dg(bz), "ok"
			})
		} else {
			req := &evmtypes.QueryTraceBlockRequest{Txs: d.lastEth, BlockNumber: h, BlockTime: chain.BlockTime(h), ProposerAddress: c.Vals[0].ConsAddr, TraceConfig: &evmtypes.TraceConfig{}}
			d.around("traceBlock", fmt.Sprintf("traceBlock/%d", h), nil, func() (string, string) {
				bz, st := d.query("/ethermint.evm.v1.Query/TraceBlock", req, h-1)
				if st != "ok" {
					return st, st
				}
				return dg(bz), "ok"
			})
		}
	case k < 13: // mempool admission with trial execution, and Simulate: a5 only (never delivers)
		a := c.Accts[5]
		cl := d.newCall(false)
		seq := c.App.AccountKeeper.GetAccount(c.App.BaseApp.NewContextLegacy(true, c.Ctx().BlockHeader()), a.Acc()).GetSequence()
		if r.Intn(4) == 0 {
			seq += uint64(r.Intn(3))
		}
		txd := &ethtypes.LegacyTx{Nonce: seq, GasPrice: big.NewInt(cl.price), Gas: cl.gas, To: cl.to, Value: big.NewInt(cl.value), Data: cl.data}
		bz := c.EthTx(a, txd)
		mode := r.Intn(3)
		d.around([]string{"checkTx", "reCheckTx", "simulate"}[mode], fmt.Sprintf("mempool/%s", cl.id), trace.M{"desc": cl.desc}, func() (string, string) {
			var perr interface{}
			resp := ""
			func() {
				defer func() { perr = recover() }()
				switch mode {
				case 0:
					res, err := c.App.CheckTx(&abci.RequestCheckTx{Tx: bz, Type: abci.CheckTxType_New})
					resp = fmt.Sprint(err == nil && res.Code == 0)
				case 1:
					res, err := c.App.CheckTx(&abci.RequestCheckTx{Tx: bz, Type: abci.CheckTxType_Recheck})
					resp = fmt.Sprint(err == nil && res.Code == 0)
				default:
					_, _, err := c.App.Simulate(bz)
					resp = fmt.Sprint(err == nil)
				}
			}()
			if perr != nil {
				return "panic", "panic:" + trunc(fmt.Sprint(perr), 80)
			}
			return resp, "ok"
		})
	default: // gRPC queries of the custom modules, latest or historical height
		h := int64(0)
		if c.Height > 2 && r.Intn(2) == 0 {
			h = 2 + r.Int63n(c.Height-1)
		}
		names := d.w.U.Names()
		a := d.w.U.A(names[r.Intn(len(names))])
		var path string
		var req proto.Message
		switch r.Intn(11) {
		case 0:
			path, req = "/ethermint.evm.v1.Query/Account", &evmtypes.QueryAccountRequest{Address: a.Hex()}
		case 1:
			path, req = "/ethermint.evm.v1.Query/Balance", &evmtypes.QueryBalanceRequest{Address: a.Hex()}
		case 2:
			path, req = "/ethermint.evm.v1.Query/Storage", &evmtypes.QueryStorageRequest{Address: a.Hex(), Key: common.BigToHash(big.NewInt(int64(r.Intn(4)))).Hex()}
		case 3:
			path, req = "/ethermint.evm.v1.Query/Code", &evmtypes.QueryCodeRequest{Address: a.Hex()}
		case 4:
			path, req = "/ethermint.evm.v1.Query/Params", &evmtypes.QueryParamsRequest{}
		case 5:
			path, req = "/ethermint.evm.v1.Query/BaseFee", &evmtypes.QueryBaseFeeRequest{}
		case 6:
			path, req = "/ethermint.feemarket.v1.Query/Params", &feemarkettypes.QueryParamsRequest{}
		case 7:
			path, req = "/ethermint.feemarket.v1.Query/BaseFee", &feemarkettypes.QueryBaseFeeRequest{}
		case 8:
			path, req = "/evermint.cpc.v1.Query/CustomPrecompiledContracts", &cpctypes.QueryCustomPrecompiledContractsRequest{}
		case 9:
			path, req = "/evermint.vauth.v1.Query/ProofExternalOwnedAccount", &vauthtypes.QueryProofExternalOwnedAccountRequest{Account: a.Hex()}
		default:
			path, req = "/ethermint.evm.v1.Query/CosmosAccount", &evmtypes.QueryCosmosAccountRequest{Address: a.Hex()}
		}
		rbz, _ := proto.Marshal(req)
		hh := h
		if hh == 0 {
			hh = c.Height
		}
		key := fmt.Sprintf("q%s/%s/h%d", path, dg(rbz), hh)
		run := func(kind string) func() {
			return func() {
				d.around(kind, key, nil, func() (string, string) {
					bz, st := d.query(path, req, hh)
					if st != "ok" {
						return st, st
					}
					return dg(bz), "ok"
				})
			}
		}
		run("grpc")()
		d.hist = append(d.hist, run("grpc@past"))
	}
}
