// Package fm samples the REAL x/feemarket EndBlock (CalculateBaseFee + SetBaseFee + telemetry) on
// chosen inputs: current base fee (0 .. 2^256-1), gas consumed by the block, the consensus
// max-gas parameter (-1, 0, 1, ...), the minimum gas price (with a fractional part).  The results
// are checked against FeeMarket.tla by Apalache (unbounded integers) and, for the small ones, by TLC.
package fm

import (
	"fmt"
	"math/big"
	"math/rand"

	sdkmath "cosmossdk.io/math"
	storetypes "cosmossdk.io/store/types"
	cmtproto "github.com/cometbft/cometbft/proto/tendermint/types"

	"verifharness/chain"
)

// Sample is one evaluation of the real function.
type Sample struct {
	B      string `json:"b"`
	Used   string `json:"used"`
	MaxGas string `json:"maxGas"`
	MinP   string `json:"minP"`    // integer part of the minimum gas price
	MinDec string `json:"minPDec"` // as configured
	R      string `json:"r"`       // next base fee, or "panic"
	Panic  string `json:"panic"`
	Small  bool   `json:"small"` // every number (and the products the spec forms) fits TLC's integers
}

var one = big.NewInt(1)

func pow2(n uint) *big.Int { return new(big.Int).Lsh(one, n) }

// Eval runs the real EndBlock of x/feemarket on a throw-away branch of c's state.
func Eval(c *chain.Chain, b *big.Int, used uint64, maxGas int64, minDec string) (s Sample) {
	s = Sample{B: b.String(), Used: fmt.Sprint(used), MaxGas: fmt.Sprint(maxGas), MinDec: minDec}
	minp := sdkmath.LegacyMustNewDecFromStr(minDec)
	s.MinP = minp.TruncateInt().String()
	defer func() {
		if r := recover(); r != nil {
			s.R = "panic"
			s.Panic = fmt.Sprint(r)
			if len(s.Panic) > 200 {
				s.Panic = s.Panic[:200]
			}
		}
	}()
	ctx, _ := c.Ctx().CacheContext()
	k := c.App.FeeMarketKeeper
	p := k.GetParams(ctx)
	p.BaseFee = sdkmath.NewIntFromBigInt(b)
	p.MinGasPrice = minp
	if err := k.SetParams(ctx, p); err != nil {
		panic("harness: SetParams: " + err.Error())
	}
	cp := *chain.ConsParams(maxGas)
	ctx = ctx.WithConsensusParams(cmtproto.ConsensusParams{Block: cp.Block, Evidence: cp.Evidence, Validator: cp.Validator})
	var meter storetypes.GasMeter
	if maxGas > -1 {
		meter = storetypes.NewGasMeter(uint64(maxGas))
	} else {
		meter = storetypes.NewInfiniteGasMeter()
	}
	func() {
		defer func() { _ = recover() }() // consuming beyond the limit panics like in runTx; the consumption stays
		meter.ConsumeGas(used, "block")
	}()
	ctx = ctx.WithBlockGasMeter(meter)
	k.EndBlock(ctx)
	s.R = k.GetBaseFee(ctx).BigInt().String()
	return s
}

func small(b *big.Int, used uint64, maxGas int64, minp *big.Int) bool {
	lim := big.NewInt(1 << 30)
	if b.Cmp(lim) >= 0 || minp.Cmp(lim) >= 0 || used >= 1<<30 || maxGas >= 1<<30 {
		return false
	}
	prod := new(big.Int).Mul(b, new(big.Int).SetUint64(used+uint64(maxI(maxGas, 0))+1))
	return prod.Cmp(lim) < 0
}

func maxI(a, b int64) int64 {
	if a > b {
		return a
	}
	return b
}

// Gen produces boundary samples plus n random ones.
func Gen(seed int64, n int) []Sample {
	c := chain.New(chain.DefaultOpts())
	r := rand.New(rand.NewSource(seed))
	var out []Sample
	add := func(b *big.Int, used uint64, maxGas int64, minDec string) {
		s := Eval(c, b, used, maxGas, minDec)
		mp, _ := new(big.Int).SetString(s.MinP, 10)
		s.Small = small(b, used, maxGas, mp)
		out = append(out, s)
	}
	bs := []*big.Int{big.NewInt(0), big.NewInt(1), big.NewInt(7), big.NewInt(8), big.NewInt(9), big.NewInt(1000), big.NewInt(1_000_000_000),
		new(big.Int).Sub(pow2(63), one), pow2(63), pow2(64), pow2(128), pow2(200), pow2(255), new(big.Int).Sub(pow2(256), big.NewInt(1000)),
		new(big.Int).Rsh(new(big.Int).Sub(pow2(256), one), 1)}
	mgs := []int64{-1, 0, 1, 2, 3, 4, 5, 10, 1000, 30_000_000, 1<<62 + 1, 1<<63 - 1}
	mins := []string{"0", "0.5", "1", "7.999999999999999999", "1000000000", "12.5"}
	// boundaries: every base fee x every max gas x fills around the target
	for _, b := range bs {
		for _, mg := range mgs {
			var fills []uint64
			if mg >= 0 {
				t := uint64(mg) / 2
				fills = []uint64{0, t, uint64(mg)}
				if t > 0 {
					fills = append(fills, t-1, t+1)
				}
				if mg > 0 {
					fills = append(fills, 1, uint64(mg)-1, uint64(mg)+1)
				}
			} else {
				fills = []uint64{0, 1, 21000, 30_000_000, 1 << 40, 1<<63 - 1, 1 << 63, 1<<64 - 1}
			}
			for _, u := range fills {
				add(b, u, mg, mins[(len(out))%len(mins)])
			}
		}
	}
	// random
	for i := 0; i < n; i++ {
		var b *big.Int
		switch r.Intn(4) {
		case 0:
			b = big.NewInt(int64(r.Intn(2000)))
		case 1:
			b = big.NewInt(r.Int63n(1 << 40))
		case 2:
			b = new(big.Int).Rand(r, pow2(uint(1+r.Intn(255))))
		default:
			b = big.NewInt(int64(r.Intn(100)))
		}
		var mg int64
		switch r.Intn(5) {
		case 0:
			mg = -1
		case 1:
			mg = int64(r.Intn(6))
		case 2:
			mg = int64(1 + r.Intn(100))
		case 3:
			mg = int64(1 + r.Intn(40_000_000))
		default:
			mg = r.Int63()
		}
		var u uint64
		if mg >= 0 {
			switch r.Intn(4) {
			case 0:
				u = uint64(mg) / 2
			case 1:
				u = uint64(r.Int63n(mg + 1))
			case 2:
				u = uint64(mg)
			default:
				u = uint64(r.Int63n(mg/2 + 2))
			}
		} else {
			u = uint64(r.Int63n(1 << uint(1+r.Intn(62))))
		}
		minDec := mins[r.Intn(len(mins))]
		if r.Intn(3) == 0 {
			minDec = fmt.Sprintf("%d.%d", r.Intn(50), r.Intn(10))
		}
		add(b, u, mg, minDec)
	}
	return out
}
