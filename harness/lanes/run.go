package lanes

import (
	"bufio"
	"encoding/json"
	"fmt"
	"os"
	"strings"

	abci "github.com/cometbft/cometbft/abci/types"
	authtypes "github.com/cosmos/cosmos-sdk/x/auth/types"
	vestexported "github.com/cosmos/cosmos-sdk/x/auth/vesting/exported"

	evmtypes "github.com/EscanBE/evermint/v12/x/evm/types"

	"verifharness/chain"
	"verifharness/trace"
)

// Vector is one line TLC wrote: a shape and the model's expectation (not used by the harness).
type Vector struct {
	Vec    int             `json:"vec"`
	Shape  Shape           `json:"shape"`
	Expect json.RawMessage `json:"expect"`
}

// Got is what the real application did with the real transaction of a shape.
type Got struct {
	Accepted  bool     `json:"accepted"`  // decoded, messages validated, composed ante handler passed
	Code      int64    `json:"code"`      // result code of the whole transaction (0 = everything succeeded)
	Codespace string   `json:"codespace"` //
	EthEvent  bool     `json:"ethEvent"`  // ethereum_tx event (emitted by the Ethereum lane of the ante handler)
	SigEvent  bool     `json:"sigEvent"`  // tx.acc_seq event (emitted by the SDK signature verification = Cosmos lane)
	Receipt   bool     `json:"receipt"`   // tx_receipt event (emitted by the EVM message handler)
	Actions   []string `json:"actions"`   // message.action of executed top-level messages
	Observed  bool     `json:"observed"`  // events were observable in this mode (simulate / deliver)
	Log       string   `json:"log"`
}

// ReadVectors loads an ndjson vector file.
func ReadVectors(path string) []Vector {
	f, err := os.Open(path)
	if err != nil {
		infra("vectors: %v", err)
	}
	defer f.Close()
	var out []Vector
	sc := bufio.NewScanner(f)
	sc.Buffer(make([]byte, 1<<20), 1<<26)
	for sc.Scan() {
		ln := strings.TrimSpace(sc.Text())
		if ln == "" {
			continue
		}
		var v Vector
		if err := json.Unmarshal([]byte(ln), &v); err != nil {
			infra("vectors: %v in %q", err, ln)
		}
		if v.Shape.Msgs == nil {
			v.Shape.Msgs = []Elem{}
		}
		out = append(out, v)
	}
	return out
}

func short(s string) string {
	if len(s) > 140 {
		return s[:140]
	}
	return s
}

func scanEvents(evs []abci.Event, g *Got) {
	g.Actions = []string{}
	for _, ev := range evs {
		switch ev.Type {
		case evmtypes.EventTypeEthereumTx:
			g.EthEvent = true
		case evmtypes.EventTypeTxReceipt:
			g.Receipt = true
		case "tx":
			if _, ok := attrOf(ev, "acc_seq"); ok {
				g.SigEvent = true
			}
		case "message":
			if a, ok := attrOf(ev, "action"); ok {
				g.Actions = append(g.Actions, a)
			}
		}
	}
}

// msgFailure recognises BaseApp.runMsgs' wrapping of a message handler error: the ante handler had
// passed. (Simulate returns only the error; CheckTx never executes messages; FinalizeBlock returns
// the ante events, which is what deliver mode uses instead.)
func msgFailure(log string) bool {
	return strings.Contains(log, "failed to execute message; message index:")
}

// RunCheck runs one transaction through CheckTx (New or Recheck) or Simulate.
func (e *Env) RunCheck(mode string, bz []byte) Got {
	g := Got{Actions: []string{}}
	switch mode {
	case "check", "recheck":
		t := abci.CheckTxType_New
		if mode == "recheck" {
			t = abci.CheckTxType_Recheck
		}
		res, err := e.C.App.CheckTx(&abci.RequestCheckTx{Tx: bz, Type: t})
		if err != nil {
			infra("CheckTx: %v", err)
		}
		g.Code, g.Codespace, g.Log = int64(res.Code), res.Codespace, short(res.Log)
		g.Accepted = res.Code == 0
	case "simulate":
		_, res, err := e.C.App.Simulate(bz)
		g.Observed = true
		if err != nil {
			g.Code, g.Log = 1, short(err.Error())
			g.Accepted = msgFailure(err.Error())
			g.Observed = false
		} else {
			g.Accepted = true
			scanEvents(res.Events, &g)
		}
	default:
		infra("RunCheck: mode %q", mode)
	}
	return g
}

func gotOfDeliver(r *abci.ExecTxResult) Got {
	g := Got{Code: int64(r.Code), Codespace: r.Codespace, Log: short(r.Log), Observed: true}
	scanEvents(r.Events, &g)
	// FinalizeBlock returns the ante handler's events iff the ante handler passed
	g.Accepted = r.Code == 0 || len(r.Events) > 0
	return g
}

// Stats of one run.
type Stats struct {
	Vectors, Accepted, Rejected int
	ByMode                      map[string]int
	Blocks                      int
}

func shapeJSON(s Shape) trace.M {
	bz, _ := json.Marshal(s)
	var m trace.M
	_ = json.Unmarshal(bz, &m)
	return m
}

// controls: the plain valid Ethereum transaction and the plain valid Cosmos transaction must be
// accepted in every mode, otherwise nothing a vector says about "rejected" means anything.
func (e *Env) controls() {
	eth := Shape{Msgs: []Elem{{D: 0, Leaf: []string{"eth"}}}, Ext: "eth", Timeout: "zero", Fee: "eq", Gas: "eq", EthType: "legacy"}
	cos := Shape{Msgs: []Elem{{D: 0, Leaf: []string{"send"}}}, Ext: "none", Sigs: true, Sinfos: true, Timeout: "zero", Fee: "eq", Gas: "eq", EthType: "legacy"}
	for _, mode := range []string{"check", "recheck", "simulate"} {
		for _, s := range []Shape{eth, cos} {
			s.Mode = mode
			g := e.RunCheck(mode, e.Build(s, e.Sender()).Bytes)
			if !g.Accepted || g.Code != 0 {
				infra("control transaction refused in mode %s: %s :: %s", mode, s, g.Log)
			}
			if mode == "simulate" && (g.EthEvent != s.SingleEth() || g.SigEvent == s.SingleEth() || g.Receipt != s.SingleEth()) {
				infra("control transaction in simulate mode shows unexpected lane markers: %s :: %+v", s, g)
			}
		}
	}
	e.C.Deliver() // drop the CheckTx state
	b1, b2 := e.Build(eth, e.Sender()), e.Build(cos, e.Sender())
	rb := e.C.Bal(e.Rcpt.Addr, chain.Denom)
	bo := e.C.Deliver(b1.Bytes, b2.Bytes)
	if bo.Panic != nil || bo.Err != nil {
		infra("control block: %v %v", bo.Panic, bo.Err)
	}
	for i, r := range bo.Res.TxResults {
		g := gotOfDeliver(r)
		if r.Code != 0 || (i == 0) != g.Receipt || (i == 0) != g.EthEvent || (i == 0) == g.SigEvent {
			infra("control transaction %d refused / wrong markers in deliver mode: %s %+v", i, r.Log, g)
		}
	}
	if d := e.C.Bal(e.Rcpt.Addr, chain.Denom); d.Sub(d, rb).Int64() != 2 {
		infra("control block: recipient did not receive both transfers")
	}
}

// vestingTargets reports which unproven targets have become accounts (and of which type).
func (e *Env) unprovenState() []string {
	out := []string{}
	for i, a := range e.Unproven {
		acc := e.C.App.AccountKeeper.GetAccount(e.C.Ctx(), a.Acc())
		if acc == nil {
			continue
		}
		k := "base"
		if _, ok := acc.(vestexported.VestingAccount); ok {
			k = "vesting"
		} else if _, ok := acc.(*authtypes.ModuleAccount); ok {
			k = "module"
		}
		out = append(out, fmt.Sprintf("unproven%d:%s", i+1, k))
	}
	return out
}

// Run executes the vectors (already filtered to this shard) and writes one trace line per vector.
func Run(vectors []Vector, out *trace.W, nPool int) Stats {
	e := NewEnv(nPool)
	e.controls()
	st := Stats{ByMode: map[string]int{}}
	emit := func(v Vector, g Got) {
		gm := trace.M{}
		bz, _ := json.Marshal(g)
		_ = json.Unmarshal(bz, &gm)
		out.Emit(trace.M{"ev": "Vector", "vec": v.Vec, "shape": shapeJSON(v.Shape), "got": gm})
		st.Vectors++
		st.ByMode[v.Shape.Mode]++
		if g.Accepted {
			st.Accepted++
		} else {
			st.Rejected++
		}
	}
	// phase 1: check / recheck / simulate against the CheckTx state; an empty block now and then resets it
	n := 0
	var deliver []Vector
	for _, v := range vectors {
		if v.Shape.Mode == "deliver" {
			deliver = append(deliver, v)
			continue
		}
		b := e.Build(v.Shape, e.Sender())
		emit(v, e.RunCheck(v.Shape.Mode, b.Bytes))
		n++
		if n%400 == 0 {
			if bo := e.C.Deliver(); bo.Panic != nil || bo.Err != nil {
				infra("empty block: %v %v", bo.Panic, bo.Err)
			}
		}
	}
	if bo := e.C.Deliver(); bo.Panic != nil || bo.Err != nil {
		infra("empty block: %v %v", bo.Panic, bo.Err)
	}
	// phase 2: deliver mode, one transaction per sender and block
	for i := 0; i < len(deliver); i += len(e.Pool) {
		j := i + len(e.Pool)
		if j > len(deliver) {
			j = len(deliver)
		}
		var txs [][]byte
		for k := i; k < j; k++ {
			txs = append(txs, e.Build(deliver[k].Shape, e.Pool[k-i]).Bytes)
		}
		bo := e.C.Deliver(txs...)
		st.Blocks++
		if bo.Err != nil {
			infra("deliver block: %v", bo.Err)
		}
		if bo.Panic != nil {
			// a block-level panic caused by a transaction is not this property's business to judge, but
			// it must not pass silently
			infra("deliver block panicked: %v", bo.Panic)
		}
		for k := i; k < j; k++ {
			emit(deliver[k], gotOfDeliver(bo.Res.TxResults[k-i]))
		}
		out.Emit(trace.M{"ev": "Block", "h": e.C.Height, "from": deliver[i].Vec, "to": deliver[j-1].Vec, "unproven": e.unprovenState()})
	}
	return st
}
