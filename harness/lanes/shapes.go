package lanes

import (
	"fmt"
	"math/big"

	sdkmath "cosmossdk.io/math"
	codectypes "github.com/cosmos/cosmos-sdk/codec/types"
	sdk "github.com/cosmos/cosmos-sdk/types"
	sdktx "github.com/cosmos/cosmos-sdk/types/tx"
	"github.com/cosmos/cosmos-sdk/types/tx/signing"
	vestingtypes "github.com/cosmos/cosmos-sdk/x/auth/vesting/types"
	"github.com/cosmos/cosmos-sdk/x/authz"
	banktypes "github.com/cosmos/cosmos-sdk/x/bank/types"
	distrtypes "github.com/cosmos/cosmos-sdk/x/distribution/types"
	ethtypes "github.com/ethereum/go-ethereum/core/types"

	evertypes "github.com/EscanBE/evermint/v12/types"
	evmtypes "github.com/EscanBE/evermint/v12/x/evm/types"

	"verifharness/chain"
)

// Elem is one top-level message of a shape: Leaf wrapped in D nested MsgExec.
// D = 0: exactly one leaf.  D >= 1: the innermost MsgExec carries all leaves (siblings).
type Elem struct {
	D    int      `json:"d"`
	Leaf []string `json:"leaf"`
}

// Shape is the abstract transaction shape of Lanes.tla.
type Shape struct {
	Msgs    []Elem `json:"msgs"`
	Ext     string `json:"ext"`     // none | eth | dyn | foreign | ethdyn | etheth | nc | ethnc
	Sigs    bool   `json:"sigs"`    // TxRaw.signatures non-empty (Cosmos lane: valid signatures of all signers)
	Sinfos  bool   `json:"sinfos"`  // AuthInfo.signer_infos non-empty
	Payer   bool   `json:"payer"`   // AuthInfo.fee.payer set
	Granter bool   `json:"granter"` // AuthInfo.fee.granter set
	Memo    bool   `json:"memo"`
	Timeout string `json:"timeout"` // magnitude class of the timeout height: zero | one | cur | future | maxi64 | two63 | two63k | maxu64
	Fee     string `json:"fee"`     // declared fee vs the embedded Ethereum tx's: eq | more | less | denom | none
	Gas     string `json:"gas"`     // declared gas limit vs the embedded Ethereum tx's: eq | more | less
	EthType string `json:"ethType"` // legacy | dyn (EIP-1559) | al (EIP-2930)
	Mode    string `json:"mode"`    // check | recheck | simulate | deliver
}

// SingleEth tells whether the builder treats the shape as a client-built Ethereum transaction
// (envelope made by MsgEthereumTx.BuildTx and then perturbed). This is a construction choice of
// the harness, not a verdict: every other shape is built with the Cosmos tx builder.
func (s Shape) SingleEth() bool {
	return len(s.Msgs) == 1 && s.Msgs[0].D == 0 && len(s.Msgs[0].Leaf) == 1 && s.Msgs[0].Leaf[0] == "eth"
}

// EthEnvelope: an unsigned transaction whose first message is an Ethereum message and that lists further messages
// is built the adversarial way - the envelope clients build for the first Ethereum message (its fee, its gas limit,
// no signatures), with the other messages appended. (A Cosmos-style envelope would be refused for its fee alone.)
func (s Shape) EthEnvelope() bool {
	return len(s.Msgs) >= 2 && !s.Sigs && !s.Sinfos && s.Msgs[0].D == 0 && len(s.Msgs[0].Leaf) == 1 && s.Msgs[0].Leaf[0] == "eth"
}

const (
	ethGas      = 21000
	ethGasPrice = 20
	cosmosPrice = 20
)

func mustAny(m interface {
	Reset()
	String() string
	ProtoMessage()
}) *codectypes.Any {
	a, err := codectypes.NewAnyWithValue(m)
	if err != nil {
		panic(err)
	}
	return a
}

// extOptions returns (critical, non-critical) extension options for an ext kind.
func extOptions(kind string) (crit, non []*codectypes.Any) {
	eth := func() *codectypes.Any { return mustAny(&evmtypes.ExtensionOptionsEthereumTx{}) }
	dyn := func() *codectypes.Any {
		return mustAny(&evertypes.ExtensionOptionDynamicFeeTx{MaxPriorityPrice: sdkmath.NewInt(1)})
	}
	// a registered protobuf message that is not a registered TxExtensionOptionI implementation
	foreign := func() *codectypes.Any {
		return mustAny(&banktypes.MsgSend{FromAddress: "x", ToAddress: "y"})
	}
	switch kind {
	case "none":
	case "eth":
		crit = []*codectypes.Any{eth()}
	case "dyn":
		crit = []*codectypes.Any{dyn()}
	case "foreign":
		crit = []*codectypes.Any{foreign()}
	case "ethdyn":
		crit = []*codectypes.Any{eth(), dyn()}
	case "etheth":
		crit = []*codectypes.Any{eth(), eth()}
	case "nc":
		non = []*codectypes.Any{dyn()}
	case "ethnc":
		crit = []*codectypes.Any{eth()}
		non = []*codectypes.Any{dyn()}
	default:
		infra("unknown ext kind %q", kind)
	}
	return
}

// magnitude maps a symbolic magnitude class to the real number.
func magnitude(class string) (*big.Int, bool) {
	switch class {
	case "zero":
		return big.NewInt(0), true
	case "one":
		return big.NewInt(1), true
	case "maxi64":
		return new(big.Int).SetUint64(1<<63 - 1), true
	case "two63":
		return new(big.Int).SetUint64(1 << 63), true
	case "maxu64":
		return new(big.Int).SetUint64(^uint64(0)), true
	}
	return nil, false
}

// timeoutOf maps a timeout-height class to the real value.
func (e *Env) timeoutOf(class string) uint64 {
	switch class {
	case "", "zero":
		return 0
	case "cur":
		return uint64(e.C.Height)
	case "future":
		return uint64(e.C.Height + 1_000_000)
	case "two63k":
		return 1<<63 + 12345
	}
	if m, ok := magnitude(class); ok {
		return m.Uint64()
	}
	infra("unknown timeout class %q", class)
	return 0
}

// ethMsg builds a signed transfer of 1 wei from a to the recipient (legacy unless typ says otherwise).
func (e *Env) ethMsg(a *chain.Acct, nonce uint64, typ string) *evmtypes.MsgEthereumTx {
	to := e.Rcpt.Addr
	var td ethtypes.TxData
	switch typ {
	case "", "legacy":
		td = &ethtypes.LegacyTx{Nonce: nonce, GasPrice: big.NewInt(ethGasPrice), Gas: ethGas, To: &to, Value: big.NewInt(1)}
	case "dyn":
		td = &ethtypes.DynamicFeeTx{ChainID: big.NewInt(chain.EIP155), Nonce: nonce, GasFeeCap: big.NewInt(ethGasPrice), GasTipCap: big.NewInt(1), Gas: ethGas, To: &to, Value: big.NewInt(1)}
	case "al":
		td = &ethtypes.AccessListTx{ChainID: big.NewInt(chain.EIP155), Nonce: nonce, GasPrice: big.NewInt(ethGasPrice), Gas: ethGas, To: &to, Value: big.NewInt(1)}
	default:
		infra("unknown eth type %q", typ)
	}
	return chain.EthMsg(chain.SignEth(a, td, chain.EIP155), a.Addr)
}

// leafMsg builds the real message of a leaf kind, always acting for a.
func (e *Env) leafMsg(kind string, a *chain.Acct, ethNonce uint64) sdk.Msg {
	vest := func(k byte, to *chain.Acct) sdk.Msg {
		amt := sdk.NewCoins(sdk.NewInt64Coin(chain.Denom, 5))
		switch k {
		case '1':
			return vestingtypes.NewMsgCreateVestingAccount(a.Acc(), to.Acc(), amt, chain.T0+1_000_000_000, false)
		case '2':
			return vestingtypes.NewMsgCreatePeriodicVestingAccount(a.Acc(), to.Acc(), chain.T0+1_000_000, []vestingtypes.Period{{Length: 1000, Amount: amt}})
		default:
			return vestingtypes.NewMsgCreatePermanentLockedAccount(a.Acc(), to.Acc(), amt)
		}
	}
	grant := func(url string) sdk.Msg {
		exp := FarFuture()
		m, err := authz.NewMsgGrant(a.Acc(), e.Grantee.Acc(), authz.NewGenericAuthorization(url), &exp)
		if err != nil {
			panic(err)
		}
		return m
	}
	switch kind {
	case "eth":
		return e.ethMsg(a, ethNonce, "legacy")
	case "send":
		return banktypes.NewMsgSend(a.Acc(), e.Rcpt.Acc(), sdk.NewCoins(sdk.NewInt64Coin(chain.Denom, 1)))
	case "other":
		return distrtypes.NewMsgSetWithdrawAddress(a.Acc(), e.Rcpt.Acc())
	case "vest1", "vest2", "vest3":
		return vest(kind[4], e.Unproven[kind[4]-'1'])
	case "vest1p", "vest2p", "vest3p":
		return vest(kind[4], e.Proven[kind[4]-'1'])
	case "g_eth":
		return grant(sdk.MsgTypeURL(&evmtypes.MsgEthereumTx{}))
	case "g_vest1":
		return grant(sdk.MsgTypeURL(&vestingtypes.MsgCreateVestingAccount{}))
	case "g_vest2":
		return grant(sdk.MsgTypeURL(&vestingtypes.MsgCreatePeriodicVestingAccount{}))
	case "g_vest3":
		return grant(sdk.MsgTypeURL(&vestingtypes.MsgCreatePermanentLockedAccount{}))
	case "g_send":
		return grant(sdk.MsgTypeURL(&banktypes.MsgSend{}))
	}
	infra("unknown leaf kind %q", kind)
	return nil
}

// elemMsg builds exec^D(leaves).
func (e *Env) elemMsg(el Elem, a *chain.Acct, ethNonce uint64) sdk.Msg {
	var inner []sdk.Msg
	for _, k := range el.Leaf {
		inner = append(inner, e.leafMsg(k, a, ethNonce))
	}
	if el.D == 0 {
		if len(inner) != 1 {
			infra("element with d=0 needs exactly one leaf")
		}
		return inner[0]
	}
	for d := 0; d < el.D; d++ {
		m := authz.NewMsgExec(a.Acc(), inner)
		inner = []sdk.Msg{&m}
	}
	return inner[0]
}

// Built is a real transaction for a shape.
type Built struct {
	Bytes  []byte
	Sender *chain.Acct
	Seq    uint64
}

// Build makes the real transaction bytes of shape s sent by a, against the state CheckTx sees now.
func (e *Env) Build(s Shape, a *chain.Acct) Built {
	seq, num := AcctInfo(e.C, a)
	if s.SingleEth() || s.EthEnvelope() {
		return Built{Bytes: e.buildEth(s, a, seq, num), Sender: a, Seq: seq}
	}
	// an Ethereum message placed in a Cosmos-signed transaction would (if it ever reached the
	// EVM handler) run after the ante handler bumped the sequence: give it the nonce it would need
	ethNonce := seq
	if s.Sigs {
		ethNonce = seq + 1
	}
	var msgs []sdk.Msg
	for _, el := range s.Msgs {
		msgs = append(msgs, e.elemMsg(el, a, ethNonce))
	}
	crit, non := extOptions(s.Ext)
	o := chain.CosmosTxOpts{Gas: 600_000, GasPrice: cosmosPrice, ExtOpts: crit, NonCritExt: non, NoSig: !s.Sigs}
	if s.Memo {
		o.Memo = "memo"
	}
	switch s.Timeout {
	case "", "zero":
	case "future":
		o.Timeout = e.timeoutOf("future")
	default:
		infra("shape outside the builder's domain (Cosmos-lane timeout %q)", s.Timeout)
	}
	if s.Payer || s.Granter || s.Fee != "eq" || s.Gas != "eq" || s.Sigs != s.Sinfos {
		infra("shape outside the builder's domain: %+v", s)
	}
	bz, err := e.C.CosmosTx(a, msgs, o)
	if err != nil {
		infra("build cosmos tx: %v", err)
	}
	return Built{Bytes: bz, Sender: a, Seq: seq}
}

// buildEth: the transaction clients build (MsgEthereumTx.BuildTx), then perturbed field by field.
func (e *Env) buildEth(s Shape, a *chain.Acct, seq, num uint64) []byte {
	c := e.C
	msg := e.ethMsg(a, seq, s.EthType)
	btx, err := msg.BuildTx(c.Enc.TxConfig.NewTxBuilder(), chain.Denom)
	if err != nil {
		infra("BuildTx: %v", err)
	}
	pt := btx.(interface{ GetProtoTx() *sdktx.Tx }).GetProtoTx()
	for i, el := range s.Msgs[1:] {
		// further messages of an Ethereum envelope; a further Ethereum message gets the nonce it would need to execute
		any, err := codectypes.NewAnyWithValue(e.elemMsg(el, a, seq+uint64(i)+1))
		if err != nil {
			panic(err)
		}
		pt.Body.Messages = append(pt.Body.Messages, any)
	}
	crit, non := extOptions(s.Ext)
	pt.Body.ExtensionOptions = crit
	pt.Body.NonCriticalExtensionOptions = non
	if s.Memo {
		pt.Body.Memo = "memo"
	}
	pt.Body.TimeoutHeight = e.timeoutOf(s.Timeout)
	if s.Payer {
		pt.AuthInfo.Fee.Payer = e.Payer.Acc().String()
	}
	if s.Granter {
		pt.AuthInfo.Fee.Granter = e.Granter.Acc().String()
	}
	if m, ok := magnitude(s.Fee); ok {
		// an explicit coin of that amount (zero included: the encoding admits it)
		pt.AuthInfo.Fee.Amount = sdk.Coins{sdk.Coin{Denom: chain.Denom, Amount: sdkmath.NewIntFromBigInt(m)}}
	}
	switch s.Fee {
	case "eq", "zero", "one", "maxi64", "two63", "maxu64":
	case "more":
		pt.AuthInfo.Fee.Amount = sdk.NewCoins(sdk.NewInt64Coin(chain.Denom, ethGas*ethGasPrice+1))
	case "less":
		pt.AuthInfo.Fee.Amount = sdk.NewCoins(sdk.NewInt64Coin(chain.Denom, ethGas*ethGasPrice-1))
	case "denom":
		pt.AuthInfo.Fee.Amount = sdk.NewCoins(sdk.NewInt64Coin(chain.Denom2, ethGas*ethGasPrice))
	case "none":
		pt.AuthInfo.Fee.Amount = sdk.Coins{}
	default:
		infra("unknown fee variant %q", s.Fee)
	}
	if m, ok := magnitude(s.Gas); ok {
		pt.AuthInfo.Fee.GasLimit = m.Uint64()
	}
	switch s.Gas {
	case "eq", "zero", "one", "maxi64", "two63", "maxu64":
	case "more":
		pt.AuthInfo.Fee.GasLimit = ethGas + 1
	case "less":
		pt.AuthInfo.Fee.GasLimit = ethGas - 1
	default:
		infra("unknown gas variant %q", s.Gas)
	}
	if s.Sinfos {
		pt.AuthInfo.SignerInfos = []*sdktx.SignerInfo{{
			PublicKey: mustAny(a.Priv.PubKey()),
			ModeInfo:  &sdktx.ModeInfo{Sum: &sdktx.ModeInfo_Single_{Single: &sdktx.ModeInfo_Single{Mode: signing.SignMode_SIGN_MODE_DIRECT}}},
			Sequence:  seq,
		}}
	}
	body, err := pt.Body.Marshal()
	if err != nil {
		panic(err)
	}
	ai, err := pt.AuthInfo.Marshal()
	if err != nil {
		panic(err)
	}
	raw := &sdktx.TxRaw{BodyBytes: body, AuthInfoBytes: ai}
	if s.Sigs {
		// a real SIGN_MODE_DIRECT signature of the sender over this very transaction
		doc := &sdktx.SignDoc{BodyBytes: body, AuthInfoBytes: ai, ChainId: chain.ChainID, AccountNumber: num}
		db, err := doc.Marshal()
		if err != nil {
			panic(err)
		}
		sig, err := a.Priv.Sign(db)
		if err != nil {
			panic(err)
		}
		raw.Signatures = [][]byte{sig}
	}
	bz, err := raw.Marshal()
	if err != nil {
		panic(err)
	}
	return bz
}

func (s Shape) String() string {
	return fmt.Sprintf("%v ext=%s sigs=%v sinfos=%v payer=%v granter=%v memo=%v timeout=%v fee=%s gas=%s type=%s mode=%s",
		s.Msgs, s.Ext, s.Sigs, s.Sinfos, s.Payer, s.Granter, s.Memo, s.Timeout, s.Fee, s.Gas, s.EthType, s.Mode)
}
