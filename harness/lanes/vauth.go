package lanes

import (
	"bufio"
	"bytes"
	"encoding/hex"
	"encoding/json"
	"fmt"
	"math/big"
	"os"
	"strings"

	sdk "github.com/cosmos/cosmos-sdk/types"
	authtypes "github.com/cosmos/cosmos-sdk/x/auth/types"
	vestingtypes "github.com/cosmos/cosmos-sdk/x/auth/vesting/types"
	"github.com/cosmos/cosmos-sdk/x/authz"
	"github.com/ethereum/go-ethereum/common"
	banktypes "github.com/cosmos/cosmos-sdk/x/bank/types"
	ethcrypto "github.com/ethereum/go-ethereum/crypto"

	vauthkeeper "github.com/EscanBE/evermint/v12/x/vauth/keeper"
	vauthtypes "github.com/EscanBE/evermint/v12/x/vauth/types"

	"verifharness/chain"
	"verifharness/trace"
)

// VOp is one operation of Vauth.tla.
type VOp struct {
	Op    string `json:"op"` // Submit | Create
	Sub   string `json:"sub,omitempty"`
	Tgt   string `json:"tgt,omitempty"`
	Sig   string `json:"sig,omitempty"`
	Sp    string `json:"sp,omitempty"` // spelling of the address fields (Submit): lower | upper | subupper | bothupper | mixed | padded
	Kind  string `json:"kind,omitempty"`
	To    string `json:"to,omitempty"`
	Route string `json:"route,omitempty"`
}

// Behaviour is a sequence of operations TLC generated.
type Behaviour struct {
	ID  int   `json:"id"`
	Ops []VOp `json:"ops"`
}

// ReadBehaviours loads an ndjson file of behaviours.
func ReadBehaviours(path string) []Behaviour {
	f, err := os.Open(path)
	if err != nil {
		infra("behaviours: %v", err)
	}
	defer f.Close()
	var out []Behaviour
	sc := bufio.NewScanner(f)
	sc.Buffer(make([]byte, 1<<20), 1<<26)
	for sc.Scan() {
		ln := strings.TrimSpace(sc.Text())
		if ln == "" {
			continue
		}
		var b Behaviour
		if err := json.Unmarshal([]byte(ln), &b); err != nil {
			infra("behaviours: %v in %q", err, ln)
		}
		out = append(out, b)
	}
	return out
}

// VWorld is a chain prepared for vauth behaviours: funded submitters s0 (3 units of the cost), s1 (1), s2 (0), each
// with a small remainder for ordinary fees; fresh addresses t0, t1 (keys known, no account).
type VWorld struct {
	C     *chain.Chain
	Accts map[string]*chain.Acct
	Names []string
	Other *chain.Acct // a key that controls none of the universe's addresses
	Peer  *chain.Acct // grantee of grants
	Cost  *big.Int
}

const (
	vRemainder = 100_000_000
	vGas       = 400_000
	vPrice     = 10
	vAmount    = 5
)

var vUnits = map[string]int64{"s0": 3, "s1": 1, "s2": 0}

// NewVWorld builds the genesis. stray > 0: the vauth module account holds that many wei before any behaviour runs, as
// a genesis balance of the module address.
func NewVWorld(stray int64) *VWorld {
	w := &VWorld{Accts: map[string]*chain.Acct{}, Names: []string{"s0", "s1", "s2", "t0", "t1", "z0", "zf", "zm", "zp"},
		Other: chain.NewAcct("vauth-other"), Peer: chain.NewAcct("vauth-peer"),
		Cost: big.NewInt(vauthkeeper.CostSubmitProofExternalOwnedAccount)}
	o := chain.DefaultOpts()
	o.NAccts = 2
	o.Bal2 = 0
	// addresses nobody holds a key for
	keyless := map[string]common.Address{
		"z0": {},
		"zf": common.HexToAddress("0xffffffffffffffffffffffffffffffffffffffff"),
		"zm": chain.GovModule,
		"zp": common.HexToAddress("0xCc02000000000000000000000000000000000002"), // the staking custom precompile
	}
	for _, n := range w.Names {
		if addr, ok := keyless[n]; ok {
			w.Accts[n] = &chain.Acct{Name: "vauth-" + n, Addr: addr}
			continue
		}
		a := chain.NewAcct("vauth-" + n)
		w.Accts[n] = a
		if u, ok := vUnits[n]; ok {
			bal := new(big.Int).Mul(w.Cost, big.NewInt(u))
			bal.Add(bal, big.NewInt(vRemainder))
			o.ExtraBals = append(o.ExtraBals, banktypes.Balance{Address: a.Acc().String(), Coins: bigCoin(bal)})
			o.ExtraAccts = append(o.ExtraAccts, authtypes.NewBaseAccount(a.Acc(), nil, 0, 0))
		}
	}
	if stray > 0 {
		// On the pinned tree an EVM value transfer to a module address is refused ("not allowed to receive funds"), so the
		// stray balance is a genesis balance of the module address (any keeper-level transfer has the same effect).
		o.ExtraBals = append(o.ExtraBals, banktypes.Balance{Address: sdk.AccAddress(chain.ModuleAddr(vauthtypes.ModuleName).Bytes()).String(),
			Coins: sdk.NewCoins(sdk.NewInt64Coin(chain.Denom, stray))})
	}
	w.C = chain.New(o)
	if stray > 0 && w.C.Bal(chain.ModuleAddr(vauthtypes.ModuleName), chain.Denom).Int64() != stray {
		infra("stray balance not in the vauth module account")
	}
	return w
}

// Clone copies the committed state into a fresh application.
func (w *VWorld) Clone() *VWorld {
	n := *w
	n.C = w.C.Clone()
	return &n
}

func splitUnits(b *big.Int, cost *big.Int) (q, r int64) {
	qq, rr := new(big.Int).QuoRem(b, cost, new(big.Int))
	return trace.I(qq), trace.I(rr)
}

// sigBytes returns the raw signature of a kind offered for target t (nil when the kind is not a byte string). The
// kinds derived from "the target's signature" are derived from the submitter's (signer's) signature when nobody holds
// a key for t.
func (w *VWorld) sigBytes(kind string, t, signer *chain.Acct) []byte {
	base := t
	if t.Priv == nil {
		base = signer
	}
	valid := SignProof(base, vauthtypes.MessageToSign)
	withV := func(v byte) []byte {
		out := append([]byte{}, valid...)
		out[64] = v
		return out
	}
	switch kind {
	case "valid", "upper", "noprefix":
		return valid
	case "bysub":
		return SignProof(signer, vauthtypes.MessageToSign)
	case "valid2":
		n := ethcrypto.S256().Params().N
		s := new(big.Int).SetBytes(valid[32:64])
		s.Sub(n, s)
		out := append([]byte{}, valid...)
		sb := s.Bytes()
		copy(out[32:64], make([]byte, 32))
		copy(out[64-len(sb):64], sb)
		out[64] ^= 1
		return out
	case "v27":
		return withV(valid[64] + 27)
	case "vflip":
		return withV(valid[64] ^ 1)
	case "vp2":
		return withV(valid[64] + 2)
	case "vp4":
		return withV(valid[64] + 4)
	case "vx27":
		return withV((valid[64] ^ 1) + 27)
	case "vp31":
		return withV(valid[64] + 31)
	case "zero65":
		return make([]byte, 65)
	case "ff65":
		return bytes.Repeat([]byte{0xff}, 65)
	case "r0":
		out := append([]byte{}, valid...)
		copy(out[0:32], make([]byte, 32))
		return out
	case "s0":
		out := append([]byte{}, valid...)
		copy(out[32:64], make([]byte, 32))
		return out
	case "otherkey":
		return SignProof(w.Other, vauthtypes.MessageToSign)
	case "othermsg":
		return SignProof(base, vauthtypes.MessageToSign+"2")
	case "otherchain":
		return SignProof(base, vauthtypes.MessageToSign+"/"+chain.ChainID)
	case "eip191":
		return SignProof(base, fmt.Sprintf("\x19Ethereum Signed Message:\n%d%s", len(vauthtypes.MessageToSign), vauthtypes.MessageToSign))
	case "random":
		h1 := ethcrypto.Keccak256([]byte("random-signature-r/" + t.Name))
		h2 := ethcrypto.Keccak256([]byte("random-signature-s/" + t.Name))
		h2[0] &= 0x3f // keep s below the group order
		return append(append(h1, h2...), 1)
	case "short":
		return valid[:64]
	case "long":
		return append(append([]byte{}, valid...), 0)
	}
	return nil
}

// sigString is what goes into the message's signature field.
func (w *VWorld) sigString(kind string, t, signer *chain.Acct) string {
	switch kind {
	case "upper":
		return "0x" + strings.ToUpper(hex.EncodeToString(w.sigBytes(kind, t, signer)))
	case "noprefix":
		return hex.EncodeToString(w.sigBytes(kind, t, signer))
	case "nothex":
		return "0xzz" + hex.EncodeToString(w.sigBytes("valid", t, signer))[2:]
	case "empty":
		return "0x"
	}
	b := w.sigBytes(kind, t, signer)
	if b == nil {
		infra("unknown signature kind %q", kind)
	}
	return Hex0x(b)
}

// longAccount builds an account address longer than 20 bytes out of the submitter's and the target's addresses and a
// genuine signature over the fixed message by one of the two keys (forms L_<layout>_<signer>, see Vauth.tla).
func (w *VWorld) longAccount(form string, sub, tgt *chain.Acct) (account, sig string) {
	f := strings.Split(form, "_")
	if len(f) != 3 {
		infra("bad over-long account form %q", form)
	}
	var bz []byte
	switch f[1] {
	case "ts":
		bz = append(append(bz, tgt.Addr.Bytes()...), sub.Addr.Bytes()...)
	case "st":
		bz = append(append(bz, sub.Addr.Bytes()...), tgt.Addr.Bytes()...)
	case "32":
		if f[2] == "s" {
			bz = append(append(bz, tgt.Addr.Bytes()[:12]...), sub.Addr.Bytes()...)
		} else {
			bz = append(append(bz, sub.Addr.Bytes()[:12]...), tgt.Addr.Bytes()...)
		}
	default:
		infra("bad over-long account form %q", form)
	}
	key := sub
	if f[2] == "t" {
		key = tgt
	}
	return sdk.AccAddress(bz).String(), Hex0x(SignProof(key, vauthtypes.MessageToSign))
}

// proofToken names the proof stored for address name: none | valid | valid2 | v27 | forged | misfiled | corrupt.
func (w *VWorld) proofToken(ctx sdk.Context, name string) string {
	a := w.Accts[name]
	p := w.C.App.VAuthKeeper.GetProofExternalOwnedAccount(ctx, a.Acc())
	if p == nil {
		return "none"
	}
	wantHash := "0x" + hex.EncodeToString(ethcrypto.Keccak256([]byte(vauthtypes.MessageToSign)))
	// the account the record was issued for, whatever its spelling
	if acc, err := sdk.AccAddressFromBech32(p.Account); err != nil || !bytes.Equal(acc, a.Acc()) {
		return "misfiled" // the record found under this address was submitted for another account
	}
	if p.Hash != wantHash || !strings.HasPrefix(p.Signature, "0x") {
		return "corrupt"
	}
	bz, err := hex.DecodeString(p.Signature[2:])
	if err != nil {
		return "corrupt"
	}
	if a.Priv == nil {
		return "forged" // nobody holds a key for this address: whatever is stored was not signed by its key
	}
	for _, kind := range []string{"valid", "valid2", "v27"} {
		if bytes.Equal(bz, w.sigBytes(kind, a, nil)) {
			return kind
		}
	}
	return "forged"
}

func (w *VWorld) kindOf(ctx sdk.Context, name string) string {
	acc := w.C.App.AccountKeeper.GetAccount(ctx, w.Accts[name].Acc())
	switch acc.(type) {
	case nil:
		return "none"
	case *authtypes.BaseAccount:
		return "base"
	case *authtypes.ModuleAccount:
		return "module"
	case *vestingtypes.ContinuousVestingAccount:
		return "vest1"
	case *vestingtypes.PeriodicVestingAccount:
		return "vest2"
	case *vestingtypes.PermanentLockedAccount:
		return "vest3"
	case *vestingtypes.DelayedVestingAccount:
		return "vestDelayed"
	}
	return fmt.Sprintf("%T", acc)
}

// Project is the abstract state: proof store, account kinds, balances and supply in units of the cost.
func (w *VWorld) Project() trace.M {
	ctx := w.C.Ctx()
	proof, kind, q, r, has := trace.M{}, trace.M{}, trace.M{}, trace.M{}, trace.M{}
	for _, n := range w.Names {
		proof[n] = w.proofToken(ctx, n) // from the stored record
		has[n] = w.C.App.VAuthKeeper.HasProofExternalOwnedAccount(ctx, w.Accts[n].Acc())
		kind[n] = w.kindOf(ctx, n)
		qq, rr := splitUnits(w.C.Bal(w.Accts[n].Addr, chain.Denom), w.Cost)
		q[n], r[n] = qq, rr
	}
	sq, sr := splitUnits(w.C.Supply(chain.Denom), w.Cost)
	mq, mr := splitUnits(w.C.Bal(chain.ModuleAddr(vauthtypes.ModuleName), chain.Denom), w.Cost)
	// every proof in the store belongs to the universe? (a proof for an address nobody asked for would be a finding)
	return trace.M{"proof": proof, "has": has, "kind": kind, "q": q, "r": r, "supplyQ": sq, "supplyR": sr, "modQ": mq, "modR": mr}
}

func (w *VWorld) vestMsg(kind string, from, to *chain.Acct) sdk.Msg {
	amt := sdk.NewCoins(sdk.NewInt64Coin(chain.Denom, vAmount))
	switch kind {
	case "vest1":
		return vestingtypes.NewMsgCreateVestingAccount(from.Acc(), to.Acc(), amt, chain.T0+1_000_000_000, false)
	case "vest2":
		return vestingtypes.NewMsgCreatePeriodicVestingAccount(from.Acc(), to.Acc(), chain.T0+1_000_000, []vestingtypes.Period{{Length: 1000, Amount: amt}})
	case "vest3":
		return vestingtypes.NewMsgCreatePermanentLockedAccount(from.Acc(), to.Acc(), amt)
	}
	infra("unknown vesting kind %q", kind)
	return nil
}

func vestURL(kind string) string {
	switch kind {
	case "vest1":
		return sdk.MsgTypeURL(&vestingtypes.MsgCreateVestingAccount{})
	case "vest2":
		return sdk.MsgTypeURL(&vestingtypes.MsgCreatePeriodicVestingAccount{})
	}
	return sdk.MsgTypeURL(&vestingtypes.MsgCreatePermanentLockedAccount{})
}

// Exec runs one operation as one transaction in its own block and returns the trace line.
func (w *VWorld) Exec(o VOp) trace.M {
	var signer *chain.Acct
	var msgs []sdk.Msg
	switch o.Op {
	case "Submit":
		signer = w.Accts[o.Sub]
		t := w.Accts[o.Tgt]
		account, sig, submitter := t.Acc().String(), "", signer.Acc().String()
		if strings.HasPrefix(o.Sig, "L_") {
			account, sig = w.longAccount(o.Sig, signer, t)
		} else {
			sig = w.sigString(o.Sig, t, signer)
		}
		switch o.Sp {
		case "", "lower":
		case "upper":
			account = strings.ToUpper(account)
		case "subupper":
			submitter = strings.ToUpper(submitter)
		case "bothupper":
			account, submitter = strings.ToUpper(account), strings.ToUpper(submitter)
		case "mixed":
			i := strings.LastIndex(account, "1") // separator: human-readable part stays lower-case, data part upper-case
			account = account[:i+1] + strings.ToUpper(account[i+1:])
		case "padded":
			account = " " + account + " "
		default:
			infra("unknown spelling %q", o.Sp)
		}
		msgs = []sdk.Msg{&vauthtypes.MsgSubmitProofExternalOwnedAccount{Submitter: submitter, Account: account, Signature: sig}}
	case "Create":
		signer = w.Accts["s0"]
		to := w.Accts[o.To]
		vm := w.vestMsg(o.Kind, signer, to)
		switch {
		case o.Route == "top":
			msgs = []sdk.Msg{vm}
		case strings.HasPrefix(o.Route, "sib_"):
			// sib_<pre>_<outer>_<d>: harmless siblings first (s = plain send, x = MsgExec{send}), then exec^d(creation);
			// outer = 1: the whole list inside one more MsgExec
			f := strings.Split(o.Route, "_")
			if len(f) != 4 {
				infra("bad sibling route %q", o.Route)
			}
			send := func() sdk.Msg {
				return banktypes.NewMsgSend(signer.Acc(), w.Peer.Acc(), sdk.NewCoins(sdk.NewInt64Coin(chain.Denom, 1)))
			}
			for _, c := range f[1] {
				switch c {
				case 's':
					msgs = append(msgs, send())
				case 'x':
					m := authz.NewMsgExec(signer.Acc(), []sdk.Msg{send()})
					msgs = append(msgs, &m)
				default:
					infra("bad sibling route %q", o.Route)
				}
			}
			inner := []sdk.Msg{vm}
			for d := 0; d < int(f[3][0]-'0'); d++ {
				m := authz.NewMsgExec(signer.Acc(), inner)
				inner = []sdk.Msg{&m}
			}
			msgs = append(msgs, inner[0])
			if f[2] == "1" {
				m := authz.NewMsgExec(signer.Acc(), msgs)
				msgs = []sdk.Msg{&m}
			}
		case strings.HasPrefix(o.Route, "exec"):
			inner := []sdk.Msg{vm}
			for d := 0; d < int(o.Route[4]-'0'); d++ {
				m := authz.NewMsgExec(signer.Acc(), inner)
				inner = []sdk.Msg{&m}
			}
			msgs = inner
		case o.Route == "grant":
			exp := FarFuture()
			m, err := authz.NewMsgGrant(signer.Acc(), w.Peer.Acc(), authz.NewGenericAuthorization(vestURL(o.Kind)), &exp)
			if err != nil {
				panic(err)
			}
			msgs = []sdk.Msg{m}
		case o.Route == "sametx":
			msgs = []sdk.Msg{&vauthtypes.MsgSubmitProofExternalOwnedAccount{Submitter: signer.Acc().String(), Account: to.Acc().String(),
				Signature: w.sigString("valid", to, signer)}, vm}
		default:
			infra("unknown route %q", o.Route)
		}
	default:
		infra("unknown op %q", o.Op)
	}
	bz, err := w.C.CosmosTx(signer, msgs, chain.CosmosTxOpts{Gas: vGas, GasPrice: vPrice})
	if err != nil {
		infra("build: %v", err)
	}
	bo := w.C.Deliver(bz)
	if bo.Panic != nil || bo.Err != nil {
		infra("block failed: %v %v", bo.Panic, bo.Err)
	}
	res := bo.Res.TxResults[0]
	out := "ok"
	if res.Code != 0 {
		if len(res.Events) > 0 {
			out = "failed" // the ante handler passed (its events are returned), the message failed
		} else {
			out = "refused"
		}
	}
	om := trace.M{}
	ob, _ := json.Marshal(o)
	_ = json.Unmarshal(ob, &om)
	return trace.M{"ev": "Op", "op": om, "payer": signer.Name[len("vauth-"):], "fee": int64(vGas * vPrice), "amount": int64(vAmount),
		"got": trace.M{"out": out, "code": int64(res.Code), "log": short(res.Log)}, "st": w.Project()}
}

func prefixKey(ops []VOp) string {
	if len(ops) == 0 {
		return "[]"
	}
	bz, _ := json.Marshal(ops)
	return string(bz)
}

// RunBehaviours executes behaviours, each from the genesis state; chains after common prefixes are cached (a cached
// chain is never advanced, only cloned), so behaviours sharing a prefix pay for it once.
func RunBehaviours(bs []Behaviour, out *trace.W, cacheLen int, stray int64) (nOps int) {
	type snap struct {
		w     *VWorld
		lines []trace.M
	}
	base := NewVWorld(stray)
	g := base.Project()
	g["ev"] = "Genesis"
	cache := map[string]*snap{prefixKey(nil): {w: base, lines: []trace.M{g}}}
	for _, b := range bs {
		// longest cached prefix
		k := len(b.Ops)
		if k > cacheLen {
			k = cacheLen
		}
		var s *snap
		for ; k >= 0; k-- {
			if s = cache[prefixKey(b.Ops[:k])]; s != nil {
				break
			}
		}
		if k == 0 && len(cache) > 1 {
			// a new family of behaviours: drop the snapshots of the previous one
			cache = map[string]*snap{prefixKey(nil): cache[prefixKey(nil)]}
		}
		w := s.w.Clone()
		lines := append([]trace.M{}, s.lines...)
		for i := k; i < len(b.Ops); i++ {
			lines = append(lines, w.Exec(b.Ops[i]))
			nOps++
			if i+1 <= cacheLen && i+1 < len(b.Ops) && cache[prefixKey(b.Ops[:i+1])] == nil {
				cache[prefixKey(b.Ops[:i+1])] = &snap{w: w, lines: append([]trace.M{}, lines...)}
				w = w.Clone()
			}
		}
		for i, ln := range lines {
			m := trace.M{}
			for kk, vv := range ln {
				m[kk] = vv
			}
			m["b"] = b.ID
			m["i"] = i
			m["cached"] = i <= k // executed once for an earlier behaviour with the same prefix, re-logged here
			out.Emit(m)
		}
	}
	return nOps
}
