// Package lanes is the conformance binding of Lanes.tla (C07) and Vauth.tla (C16): it builds
// real transactions for abstract transaction shapes / vauth operations, runs them through the
// real application (CheckTx, ReCheckTx, Simulate, FinalizeBlock) and records what happened.
// The verdicts are TLC's (TraceLanes.tla / TraceVauth.tla); nothing here knows the rules.
package lanes

import (
	"encoding/hex"
	"fmt"
	"math/big"
	"time"

	sdkmath "cosmossdk.io/math"
	"cosmossdk.io/x/feegrant"
	abci "github.com/cometbft/cometbft/abci/types"
	sdk "github.com/cosmos/cosmos-sdk/types"
	authtypes "github.com/cosmos/cosmos-sdk/x/auth/types"
	banktypes "github.com/cosmos/cosmos-sdk/x/bank/types"
	ethcrypto "github.com/ethereum/go-ethereum/crypto"

	vauthtypes "github.com/EscanBE/evermint/v12/x/vauth/types"

	"verifharness/chain"
)

// Cost is the fixed fee of a proof submission (x/vauth/keeper/constants.go), as the harness reads
// it from the module at run time (see CostOf); kept here only as the unit of the projection.
var Cost = new(big.Int).Exp(big.NewInt(10), big.NewInt(18), nil)

// Env is one application instance prepared for shape vectors.
type Env struct {
	C        *chain.Chain
	Pool     []*chain.Acct // senders (funded, existing accounts)
	next     int
	Rcpt     *chain.Acct    // receives sends / eth value
	Payer    *chain.Acct    // funded; named as fee payer by shapes
	Granter  *chain.Acct    // funded; has a fee allowance for every pool account
	Grantee  *chain.Acct    // grantee of MsgGrant shapes
	Proven   [3]*chain.Acct // not on chain, proof of ownership stored (one per vesting kind)
	Unproven [3]*chain.Acct // not on chain, no proof (one per vesting kind)
	Submit   *chain.Acct    // pays the proof submissions
}

// InfraErr is a harness problem (exit 2), never a verdict.
type InfraErr struct{ Msg string }

func (e InfraErr) Error() string { return e.Msg }

func infra(format string, a ...interface{}) { panic(InfraErr{fmt.Sprintf(format, a...)}) }

// SignProof signs the vauth module's fixed message (or another message) with a's key, the way
// wallets do for x/vauth: 65 bytes r||s||v with v in {0,1}, hex with 0x prefix.
func SignProof(a *chain.Acct, message string) []byte {
	priv, err := a.Priv.ToECDSA()
	if err != nil {
		panic(err)
	}
	sig, err := ethcrypto.Sign(ethcrypto.Keccak256([]byte(message)), priv)
	if err != nil {
		panic(err)
	}
	return sig
}

// Hex0x encodes lower-case with prefix.
func Hex0x(b []byte) string { return "0x" + hex.EncodeToString(b) }

func bigCoin(n *big.Int) sdk.Coins {
	return sdk.NewCoins(sdk.NewCoin(chain.Denom, sdkmath.NewIntFromBigInt(n)))
}

// NewEnv builds a chain with nPool funded senders, stores the proofs for the proven targets through
// real MsgSubmitProofExternalOwnedAccount transactions and gives every sender a fee allowance from Granter.
func NewEnv(nPool int) *Env {
	e := &Env{
		Rcpt: chain.NewAcct("lanes-rcpt"), Payer: chain.NewAcct("lanes-payer"), Granter: chain.NewAcct("lanes-granter"),
		Grantee: chain.NewAcct("lanes-grantee"), Submit: chain.NewAcct("lanes-submitter"),
	}
	for i := 0; i < 3; i++ {
		e.Proven[i] = chain.NewAcct(fmt.Sprintf("lanes-proven%d", i))
		e.Unproven[i] = chain.NewAcct(fmt.Sprintf("lanes-unproven%d", i))
	}
	o := chain.DefaultOpts()
	o.NAccts = nPool + 1
	o.Bal = 10_000_000_000_000_000 // 1e16: fees never run out
	o.Bal2 = 1_000_000_000_000 // the "fee in another denomination" variant must not fail for lack of funds
	rich := new(big.Int).Mul(Cost, big.NewInt(8))
	for _, a := range []*chain.Acct{e.Payer, e.Granter, e.Submit} {
		o.ExtraBals = append(o.ExtraBals, banktypes.Balance{Address: a.Acc().String(), Coins: bigCoin(rich)})
		o.ExtraAccts = append(o.ExtraAccts, authtypes.NewBaseAccount(a.Acc(), nil, 0, 0))
	}
	c := chain.New(o)
	e.C = c
	e.Pool = c.Accts[1:] // account 0 is the validator operator

	// block 2: proofs for the proven targets, fee allowances
	var txs [][]byte
	var msgs []sdk.Msg
	for i := 0; i < 3; i++ {
		msgs = append(msgs, &vauthtypes.MsgSubmitProofExternalOwnedAccount{Submitter: e.Submit.Acc().String(), Account: e.Proven[i].Acc().String(),
			Signature: Hex0x(SignProof(e.Proven[i], vauthtypes.MessageToSign))})
	}
	bz, err := c.CosmosTx(e.Submit, msgs, chain.CosmosTxOpts{Gas: 1_000_000, GasPrice: 20})
	if err != nil {
		infra("setup: %v", err)
	}
	txs = append(txs, bz)
	msgs = nil
	exp := chain.BlockTime(1 << 30)
	for _, a := range e.Pool {
		allow := &feegrant.BasicAllowance{Expiration: &exp}
		m, err := feegrant.NewMsgGrantAllowance(allow, e.Granter.Acc(), a.Acc())
		if err != nil {
			infra("setup: %v", err)
		}
		msgs = append(msgs, m)
	}
	bz, err = c.CosmosTx(e.Granter, msgs, chain.CosmosTxOpts{Gas: uint64(200_000 + 60_000*len(msgs)), GasPrice: 20})
	if err != nil {
		infra("setup: %v", err)
	}
	txs = append(txs, bz)
	bo := c.Deliver(txs...)
	if bo.Panic != nil || bo.Err != nil {
		infra("setup block: %v %v", bo.Panic, bo.Err)
	}
	for i, r := range bo.Res.TxResults {
		if r.Code != 0 {
			infra("setup tx %d failed: %s", i, r.Log)
		}
	}
	for i := 0; i < 3; i++ {
		if !c.App.VAuthKeeper.HasProofExternalOwnedAccount(c.Ctx(), e.Proven[i].Acc()) {
			infra("setup: proof %d not stored", i)
		}
	}
	return e
}

// Sender returns the next pool account (round robin).
func (e *Env) Sender() *chain.Acct {
	a := e.Pool[e.next%len(e.Pool)]
	e.next++
	return a
}

// AcctInfo reads (sequence, account number) from the state CheckTx sees.
func AcctInfo(c *chain.Chain, a *chain.Acct) (seq, num uint64) {
	if acc := c.App.AccountKeeper.GetAccount(c.Ctx(), a.Acc()); acc != nil {
		return acc.GetSequence(), acc.GetAccountNumber()
	}
	return 0, 0
}

// FarFuture is an expiry / end time far after every harness block.
func FarFuture() time.Time { return chain.BlockTime(1 << 30) }

func attrOf(ev abci.Event, key string) (string, bool) {
	for _, a := range ev.Attributes {
		if a.Key == key {
			return a.Value, true
		}
	}
	return "", false
}
