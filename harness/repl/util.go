package repl

import "bytes"

func bytesReader(b []byte) *bytes.Reader { return bytes.NewReader(b) }
