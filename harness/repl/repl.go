// Package repl executes one block history on several instances of the real application under
// different hidden conditions (fresh instance, node-local options, GOMAXPROCS, reload from a copied
// database in the middle, another process started later with another environment) and records,
// per instance and block, everything consensus compares.  spec/TraceReplicas.tla judges.
package repl

import (
	"bufio"
	"context"
	"crypto/sha256"
	"encoding/hex"
	"encoding/json"
	"fmt"
	"io"
	"math/big"
	"math/rand"
	"os"
	"os/exec"
	"runtime"
	"sort"
	"sync"
	"sync/atomic"
	"time"

	sdkmath "cosmossdk.io/math"
	abci "github.com/cometbft/cometbft/abci/types"
	sdk "github.com/cosmos/cosmos-sdk/types"
	stakingtypes "github.com/cosmos/cosmos-sdk/x/staking/types"
	"github.com/ethereum/go-ethereum/common"
	ethtypes "github.com/ethereum/go-ethereum/core/types"
	"github.com/ethereum/go-ethereum/crypto"

	chainapp "github.com/EscanBE/evermint/v12/app"
	"github.com/EscanBE/evermint/v12/app/params"
	cpctypes "github.com/EscanBE/evermint/v12/x/cpc/types"
	evmtypes "github.com/EscanBE/evermint/v12/x/evm/types"

	"verifharness/chain"
	"verifharness/drivers"
	"verifharness/prog"
	"verifharness/trace"
)

// History is what a replica needs to re-execute.
type History struct {
	Tid     string     `json:"tid"`
	Genesis []byte     `json:"genesis"`
	MaxGas  int64      `json:"maxGas"`
	NAccts  int        `json:"nAccts"`
	NVals   int        `json:"nVals"`
	ValBond int64      `json:"valBond"`
	Blocks  [][][]byte `json:"blocks"`
	// WallEnd: wall-clock unix second at which the vesting account "vw" of this history ends (0 = none)
	WallEnd int64 `json:"wallEnd"`
	// Token2: address of the ERC-20 precompile deployed by message in the middle of the history ("" = none)
	Token2   string `json:"token2"`
	DeployAt int    `json:"deployAt"`
	// Heavy: the history contains a long-running message (see SpinAddr)
	Heavy bool `json:"heavy"`
}

// ChurnAddr holds a genesis contract whose only function is a loop of 300 SLOAD + SSTORE over four slots: every
// iteration builds store keys on the execution path, and every value written depends on every value read before.
var ChurnAddr = common.HexToAddress("0xc0000000000000000000000000000000000c4a01")

var churnCode, _ = hex.DecodeString("60005b8060031680546001019055600101806101" + "2c116002" + "5700")

// SpinAddr holds a genesis contract that loops until its gas is gone (JUMPDEST PUSH1 0 JUMP): three interpreter steps per
// 12 gas, so a call with a few million gas is milliseconds of work on a plain node and seconds on a node that traces.
var SpinAddr = common.HexToAddress("0xc0000000000000000000000000000000000c4a02")

var spinCode = []byte{0x5b, 0x60, 0x00, 0x56}

func digest(parts ...string) string {
	h := sha256.New()
	for _, p := range parts {
		h.Write([]byte(p))
		h.Write([]byte{0})
	}
	return hex.EncodeToString(h.Sum(nil))[:24]
}

func eventsDigest(evs []abci.Event) string {
	var parts []string
	for _, e := range evs {
		parts = append(parts, "T:"+e.Type)
		for _, a := range e.Attributes {
			parts = append(parts, a.Key+"="+a.Value)
		}
	}
	return digest(parts...)
}

func clamp(g int64) int64 {
	if g < 0 || g >= trace.Limit {
		return trace.Limit - 1
	}
	return g
}

// BlockRecord is the consensus-visible outcome of one block on one instance.
func BlockRecord(rep string, bo chain.BlockOut) trace.M {
	m := trace.M{"ev": "Block", "rep": rep, "h": bo.Height, "panic": bo.Panic != nil || bo.Err != nil}
	if bo.Panic != nil || bo.Err != nil {
		m["what"] = fmt.Sprint(bo.Panic, bo.Err)
		m["appHash"], m["txs"], m["blockEv"], m["valUpd"] = "none", []interface{}{}, "none", "none"
		return m
	}
	m["appHash"] = hex.EncodeToString(bo.Res.AppHash)
	txs := []interface{}{}
	for _, r := range bo.Res.TxResults {
		txs = append(txs, trace.M{"code": int64(r.Code), "codespace": r.Codespace, "data": digest(string(r.Data)), "gw": clamp(r.GasWanted), "gu": clamp(r.GasUsed), "events": eventsDigest(r.Events), "nev": len(r.Events)})
	}
	m["txs"] = txs
	m["blockEv"] = eventsDigest(bo.Res.Events)
	var vu []string
	for _, v := range bo.Res.ValidatorUpdates {
		vu = append(vu, fmt.Sprintf("%x:%d", v.PubKey.GetEd25519(), v.Power))
	}
	m["valUpd"] = digest(vu...)
	m["nValUpd"] = len(bo.Res.ValidatorUpdates)
	return m
}

func erc20Transfer(to common.Address, amount int64) []byte {
	sel := crypto.Keccak256([]byte("transfer(address,uint256)"))[:4]
	data := append([]byte{}, sel...)
	data = append(data, common.LeftPadBytes(to.Bytes(), 32)...)
	data = append(data, common.LeftPadBytes(big.NewInt(amount).Bytes(), 32)...)
	return data
}

// Generate runs the primary instance and returns the history and its records (replica "r0").
func Generate(seed int64, ti int, blocks int, out *trace.W, stats map[string]int) (*History, *chain.Chain) {
	r := rand.New(rand.NewSource(seed*1000003 + int64(ti)))
	tbl := prog.NewTable()
	tid := fmt.Sprintf("h%d_%d", seed, ti)
	var wallEnd int64
	w, o := drivers.NewEthWorld(tbl, r, tid, func(o *chain.Opts) {
		o.NVals = 3
		o.CpcDeployErc20Native = true
		o.CpcDeployStaking = true
		o.CpcWhitelist = []string{chain.NewAcct("a1").Acc().String()}
		o.Contracts = append(o.Contracts, chain.GenContract{Addr: ChurnAddr, Code: churnCode})
		o.Contracts = append(o.Contracts, chain.GenContract{Addr: SpinAddr, Code: spinCode})
		if ti == 2 {
			o.MaxGas = -1
			// at most two unbonding entries per (delegator, validator): the third un-delegation of the history is refused by
			// x/staking - an error path whose text ends up in the transaction result
			o.Patch = func(enc params.EncodingConfig, gs chainapp.GenesisState) {
				var sg stakingtypes.GenesisState
				enc.Codec.MustUnmarshalJSON(gs[stakingtypes.ModuleName], &sg)
				sg.Params.MaxEntries = 2
				gs[stakingtypes.ModuleName] = enc.Codec.MustMarshalJSON(&sg)
			}
		}
		if ti == 0 {
			// an empty vesting account that is expired by every header time (year 2100) but not yet by the wall clock
			wallEnd = time.Now().Unix() + 3
			o.ExtraAccts = append(o.ExtraAccts, drivers.NewVesting(drivers.FreshAddr(103), wallEnd))
		}
	})
	c := w.C
	h := &History{Tid: tid, Genesis: c.Genesis, MaxGas: o.MaxGas, NAccts: o.NAccts, NVals: o.NVals, ValBond: o.ValBond, WallEnd: wallEnd}
	out.Emit(trace.M{"ev": "History", "tid": tid})
	erc20 := cpctypes.CpcStakingFixedAddress // replaced below when the native ERC-20 precompile exists
	if a := c.App.CPCKeeper.GetErc20CustomPrecompiledContractAddressByMinDenom(c.Ctx(), chain.Denom); a != nil {
		erc20 = *a
	}
	created := 0
	deployAt := 1 + r.Intn(blocks/2+1)
	h.DeployAt = -1
	var token2 *common.Address
	for b := 0; b < blocks; b++ {
		n := r.Intn(6)
		var txs [][]byte
		nextNonce := map[string]uint64{}
		baseFee := c.BaseFee().Int64()
		if b == deployAt {
			// a whitelisted deployer registers an ERC-20 precompile for the second denomination by message
			a := c.Accts[1]
			seq := c.Seq(a.Addr)
			msg := &cpctypes.MsgDeployErc20ContractRequest{Authority: a.Acc().String(), Name: "Two", Symbol: "TWO", Decimals: 6, MinDenom: chain.Denom2}
			bz, err := c.CosmosTx(a, []sdk.Msg{msg}, chain.CosmosTxOpts{Gas: 500000, GasPrice: baseFee + 1, Seq: &seq})
			if err != nil {
				panic(err)
			}
			txs = append(txs, bz)
			nextNonce["a1"] = seq + 1
			stats["cpc-deploy-msg"]++
		}
		if token2 != nil && r.Intn(2) == 0 {
			ai := 2 + r.Intn(3)
			a := c.Accts[ai]
			name := fmt.Sprintf("a%d", ai)
			seq := c.Seq(a.Addr)
			txd := &ethtypes.LegacyTx{Nonce: seq, GasPrice: big.NewInt(baseFee + 2), Gas: 150000, To: token2, Value: big.NewInt(0), Data: erc20Transfer(c.Accts[0].Addr, int64(1+r.Intn(20)))}
			txs = append(txs, c.EthTx(a, txd))
			nextNonce[name] = seq + 1
			stats["cpc-erc20-token2"]++
		}
		if wallEnd != 0 && b == 0 {
			// touch the wall-clock-sensitive vesting account right away (zero-value call from c4)
			a := c.Accts[0]
			sp := drivers.EthSpec{From: a, FromName: "a0", Signer: a, Nonce: c.Seq(a.Addr), Type: 0, Gas: 200000, Price: baseFee + 1, To: "c4", Sel: "e12",
				Chain: "ok", Tamper: "none", Shape: "ok", Init: "none", Runtime: "none", NewAddr: "none"}
			bz, _, _, _ := w.BuildEth(sp)
			txs = append(txs, bz)
			nextNonce["a0"] = sp.Nonce + 1
			stats["wall-clock-sensitive-tx"]++
		}
		if ti == 2 && b >= 1 {
			// the validator operator a0 un-delegates through the staking precompile, one entry per block
			a := c.Accts[0]
			seq := c.Seq(a.Addr)
			to := cpctypes.CpcStakingFixedAddress
			data := append(crypto.Keccak256([]byte("undelegate(address,uint256)"))[:4], common.LeftPadBytes(a.Addr.Bytes(), 32)...)
			data = append(data, common.LeftPadBytes(big.NewInt(1).Bytes(), 32)...)
			txd := &ethtypes.LegacyTx{Nonce: seq, GasPrice: big.NewInt(baseFee + 2), Gas: 500000, To: &to, Value: big.NewInt(0), Data: data}
			txs = append(txs, c.EthTx(a, txd))
			nextNonce["a0"] = seq + 1
			stats["cpc-staking-undelegate"]++
		}
		if ti == 1 && b == 1 && o.MaxGas < 0 {
			// one long-running message (12M gas burnt in a tight loop, ends out of gas): seconds of wall time on a tracing node
			a := c.Accts[4]
			seq := c.Seq(a.Addr)
			to := SpinAddr
			txd := &ethtypes.LegacyTx{Nonce: seq, GasPrice: big.NewInt(baseFee + 1), Gas: 6_000_000, To: &to, Value: big.NewInt(0)}
			txs = append(txs, c.EthTx(a, txd))
			nextNonce["a4"] = seq + 1
			h.Heavy = true
			stats["long-running-tx"]++
		}
		if r.Intn(3) > 0 {
			// storage churn: hundreds of store-key constructions on the execution path of one transaction
			ai := r.Intn(len(c.Accts))
			a := c.Accts[ai]
			name := fmt.Sprintf("a%d", ai)
			seq, ok := nextNonce[name]
			if !ok {
				seq = c.Seq(a.Addr)
			}
			to := ChurnAddr
			txd := &ethtypes.LegacyTx{Nonce: seq, GasPrice: big.NewInt(baseFee + 2), Gas: 300000, To: &to, Value: big.NewInt(0)}
			txs = append(txs, c.EthTx(a, txd))
			if c.Bal(a.Addr, chain.Denom).Int64() >= 300000*(baseFee+2) {
				nextNonce[name] = seq + 1
			}
			stats["storage-churn-tx"]++
		}
		for i := 0; i < n; i++ {
			switch k := r.Intn(20); {
			case k < 2:
				bz, _ := w.GenCosmosSend(nextNonce, baseFee)
				txs = append(txs, bz)
				stats["cosmos-send"]++
			case k < 5:
				// staking messages move voting power: validator updates
				ai := r.Intn(len(c.Accts))
				a := c.Accts[ai]
				name := fmt.Sprintf("a%d", ai)
				seq, ok := nextNonce[name]
				if !ok {
					seq = c.Seq(a.Addr)
				}
				v := c.Vals[r.Intn(len(c.Vals))]
				var msg sdk.Msg
				amt := sdk.NewCoin(chain.Denom, sdkmath.NewInt(int64(1+r.Intn(60))))
				if r.Intn(3) == 0 {
					msg = stakingtypes.NewMsgUndelegate(a.Acc().String(), v.OpAddr.String(), amt)
				} else {
					msg = stakingtypes.NewMsgDelegate(a.Acc().String(), v.OpAddr.String(), amt)
				}
				bz, err := c.CosmosTx(a, []sdk.Msg{msg}, chain.CosmosTxOpts{Gas: 400000, GasPrice: baseFee + 1, Seq: &seq})
				if err != nil {
					panic(err)
				}
				if c.Bal(a.Addr, chain.Denom).Int64() >= 400000*(baseFee+1) {
					nextNonce[name] = seq + 1
				}
				txs = append(txs, bz)
				stats["staking-msg"]++
			case k < 7:
				// ERC-20 precompile transfer as a plain Ethereum transaction
				ai := r.Intn(len(c.Accts))
				a := c.Accts[ai]
				name := fmt.Sprintf("a%d", ai)
				seq, ok := nextNonce[name]
				if !ok {
					seq = c.Seq(a.Addr)
				}
				to := c.Accts[r.Intn(len(c.Accts))].Addr
				txd := &ethtypes.LegacyTx{Nonce: seq, GasPrice: big.NewInt(baseFee + 2), Gas: 150000, To: &erc20, Value: big.NewInt(0), Data: erc20Transfer(to, int64(r.Intn(50)))}
				txs = append(txs, c.EthTx(a, txd))
				if c.Bal(a.Addr, chain.Denom).Int64() >= 150000*(baseFee+2) {
					nextNonce[name] = seq + 1
				}
				stats["cpc-erc20"]++
			case k < 8:
				g := make([]byte, 10+r.Intn(60))
				r.Read(g)
				txs = append(txs, g)
				stats["garbage"]++
			default:
				s := w.GenEthSpec(nextNonce, baseFee, &created)
				bz, _, _, _ := w.BuildEth(s)
				txs = append(txs, bz)
				stats["eth"]++
			}
		}
		bo := c.Deliver(txs...)
		h.Blocks = append(h.Blocks, txs)
		out.Emit(BlockRecord("r0", bo))
		if bo.Panic != nil || bo.Err != nil {
			break
		}
		if b == deployAt {
			if a := c.App.CPCKeeper.GetErc20CustomPrecompiledContractAddressByMinDenom(c.Ctx(), chain.Denom2); a != nil {
				token2 = a
				h.Token2, h.DeployAt = a.Hex(), b
			}
		}
	}
	return h, c
}

// Replay re-executes h on a fresh instance; reloadAt > 0 copies the database after that many blocks,
// reloads a new application from the copy and continues there.
func Replay(h *History, rep string, node func(*chain.Opts), reloadAt int, emit func(trace.M)) {
	replay(h, rep, node, reloadAt, false, emit)
}

// rpcLoad makes the node serve requests between blocks, as a public RPC node does: eth_call at the tip and at
// historical heights, mempool admission and simulation of the next block's first transaction. None of it may
// influence what the next blocks compute.
func rpcLoad(c *chain.Chain, h *History, i int, next [][]byte) {
	defer func() { _ = recover() }()
	targets := []common.Address{}
	if a := c.App.CPCKeeper.GetErc20CustomPrecompiledContractAddressByMinDenom(c.Ctx(), chain.Denom); a != nil {
		targets = append(targets, *a)
	}
	if h.Token2 != "" {
		targets = append(targets, common.HexToAddress(h.Token2))
	}
	sel := crypto.Keccak256([]byte("balanceOf(address)"))[:4]
	data := append(append([]byte{}, sel...), common.LeftPadBytes(c.Accts[0].Addr.Bytes(), 32)...)
	for _, t := range targets {
		for _, height := range []int64{c.Height - 1, c.Height - 2, 0} {
			if height < 0 || (height > 0 && height < 2) {
				continue
			}
			args, _ := json.Marshal(map[string]interface{}{"from": c.Accts[3].Addr.Hex(), "to": t.Hex(), "data": "0x" + hex.EncodeToString(data)})
			req := &evmtypes.EthCallRequest{Args: args, GasCap: 25_000_000}
			bz, _ := req.Marshal()
			_, _ = c.App.Query(context.Background(), &abci.RequestQuery{Path: "/ethermint.evm.v1.Query/EthCall", Data: bz, Height: height})
		}
	}
	if len(next) > 0 {
		_, _ = c.App.CheckTx(&abci.RequestCheckTx{Tx: next[0], Type: abci.CheckTxType_New})
		_, _, _ = c.App.Simulate(next[0])
	}
}

// serveDuring makes the node answer gRPC queries on other goroutines WHILE fn (the execution and commit of a block)
// runs, as every public node does: storage, code, balance, account and eth_call requests about accounts the block
// has nothing to do with. Answers are discarded; nothing of it may influence what the block computes.
func serveDuring(c *chain.Chain, h *History, workers int, fn func()) (served int64) {
	var stop int32
	var wg sync.WaitGroup
	var n int64
	token := common.Address{}
	if a := c.App.CPCKeeper.GetErc20CustomPrecompiledContractAddressByMinDenom(c.Ctx(), chain.Denom); a != nil {
		token = *a
	}
	sel := crypto.Keccak256([]byte("balanceOf(address)"))[:4]
	for wk := 0; wk < workers; wk++ {
		wg.Add(1)
		go func(wk int) {
			defer wg.Done()
			for i := 0; atomic.LoadInt32(&stop) == 0; i++ {
				addr := drivers.FreshAddr(200 + (wk*131+i)%50)
				var path string
				var bz []byte
				switch (wk + i) % 5 {
				case 0, 1:
					path = "/ethermint.evm.v1.Query/Storage"
					bz, _ = (&evmtypes.QueryStorageRequest{Address: addr.Hex(), Key: common.BigToHash(big.NewInt(int64(i % 7))).Hex()}).Marshal()
				case 2:
					path = "/ethermint.evm.v1.Query/Code"
					bz, _ = (&evmtypes.QueryCodeRequest{Address: addr.Hex()}).Marshal()
				case 3:
					path = "/ethermint.evm.v1.Query/Balance"
					bz, _ = (&evmtypes.QueryBalanceRequest{Address: addr.Hex()}).Marshal()
				default:
					data := append(append([]byte{}, sel...), common.LeftPadBytes(addr.Bytes(), 32)...)
					args, _ := json.Marshal(map[string]interface{}{"from": addr.Hex(), "to": token.Hex(), "data": "0x" + hex.EncodeToString(data)})
					path = "/ethermint.evm.v1.Query/EthCall"
					bz, _ = (&evmtypes.EthCallRequest{Args: args, GasCap: 25_000_000}).Marshal()
				}
				func() {
					defer func() { _ = recover() }()
					_, _ = c.App.Query(context.Background(), &abci.RequestQuery{Path: path, Data: bz})
				}()
				atomic.AddInt64(&n, 1)
			}
		}(wk)
	}
	fn()
	atomic.StoreInt32(&stop, 1)
	wg.Wait()
	return atomic.LoadInt64(&n)
}

// Served counts the requests answered during block execution by the last "r7" replicas.
var Served int64

func replay(h *History, rep string, node func(*chain.Opts), reloadAt int, load bool, emit func(trace.M)) {
	o := chain.DefaultOpts()
	o.NAccts, o.NVals, o.ValBond, o.MaxGas = h.NAccts, h.NVals, h.ValBond, h.MaxGas
	if node != nil {
		node(&o)
	}
	c := chain.FromGenesis(h.Genesis, o)
	for i, txs := range h.Blocks {
		if reloadAt > 0 && i == reloadAt {
			c = c.Clone()
		}
		if load {
			rpcLoad(c, h, i, txs)
		}
		var bo chain.BlockOut
		if rep == "r7" {
			Served += serveDuring(c, h, 8, func() { bo = c.Deliver(txs...) })
		} else {
			bo = c.Deliver(txs...)
		}
		emit(BlockRecord(rep, bo))
		if bo.Panic != nil || bo.Err != nil {
			return
		}
	}
}

// Run generates n histories and executes each on all replicas.
func Run(seed int64, n, blocks int, out *trace.W, self string) map[string]int {
	stats := map[string]int{}
	for ti := 0; ti < n; ti++ {
		h, _ := Generate(seed, ti, blocks, out, stats)
		emit := func(m trace.M) { out.Emit(m) }
		// r1: fresh instance, same process
		Replay(h, "r1", nil, 0, emit)
		// r2: other node-local options, one OS thread
		prev := runtime.GOMAXPROCS(1)
		Replay(h, "r2", func(o *chain.Opts) { o.MinGasPricesNode = "7" + chain.Denom; o.InvCheckPeriod = 1 }, 0, emit)
		runtime.GOMAXPROCS(prev)
		// r3: database copied and application reloaded in the middle
		Replay(h, "r3", nil, 1+len(h.Blocks)/2, emit)
		// r6: a node that serves RPC requests between the blocks
		replay(h, "r6", nil, 0, true, emit)
		// r8: a node started with --evm.tracer access_list (a debugging aid, node-local)
		Replay(h, "r8", func(o *chain.Opts) { o.EvmTracer = "access_list" }, 0, emit)
		// r7: a node that answers queries on other goroutines while it executes and commits each block
		Replay(h, "r7", nil, 0, emit)
		stats["requests-served-during-execution"] = int(Served)
		// r5: the same again after the wall clock has passed the end time of the vesting account "vw"
		if h.WallEnd != 0 {
			if d := time.Until(time.Unix(h.WallEnd+1, 0)); d > 0 {
				time.Sleep(d)
			}
			Replay(h, "r5", nil, 0, emit)
			stats["wall-clock-straddling-replicas"]++
		}
		// r4: another process, another environment, later
		if self != "" && ti%4 == 0 {
			childReplica(self, h, "r4", "", []string{"GOMAXPROCS=3", "TZ=Asia/Tokyo", "GOGC=20"}, out)
			stats["child-process-replicas"]++
		}
		// r9: another process started with --evm.tracer json (every interpreter step is written to stderr): the long-running
		// message of this history takes seconds there and milliseconds elsewhere
		if self != "" && h.Heavy {
			childReplica(self, h, "r9", "json", nil, out)
			stats["tracing-node-replicas"]++
		}
		stats["histories"]++
		stats["blocks"] += len(h.Blocks)
	}
	return stats
}

// childReplica re-executes h in a child process (replica name rep, optional --evm.tracer value, extra environment) and
// emits its block records.
func childReplica(self string, h *History, rep, tracer string, env []string, out *trace.W) {
	f, err := os.CreateTemp("", "hist*.json")
	if err != nil {
		panic(err)
	}
	bz, _ := json.Marshal(h)
	f.Write(bz)
	f.Close()
	defer os.Remove(f.Name())
	cmd := exec.Command(self, "replay", "-history", f.Name(), "-rep", rep, "-tracer", tracer)
	cmd.Env = append(os.Environ(), env...)
	cmd.Stderr = io.Discard
	stdout, err := cmd.Output()
	if err != nil {
		panic(fmt.Errorf("child replica %s failed: %v", rep, err))
	}
	sc := bufio.NewScanner(bytesReader(stdout))
	sc.Buffer(make([]byte, 1<<20), 1<<26)
	for sc.Scan() {
		ln := sc.Bytes()
		if len(ln) == 0 || ln[0] != '{' {
			continue
		}
		var m trace.M
		if err := json.Unmarshal(ln, &m); err != nil {
			panic(err)
		}
		fix(m)
		out.Emit(m)
	}
}

// fix restores integer types after a JSON round trip (numbers come back as float64).
func fix(m trace.M) {
	keys := make([]string, 0, len(m))
	for k := range m {
		keys = append(keys, k)
	}
	sort.Strings(keys)
	for _, k := range keys {
		switch v := m[k].(type) {
		case float64:
			m[k] = int64(v)
		case map[string]interface{}:
			fix(v)
		case []interface{}:
			for _, x := range v {
				if mm, ok := x.(map[string]interface{}); ok {
					fix(mm)
				}
			}
		}
	}
}
