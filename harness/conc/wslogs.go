package conc

// Mode "logs" of the websocket scenario (spec/LogFilter.tla): log subscriptions over the real websocket server
// (eth_subscribe ["logs", {address, topics}] with user-chosen criteria) and log filters of the real PublicFilterAPI
// (NewFilter + GetFilterChanges) against injected EVM tx events whose receipts carry logs with 0..4 topics of several
// addresses. Events are injected in lock-step (every consumer goroutine parked in its select before the next one, a
// wildcard sentinel subscription confirms that the event went through the bus); every vector is injected Passes times.
// What every subscription / filter received per event is written as one line per (criteria, vector) to
// logtrace.ndjson; TLC (spec/TraceLogFilter.tla) decides whether it is exactly the matching logs, in order.

import (
	"encoding/binary"
	"encoding/json"
	"fmt"
	"math/big"
	"os"
	"path/filepath"
	"strings"
	"sync"
	"time"

	"cosmossdk.io/log"
	abci "github.com/cometbft/cometbft/abci/types"
	tmjson "github.com/cometbft/cometbft/libs/json"
	coretypes "github.com/cometbft/cometbft/rpc/core/types"
	cmtjrpctypes "github.com/cometbft/cometbft/rpc/jsonrpc/types"
	cmttypes "github.com/cometbft/cometbft/types"
	"github.com/cosmos/cosmos-sdk/client"
	codectypes "github.com/cosmos/cosmos-sdk/codec/types"
	sdk "github.com/cosmos/cosmos-sdk/types"
	"github.com/cosmos/gogoproto/proto"
	"github.com/ethereum/go-ethereum/common"
	ethtypes "github.com/ethereum/go-ethereum/core/types"
	ethfilters "github.com/ethereum/go-ethereum/eth/filters"
	ethrpc "github.com/ethereum/go-ethereum/rpc"

	"github.com/EscanBE/evermint/v12/rpc/namespaces/ethereum/eth/filters"
	evmtypes "github.com/EscanBE/evermint/v12/x/evm/types"
)

// LogCrit: criteria in the tokens of LogFilter.tla (addresses "a1".., hashes "h1"..; an empty position = wildcard).
type LogCrit struct {
	Addr []string   `json:"addr"`
	T    [][]string `json:"t"`
}

// LogVec: one log of an injected receipt.
type LogVec struct {
	A string   `json:"a"`
	T []string `json:"t"`
}

func tokAddr(t string) common.Address {
	return common.HexToAddress("0x00000000000000000000000000000000000000" + map[string]string{"a1": "a1", "a2": "a2", "a3": "a3"}[t])
}

func tokHash(t string) common.Hash {
	return common.BigToHash(big.NewInt(int64(0x1000 + int(t[1]-'0'))))
}

// userCriteria: what a user sends as second parameter of eth_subscribe ["logs", ...].
func userCriteria(f LogCrit, variant int) map[string]interface{} {
	m := map[string]interface{}{}
	switch {
	case len(f.Addr) == 1 && variant%2 == 0:
		m["address"] = tokAddr(f.Addr[0]).Hex()
	case len(f.Addr) > 0:
		var l []interface{}
		for _, a := range f.Addr {
			l = append(l, tokAddr(a).Hex())
		}
		m["address"] = l
	}
	ts := []interface{}{}
	for _, pos := range f.T {
		switch {
		case len(pos) == 0:
			ts = append(ts, nil)
		case len(pos) == 1 && variant%3 != 0:
			ts = append(ts, tokHash(pos[0]).Hex())
		default:
			var l []interface{}
			for _, h := range pos {
				l = append(l, tokHash(h).Hex())
			}
			ts = append(ts, l)
		}
	}
	if len(ts) > 0 || variant%2 == 1 {
		m["topics"] = ts
	}
	return m
}

func ethCriteria(f LogCrit) ethfilters.FilterCriteria {
	var c ethfilters.FilterCriteria
	for _, a := range f.Addr {
		c.Addresses = append(c.Addresses, tokAddr(a))
	}
	for _, pos := range f.T {
		var hs []common.Hash
		for _, h := range pos {
			hs = append(hs, tokHash(h))
		}
		c.Topics = append(c.Topics, hs)
	}
	return c
}

func logsEvent(query string, ev uint64, vec []LogVec) cmtjrpctypes.RPCResponse {
	var logs []*ethtypes.Log
	for j, l := range vec {
		data := make([]byte, 8)
		binary.BigEndian.PutUint64(data, ev<<8|uint64(j+1))
		lg := &ethtypes.Log{Address: tokAddr(l.A), Data: data, Topics: []common.Hash{}}
		for _, h := range l.T {
			lg.Topics = append(lg.Topics, tokHash(h))
		}
		logs = append(logs, lg)
	}
	rcpt := &ethtypes.Receipt{Status: 1, CumulativeGasUsed: 21000, Logs: logs}
	rbz, err := rcpt.MarshalBinary()
	if err != nil {
		panic(err)
	}
	resp, err := proto.Marshal(&evmtypes.MsgEthereumTxResponse{MarshalledReceipt: rbz})
	if err != nil {
		panic(err)
	}
	tmd, err := proto.Marshal(&sdk.TxMsgData{MsgResponses: []*codectypes.Any{{TypeUrl: "/" + proto.MessageName(&evmtypes.MsgEthereumTxResponse{}), Value: resp}}})
	if err != nil {
		panic(err)
	}
	bz, err := tmjson.Marshal(coretypes.ResultEvent{Query: query, Data: cmttypes.EventDataTx{TxResult: abci.TxResult{Height: int64(ev), Result: abci.ExecTxResult{Data: tmd}}}})
	if err != nil {
		panic(err)
	}
	return cmtjrpctypes.RPCResponse{JSONRPC: "2.0", Result: bz}
}

// consumersParked: every notifier goroutine of the websocket server and every consumer goroutine of the filter API sits in
// its select (the bus hands an event only to a goroutine parked there).
func consumersParked(d time.Duration) bool {
	end := time.Now().Add(d)
	for {
		ok := true
		for _, g := range serverGoroutines() {
			if (g.role == "notifier" || g.role == "filter-consumer") && g.state != "select" && g.state != "chan receive" {
				ok = false
				break
			}
		}
		if ok || time.Now().After(end) {
			return ok
		}
		time.Sleep(150 * time.Microsecond)
	}
}

func runLogs(p *WsPlan, node *wsNode, res *WsResult, t0 time.Time) error {
	passes := p.Passes
	if passes < 1 {
		passes = 2
	}
	nf := len(p.Filters)
	// ---- websocket side: the criteria as eth_subscribe arguments, 48 per connection, + one sentinel connection (no criteria)
	mk := func(i int) *wsClient {
		return &wsClient{node: node, plan: p, want: map[int64]string{}, collect: true, res: &WsConnResult{Conn: i, Classes: map[string]int{}}}
	}
	var clients []*wsClient
	owner := make([][2]int, nf) // filter -> (client, index of its subscription on that client)
	for i := 0; i < nf; i++ {
		if i%48 == 0 {
			c := mk(len(clients) + 1)
			c.setup() // (opens a newHeads subscription first: subscription 0 of the connection)
			clients = append(clients, c)
		}
		c := clients[len(clients)-1]
		c.subscribe("logs", userCriteria(p.Filters[i], i))
		owner[i] = [2]int{len(clients) - 1, len(c.subs) - 1}
		if c.dead || len(c.subs) == 0 || c.subs[len(c.subs)-1].kind != "logs" {
			return fmt.Errorf("eth_subscribe logs with criteria %v was not accepted: %v %v", userCriteria(p.Filters[i], i), c.res.Corrupt, c.res.Missing)
		}
	}
	sent := mk(len(clients) + 1)
	sent.setup()
	sent.seen = make(chan uint64, 1<<16)
	sent.subscribe("logs")
	if sent.dead || len(sent.subs) < 2 {
		return fmt.Errorf("sentinel subscription not accepted")
	}
	var wg sync.WaitGroup
	for _, c := range append(append([]*wsClient{}, clients...), sent) {
		wg.Add(1)
		go func(c *wsClient) { // from here on the connection only receives
			defer wg.Done()
			for m := range c.in {
				c.handle(m)
			}
		}(c)
	}
	// ---- filter API side: a second CometBFT client (an EventSystem consumes its ResponsesCh alone), the same criteria through NewFilter
	ws2, srv2, err := startLoopbackComet()
	if err != nil {
		return err
	}
	defer srv2.Close()
	api := filters.NewPublicAPI(log.NewNopLogger(), client.Context{}, ws2, backend{})
	ids := make([]ethrpc.ID, nf)
	for i, f := range p.Filters {
		if ids[i], err = api.NewFilter(ethCriteria(f)); err != nil {
			return fmt.Errorf("NewFilter: %w", err)
		}
	}
	sentID, err := api.NewFilter(ethfilters.FilterCriteria{})
	if err != nil {
		return err
	}
	apiGot := make([]map[uint64][]int, nf) // filter -> event -> log indices in order of arrival
	for i := range apiGot {
		apiGot[i] = map[uint64][]int{}
	}
	poll := func() error {
		for i, id := range ids {
			r, err := api.GetFilterChanges(id)
			if err != nil {
				return fmt.Errorf("GetFilterChanges: %w", err)
			}
			ls, _ := r.([]*ethtypes.Log)
			for _, l := range ls {
				if len(l.Data) != 8 {
					return fmt.Errorf("GetFilterChanges returned a log that was never injected")
				}
				x := binary.BigEndian.Uint64(l.Data)
				apiGot[i][x>>8] = append(apiGot[i][x>>8], int(x&0xff))
			}
		}
		return nil
	}
	// ---- lock-step injection
	type evKey struct{ pass, vec int }
	evOf := map[uint64]evKey{}
	var ev uint64
	sentinelMiss := 0
	for pass := 0; pass < passes; pass++ {
		for v, vec := range p.Vectors {
			consumersParked(200 * time.Millisecond)
			ev++
			evOf[ev] = evKey{pass, v}
			node.rig.WS.ResponsesCh <- logsEvent(node.logsQuery, ev, vec)
			ws2.ResponsesCh <- logsEvent(node.logsQuery, ev, vec)
			res.Events["logs"]++
			// the event went through both buses when both sentinels have it
			okWs, okAPI := false, false
			for end := time.Now().Add(2 * time.Second); time.Now().Before(end) && !(okWs && okAPI); {
				select {
				case x := <-sent.seen:
					okWs = okWs || x>>8 == ev
				case <-time.After(200 * time.Microsecond):
				}
				if !okAPI {
					if r, err := api.GetFilterChanges(sentID); err == nil {
						if ls, _ := r.([]*ethtypes.Log); len(ls) > 0 && binary.BigEndian.Uint64(ls[len(ls)-1].Data)>>8 == ev {
							okAPI = true
						}
					}
				}
			}
			if !(okWs && okAPI) {
				sentinelMiss++
			}
			consumersParked(200 * time.Millisecond)
			if err := poll(); err != nil {
				return err
			}
		}
	}
	consumersParked(time.Second)
	time.Sleep(30 * time.Millisecond) // notifications on their way to the clients
	if err := poll(); err != nil {
		return err
	}
	for _, c := range append(append([]*wsClient{}, clients...), sent) {
		if c.node.rec != nil {
			c.node.rec.note(c.res.Conn, "cl_close", nil)
		}
		_ = c.conn.Close()
	}
	wg.Wait()
	close(node.stop)
	// ---- one line per (target, criteria, vector) for the judge
	f, err := os.Create(filepath.Join(p.Out, "logtrace.ndjson"))
	if err != nil {
		return err
	}
	defer f.Close()
	type line struct {
		Target string   `json:"target"`
		S      int      `json:"s"`
		V      int      `json:"v"`
		F      LogCrit  `json:"f"`
		Logs   []LogVec `json:"logs"`
		Got    [][]int  `json:"got"`
	}
	enc := json.NewEncoder(f)
	lost := 0
	for i, fl := range p.Filters {
		if fl.Addr == nil {
			fl.Addr = []string{}
		}
		if fl.T == nil {
			fl.T = [][]string{}
		}
		for k := range fl.T {
			if fl.T[k] == nil {
				fl.T[k] = []string{}
			}
		}
		c := clients[owner[i][0]]
		wsGot := map[uint64][]int{}
		for _, x := range c.subs[owner[i][1]].got {
			wsGot[x>>8] = append(wsGot[x>>8], int(x&0xff))
		}
		for _, tgt := range []string{"ws", "api"} {
			got := wsGot
			if tgt == "api" {
				got = apiGot[i]
			}
			for v, vec := range p.Vectors {
				ln := line{Target: tgt, S: i + 1, V: v + 1, F: fl, Logs: vec, Got: make([][]int, passes)}
				for k := range ln.Got {
					ln.Got[k] = []int{}
				}
				for e, key := range evOf {
					if key.vec == v && got[e] != nil {
						ln.Got[key.pass] = got[e]
					}
				}
				for j := range ln.Logs {
					if ln.Logs[j].T == nil {
						ln.Logs[j].T = []string{}
					}
				}
				if err := enc.Encode(ln); err != nil {
					return err
				}
			}
		}
	}
	for _, c := range append(append([]*wsClient{}, clients...), sent) {
		if s, _ := c.frameErr.Load().(string); s != "" {
			c.corrupt("%s", s)
		}
		for _, pnd := range c.pending {
			c.corrupt("notification of a subscription this connection never opened: %s", head(pnd))
		}
		for _, s := range c.subs {
			c.res.Notifs = append(c.res.Notifs, s.n)
			c.res.Kinds = append(c.res.Kinds, s.kind)
		}
		c.res.Closed = "TCP close"
		res.Conns = append(res.Conns, *c.res)
	}
	res.Events["sentinelMisses"] = sentinelMiss
	res.Events["lost"] = lost
	// left-over goroutines as in the other modes (the filter API's consumers stay: nobody uninstalled the filters)
	var left []srvGor
	for k := 0; k < 150; k++ {
		left = left[:0]
		res.Parked = 0
		for _, g := range serverGoroutines() {
			if atRest(g) || g.role == "filter-consumer" {
				res.Parked++
			} else {
				left = append(left, g)
			}
		}
		if len(left) == 0 {
			break
		}
		time.Sleep(20 * time.Millisecond)
	}
	for _, g := range left {
		res.Leftover = append(res.Leftover, fmt.Sprintf("%s in %s [%s] (innermost %s)", g.role, g.where, g.state, g.top))
	}
	for _, ln := range strings.Split(node.recovered.String(), "\n") {
		if strings.Contains(ln, "panic serving") {
			res.Recovered = append(res.Recovered, strings.TrimSpace(ln))
		}
	}
	n, opens := node.rec.hookLines()
	res.HookLines, res.Hooks = n, opens > 0
	node.rec.mu.Lock()
	node.rec.closed = true
	_ = node.rec.sink.Close()
	node.rec.mu.Unlock()
	res.WallMs = time.Since(t0).Milliseconds()
	bz, _ := json.MarshalIndent(res, "", " ")
	return os.WriteFile(filepath.Join(p.Out, "ws.json"), bz, 0o644)
}
