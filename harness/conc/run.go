package conc

import (
	"encoding/json"
	"fmt"
	"math/rand"
	"os"
	"path/filepath"
	"strings"
	"sync"
	"time"

	"github.com/ethereum/go-ethereum/rpc"

	"github.com/EscanBE/evermint/v12/rpc/ethereum/pubsub"
	"github.com/EscanBE/evermint/v12/rpc/namespaces/ethereum/eth/filters"
	"github.com/EscanBE/evermint/v12/utils/verifhook"
)

// Step is one step of a behaviour of FilterSystem.tla (FilterSystem_sim.tla's history variable).
type Step struct {
	P  int    `json:"p"`
	L  string `json:"l"`
	To string `json:"to"`
	F  int    `json:"f"`
	T  int    `json:"t"`
}

// Plan is what the child process is asked to run.
type Plan struct {
	Mode string `json:"mode"` // stress | replay | expiry
	// DeadlineMs > 0: the filters' inactivity deadline (hook H4), so that timeoutLoop and the deadline timers fire
	DeadlineMs int `json:"deadlineMs"`
	// StallPermille: see Rec.StallPermille (free stress only)
	StallPermille int    `json:"stallPermille"`
	Api           bool   `json:"api"`
	Clients       int    `json:"clients"`
	Rounds        int    `json:"rounds"`
	Topics        int    `json:"topics"`
	Events        int    `json:"events"`
	Polls         int    `json:"polls"`
	Seed          int64  `json:"seed"`
	Steps         []Step `json:"steps"`
	Out           string `json:"out"`
}

// Result is what the child reports (next to trace.ndjson).
type Result struct {
	Completed bool           `json:"completed"`
	Diverged  []string       `json:"diverged"`  // schedule steps the real code did not offer (replay)
	RecErrors []string       `json:"recErrors"` // recorder problems: infrastructure
	Stuck     []string       `json:"stuck"`     // client goroutines that never returned
	Spin      map[string]int `json:"spin"`      // hook counters that kept growing at quiescence
	Events    int            `json:"events"`
	Counts    map[string]int `json:"counts"`
}

func subOf(client, round, rounds int) int { return (client-1)*rounds + round }

type cl struct {
	i    int
	plan *Plan
	rig  *Rig
	rec  *Rec
	rng  *rand.Rand
	cmds chan string // replay: commands from the schedule; nil: random choices
	done chan struct{}
	at   string // where it is (diagnostics)
	mu   sync.Mutex
}

func (c *cl) set(s string)  { c.mu.Lock(); c.at = s; c.mu.Unlock() }
func (c *cl) where() string { c.mu.Lock(); defer c.mu.Unlock(); return c.at }

// next returns the next command: from the schedule (replay) or chosen at random among opts.
func (c *cl) next(point string, opts ...string) string {
	c.set("waiting at " + point)
	if c.cmds != nil {
		for { // commands are "point=kind"; the ones for points the real code did not reach are skipped
			cmd, ok := <-c.cmds
			if !ok {
				return "exit"
			}
			if strings.HasPrefix(cmd, point+"=") {
				return cmd[len(point)+1:]
			}
		}
	}
	if d := c.rng.Intn(4); d > 0 {
		time.Sleep(time.Duration(c.rng.Intn(300)) * time.Microsecond)
	}
	if c.plan.DeadlineMs > 0 && c.plan.Api && c.rng.Intn(3) == 0 { // now and then be idle for about a deadline: filters expire
		time.Sleep(time.Duration(c.rng.Intn(2*c.plan.DeadlineMs*1000)) * time.Microsecond)
	}
	return opts[c.rng.Intn(len(opts))]
}

func (c *cl) run() {
	defer close(c.done)
	for round := 1; round <= c.plan.Rounds; round++ {
		sub := subOf(c.i, round, c.plan.Rounds)
		cmd := c.next("c_begin", "t1", "t2")
		if cmd == "exit" {
			return
		}
		topic := 1
		if cmd == "t2" && c.plan.Topics >= 2 {
			topic = 2
		}
		c.rec.RegisterClient(c.i, sub, topic)
		c.rec.Note(0, "c_begin", "", topic)
		c.set(fmt.Sprintf("round %d subscribing", round))
		if c.plan.Api {
			if !c.apiRound(round, sub, topic) {
				return
			}
		} else {
			if !c.esRound(round, sub, topic) {
				return
			}
		}
	}
	c.set("done")
}

func (c *cl) esRound(round, sub, topic int) bool {
	var (
		s     *filters.Subscription
		unsub pubsub.UnsubscribeFunc
		err   error
	)
	if topic == 1 {
		s, unsub, err = c.rig.ES.SubscribeNewHeads()
	} else {
		s, unsub, err = c.rig.ES.SubscribePendingTxs()
	}
	if err != nil || s == nil {
		if c.next("c_next", "next") == "exit" {
			return false
		}
		c.rec.Note(0, "c_next", "", 0)
		return true
	}
	c.rec.BindSub(s.ID(), sub)
loop:
	for n := 0; ; n++ {
		opts := []string{"recv", "recv", "quit"}
		if n > 3 {
			opts = []string{"quit"}
		}
		switch c.next("c_recv", opts...) {
		case "exit":
			return false
		case "recv":
			c.set("receiving")
			select {
			case _, ok := <-s.Event():
				if ok {
					c.rec.Note(0, "c_recv", "recv", 0)
				} else {
					c.rec.Note(0, "c_recv", "closed", 0)
					break loop
				}
			case <-time.After(time.Duration(200+c.rng.Intn(800)) * time.Microsecond):
				if c.cmds != nil { // replay asked for an event the real code did not deliver: go on
					continue
				}
			}
		default: // quit
			c.rec.Note(0, "c_recv", "quit", 0)
			break loop
		}
	}
	if c.next("c_unsub", "unsub") == "exit" {
		return false
	}
	c.rec.Note(0, "c_unsub", "", 0)
	s.Unsubscribe(c.rig.ES)
	if c.next("c_cancel", "cancel") == "exit" {
		return false
	}
	c.set("bus unsubscribe")
	unsub()
	if c.next("c_next", "next") == "exit" {
		return false
	}
	c.rec.Note(0, "c_next", "", 0)
	return true
}

func (c *cl) apiRound(round, sub, topic int) bool {
	var id rpc.ID
	if topic == 1 {
		id = c.rig.API.NewBlockFilter()
	} else {
		id = c.rig.API.NewPendingTransactionFilter()
	}
	if strings.HasPrefix(string(id), "error") {
		if c.next("c_next", "next") == "exit" {
			return false
		}
		c.rec.Note(0, "c_next", "", 0)
		return true
	}
	c.rig.ShareID(sub, id)
	polls := 0
loop:
	for {
		opts := []string{"uninstall", "uninstall", "abandon"}
		if polls < c.plan.Polls {
			opts = append(opts, "poll", "poll", "poll")
			if c.cmds == nil { // free stress: several clients, one filter id
				opts = append(opts, "xuninstall")
			}
		}
		switch c.next("c_use", opts...) {
		case "xuninstall":
			other, ok := c.rig.OtherID(sub, c.rng.Intn(1000))
			if !ok {
				continue
			}
			polls++
			c.rec.Note(0, "c_use", "xuninstall", 0)
			c.set("UninstallFilter (another client's filter)")
			c.rig.API.UninstallFilter(other)
		case "exit":
			return false
		case "poll":
			polls++
			c.rec.Note(0, "c_use", "poll", 0)
			c.set("GetFilterChanges")
			_, _ = c.rig.API.GetFilterChanges(id)
		case "uninstall":
			c.rec.Note(0, "c_use", "uninstall", 0)
			c.set("UninstallFilter")
			c.rig.API.UninstallFilter(id)
			break loop
		default:
			c.rec.Note(0, "c_use", "abandon", 0)
			break loop
		}
	}
	if c.next("c_next", "next") == "exit" {
		return false
	}
	c.rec.Note(0, "c_next", "", 0)
	return true
}

// Run executes a plan in this process. A goroutine panic inside the real code kills the process:
// the caller (bin/checks_conc.py) runs it as a child and reads exit status and stderr.
func Run(plan *Plan) error {
	if err := os.MkdirAll(plan.Out, 0o755); err != nil {
		return err
	}
	sink, err := os.Create(filepath.Join(plan.Out, "trace.ndjson"))
	if err != nil {
		return err
	}
	defer sink.Close()
	hdr, _ := json.Marshal(map[string]interface{}{"hdr": 1, "api": plan.Api, "clients": plan.Clients, "rounds": plan.Rounds,
		"topics": plan.Topics, "mode": plan.Mode, "seed": plan.Seed})
	_, _ = sink.Write(append(hdr, '\n'))
	rec := NewRec()
	rec.Sink = sink
	if plan.Mode == "stress" {
		rec.StallPermille, rec.StallSeed = plan.StallPermille, plan.Seed
	}
	if plan.Mode == "replay" {
		rec.Gated = func(ev Event) bool {
			switch ev.L {
			case "c_inst", "un_send", "ce_send":
				return true
			case "pt_loop":
				return !ev.Ok
			}
			return false
		}
	}
	verifhook.AtFunc = rec.At
	if plan.DeadlineMs > 0 {
		filters.VerifSetDeadline(time.Duration(plan.DeadlineMs) * time.Millisecond)
	}
	var ex *expiry
	if plan.Mode == "expiry" {
		ex = newExpiry(plan, rec)
	}
	rig, err := NewRig(rec, plan.Api)
	if err != nil {
		return err
	}
	defer rig.Close()
	rng := rand.New(rand.NewSource(plan.Seed))
	cls := map[int]*cl{}
	for i := 1; i <= plan.Clients; i++ {
		c := &cl{i: i, plan: plan, rig: rig, rec: rec, rng: rand.New(rand.NewSource(plan.Seed*1000 + int64(i))), done: make(chan struct{})}
		if plan.Mode == "replay" {
			c.cmds = make(chan string, 64)
		}
		cls[i] = c
		if ex != nil {
			go ex.client(c)
		} else {
			go c.run()
		}
	}
	res := &Result{Spin: map[string]int{}}
	switch plan.Mode {
	case "replay":
		replay(plan, rig, rec, cls, res)
	case "expiry":
		ex.wait(cls)
	default:
		stress(plan, rig, rec, cls, rng)
	}
	// quiescence: every client must have returned
	quiesce := time.After(5 * time.Second)
	for i := 1; i <= plan.Clients; i++ {
		select {
		case <-cls[i].done:
		case <-quiesce:
			quiesce = time.After(0)
			res.Stuck = append(res.Stuck, fmt.Sprintf("client %d %s", i, cls[i].where()))
		}
	}
	rec.Settle(20*time.Millisecond, 3*time.Second)
	// goroutines that keep running although nothing is going on any more (D26)
	before := map[string]int{}
	for _, k := range []string{"consumer.recv.err", "consumer.recv", "publishTopic.recv"} {
		before[k] = rec.Count(k)
	}
	time.Sleep(30 * time.Millisecond)
	for k, v := range before {
		if d := rec.Count(k) - v; d > 100 {
			res.Spin[k] = d
		}
	}
	rec.mu.Lock()
	rec.Sink = nil // a spinning goroutine must not fill the disk
	res.Events = len(rec.events)
	res.Counts = map[string]int{}
	for k, v := range rec.Counts {
		res.Counts[k] = v
	}
	rec.mu.Unlock()
	res.RecErrors = rec.Errors()
	res.Completed = len(res.Stuck) == 0
	bz, _ := json.MarshalIndent(res, "", " ")
	return os.WriteFile(filepath.Join(plan.Out, "result.json"), bz, 0o644)
}

func stress(plan *Plan, rig *Rig, rec *Rec, cls map[int]*cl, rng *rand.Rand) {
	stop := make(chan struct{})
	var wg sync.WaitGroup
	wg.Add(1)
	go func() { // the Comet event source
		defer wg.Done()
		for k := 0; k < plan.Events; k++ {
			select {
			case <-stop:
				return
			case <-time.After(time.Duration(rng.Intn(400)) * time.Microsecond):
			}
			t := 1 + rng.Intn(plan.Topics)
			rec.Note(SRC, "src_send", "", t)
			if !rig.Emit(t, 5*time.Second) {
				rec.mu.Lock()
				rec.fail("event source: consumeEvents did not take an event within 5s")
				rec.mu.Unlock()
				return
			}
		}
	}()
	limit := time.After(12 * time.Second) // (a run takes well under a second; stalled goroutines are reported by Run)
	for i := 1; i <= plan.Clients; i++ {
		select {
		case <-cls[i].done:
		case <-limit:
			limit = time.After(0)
		}
	}
	close(stop)
	wg.Wait()
}

// replay steps the real goroutines through a behaviour of the specification. The gates are the
// hooks that lie before an operation and outside the short bus locks (es.install <- / es.uninstall <-,
// consumeEvents' send, publishTopic after it saw its source closed); everything else runs on its own
// right after the step that enables it. The recorded trace - not this driver - is what TLC judges.
func replay(plan *Plan, rig *Rig, rec *Rec, cls map[int]*cl, res *Result) {
	const wait = 1200 * time.Millisecond
	var pendingSrc []int
	expect := map[gateKey]int{}
	diverge := func(i int, s Step, why string) {
		res.Diverged = append(res.Diverged, fmt.Sprintf("step %d (%d,%s): %s", i+1, s.P, s.L, why))
	}
	// every step of the schedule that has a hook must show up in the recording before the next one is taken
	observed := func(i int, s Step) bool {
		k := gateKey{s.P, s.L}
		if rec.WaitEvent(s.P, s.L, expect[k]+1, wait) {
			expect[k]++
			return true
		}
		diverge(i, s, "the real code did not take this step")
		return false
	}
	clientOf := func(p int) *cl { return cls[p-30] }
	failed := 0
	for i, s := range plan.Steps {
		if failed >= 6 { // the real code has left the schedule for good
			break
		}
		ok := true
		switch {
		case s.P == SRC && s.L == "src_send":
			if s.T > 0 {
				pendingSrc = append(pendingSrc, s.T)
			}
		case s.P == CE && s.L == "ce_lookup":
			if len(pendingSrc) == 0 {
				diverge(i, s, "no event pending")
				continue
			}
			t := pendingSrc[0]
			pendingSrc = pendingSrc[1:]
			rec.Note(SRC, "src_send", "", t)
			if !rig.Emit(t, wait) {
				diverge(i, s, "consumeEvents did not take the event")
				ok = false
			} else {
				ok = observed(i, s)
			}
		case s.P == CE && s.L == "ce_send":
			if rec.WaitParked(CE, "ce_send", wait) {
				expect[gateKey{CE, "ce_send"}]++
				rec.Release(CE)
			} else {
				diverge(i, s, "consumeEvents not at its send")
				ok = false
			}
		case s.P == EL && s.L == "el_wait":
			var p int
			var l string
			if strings.HasPrefix(s.To, "el_i") {
				p, l = CL((s.F-1)/plan.Rounds+1), "c_inst"
			} else {
				p, l = UN(s.F), "un_send"
			}
			if rec.WaitParked(p, l, wait) {
				rec.Release(p)
				ok = observed(i, s)
			} else {
				diverge(i, s, fmt.Sprintf("sender %d not at %s", p, l))
				ok = false
			}
		case s.P > 10 && s.P < 30 && (s.L == "pt_closeall" || s.L == "pt_chk"):
			if rec.WaitParked(s.P, "pt_loop", wait) {
				rec.Release(s.P)
				if s.L == "pt_closeall" || s.To != "pt_done" {
					ok = observed(i, s)
				}
			} else {
				diverge(i, s, "publishTopic goroutine has not seen its source closed")
				ok = false
			}
		case s.P > 30 && s.P < 40:
			c := clientOf(s.P)
			if c == nil {
				continue
			}
			cmd := ""
			switch s.L {
			case "c_begin": // the call itself starts at the first step inside it
			case "c_flock":
				cmd = fmt.Sprintf("c_begin=t%d", firstTopic(plan.Steps[i:], s.P))
			case "c_topics":
				if !plan.Api {
					cmd = fmt.Sprintf("c_begin=t%d", s.T)
				}
			case "c_recv":
				if s.To == "c_recv" {
					cmd = "c_recv=recv"
				} else {
					cmd = "c_recv=quit"
				}
			case "c_unsub":
				cmd = "c_unsub=unsub"
			case "c_cancel":
				cmd = "c_cancel=cancel"
			case "c_next":
				cmd = "c_next=next"
			case "c_use":
				switch s.To {
				case "g_lock":
					cmd = "c_use=poll"
				case "u_lock":
					cmd = "c_use=uninstall"
				default:
					cmd = "c_use=abandon"
				}
			}
			if cmd != "" {
				select {
				case c.cmds <- cmd:
				default:
				}
			}
			if s.L != "c_begin" || cmd != "" {
				ok = observed(i, s)
			}
			if s.L == "c_flock" || (s.L == "c_topics" && !plan.Api) {
				expect[gateKey{s.P, "c_begin"}]++
			}
		case s.L == "idle":
		default:
			// steps the real goroutines take on their own: wait until they are in the recording
			ok = observed(i, s)
		}
		if !ok {
			failed++
		}
	}
	// the schedule is over: let everything run to quiescence
	rec.ReleaseAll()
	for _, t := range pendingSrc {
		rec.Note(SRC, "src_send", "", t)
		rig.Emit(t, wait)
	}
	rec.Settle(10*time.Millisecond, 1500*time.Millisecond)
	for _, c := range cls {
		close(c.cmds)
	}
}

func firstTopic(steps []Step, p int) int {
	for _, s := range steps {
		if s.P == p && s.L == "c_topics" {
			return s.T
		}
	}
	return 1
}
