package conc

// IndexerPlan / RunIndexer: scenarios on the real server.EVMIndexerService (see indexer_run.go).
type IndexerPlan struct {
	Scenario string `json:"scenario"` // quit-rebroadcast | stress
	Headers  int    `json:"headers"`
	Seed     int64  `json:"seed"`
	Out      string `json:"out"`
}
