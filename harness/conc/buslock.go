package conc

import (
	"encoding/json"
	"fmt"
	"os"
	"path/filepath"
	"sync"
	"time"

	coretypes "github.com/cometbft/cometbft/rpc/core/types"

	"github.com/EscanBE/evermint/v12/rpc/ethereum/pubsub"
	"github.com/EscanBE/evermint/v12/utils/verifhook"
)

// BusLockPlan: the directed lock-order scenario on the real memEventBus (spec/BusLocks.tla decides the order;
// its counterexample for the witness deviation is the schedule: a goroutine sits inside one bus lock while
// the others call into the bus).
type BusLockPlan struct {
	HoldAt  string `json:"holdAt"` // hook "proc label" inside a bus critical section where the holder is parked
	HoldMs  int    `json:"holdMs"`
	Clients int    `json:"clients"`
	Out     string `json:"out"`
}

// BusLockResult is what the scenario observed.
type BusLockResult struct {
	HoldAt        string   `json:"holdAt"`
	HolderReached bool     `json:"holderReached"`
	Calls         int      `json:"calls"`
	Blocked       []string `json:"blocked"`   // calls that had not returned 5 s after the holder was released
	Delivered     bool     `json:"delivered"` // a publish on another topic reached its subscriber afterwards
}

func RunBusLock(p *BusLockPlan) error {
	bus := pubsub.NewEventBus()
	held := make(chan struct{})
	var once sync.Once
	hold := time.Duration(p.HoldMs) * time.Millisecond
	verifhook.AtFunc = func(proc, label string, _ ...interface{}) {
		if proc+" "+label != p.HoldAt {
			return
		}
		first := false
		once.Do(func() { first = true })
		if first {
			close(held)
			time.Sleep(hold) // the holder stays inside the critical section while the others call into the bus
		}
	}
	res := &BusLockResult{HoldAt: p.HoldAt}
	srcA := make(chan coretypes.ResultEvent)
	srcB := make(chan coretypes.ResultEvent)
	if err := bus.AddTopic("A", srcA); err != nil {
		return err
	}
	if err := bus.AddTopic("B", srcB); err != nil {
		return err
	}
	chB, _, err := bus.Subscribe("B")
	if err != nil {
		return err
	}
	if _, _, err := bus.Subscribe("A"); err != nil {
		return err
	}
	// uninstall of topic A as eventLoop does it: RemoveTopic, then close the source; publishTopic(A) then takes
	// topicsMux.Lock (closed.locked), subscribersMux.Lock (closeAll) ...
	bus.RemoveTopic("A")
	close(srcA)
	select {
	case <-held:
		res.HolderReached = true
	case <-time.After(3 * time.Second):
	}
	var mu sync.Mutex
	at := map[int]string{}
	set := func(i int, s string) { mu.Lock(); at[i] = s; mu.Unlock() }
	done := make(chan int, p.Clients)
	for i := 1; i <= p.Clients; i++ {
		go func(i int) {
			defer func() { done <- i }()
			topic := fmt.Sprintf("C%d", i)
			set(i, "Subscribe(A) [the topic being torn down]")
			_, unsubA, errA := bus.Subscribe("A")
			set(i, "Subscribe(B) [another topic]")
			_, unsubB, errB := bus.Subscribe("B")
			mu.Lock()
			res.Calls += 2
			mu.Unlock()
			if errA == nil {
				set(i, "unsubscribe(A)")
				unsubA()
			}
			if errB == nil {
				set(i, "unsubscribe(B)")
				unsubB()
			}
			set(i, "AddTopic("+topic+")")
			src := make(chan coretypes.ResultEvent)
			_ = bus.AddTopic(topic, src)
			set(i, "Topics()")
			_ = bus.Topics()
			set(i, "RemoveTopic("+topic+")")
			bus.RemoveTopic(topic)
			close(src)
			mu.Lock()
			res.Calls += 5
			mu.Unlock()
			set(i, "returned")
		}(i)
	}
	deadline := time.After(hold + 5*time.Second)
	left := p.Clients
wait:
	for left > 0 {
		select {
		case <-done:
			left--
		case <-deadline:
			break wait
		}
	}
	mu.Lock()
	for i := 1; i <= p.Clients; i++ {
		if at[i] != "returned" {
			res.Blocked = append(res.Blocked, fmt.Sprintf("goroutine %d in %s", i, at[i]))
		}
	}
	mu.Unlock()
	// the bus must still work: a publish on topic B reaches its subscriber
	stop := make(chan struct{})
	go func() {
		for {
			select {
			case srcB <- coretypes.ResultEvent{Query: "B"}:
				time.Sleep(20 * time.Millisecond) // (the bus drops a value when the subscriber is not parked yet: send again)
			case <-stop:
				return
			}
		}
	}()
	select {
	case <-chB:
		res.Delivered = true
	case <-time.After(5 * time.Second):
	}
	close(stop)
	if err := os.MkdirAll(p.Out, 0o755); err != nil {
		return err
	}
	bz, _ := json.MarshalIndent(res, "", " ")
	return os.WriteFile(filepath.Join(p.Out, "buslock.json"), bz, 0o644)
}
