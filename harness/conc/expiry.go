package conc

import (
	"strings"
	"sync"
	"time"

	"github.com/ethereum/go-ethereum/rpc"
)

// expiry steers the schedule "timeoutLoop finds several filters expired in one sweep; their owners poll them
// (GetFilterChanges) at that very moment":
//
//	every client creates one block filter and then stays idle, so that all deadline timers fire;
//	at timeoutLoop's `expire` hook (inside filtersMu) the owner of the expired filter is told to call
//	GetFilterChanges: it blocks on filtersMu;
//	at timeoutLoop's `unlock` hook the sweep is held for a few ms, so that the blocked pollers have waited
//	longer than sync.Mutex's starvation threshold (1 ms); if timeoutLoop takes filtersMu again right after
//	its sweep (it does not in the pinned code) that critical section is held for a moment too: the poller
//	woken by the sweep's Unlock then switches the mutex to starvation mode and from there on the mutex is
//	handed over in FIFO order, i.e. all pollers run before anything else timeoutLoop does.
//
// On code whose sweep removes the expired filters under the lock every poller finds its filter gone. A sweep
// that leaves expired filters (with drained timers) in the map lets a poller into `<-f.deadline.C`: it blocks
// for ever holding filtersMu.
type expiry struct {
	plan   *Plan
	rec    *Rec
	mu     sync.Mutex
	fire   map[int]chan struct{} // subscription number -> "your filter was found expired"
	told   int
	slowed bool
}

func newExpiry(plan *Plan, rec *Rec) *expiry {
	e := &expiry{plan: plan, rec: rec, fire: map[int]chan struct{}{}}
	for i := 1; i <= plan.Clients; i++ {
		e.fire[subOf(i, 1, plan.Rounds)] = make(chan struct{})
	}
	rec.Hook = func(proc, label string, p, sub int) {
		if proc == "api" && label == "uf.locked" && p == TL {
			// a sweep that removes the expired filters through UninstallFilter AFTER releasing the lock: hold its
			// first removal for a moment (inside filtersMu), so that the poller the sweep's Unlock woke finds the
			// mutex taken again after > 1 ms of waiting -> starvation mode -> the pollers run before the next removal
			e.mu.Lock()
			first := !e.slowed
			e.slowed = true
			e.mu.Unlock()
			if first {
				time.Sleep(5 * time.Millisecond)
			}
			return
		}
		if proc != "timeoutLoop" {
			return
		}
		switch label {
		case "expire":
			e.mu.Lock()
			if ch, ok := e.fire[sub]; ok {
				close(ch)
				delete(e.fire, sub)
				e.told++
			}
			e.mu.Unlock()
		case "unlock":
			e.mu.Lock()
			n := e.told
			e.told = 0
			e.mu.Unlock()
			if n > 0 {
				time.Sleep(6 * time.Millisecond) // the pollers are now parked on filtersMu for more than 1 ms
			}
		}
	}
	return e
}

func (e *expiry) client(c *cl) {
	defer close(c.done)
	sub := subOf(c.i, 1, c.plan.Rounds)
	e.mu.Lock()
	fire := e.fire[sub]
	e.mu.Unlock()
	c.rec.RegisterClient(c.i, sub, 1)
	c.rec.Note(0, "c_begin", "", 1)
	c.set("NewBlockFilter")
	id := c.rig.API.NewBlockFilter()
	if strings.HasPrefix(string(id), "error") {
		c.rec.Note(0, "c_next", "", 0)
		c.set("done")
		return
	}
	c.set("idle until the filter expires")
	select {
	case <-fire:
	case <-time.After(time.Duration(8*c.plan.DeadlineMs+300) * time.Millisecond): // (D25 may have removed the filter already)
		c.set("filter never expired")
		return
	}
	c.rec.Note(0, "c_use", "poll", 0)
	c.set("GetFilterChanges (filter " + string(id) + " just found expired)")
	_, _ = c.rig.API.GetFilterChanges(rpc.ID(id))
	c.rec.Note(0, "c_use", "abandon", 0)
	c.rec.Note(0, "c_next", "", 0)
	c.set("done")
}

func (e *expiry) wait(cls map[int]*cl) {
	// Run() waits for the clients (5 s each) and reports the ones that never came back
}
