package conc

import "fmt"

// RunIndexer is filled in by indexer_impl.go when present.
var runIndexer func(*IndexerPlan) error

func RunIndexer(p *IndexerPlan) error {
	if runIndexer == nil {
		return fmt.Errorf("indexer scenarios not built")
	}
	return runIndexer(p)
}
