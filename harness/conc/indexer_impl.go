package conc

import (
	"context"
	"encoding/json"
	"fmt"
	"os"
	"path/filepath"
	"sync"
	"time"

	abci "github.com/cometbft/cometbft/abci/types"
	cmtrpcclient "github.com/cometbft/cometbft/rpc/client"
	coretypes "github.com/cometbft/cometbft/rpc/core/types"
	cmttypes "github.com/cometbft/cometbft/types"
	"github.com/ethereum/go-ethereum/common"

	"github.com/EscanBE/evermint/v12/server"
	evertypes "github.com/EscanBE/evermint/v12/types"
	"github.com/EscanBE/evermint/v12/utils/verifhook"
)

// fakeComet implements the five methods of the CometBFT RPC client the indexer service uses.
type fakeComet struct {
	cmtrpcclient.Client // nil: any other method would panic (none is called)
	headers             chan coretypes.ResultEvent
}

func (f *fakeComet) Status(context.Context) (*coretypes.ResultStatus, error) {
	return &coretypes.ResultStatus{SyncInfo: coretypes.SyncInfo{LatestBlockHeight: 0, EarliestBlockHeight: 0}}, nil
}

func (f *fakeComet) Subscribe(context.Context, string, string, ...int) (<-chan coretypes.ResultEvent, error) {
	return f.headers, nil
}
func (f *fakeComet) Unsubscribe(context.Context, string, string) error { return nil }
func (f *fakeComet) Block(_ context.Context, h *int64) (*coretypes.ResultBlock, error) {
	return &coretypes.ResultBlock{Block: &cmttypes.Block{Header: cmttypes.Header{Height: *h}}}, nil
}

func (f *fakeComet) BlockResults(_ context.Context, h *int64) (*coretypes.ResultBlockResults, error) {
	return &coretypes.ResultBlockResults{Height: *h}, nil
}

type fakeIndexer struct {
	mu      sync.Mutex
	heights []int64
	ready   bool
}

func (f *fakeIndexer) LastIndexedBlock() (int64, error) { return -1, nil }
func (f *fakeIndexer) IndexBlock(b *cmttypes.Block, _ []*abci.ExecTxResult) error {
	f.mu.Lock()
	f.heights = append(f.heights, b.Height)
	f.mu.Unlock()
	return nil
}
func (f *fakeIndexer) Ready()        { f.mu.Lock(); f.ready = true; f.mu.Unlock() }
func (f *fakeIndexer) IsReady() bool { f.mu.Lock(); defer f.mu.Unlock(); return f.ready }
func (f *fakeIndexer) GetByTxHash(common.Hash) (*evertypes.TxResult, error) {
	return nil, nil
}
func (f *fakeIndexer) GetByBlockAndIndex(int64, int32) (*evertypes.TxResult, error) {
	return nil, nil
}
func (f *fakeIndexer) GetLastRequestIndexedBlock() (int64, error) { return -1, nil }
func (f *fakeIndexer) seen() []int64 {
	f.mu.Lock()
	defer f.mu.Unlock()
	return append([]int64(nil), f.heights...)
}

func hdrEvent(h int64) coretypes.ResultEvent {
	return coretypes.ResultEvent{Data: cmttypes.EventDataNewBlockHeader{Header: cmttypes.Header{Height: h}}}
}

// IndexerResult is what an indexer scenario reports.
type IndexerResult struct {
	Scenario   string   `json:"scenario"`
	Returned   bool     `json:"returned"` // OnStart returned after Stop()
	Indexed    []int64  `json:"indexed"`
	InOrder    bool     `json:"inOrder"`
	Reached    []string `json:"reached"` // gates the scenario reached, in order
	HooksFired int      `json:"hooksFired"`
	Note       string   `json:"note"`
}

func init() { runIndexer = runIndexerImpl }

func runIndexerImpl(p *IndexerPlan) error {
	rec := NewRec()
	if p.Scenario == "quit-rebroadcast" {
		rec.Gated = func(ev Event) bool {
			return ev.L == "im.index" || ev.L == "ih.quit" || ev.L == "im.quit"
		}
	}
	verifhook.AtFunc = rec.At
	comet := &fakeComet{headers: make(chan coretypes.ResultEvent, 1024)}
	idx := &fakeIndexer{}
	svc := server.NewEVMIndexerService(idx, comet)
	returned := make(chan error, 1)
	go func() { returned <- svc.Start() }()
	res := &IndexerResult{Scenario: p.Scenario}
	const wait = 3 * time.Second
	switch p.Scenario {
	case "quit-rebroadcast":
		// TLC's schedule (FilterSystem.tla, WithIndexer, Known = {D27}): the index loop is busy while Stop()
		// closes Quit; the header loop takes its Quit case and re-broadcasts into the 1-slot channel;
		// the index loop comes back to its first select, takes its Quit case too and sends again.
		comet.headers <- hdrEvent(2)
		if !rec.WaitParked(IM, "im.index", wait) {
			res.Note = "index loop never started indexing"
			break
		}
		res.Reached = append(res.Reached, "im.index")
		go func() { _ = svc.Stop() }()
		if !rec.WaitParked(IH, "ih.quit", wait) {
			res.Note = "header loop did not take its quit case"
			break
		}
		res.Reached = append(res.Reached, "ih.quit")
		for k := 0; k < 8 && rec.Parked(IM) != nil && rec.Parked(IM).L == "im.index"; k++ {
			rec.Release(IM)
			rec.Settle(2*time.Millisecond, 100*time.Millisecond)
			rec.WaitParked(IM, "", 200*time.Millisecond)
		}
		if !rec.WaitParked(IM, "im.quit", wait) {
			res.Note = "index loop did not take its quit case (it left through another branch)"
			rec.ReleaseAll()
			break
		}
		res.Reached = append(res.Reached, "im.quit")
		rec.Release(IH) // header loop: quitSignalReBroadcast <- struct{}{}; done
		rec.Settle(2*time.Millisecond, 100*time.Millisecond)
		rec.Release(IM) // index loop: the same send on the now full channel
		rec.ReleaseAll()
	case "stress":
		n := p.Headers
		for h := int64(1); h <= int64(n); h++ {
			comet.headers <- hdrEvent(h)
			if h%7 == 0 {
				time.Sleep(time.Duration(h%5) * 100 * time.Microsecond)
			}
		}
		deadline := time.Now().Add(20 * time.Second)
		for time.Now().Before(deadline) {
			if s := idx.seen(); len(s) >= n {
				break
			}
			time.Sleep(5 * time.Millisecond)
		}
		go func() { _ = svc.Stop() }()
	default:
		return fmt.Errorf("unknown scenario %s", p.Scenario)
	}
	select {
	case <-returned:
		res.Returned = true
	case <-time.After(3 * time.Second):
		res.Returned = false
	}
	res.Indexed = idx.seen()
	res.InOrder = true
	// (with an empty index the service starts at the latest height it knows when OnStart reads it: heights that
	// arrived before that moment are legitimately not indexed; from there on every height once, in order)
	for i, h := range res.Indexed {
		if h != res.Indexed[0]+int64(i) {
			res.InOrder = false
		}
	}
	rec.mu.Lock()
	for _, v := range rec.Counts {
		res.HooksFired += v
	}
	rec.mu.Unlock()
	if err := os.MkdirAll(p.Out, 0o755); err != nil {
		return err
	}
	bz, _ := json.MarshalIndent(res, "", " ")
	return os.WriteFile(filepath.Join(p.Out, "indexer.json"), bz, 0o644)
}
