package conc

// Binding of spec/WsConn.tla to the REAL websocket server of rpc/websockets.go.
//
// One child process = one "node": the real rpc.NewWebsocketsServer over the loopback CometBFT websocket
// endpoint of rig.go (real started WSClient, events injected into ResponsesCh), a fake JSON-RPC rest-server
// (net/http) that answers with large deterministic results, and real gorilla/websocket clients that
// subscribe, send requests, stall / read slowly while an answer is in flight, unsubscribe and close at
// any time, while the harness injects new-block / tx events. Nothing of the server is replaced.
//
// Outcome: exit status + stderr of the child (a Go panic of the server kills it), panics the server's
// net/http recovered, what every client saw (every frame must be one well-formed JSON-RPC message, every
// request answered with exactly its answer, notifications of a subscription in order), and the server's
// goroutines left over after all clients went away (bounded wait). When the tree has the `ws` hooks
// (notes/ws-hooks.diff) every hook call is recorded too: bin/checks_conc.py turns the recording into
// per-connection traces that TLC judges line by line against spec/TraceWsConn.tla.

import (
	"bytes"
	"encoding/binary"
	"encoding/json"
	"fmt"
	"io"
	stdlog "log"
	"math/big"
	"math/rand"
	"net"
	"net/http"
	"os"
	"path/filepath"
	"reflect"
	"regexp"
	"runtime"
	"strings"
	"sync"
	"sync/atomic"
	"time"

	"cosmossdk.io/log"
	abci "github.com/cometbft/cometbft/abci/types"
	tmjson "github.com/cometbft/cometbft/libs/json"
	cmtquery "github.com/cometbft/cometbft/libs/pubsub/query"
	coretypes "github.com/cometbft/cometbft/rpc/core/types"
	cmtjrpcclient "github.com/cometbft/cometbft/rpc/jsonrpc/client"
	cmtjrpctypes "github.com/cometbft/cometbft/rpc/jsonrpc/types"
	cmttypes "github.com/cometbft/cometbft/types"
	"github.com/cosmos/cosmos-sdk/client"
	codectypes "github.com/cosmos/cosmos-sdk/codec/types"
	sdk "github.com/cosmos/cosmos-sdk/types"
	"github.com/cosmos/gogoproto/proto"
	"github.com/ethereum/go-ethereum/common"
	ethtypes "github.com/ethereum/go-ethereum/core/types"
	ethrpc "github.com/ethereum/go-ethereum/rpc"
	"github.com/gorilla/websocket"

	"github.com/EscanBE/evermint/v12/app/params"
	evmrpc "github.com/EscanBE/evermint/v12/rpc"
	"github.com/EscanBE/evermint/v12/server/config"
	"github.com/EscanBE/evermint/v12/utils/verifhook"
	evmtypes "github.com/EscanBE/evermint/v12/x/evm/types"
)

// WsPlan is one run of the websocket scenario (one child process).
type WsPlan struct {
	Seed    int64  `json:"seed"`
	Mode    string `json:"mode"`    // "directed": every round is the steered overlap | "free": seeded random clients | "calm": small requests one after the other, few events (no overlap sought: for the trace judge)
	Order   string `json:"order"`   // directed: "reader-first" (answer in flight, then an event) | "sub-first" (notification in flight, then a request)
	Conns   int    `json:"conns"`   // concurrent connections
	Rounds  int    `json:"rounds"`  // operations per connection
	RespKiB int    `json:"respKiB"` // size of a large answer of the fake rest-server
	StallMs int    `json:"stallMs"` // how long a client stops reading while an answer is in flight
	SockBuf int    `json:"sockBuf"` // SO_SNDBUF of accepted / SO_RCVBUF of dialled sockets (0: system default)
	// SelfTest "wrong-answer": the fake rest-server answers the second large request with another request's result
	// (binding self-test: the clients must report it)
	SelfTest string `json:"selfTest"`
	Out      string `json:"out"`
	// mode "logs" (wslogs.go): log subscriptions / log filters with user-chosen criteria against injected logs
	Filters []LogCrit  `json:"filters"`
	Vectors [][]LogVec `json:"vectors"` // one injected EVM tx event per vector: the logs of its receipt
	Passes  int        `json:"passes"`
}

// WsConnResult is what one client saw.
type WsConnResult struct {
	Conn        int            `json:"conn"`
	Script      []string       `json:"script"`
	Requests    int            `json:"requests"`    // requests sent that must be answered
	Responses   int            `json:"responses"`   // answers received, each exactly the expected one
	ReaderMsgs  int            `json:"readerMsgs"`  // complete non-notification messages received (answers, acks, error answers)
	Notifs      []int          `json:"notifs"`      // complete notifications received per subscription (in order of subscribing)
	Kinds       []string       `json:"kinds"`       // kind of each subscription
	Early       int            `json:"early"`       // notifications received before the answer carrying their subscription id
	Overlaps    int            `json:"overlaps"`    // stalls in the middle of an answer during which events were injected
	Corrupt     []string       `json:"corrupt"`     // frames that are not the well-formed message they must be
	Missing     []string       `json:"missing"`     // requests never answered within the bounded wait although the connection was open
	Silent      []string       `json:"silent"`      // subscriptions that never got a notification although events kept coming
	Closed      string         `json:"closed"`      // how the client ended the connection
	Classes     map[string]int `json:"classes"`     // operations performed
	HarnessErrs []string       `json:"harnessErrs"` // problems of the harness itself (dial failure ...): infrastructure
}

// WsResult is the outcome of a run that did not die.
type WsResult struct {
	Hooks     bool           `json:"hooks"`     // the tree has the ws hooks (a recording exists)
	HookLines int64          `json:"hookLines"` // recorded hook calls
	Conns     []WsConnResult `json:"conns"`
	Recovered []string       `json:"recovered"` // panics of the server's handler goroutine (readLoop) that net/http recovered
	Leftover  []string       `json:"leftover"`  // server goroutines not at rest 3 s after the last client went away
	Parked    int            `json:"parked"`    // notifier goroutines parked for ever in their select (leak; evidence only)
	MuxWaits  int            `json:"muxWaits"`  // samples (every 4 ms) in which one writer waited for wsConn.mux while the other sat in its network write
	Events    map[string]int `json:"events"`    // events injected per kind
	WallMs    int64          `json:"wallMs"`
}

// ------------------------------------------------------------------------------------------------ recorder of the ws hooks

type wsRec struct {
	mu     sync.Mutex
	n      int64
	conns  map[uintptr]int
	subs   map[string]int // "conn/subid" -> number within the connection
	nsubs  map[int]int
	opens  int
	sink   *os.File
	closed bool
}

func newWsRec(path string) (*wsRec, error) {
	f, err := os.Create(path)
	if err != nil {
		return nil, err
	}
	return &wsRec{conns: map[uintptr]int{}, subs: map[string]int{}, nsubs: map[int]int{}, sink: f}, nil
}

func ptrOf(v interface{}) uintptr {
	rv := reflect.ValueOf(v)
	if rv.Kind() == reflect.Ptr && !rv.IsNil() {
		return rv.Pointer()
	}
	return 0
}

// at is installed as verifhook.AtFunc: hooks of proc "ws" are recorded with a global sequence number taken under
// the recorder's mutex and written at once (a panic must not lose the lines); other hooks are ignored here.
// args[0] is always the *wsConn.
func (r *wsRec) at(proc, label string, args ...interface{}) {
	if proc != "ws" || len(args) == 0 {
		return
	}
	g := goid()
	r.mu.Lock()
	defer r.mu.Unlock()
	p := ptrOf(args[0])
	c, ok := r.conns[p]
	if label == "open" || !ok {
		r.opens++
		c = r.opens
		r.conns[p] = c
	}
	s, okFlag := 0, true
	for _, a := range args[1:] {
		switch x := a.(type) {
		case ethrpc.ID:
			k := fmt.Sprintf("%d/%s", c, string(x))
			if label == "start" {
				r.nsubs[c]++
				r.subs[k] = r.nsubs[c]
			}
			s = r.subs[k]
		case bool:
			okFlag = x
		}
	}
	r.line(map[string]interface{}{"g": g, "c": c, "h": label, "s": s, "ok": okFlag})
}

// note records a harness-side step (client closes, totals of a connection).
func (r *wsRec) note(c int, label string, extra map[string]interface{}) {
	r.mu.Lock()
	defer r.mu.Unlock()
	m := map[string]interface{}{"g": 0, "c": c, "h": label, "s": 0, "ok": true}
	for k, v := range extra {
		m[k] = v
	}
	r.line(m)
}

func (r *wsRec) line(m map[string]interface{}) {
	if r.closed {
		return
	}
	r.n++
	m["n"] = r.n
	if bz, err := json.Marshal(m); err == nil {
		_, _ = r.sink.Write(append(bz, '\n'))
	}
}

func (r *wsRec) hookLines() (int64, int) {
	r.mu.Lock()
	defer r.mu.Unlock()
	return r.n, r.opens
}

// ------------------------------------------------------------------------------------------------ the node

type wsNode struct {
	rig       *Rig
	rec       *wsRec
	wsAddr    string
	restSrv   *http.Server
	wsSrv     *http.Server
	recovered lockedBuf
	txCfg     client.TxConfig
	logsQuery string
	// event source
	seq      uint64
	pendIdx  sync.Map // tx hash -> emission number
	accepted sync.Map // client address -> *watchedConn
	boost    int32
	injected [3]int64
	muxWaits int64
	gap      time.Duration
	blobs    int64
	selfTest string
	stop     chan struct{}
	done     chan struct{}
}

type lockedBuf struct {
	mu sync.Mutex
	b  bytes.Buffer
}

func (l *lockedBuf) Write(p []byte) (int, error) {
	l.mu.Lock()
	defer l.mu.Unlock()
	return l.b.Write(p)
}

func (l *lockedBuf) String() string {
	l.mu.Lock()
	defer l.mu.Unlock()
	return l.b.String()
}

// bufListener sets the send buffer of every accepted connection (environment: a client behind a thin pipe) and wraps
// it so that the harness sees, from outside the server, since when a network write on it has not returned.
type bufListener struct {
	net.Listener
	snd  int
	node *wsNode
}

func (b bufListener) Accept() (net.Conn, error) {
	c, err := b.Listener.Accept()
	if err != nil {
		return c, err
	}
	if tc, ok := c.(*net.TCPConn); ok && b.snd > 0 {
		_ = tc.SetWriteBuffer(b.snd)
	}
	w := &watchedConn{Conn: c}
	b.node.accepted.Store(c.RemoteAddr().String(), w)
	return w, nil
}

type watchedConn struct {
	net.Conn
	since int64 // unix nanoseconds at which the Write in progress was entered (0: none)
}

func (w *watchedConn) Write(p []byte) (int, error) {
	atomic.StoreInt64(&w.since, time.Now().UnixNano())
	n, err := w.Conn.Write(p)
	atomic.StoreInt64(&w.since, 0)
	return n, err
}

// writeBlockedFor: how long the network write in progress on the server's side of the connection of client address
// addr has been blocked (0: no write in progress).
func (n *wsNode) writeBlockedFor(addr string) time.Duration {
	v, ok := n.accepted.Load(addr)
	if !ok {
		return 0
	}
	t := atomic.LoadInt64(&v.(*watchedConn).since)
	if t == 0 {
		return 0
	}
	return time.Duration(time.Now().UnixNano() - t)
}

// blob is the deterministic large result of request id: "0x" + the id's 8 hex digits repeated.
func blob(id int64, kib int) string {
	return "0x" + strings.Repeat(fmt.Sprintf("%08x", uint32(id)), kib*128)
}

func (n *wsNode) restAnswer(req map[string]interface{}) map[string]interface{} {
	res := map[string]interface{}{"jsonrpc": "2.0", "id": req["id"]}
	method, _ := req["method"].(string)
	switch method {
	case "verif_blob":
		kib := 1
		if ps, ok := req["params"].([]interface{}); ok && len(ps) > 0 {
			if f, ok := ps[0].(float64); ok {
				kib = int(f)
			}
		}
		id, _ := req["id"].(float64)
		if atomic.AddInt64(&n.blobs, 1) == 2 && n.selfTest == "wrong-answer" {
			id++
		}
		res["result"] = blob(int64(id), kib)
	default:
		res["result"] = "ok:" + method
	}
	return res
}

func startWsNode(p *WsPlan, rec *wsRec) (*wsNode, error) {
	n := &wsNode{rec: rec, selfTest: p.SelfTest, stop: make(chan struct{}), done: make(chan struct{})}
	if p.Mode == "calm" {
		n.gap = 4 * time.Millisecond
	}
	// loopback CometBFT websocket endpoint + real started WSClient (rig.go), WITHOUT an EventSystem of the harness:
	// the websocket server creates its own and must be the only consumer of ResponsesCh
	ws, srv, err := startLoopbackComet()
	if err != nil {
		return nil, err
	}
	n.rig = &Rig{WS: ws, srv: srv}
	enc := params.MakeEncodingConfig()
	evmtypes.RegisterInterfaces(enc.InterfaceRegistry)
	n.txCfg = enc.TxConfig
	n.logsQuery = cmtquery.MustCompile(fmt.Sprintf("%s='%s' AND %s.%s='%s'", cmttypes.EventTypeKey, cmttypes.EventTx,
		sdk.EventTypeMessage, sdk.AttributeKeyModule, evmtypes.ModuleName)).String()
	// fake rest-server
	rl, err := net.Listen("tcp", "127.0.0.1:0")
	if err != nil {
		return nil, err
	}
	n.restSrv = &http.Server{Handler: http.HandlerFunc(func(w http.ResponseWriter, rq *http.Request) {
		body, _ := io.ReadAll(rq.Body)
		w.Header().Set("Content-Type", "application/json")
		if isJSONArray(body) {
			var reqs []map[string]interface{}
			if err := json.Unmarshal(body, &reqs); err != nil {
				http.Error(w, "bad batch", 400)
				return
			}
			out := make([]interface{}, 0, len(reqs))
			for _, r := range reqs {
				out = append(out, n.restAnswer(r))
			}
			_ = json.NewEncoder(w).Encode(out)
			return
		}
		var req map[string]interface{}
		if err := json.Unmarshal(body, &req); err != nil {
			http.Error(w, "bad request", 400)
			return
		}
		_ = json.NewEncoder(w).Encode(n.restAnswer(req))
	})}
	go func() { _ = n.restSrv.Serve(rl) }()
	_, restPort, _ := net.SplitHostPort(rl.Addr().String())
	// the real websocket server; it is served on a listener of the harness (port 0, send buffer) through its
	// exported ServeHTTP - Start() would only wrap the same handler into http.ListenAndServe on a fixed address
	wl, err := net.Listen("tcp", "127.0.0.1:0")
	if err != nil {
		return nil, err
	}
	n.wsAddr = wl.Addr().String()
	cfg := config.DefaultConfig()
	cfg.JSONRPC.Address = "127.0.0.1:" + restPort
	cfg.JSONRPC.WsAddress = n.wsAddr
	cfg.TLS.CertificatePath, cfg.TLS.KeyPath = "", ""
	clientCtx := client.Context{}.WithTxConfig(enc.TxConfig).WithInterfaceRegistry(enc.InterfaceRegistry).WithCodec(enc.Codec)
	server := evmrpc.NewWebsocketsServer(clientCtx, log.NewNopLogger(), ws, cfg)
	h, ok := server.(http.Handler)
	if !ok {
		return nil, fmt.Errorf("the websocket server is not an http.Handler any more (%T): adapt the harness", server)
	}
	n.wsSrv = &http.Server{Handler: h, ErrorLog: stdlog.New(&n.recovered, "", 0)}
	go func() { _ = n.wsSrv.Serve(bufListener{wl, p.SockBuf, n}) }()
	if p.Mode == "logs" { // the events of this mode are injected in lock-step by the scenario itself
		close(n.done)
	} else {
		go n.source(p.Seed)
	}
	go n.sampler()
	return n, nil
}

// sampler counts how often the window the specification is about was open on the real server: a notifier goroutine
// waiting for wsConn.mux while the read loop sits in the network write of an answer, or the read loop waiting while a
// notifier sits in its write (vacuity evidence).
func (n *wsNode) sampler() {
	for {
		select {
		case <-n.stop:
			return
		case <-time.After(4 * time.Millisecond):
		}
		var inWrite, onMux [2]bool // [read loop, notifier]
		for _, g := range serverGoroutines() {
			if !strings.Contains(g.where, "wsConn).WriteJSON") {
				continue
			}
			k := 0
			if g.role == "notifier" {
				k = 1
			}
			if g.state == "IO wait" {
				inWrite[k] = true
			} else if strings.HasPrefix(g.state, "sync.Mutex") || g.state == "semacquire" {
				onMux[k] = true
			}
		}
		if (inWrite[0] && onMux[1]) || (inWrite[1] && onMux[0]) {
			atomic.AddInt64(&n.muxWaits, 1)
		}
	}
}

func isJSONArray(b []byte) bool {
	t := bytes.TrimLeft(b, " \t\r\n")
	return len(t) > 0 && t[0] == '['
}

func startLoopbackComet() (*cmtjrpcclient.WSClient, *http.Server, error) {
	ln, err := net.Listen("tcp", "127.0.0.1:0")
	if err != nil {
		return nil, nil, err
	}
	up := websocket.Upgrader{CheckOrigin: func(*http.Request) bool { return true }}
	mux := http.NewServeMux()
	mux.HandleFunc("/websocket", func(w http.ResponseWriter, rq *http.Request) {
		c, err := up.Upgrade(w, rq, nil)
		if err != nil {
			return
		}
		defer c.Close()
		for { // swallow subscribe / unsubscribe requests, answer nothing
			if _, _, err := c.ReadMessage(); err != nil {
				return
			}
		}
	})
	srv := &http.Server{Handler: mux}
	go func() { _ = srv.Serve(ln) }()
	ws, err := cmtjrpcclient.NewWS("tcp://"+ln.Addr().String(), "/websocket")
	if err != nil {
		return nil, nil, err
	}
	if err := ws.Start(); err != nil {
		return nil, nil, err
	}
	return ws, srv, nil
}

// source plays CometBFT: new-block-header events, tx events carrying logs (topic of the logs subscriptions) and raw
// transactions (topic of the pending-transaction subscriptions), about one per millisecond, faster while a client
// asks for a flood. Every event carries its emission number so that the clients can check the order.
func (n *wsNode) source(seed int64) {
	defer close(n.done)
	rng := rand.New(rand.NewSource(seed ^ 0x5eed))
	to := common.HexToAddress("0x00000000000000000000000000000000000000aa")
	for {
		select {
		case <-n.stop:
			return
		default:
		}
		n.seq++
		k := n.seq % 4
		var ev coretypes.ResultEvent
		switch {
		case k == 1: // logs
			data := make([]byte, 8)
			binary.BigEndian.PutUint64(data, n.seq)
			rcpt := &ethtypes.Receipt{Status: 1, CumulativeGasUsed: 21000, Logs: []*ethtypes.Log{{Address: to, Topics: []common.Hash{common.BigToHash(big.NewInt(7))}, Data: data}}}
			rbz, err := rcpt.MarshalBinary()
			if err != nil {
				panic(err)
			}
			resp, err := proto.Marshal(&evmtypes.MsgEthereumTxResponse{MarshalledReceipt: rbz})
			if err != nil {
				panic(err)
			}
			tmd, err := proto.Marshal(&sdk.TxMsgData{MsgResponses: []*codectypes.Any{{TypeUrl: "/" + proto.MessageName(&evmtypes.MsgEthereumTxResponse{}), Value: resp}}})
			if err != nil {
				panic(err)
			}
			ev = coretypes.ResultEvent{Query: n.logsQuery, Data: cmttypes.EventDataTx{TxResult: abci.TxResult{Height: int64(n.seq), Result: abci.ExecTxResult{Data: tmd}}}}
			atomic.AddInt64(&n.injected[1], 1)
		case k == 3: // pending transaction
			tx := ethtypes.NewTx(&ethtypes.LegacyTx{Nonce: n.seq, Gas: 21000, GasPrice: big.NewInt(1), To: &to, Value: big.NewInt(0)})
			bz, err := tx.MarshalBinary()
			if err != nil {
				panic(err)
			}
			msg := &evmtypes.MsgEthereumTx{MarshalledTx: bz, From: sdk.AccAddress(to.Bytes()).String()}
			stx, err := msg.BuildTx(n.txCfg.NewTxBuilder(), "wei")
			if err != nil {
				panic(err)
			}
			txbz, err := n.txCfg.TxEncoder()(stx)
			if err != nil {
				panic(err)
			}
			n.pendIdx.Store(strings.ToLower(tx.Hash().Hex()), n.seq)
			ev = coretypes.ResultEvent{Query: TxQuery, Data: cmttypes.EventDataTx{TxResult: abci.TxResult{Height: int64(n.seq), Tx: txbz}}}
			atomic.AddInt64(&n.injected[2], 1)
		default: // new block header
			ev = coretypes.ResultEvent{Query: HeaderQuery, Data: cmttypes.EventDataNewBlockHeader{Header: cmttypes.Header{Height: int64(n.seq)}}}
			atomic.AddInt64(&n.injected[0], 1)
		}
		bz, err := tmjson.Marshal(ev)
		if err != nil {
			panic(err)
		}
		select {
		case n.rig.WS.ResponsesCh <- cmtjrpctypes.RPCResponse{JSONRPC: "2.0", Result: bz}:
		case <-time.After(3 * time.Second):
		case <-n.stop:
			return
		}
		if atomic.LoadInt32(&n.boost) > 0 {
			runtime.Gosched()
		} else {
			time.Sleep(n.gap + time.Duration(300+rng.Intn(1200))*time.Microsecond)
		}
	}
}

// ------------------------------------------------------------------------------------------------ goroutines of the server

var gorHdr = regexp.MustCompile(`^goroutine (\d+) \[([^\],]+)`)

type srvGor struct {
	id    string
	state string
	role  string // readLoop | notifier
	where string // innermost function of rpc/websockets.go on the stack
	top   string // innermost function
}

func serverGoroutines() []srvGor {
	buf := make([]byte, 1<<20)
	for {
		k := runtime.Stack(buf, true)
		if k < len(buf) {
			buf = buf[:k]
			break
		}
		buf = make([]byte, 2*len(buf))
	}
	var out []srvGor
	for _, blk := range strings.Split(string(buf), "\n\n") {
		lines := strings.Split(blk, "\n")
		m := gorHdr.FindStringSubmatch(lines[0])
		if m == nil {
			continue
		}
		g := srvGor{id: m[1], state: m[2]}
		for _, ln := range lines[1:] {
			if strings.HasPrefix(ln, "\t") || strings.HasPrefix(ln, "created by") {
				continue
			}
			fn := ln
			if i := strings.LastIndex(fn, "("); i > 0 {
				fn = fn[:i]
			}
			if g.top == "" {
				g.top = fn
			}
			if strings.Contains(fn, "evermint/v12/rpc.") {
				short := fn[strings.Index(fn, "evermint/v12/rpc.")+len("evermint/v12/rpc."):]
				if g.where == "" {
					g.where = short
				}
				if strings.Contains(short, "readLoop") {
					g.role = "readLoop"
				} else if strings.Contains(short, "pubSubAPI).subscribe") && g.role == "" {
					g.role = "notifier"
				}
			} else if strings.Contains(fn, "filters.(*PublicFilterAPI).NewFilter.func") && g.role == "" {
				g.role = "filter-consumer"
				g.where = fn[strings.Index(fn, "filters.(*PublicFilterAPI)"):]
			}
		}
		if g.role != "" {
			out = append(out, g)
		}
	}
	return out
}

func atRest(g srvGor) bool {
	return g.role == "notifier" && (g.state == "select" || g.state == "chan receive") && strings.Contains(g.where, "pubSubAPI).subscribe")
}

// ------------------------------------------------------------------------------------------------ clients

type wsSub struct {
	kind   string
	id     string
	n      int    // notifications received
	last   uint64 // emission number of the last one
	active bool
	got    []uint64 // mode "logs": the emission numbers received, in order
}

// wsClient: a pump goroutine reads the socket (and is the one that stalls / reads slowly / pauses), the script
// goroutine sends and checks what the pump hands over.
type wsClient struct {
	node    *wsNode
	plan    *WsPlan
	res     *WsConnResult
	rng     *rand.Rand
	conn    *websocket.Conn
	in      chan []byte // complete messages; closed when the pump ends
	nextID  int64
	want    map[int64]string // request id -> expected answer ("blob:<kib>" | "small:<method>" | "sub:<kind>" | "unsub")
	wantErr int              // error answers (id null) still expected
	subs    []*wsSub
	pending [][]byte // notifications of subscriptions whose id is not known yet
	dead    bool
	collect bool        // mode "logs": keep what every subscription received
	seen    chan uint64 // mode "logs", sentinel connection: emission numbers as they arrive
	// orders to the pump
	stallNs   int64 // stop reading for that long after the first bytes of the next answer
	slow      int32 // read the rest of a stalled answer in small pieces
	paused    int32 // do not read at all
	pausedAck int32 // the pump saw the order and reads nothing until it is lifted
	stopAtAns int32 // end the pump at the first bytes of the next answer (the script then closes in the middle of it)
	overlaps  int32
	frameErr  atomic.Value // string: frame-level error that is not a plain connection loss
	atAnswer  chan struct{}
}

func plainLoss(err error) bool {
	if err == nil {
		return true
	}
	if websocket.IsCloseError(err, 1000, 1001, 1005, 1006) {
		return true
	}
	s := err.Error()
	for _, k := range []string{"EOF", "closed", "reset", "broken pipe"} {
		if strings.Contains(s, k) {
			return true
		}
	}
	return false
}

func (c *wsClient) pump() {
	defer close(c.in)
	for {
		for atomic.LoadInt32(&c.paused) > 0 {
			atomic.StoreInt32(&c.pausedAck, 1)
			time.Sleep(500 * time.Microsecond)
		}
		atomic.StoreInt32(&c.pausedAck, 0)
		_, r, err := c.conn.NextReader()
		if err != nil {
			if !plainLoss(err) {
				c.frameErr.Store("frame level: " + err.Error())
			}
			return
		}
		first := make([]byte, 96)
		k, err := io.ReadFull(r, first)
		first = first[:k]
		if err == io.EOF || err == io.ErrUnexpectedEOF {
			c.in <- first
			continue
		}
		if err != nil {
			if !plainLoss(err) {
				c.frameErr.Store("frame level (inside a message): " + err.Error())
			}
			return
		}
		isAnswer := !bytes.Contains(first, []byte(`"method"`))
		slow := false
		if isAnswer {
			if atomic.LoadInt32(&c.stopAtAns) > 0 {
				close(c.atAnswer)
				return
			}
			if d := atomic.SwapInt64(&c.stallNs, 0); d > 0 {
				atomic.AddInt32(&c.overlaps, 1)
				time.Sleep(time.Duration(d)) // the answer is in flight: the server sits inside its write
				slow = atomic.LoadInt32(&c.slow) > 0
			}
		}
		var bb bytes.Buffer
		bb.Write(first)
		if slow {
			chunk := make([]byte, 16<<10)
			for i := 0; ; i++ {
				m, e := r.Read(chunk)
				bb.Write(chunk[:m])
				if e != nil {
					if e != io.EOF {
						err = e
					}
					break
				}
				if i%8 == 0 {
					time.Sleep(200 * time.Microsecond)
				}
			}
		} else {
			_, err = io.Copy(&bb, r)
		}
		if err != nil {
			if !plainLoss(err) {
				c.frameErr.Store("frame level (inside a message): " + err.Error())
			}
			return
		}
		c.in <- bb.Bytes()
	}
}

func (c *wsClient) corrupt(format string, a ...interface{}) {
	if len(c.res.Corrupt) < 8 {
		s := fmt.Sprintf(format, a...)
		if len(s) > 300 {
			s = s[:300] + "..."
		}
		c.res.Corrupt = append(c.res.Corrupt, s)
	}
}

func (c *wsClient) send(v interface{}) bool {
	bz, _ := json.Marshal(v)
	return c.sendRaw(bz)
}

func (c *wsClient) sendRaw(bz []byte) bool {
	if c.dead {
		return false
	}
	_ = c.conn.SetWriteDeadline(time.Now().Add(10 * time.Second))
	if err := c.conn.WriteMessage(websocket.TextMessage, bz); err != nil {
		c.dead = true
		return false
	}
	return true
}

// next hands over the next complete message, nil after d or when the connection is gone.
func (c *wsClient) next(d time.Duration) []byte {
	t := time.NewTimer(d)
	defer t.Stop()
	select {
	case m, ok := <-c.in:
		if !ok {
			c.dead = true
			return nil
		}
		return m
	case <-t.C:
		return nil
	}
}

// handle checks one complete message against what this client may receive.
func (c *wsClient) handle(msg []byte) {
	if isJSONArray(msg) {
		var arr []json.RawMessage
		if err := json.Unmarshal(msg, &arr); err != nil {
			c.corrupt("batch answer is not JSON: %v: %s", err, head(msg))
			return
		}
		c.res.ReaderMsgs++
		for _, a := range arr {
			c.handleOne(a, true)
		}
		return
	}
	c.handleOne(msg, false)
}

func head(b []byte) string {
	if len(b) > 120 {
		return string(b[:120]) + fmt.Sprintf("...(%d bytes)", len(b))
	}
	return string(b)
}

type wsNotif struct {
	Subscription string          `json:"subscription"`
	Result       json.RawMessage `json:"result"`
}

func (c *wsClient) handleOne(msg []byte, inBatch bool) {
	var m struct {
		Jsonrpc string           `json:"jsonrpc"`
		ID      *json.RawMessage `json:"id"`
		Method  string           `json:"method"`
		Result  json.RawMessage  `json:"result"`
		Error   json.RawMessage  `json:"error"`
		Params  *wsNotif         `json:"params"`
	}
	dec := json.NewDecoder(bytes.NewReader(msg))
	if err := dec.Decode(&m); err != nil {
		c.corrupt("frame is not a JSON-RPC message: %v: %s", err, head(msg))
		return
	}
	if dec.More() {
		c.corrupt("frame holds more than one JSON value: %s", head(msg))
		return
	}
	if m.Method == "eth_subscription" {
		if m.Params == nil {
			c.corrupt("notification without params: %s", head(msg))
			return
		}
		c.notification(m.Params.Subscription, m.Params.Result, msg)
		return
	}
	if !inBatch {
		c.res.ReaderMsgs++
	}
	if m.ID == nil || string(*m.ID) == "null" {
		if len(m.Error) == 0 {
			c.corrupt("message without id, method and error: %s", head(msg))
			return
		}
		if c.wantErr == 0 {
			c.corrupt("unexpected error answer: %s", head(msg))
			return
		}
		c.wantErr--
		c.res.Responses++
		return
	}
	var idf float64
	if err := json.Unmarshal(*m.ID, &idf); err != nil {
		c.corrupt("answer with a non-numeric id: %s", head(msg))
		return
	}
	id := int64(idf)
	exp, ok := c.want[id]
	if !ok {
		c.corrupt("answer to a request this connection never sent (or answered twice), id %d: %s", id, head(msg))
		return
	}
	delete(c.want, id)
	switch {
	case strings.HasPrefix(exp, "blob:"):
		var kib int
		fmt.Sscanf(exp, "blob:%d", &kib)
		var s string
		if err := json.Unmarshal(m.Result, &s); err != nil || s != blob(id, kib) {
			c.corrupt("answer %d is not the %d KiB result of the rest-server (%d bytes): %s", id, kib, len(msg), head(msg))
			return
		}
	case strings.HasPrefix(exp, "small:"):
		var s string
		if err := json.Unmarshal(m.Result, &s); err != nil || s != "ok:"+exp[6:] {
			c.corrupt("answer %d is not %q: %s", id, "ok:"+exp[6:], head(msg))
			return
		}
	case strings.HasPrefix(exp, "sub:"):
		var s string
		if err := json.Unmarshal(m.Result, &s); err != nil || !strings.HasPrefix(s, "0x") {
			c.corrupt("answer %d to eth_subscribe carries no subscription id: %s", id, head(msg))
			return
		}
		c.subs = append(c.subs, &wsSub{kind: exp[4:], id: s, active: true})
		keep := c.pending[:0]
		for _, p := range c.pending { // notifications that overtook the answer carrying their id
			var pm struct {
				Params wsNotif `json:"params"`
			}
			_ = json.Unmarshal(p, &pm)
			if pm.Params.Subscription == s {
				c.res.Early++
				c.notification(s, pm.Params.Result, p)
			} else {
				keep = append(keep, p)
			}
		}
		c.pending = keep
	case exp == "unsub":
		var b bool
		if err := json.Unmarshal(m.Result, &b); err != nil || !b {
			c.corrupt("answer %d to eth_unsubscribe is not true: %s", id, head(msg))
			return
		}
	}
	c.res.Responses++
}

func (c *wsClient) notification(id string, result json.RawMessage, raw []byte) {
	var sub *wsSub
	for _, s := range c.subs {
		if s.id == id {
			sub = s
		}
	}
	if sub == nil {
		if len(c.pending) < 64 {
			c.pending = append(c.pending, append([]byte(nil), raw...))
		}
		return
	}
	var num uint64
	switch sub.kind {
	case "newHeads":
		var h struct {
			Number string `json:"number"`
		}
		if err := json.Unmarshal(result, &h); err != nil || !strings.HasPrefix(h.Number, "0x") {
			c.corrupt("newHeads notification without a header: %s", head(raw))
			return
		}
		fmt.Sscanf(h.Number, "0x%x", &num)
	case "logs":
		var l struct {
			Data string `json:"data"`
		}
		if err := json.Unmarshal(result, &l); err != nil || len(l.Data) != 18 {
			c.corrupt("logs notification without the log: %s", head(raw))
			return
		}
		fmt.Sscanf(l.Data, "0x%x", &num)
	case "newPendingTransactions":
		var h string
		if err := json.Unmarshal(result, &h); err != nil {
			c.corrupt("pending-transaction notification without a hash: %s", head(raw))
			return
		}
		v, ok := c.node.pendIdx.Load(strings.ToLower(h))
		if !ok {
			c.corrupt("pending-transaction notification with a hash never injected: %s", head(raw))
			return
		}
		num = v.(uint64)
	}
	if num <= sub.last {
		c.corrupt("%s notifications of one subscription out of order: emission %d after %d", sub.kind, num, sub.last)
	}
	sub.last = num
	sub.n++
	if c.collect {
		sub.got = append(sub.got, num)
		if c.seen != nil {
			select {
			case c.seen <- num:
			default:
			}
		}
	}
}

// await reads until every expected answer arrived (bounded wait).
func (c *wsClient) await(what string) {
	end := time.Now().Add(12 * time.Second)
	me := "panic serving " + c.conn.LocalAddr().String()
	for !c.dead && (len(c.want) > 0 || c.wantErr > 0) && time.Now().Before(end) {
		if msg := c.next(200 * time.Millisecond); msg != nil {
			c.handle(msg)
		} else if strings.Contains(c.node.recovered.String(), me) && time.Until(end) > time.Second {
			end = time.Now().Add(time.Second) // the read loop of this connection is gone: nobody will answer
		}
	}
	if len(c.want) == 0 && c.wantErr == 0 {
		return
	}
	if !c.dead {
		c.res.Missing = append(c.res.Missing, fmt.Sprintf("%s: %d request(s) unanswered on an open connection (bounded wait)", what, len(c.want)+c.wantErr))
		c.dead = true
	} else if len(c.res.Corrupt) == 0 {
		c.res.Missing = append(c.res.Missing, fmt.Sprintf("%s: connection lost with %d request(s) unanswered", what, len(c.want)+c.wantErr))
	}
}

// drain handles whatever arrives within d (notifications).
func (c *wsClient) drain(d time.Duration) {
	end := time.Now().Add(d)
	for !c.dead && time.Now().Before(end) {
		if msg := c.next(time.Until(end)); msg != nil {
			c.handle(msg)
		}
	}
}

func (c *wsClient) id() int64 {
	c.nextID++
	return int64(c.res.Conn)*100000 + c.nextID
}

func (c *wsClient) class(k string) {
	c.res.Classes[k]++
	c.res.Script = append(c.res.Script, k)
}

func (c *wsClient) subscribe(kind string, extra ...interface{}) {
	id := c.id()
	c.want[id] = "sub:" + kind
	c.res.Requests++
	c.class("subscribe-" + kind)
	if c.send(map[string]interface{}{"jsonrpc": "2.0", "id": id, "method": "eth_subscribe", "params": append([]interface{}{kind}, extra...)}) {
		c.await("eth_subscribe " + kind)
	}
}

func (c *wsClient) bigRequest(kib int, stall time.Duration, slow bool) {
	id := c.id()
	c.want[id] = fmt.Sprintf("blob:%d", kib)
	c.res.Requests++
	c.class("large-answer-stalled")
	if slow {
		atomic.StoreInt32(&c.slow, 1)
	} else {
		atomic.StoreInt32(&c.slow, 0)
	}
	atomic.StoreInt64(&c.stallNs, int64(stall))
	if c.send(map[string]interface{}{"jsonrpc": "2.0", "id": id, "method": "verif_blob", "params": []interface{}{kib}}) {
		c.await("large answer")
	}
}

func (c *wsClient) smallRequest() {
	id := c.id()
	c.want[id] = "small:verif_small"
	c.res.Requests++
	c.class("small-request")
	if c.send(map[string]interface{}{"jsonrpc": "2.0", "id": id, "method": "verif_small", "params": []interface{}{}}) {
		c.await("small request")
	}
}

// floodThenRequest: the client stops reading, the event source floods until a notifier goroutine sits in its write
// (socket buffers full), then the client sends a request (it can still write) and resumes reading after the stall.
func (c *wsClient) floodThenRequest(stall time.Duration) {
	c.class("notification-in-flight-then-request")
	atomic.StoreInt32(&c.paused, 1)
	atomic.AddInt32(&c.node.boost, 1)
	for k := 0; k < 4000 && atomic.LoadInt32(&c.pausedAck) == 0; k++ { // the pump finishes the message it is in, then stops
		select {
		case m, ok := <-c.in:
			if ok {
				c.handle(m)
			}
		case <-time.After(500 * time.Microsecond):
		}
	}
	// the client reads nothing and has no request outstanding: a network write on its connection that has not returned
	// for 25 ms is a notifier's, stuck on full socket buffers
	blocked := false
	me := c.conn.LocalAddr().String()
	for t0 := time.Now(); atomic.LoadInt32(&c.pausedAck) > 0 && time.Since(t0) < 3*time.Second; time.Sleep(2 * time.Millisecond) {
		if c.node.writeBlockedFor(me) >= 25*time.Millisecond {
			blocked = true
			break
		}
	}
	atomic.AddInt32(&c.node.boost, -1)
	if !blocked {
		c.res.Classes["flood-did-not-block"]++
	} else {
		atomic.AddInt32(&c.overlaps, 1)
	}
	id := c.id()
	c.want[id] = "small:verif_small"
	c.res.Requests++
	ok := c.send(map[string]interface{}{"jsonrpc": "2.0", "id": id, "method": "verif_small", "params": []interface{}{}})
	time.Sleep(stall)
	atomic.StoreInt32(&c.paused, 0)
	if ok {
		c.await("request behind a notification in flight")
	}
}

// setup: dial and open the first subscription. The connections of a run are set up one after the other so that the
// k-th connection of the recording is the k-th client.
func (c *wsClient) setup() {
	p := c.plan
	d := websocket.Dialer{ReadBufferSize: 1024, WriteBufferSize: 1024, HandshakeTimeout: 5 * time.Second,
		NetDial: func(network, addr string) (net.Conn, error) {
			nc, err := net.DialTimeout(network, addr, 5*time.Second)
			if err == nil && p.SockBuf > 0 {
				_ = nc.(*net.TCPConn).SetReadBuffer(p.SockBuf)
			}
			return nc, err
		}}
	conn, _, err := d.Dial("ws://"+c.node.wsAddr+"/", nil)
	if err != nil {
		c.res.HarnessErrs = append(c.res.HarnessErrs, "dial: "+err.Error())
		c.dead = true
		return
	}
	conn.SetReadLimit(1 << 30)
	c.conn = conn
	c.in = make(chan []byte, 4096)
	c.atAnswer = make(chan struct{})
	go c.pump()
	c.subscribe("newHeads")
}

func (c *wsClient) script() {
	if c.conn == nil {
		return
	}
	p, res, conn := c.plan, c.res, c.conn
	stall := time.Duration(p.StallMs) * time.Millisecond
	kinds := []string{"logs", "newPendingTransactions"}
	if p.Mode == "calm" {
		for r := 0; r < p.Rounds && !c.dead; r++ {
			c.smallRequest()
			c.drain(2 * time.Millisecond)
		}
	} else if p.Mode == "directed" {
		for r := 0; r < p.Rounds && !c.dead; r++ {
			if p.Order == "sub-first" {
				c.floodThenRequest(stall)
			} else {
				c.bigRequest(p.RespKiB, stall, true)
			}
			c.drain(3 * time.Millisecond)
		}
	} else {
		if c.rng.Intn(2) == 0 {
			c.subscribe(kinds[c.rng.Intn(2)])
		}
		for r := 0; r < p.Rounds && !c.dead; r++ {
			switch op := c.rng.Intn(10); {
			case op < 3:
				c.bigRequest(p.RespKiB, stall/2+time.Duration(c.rng.Int63n(int64(stall)+1)), c.rng.Intn(2) == 0)
			case op == 3:
				c.smallRequest()
			case op == 4: // batch: one large and one small answer in one frame
				id1, id2 := c.id(), c.id()
				c.want[id1], c.want[id2] = fmt.Sprintf("blob:%d", p.RespKiB/4+1), "small:verif_small"
				res.Requests += 2
				c.class("batch")
				atomic.StoreInt32(&c.slow, 1)
				atomic.StoreInt64(&c.stallNs, int64(stall/2))
				if c.send([]interface{}{map[string]interface{}{"jsonrpc": "2.0", "id": id1, "method": "verif_blob", "params": []interface{}{p.RespKiB/4 + 1}},
					map[string]interface{}{"jsonrpc": "2.0", "id": id2, "method": "verif_small", "params": []interface{}{}}}) {
					c.await("batch")
				}
			case op == 5: // malformed JSON: sendErrResponse
				c.wantErr++
				res.Requests++
				c.class("malformed")
				if c.sendRaw([]byte(`{"jsonrpc":"2.0","id":1,"method":`)) {
					c.await("malformed request")
				}
			case op == 6: // eth_subscribe without parameters: sendErrResponse
				c.wantErr++
				res.Requests++
				c.class("bad-subscribe")
				if c.send(map[string]interface{}{"jsonrpc": "2.0", "id": c.id(), "method": "eth_subscribe", "params": []interface{}{}}) {
					c.await("eth_subscribe without parameters")
				}
			case op == 7: // unsubscribe one subscription, subscribe again
				var act []*wsSub
				for _, s := range c.subs {
					if s.active {
						act = append(act, s)
					}
				}
				if len(act) == 0 {
					c.subscribe("newHeads")
					break
				}
				s := act[c.rng.Intn(len(act))]
				id := c.id()
				c.want[id] = "unsub"
				res.Requests++
				c.class("unsubscribe")
				if c.send(map[string]interface{}{"jsonrpc": "2.0", "id": id, "method": "eth_unsubscribe", "params": []interface{}{s.id}}) {
					c.await("eth_unsubscribe")
					s.active = false
				}
				if !c.dead {
					c.subscribe(append(kinds, "newHeads")[c.rng.Intn(3)])
				}
			case op == 8 && p.SockBuf > 0:
				c.floodThenRequest(stall)
			default: // only notifications for a while
				c.class("listen")
				c.drain(time.Duration(2+c.rng.Intn(8)) * time.Millisecond)
			}
		}
	}
	// every subscription still active must be served while events keep coming
	end := time.Now().Add(3 * time.Second)
	for !c.dead && time.Now().Before(end) {
		all := true
		for _, s := range c.subs {
			if s.active && s.n == 0 {
				all = false
			}
		}
		if all {
			break
		}
		c.drain(10 * time.Millisecond)
	}
	if s, _ := c.frameErr.Load().(string); s != "" {
		c.corrupt("%s", s)
	}
	for _, s := range c.subs {
		if !c.dead && s.active && s.n == 0 {
			res.Silent = append(res.Silent, fmt.Sprintf("%s (%s)", s.kind, s.id))
		}
	}
	for _, pnd := range c.pending {
		c.corrupt("notification of a subscription this connection never opened: %s", head(pnd))
	}
	// the client goes away
	how := c.rng.Intn(3)
	if p.Mode != "free" {
		how = 0
	}
	note := func() {
		if c.node.rec != nil {
			c.node.rec.note(res.Conn, "cl_close", nil)
		}
	}
	switch {
	case how == 1 && !c.dead:
		res.Closed = "close frame, then TCP close"
		note()
		_ = conn.WriteControl(websocket.CloseMessage, websocket.FormatCloseMessage(websocket.CloseNormalClosure, ""), time.Now().Add(time.Second))
		time.Sleep(time.Duration(c.rng.Intn(3)) * time.Millisecond)
	case how == 2 && !c.dead:
		res.Closed = "TCP close in the middle of a large answer"
		atomic.StoreInt32(&c.stopAtAns, 1)
		if c.send(map[string]interface{}{"jsonrpc": "2.0", "id": c.id(), "method": "verif_blob", "params": []interface{}{p.RespKiB}}) {
			t := time.NewTimer(5 * time.Second)
		wait:
			for {
				select {
				case <-c.atAnswer: // the answer is in flight
					break wait
				case m, ok := <-c.in:
					if !ok {
						break wait
					}
					c.handle(m)
				case <-t.C:
					break wait
				}
			}
			t.Stop()
			time.Sleep(time.Duration(c.rng.Intn(2000)) * time.Microsecond)
		}
		note()
	default:
		res.Closed = "TCP close"
		note()
	}
	_ = conn.Close()
	for range c.in { // the pump ends with the connection
	}
	if s, _ := c.frameErr.Load().(string); s != "" && how != 2 {
		c.corrupt("%s", s)
	}
	res.Overlaps = int(atomic.LoadInt32(&c.overlaps))
	for _, s := range c.subs {
		res.Notifs = append(res.Notifs, s.n)
		res.Kinds = append(res.Kinds, s.kind)
	}
	if c.node.rec != nil {
		c.node.rec.note(res.Conn, "end", map[string]interface{}{"rd": res.ReaderMsgs, "nf": res.Notifs})
	}
}

// RunWs runs one plan in THIS process and writes ws.json (and wsraw.ndjson, empty unless the tree has the ws hooks).
func RunWs(p *WsPlan) error {
	if err := os.MkdirAll(p.Out, 0o755); err != nil {
		return err
	}
	t0 := time.Now()
	rec, err := newWsRec(filepath.Join(p.Out, "wsraw.ndjson"))
	if err != nil {
		return err
	}
	verifhook.AtFunc = rec.at
	node, err := startWsNode(p, rec)
	if err != nil {
		return err
	}
	res := &WsResult{Events: map[string]int{}}
	if p.Mode == "logs" {
		return runLogs(p, node, res, t0)
	}
	clients := make([]*wsClient, p.Conns)
	for i := range clients {
		clients[i] = &wsClient{node: node, plan: p, rng: rand.New(rand.NewSource(p.Seed*1000003 + int64(i))), want: map[int64]string{},
			res: &WsConnResult{Conn: i + 1, Classes: map[string]int{}}}
		clients[i].setup()
	}
	var wg sync.WaitGroup
	for _, c := range clients {
		wg.Add(1)
		go func(c *wsClient) {
			defer wg.Done()
			c.script()
		}(c)
	}
	wg.Wait()
	close(node.stop)
	<-node.done
	// all clients are gone: every readLoop must return, every notifier must come to rest in its select
	var left []srvGor
	for k := 0; k < 150; k++ {
		left = left[:0]
		res.Parked = 0
		for _, g := range serverGoroutines() {
			if atRest(g) {
				res.Parked++
			} else {
				left = append(left, g)
			}
		}
		if len(left) == 0 {
			break
		}
		time.Sleep(20 * time.Millisecond)
	}
	for _, g := range left {
		res.Leftover = append(res.Leftover, fmt.Sprintf("%s in %s [%s] (innermost %s)", g.role, g.where, g.state, g.top))
	}
	for _, ln := range strings.Split(node.recovered.String(), "\n") {
		if strings.Contains(ln, "panic serving") {
			res.Recovered = append(res.Recovered, strings.TrimSpace(ln))
		}
	}
	if len(res.Recovered) > 0 {
		_ = os.WriteFile(filepath.Join(p.Out, "recovered.txt"), []byte(node.recovered.String()), 0o644)
	}
	for _, c := range clients {
		res.Conns = append(res.Conns, *c.res)
	}
	n, opens := rec.hookLines()
	res.HookLines = n
	res.Hooks = opens > 0
	rec.mu.Lock()
	rec.closed = true
	_ = rec.sink.Close()
	rec.mu.Unlock()
	res.MuxWaits = int(atomic.LoadInt64(&node.muxWaits))
	res.Events["newHeads"], res.Events["logs"], res.Events["pending"] = int(atomic.LoadInt64(&node.injected[0])), int(atomic.LoadInt64(&node.injected[1])), int(atomic.LoadInt64(&node.injected[2]))
	res.WallMs = time.Since(t0).Milliseconds()
	bz, _ := json.MarshalIndent(res, "", " ")
	return os.WriteFile(filepath.Join(p.Out, "ws.json"), bz, 0o644)
}
