// Package conc binds spec/FilterSystem.tla to the real event plumbing of evermint
// (pubsub.memEventBus, filters.EventSystem, filters.PublicFilterAPI, server.EVMIndexerService)
// through hook H3 (verifhook.At): a recorder that turns every linearisation point into one
// sequence-numbered trace event of the specification's vocabulary, and gates that park a
// goroutine at a hook until the schedule being replayed grants the step.
package conc

import (
	"bufio"
	"encoding/json"
	"fmt"
	"hash/fnv"
	"os"
	"reflect"
	"runtime"
	"strconv"
	"strings"
	"sync"
	"time"

	"github.com/ethereum/go-ethereum/rpc"
)

// process identifiers of FilterSystem.tla
const (
	EL  = 1
	CE  = 2
	SRC = 3
	TL  = 4
	IH  = 5
	IM  = 6
	IQ  = 7
)

func PT(c int) int { return 10 + c }
func CL(i int) int { return 30 + i }
func CO(s int) int { return 40 + s }
func UN(s int) int { return 60 + s }

// Event is one step of one process of the specification, as observed.
type Event struct {
	N     int64  `json:"n"`
	P     int    `json:"p"`
	L     string `json:"l"`
	Kind  string `json:"k"`
	Sub   int    `json:"sub"`
	Ch    int    `json:"ch"`
	Topic int    `json:"t"`
	Ok    bool   `json:"ok"`
}

// TopicOf maps the CometBFT query strings to the specification's topic numbers.
var TopicOf = map[string]int{}

func goid() int64 {
	var buf [64]byte
	n := runtime.Stack(buf[:], false)
	// "goroutine 123 ["
	s := string(buf[:n])
	s = strings.TrimPrefix(s, "goroutine ")
	if i := strings.IndexByte(s, ' '); i > 0 {
		id, _ := strconv.ParseInt(s[:i], 10, 64)
		return id
	}
	return -1
}

// inLock: the hook points that lie inside a critical section (bus mutexes, indexMux, filtersMu).
var inLock = map[string]bool{
	"bus.topics": true, "bus.addTopic.check": true, "bus.addTopic.add": true, "bus.removeTopic": true,
	"bus.subscribe.check": true, "bus.subscribe.add": true, "bus.unsubscribe": true, "bus.closed.locked": true,
	"bus.closeAll": true, "bus.delTopic": true, "bus.publish": true,
	"eventLoop.i.locked": true, "eventLoop.i.unlock": true, "eventLoop.u.locked": true, "eventLoop.u.close": true,
	"eventLoop.u.unlock": true, "consumeEvents.lookup": true,
	"api.new.locked": true, "api.new.added": true, "api.new.unlock": true, "api.uf.locked": true, "api.gfc.locked": true,
	"api.gfc.unlock": true, "consumer.ev": true, "consumer.closed": true, "consumer.err": true,
	"timeoutLoop.locked": true, "timeoutLoop.expire": true, "timeoutLoop.unlock": true,
}

type gateKey struct {
	p int
	l string
}

type parked struct {
	ev      Event
	release chan struct{}
}

// Rec records hook events and (in replay mode) parks goroutines at gates.
type Rec struct {
	mu      sync.Mutex
	seq     int64
	events  []Event
	procOf  map[int64]int // goroutine id -> process id
	clientR map[int]*clientReg
	subOf   map[rpc.ID]int // subscription id -> number
	chOf    map[uintptr]int
	nextCh  int
	errs    []string
	Counts  map[string]int
	// gates
	Gated   func(ev Event) bool // which events park their goroutine (nil: none)
	parkedP map[int]*parked     // process id -> parked goroutine
	evCount map[gateKey]int     // (process, label) -> events recorded
	arrive  chan int            // process ids arriving at gates / any event (for settling)
	last    time.Time
	// indexer events are kept apart
	Drop func(ev Event) bool
	// Hook, when set, sees every raw hook call (after it was recorded, without the recorder's lock): scenario steering
	Hook func(proc, label string, p, sub int)
	// StallPermille > 0 (free stress only): at hook points that lie INSIDE a critical section the goroutine is held for
	// 2-10 ms with this probability (decided by seed, hook and occurrence number, so a seed stalls at the same places
	// again): a lock-order inversion between any two of those locks becomes a stalled run instead of a ns-wide window
	StallPermille int
	StallSeed     int64
	// Sink, when set, receives every event as one JSON line at once (a panic must not lose the trace)
	Sink *os.File
}

type clientReg struct {
	sub, topic int
}

func NewRec() *Rec {
	return &Rec{procOf: map[int64]int{}, clientR: map[int]*clientReg{}, subOf: map[rpc.ID]int{}, chOf: map[uintptr]int{},
		Counts: map[string]int{}, parkedP: map[int]*parked{}, evCount: map[gateKey]int{}, arrive: make(chan int, 4096), last: time.Now()}
}

// RegisterClient binds the calling goroutine to client process i working on subscription number sub / topic.
func (r *Rec) RegisterClient(i, sub, topic int) {
	g := goid()
	r.mu.Lock()
	r.procOf[g] = CL(i)
	r.clientR[CL(i)] = &clientReg{sub: sub, topic: topic}
	r.mu.Unlock()
}

// BindSub tells the recorder which subscription number an rpc.ID is.
func (r *Rec) BindSub(id rpc.ID, sub int) {
	r.mu.Lock()
	r.subOf[id] = sub
	r.mu.Unlock()
}

func chanPtr(v interface{}) uintptr {
	if v == nil {
		return 0
	}
	rv := reflect.ValueOf(v)
	if rv.Kind() != reflect.Chan || rv.IsNil() {
		return 0
	}
	return rv.Pointer()
}

func (r *Rec) fail(format string, a ...interface{}) {
	r.errs = append(r.errs, fmt.Sprintf(format, a...))
}

// Errors returns the recorder's own problems (unknown goroutines / hooks): infrastructure, never a verdict.
func (r *Rec) Errors() []string {
	r.mu.Lock()
	defer r.mu.Unlock()
	return append([]string(nil), r.errs...)
}

// Note records a harness-side step of the calling (registered) goroutine or of process p when p != 0.
func (r *Rec) Note(p int, label, kind string, topic int) {
	r.at("h", label, p, kind, topic)
}

// At is installed as verifhook.AtFunc.
func (r *Rec) At(proc, label string, args ...interface{}) { r.at(proc, label, args...) }

func (r *Rec) at(proc, label string, args ...interface{}) {
	g := goid()
	r.mu.Lock()
	r.Counts[proc+"."+label]++
	var stall time.Duration
	if r.StallPermille > 0 && inLock[proc+"."+label] {
		h := fnv.New64a()
		fmt.Fprintf(h, "%d|%s.%s|%d", r.StallSeed, proc, label, r.Counts[proc+"."+label])
		x := h.Sum64()
		if int(x%1000) < r.StallPermille {
			stall = time.Duration(2000+(x>>20)%8000) * time.Microsecond
		}
	}
	ev, ok := r.resolve(g, proc, label, args)
	hook := r.Hook
	if !ok || (r.Drop != nil && r.Drop(ev)) {
		r.mu.Unlock()
		if stall > 0 {
			time.Sleep(stall)
		}
		if hook != nil {
			hook(proc, label, ev.P, ev.Sub)
		}
		return
	}
	if ev.L == "co_err" || (ev.L == "co_sel" && ev.Kind == "err") {
		// a consumer that spins after its error channel was closed (D26): three rounds are evidence enough
		k := fmt.Sprintf("spin:%d:%s", ev.P, ev.L)
		r.Counts[k]++
		if r.Counts[k] > 3 {
			r.mu.Unlock()
			return
		}
	}
	r.seq++
	ev.N = r.seq
	r.events = append(r.events, ev)
	r.evCount[gateKey{ev.P, ev.L}]++
	if r.Sink != nil {
		if bz, err := json.Marshal(ev); err == nil {
			_, _ = r.Sink.Write(append(bz, '\n'))
		}
	}
	r.last = time.Now()
	var pk *parked
	if r.Gated != nil && r.Gated(ev) {
		pk = &parked{ev: ev, release: make(chan struct{})}
		r.parkedP[ev.P] = pk
	}
	r.mu.Unlock()
	select {
	case r.arrive <- ev.P:
	default:
	}
	if pk != nil {
		<-pk.release
	}
	if stall > 0 {
		time.Sleep(stall)
	}
	if hook != nil {
		hook(proc, label, ev.P, ev.Sub)
	}
}

func (r *Rec) sub(args []interface{}, i int) int {
	if i < len(args) {
		if id, ok := args[i].(rpc.ID); ok {
			if n, ok := r.subOf[id]; ok {
				return n
			}
			r.fail("unknown subscription id %s", id)
		}
	}
	return 0
}

func topicArg(args []interface{}, i int) int {
	if i < len(args) {
		if s, ok := args[i].(string); ok {
			return TopicOf[s]
		}
	}
	return 0
}

func boolArg(args []interface{}, i int) bool {
	if i < len(args) {
		if b, ok := args[i].(bool); ok {
			return b
		}
	}
	return false
}

// resolve maps a hook to (process, label of the specification). Called with r.mu held.
func (r *Rec) resolve(g int64, proc, label string, args []interface{}) (Event, bool) {
	ev := Event{}
	p, known := r.procOf[g]
	bind := func(pid int) int {
		if !known {
			r.procOf[g] = pid
		}
		return pid
	}
	switch proc {
	case "h": // harness side: args = p, kind, topic
		ev.P = args[0].(int)
		if ev.P == 0 {
			ev.P = p
		}
		ev.L, ev.Kind, ev.Topic = label, args[1].(string), args[2].(int)
		if c := r.clientR[ev.P]; c != nil {
			ev.Sub = c.sub
			if ev.Topic == 0 {
				ev.Topic = c.topic
			}
		}
		return ev, true
	case "eventLoop":
		ev.P = bind(EL)
		switch label {
		case "i.locked":
			ev.L, ev.Kind, ev.Sub, ev.Topic = "el_wait", "i", r.sub(args, 0), topicArg(args, 1)
		case "i.unlock":
			ev.L = "el_i_unlock"
		case "i.done":
			ev.L, ev.Sub = "el_i_done", r.sub(args, 0)
		case "u.locked":
			ev.L, ev.Kind, ev.Sub, ev.Topic = "el_wait", "u", r.sub(args, 0), topicArg(args, 1)
		case "u.close":
			ev.L, ev.Topic, ev.Ch = "el_u_close", topicArg(args, 0), r.chOf[chanPtr(args[1])]
		case "u.unlock":
			ev.L = "el_u_unlock"
		case "u.done":
			ev.L, ev.Sub = "el_u_done", r.sub(args, 0)
		default:
			return ev, false
		}
		return ev, true
	case "consumeEvents":
		ev.P = bind(CE)
		ev.Topic = topicArg(args, 0)
		if len(args) > 1 {
			ev.Ch = r.chOf[chanPtr(args[1])]
		}
		switch label {
		case "lookup":
			ev.L, ev.Ok = "ce_lookup", boolArg(args, 2)
		case "send":
			ev.L = "ce_send"
		case "sent":
			ev.L, ev.Kind = "ce_sent", "sent"
		case "timeout":
			ev.L, ev.Kind = "ce_sent", "timeout"
		default:
			return ev, false
		}
		return ev, true
	case "publishTopic":
		c := r.chOf[chanPtr(args[1])]
		if c == 0 {
			r.fail("publishTopic on an unregistered channel")
			return ev, false
		}
		ev.P = bind(PT(c))
		ev.L, ev.Topic, ev.Ch, ev.Ok = "pt_loop", topicArg(args, 0), c, boolArg(args, 2)
		return ev, true
	case "unsubscribe":
		s := r.sub(args, 0)
		ev.P, ev.L, ev.Sub = UN(s), "un_send", s
		return ev, true
	case "subscribe":
		if !known {
			r.fail("subscribe hook on an unregistered goroutine")
			return ev, false
		}
		ev.P = p
		c := r.clientR[p]
		switch label {
		case "install":
			if id, ok := args[0].(rpc.ID); ok && c != nil {
				r.subOf[id] = c.sub
			}
			ev.L, ev.Sub, ev.Topic = "c_inst", c.sub, topicArg(args, 1)
			return ev, true
		}
		return ev, false // "installed" is merged into c_bsub1
	case "api":
		if !known {
			r.fail("api hook %s on an unregistered goroutine", label)
			return ev, false
		}
		ev.P = p
		c := r.clientR[p]
		if c != nil {
			ev.Sub, ev.Topic = c.sub, c.topic
		}
		switch label {
		case "new.locked":
			ev.L = "c_flock"
		case "new.added":
			if id, ok := args[0].(rpc.ID); ok && c != nil {
				r.subOf[id] = c.sub
			}
			ev.L = "c_fadd"
		case "new.unlock":
			ev.L = "c_funlock"
		case "uf.locked":
			ev.L, ev.Ok = "u_lock", boolArg(args, 1)
			if t := r.sub(args, 0); c != nil && t != 0 && t != c.sub { // another client's filter id
				ev.L, ev.Sub = "xu_lock", t
			}
		case "gfc.locked":
			ev.L = "g_lock"
		case "gfc.unlock":
			ev.L = "g_unlock"
		default:
			return ev, false
		}
		return ev, true
	case "consumer":
		s := r.sub(args, 0)
		ev.P, ev.Sub = bind(CO(s)), s
		switch label {
		case "recv":
			ev.L = "co_sel"
			if boolArg(args, 1) {
				ev.Kind = "ev"
			} else {
				ev.Kind = "closed"
			}
		case "recv.err":
			ev.L, ev.Kind = "co_sel", "err"
		case "ev":
			ev.L = "co_ev"
		case "closed":
			ev.L = "co_closed"
		case "err":
			ev.L = "co_err"
		default:
			return ev, false
		}
		return ev, true
	case "timeoutLoop":
		ev.P = bind(TL)
		switch label {
		case "locked":
			ev.L = "tl_idle"
		case "expire":
			ev.L, ev.Kind, ev.Sub = "tl_sweep", "x", r.sub(args, 0)
		case "unlock":
			ev.L, ev.Kind = "tl_sweep", "u"
		default:
			return ev, false
		}
		return ev, true
	case "indexer.header":
		ev.P, ev.L = bind(IH), "ih."+label
		if len(args) > 0 {
			if h, ok := args[0].(int64); ok {
				ev.Sub = int(h)
			}
		}
		return ev, true
	case "indexer.main":
		ev.P, ev.L = bind(IM), "im."+label
		if len(args) > 0 {
			if h, ok := args[0].(int64); ok {
				ev.Sub = int(h)
			}
		}
		return ev, true
	case "bus":
		if !known {
			r.fail("bus hook %s on an unregistered goroutine", label)
			return ev, false
		}
		ev.P = p
		ev.Topic = topicArg(args, 0)
		switch {
		case p == EL:
			switch label {
			case "addTopic.check":
				ev.L, ev.Ok = "el_i_addchk", boolArg(args, 1)
			case "addTopic.add":
				r.nextCh++
				r.chOf[chanPtr(args[1])] = r.nextCh
				ev.L, ev.Ch = "el_i_add", r.nextCh
			case "removeTopic":
				ev.L = "el_u_remove"
			default:
				return ev, false
			}
		case p == CE:
			return ev, false // Topics() evaluated for a debug log line
		case p > 10 && p < 30: // publishTopic goroutines
			ev.Ch = p - 10
			switch label {
			case "publish":
				ev.L = "pt_pub"
			case "closed.locked":
				ev.L = "pt_chk"
			case "closeAll":
				ev.L = "pt_closeall"
			case "delTopic":
				ev.L = "pt_del"
			default:
				return ev, false
			}
		case p > 30 && p < 40: // clients
			c := r.clientR[p]
			ev.Sub = c.sub
			switch label {
			case "topics":
				ev.L, ev.Topic = "c_topics", c.topic
			case "subscribe.check":
				ev.L, ev.Ok = "c_bsub1", boolArg(args, 1)
			case "subscribe.add":
				ev.L = "c_bsub2"
			case "unsubscribe":
				ev.L = "c_cancel"
			default:
				return ev, false
			}
		case p > 40 && p < 60: // consumer goroutines
			ev.Sub = p - 40
			if label != "unsubscribe" {
				return ev, false
			}
			ev.L = "co_exit"
		default:
			return ev, false
		}
		return ev, true
	}
	return ev, false
}

// Events returns a copy of what was recorded so far.
func (r *Rec) Events() []Event {
	r.mu.Lock()
	defer r.mu.Unlock()
	return append([]Event(nil), r.events...)
}

// WriteTrace writes the header line and the events as ndjson.
func (r *Rec) WriteTrace(path string, header map[string]interface{}, extra []Event) error {
	f, err := os.Create(path)
	if err != nil {
		return err
	}
	defer f.Close()
	w := bufio.NewWriter(f)
	defer w.Flush()
	enc := json.NewEncoder(w)
	if err := enc.Encode(header); err != nil {
		return err
	}
	for _, e := range append(r.Events(), extra...) {
		if err := enc.Encode(e); err != nil {
			return err
		}
	}
	return nil
}

// ---------------------------------------------------------------- gates

// Parked returns the event at which process p is parked (nil if it is not).
func (r *Rec) Parked(p int) *Event {
	r.mu.Lock()
	defer r.mu.Unlock()
	if pk := r.parkedP[p]; pk != nil {
		e := pk.ev
		return &e
	}
	return nil
}

// WaitParked waits until process p is parked at label l.
func (r *Rec) WaitParked(p int, l string, d time.Duration) bool {
	deadline := time.Now().Add(d)
	for {
		if e := r.Parked(p); e != nil && (l == "" || e.L == l) {
			return true
		}
		left := time.Until(deadline)
		if left <= 0 {
			return false
		}
		if left > 2*time.Millisecond {
			left = 2 * time.Millisecond
		}
		select {
		case <-r.arrive:
		case <-time.After(left):
		}
	}
}

// WaitEvent waits until at least n events (p, l) were recorded.
func (r *Rec) WaitEvent(p int, l string, n int, d time.Duration) bool {
	deadline := time.Now().Add(d)
	for {
		r.mu.Lock()
		c := r.evCount[gateKey{p, l}]
		r.mu.Unlock()
		if c >= n {
			return true
		}
		left := time.Until(deadline)
		if left <= 0 {
			return false
		}
		if left > 2*time.Millisecond {
			left = 2 * time.Millisecond
		}
		select {
		case <-r.arrive:
		case <-time.After(left):
		}
	}
}

// Release lets the goroutine parked for process p go on.
func (r *Rec) Release(p int) bool {
	r.mu.Lock()
	pk := r.parkedP[p]
	delete(r.parkedP, p)
	r.mu.Unlock()
	if pk == nil {
		return false
	}
	close(pk.release)
	return true
}

// ReleaseAll frees every parked goroutine and stops gating.
func (r *Rec) ReleaseAll() {
	r.mu.Lock()
	r.Gated = nil
	ps := r.parkedP
	r.parkedP = map[int]*parked{}
	r.mu.Unlock()
	for _, pk := range ps {
		close(pk.release)
	}
}

// Settle waits until no hook fired for `quiet` (at most max).
func (r *Rec) Settle(quiet, max time.Duration) {
	end := time.Now().Add(max)
	for time.Now().Before(end) {
		r.mu.Lock()
		idle := time.Since(r.last)
		r.mu.Unlock()
		if idle >= quiet {
			return
		}
		time.Sleep(quiet / 4)
	}
}

// Count returns how often hook proc.label fired.
func (r *Rec) Count(key string) int {
	r.mu.Lock()
	defer r.mu.Unlock()
	return r.Counts[key]
}
