package conc

import (
	"fmt"
	"net"
	"net/http"
	"sort"
	"sync"
	"time"

	"cosmossdk.io/log"
	tmjson "github.com/cometbft/cometbft/libs/json"
	coretypes "github.com/cometbft/cometbft/rpc/core/types"
	cmtjrpcclient "github.com/cometbft/cometbft/rpc/jsonrpc/client"
	cmtjrpctypes "github.com/cometbft/cometbft/rpc/jsonrpc/types"
	cmttypes "github.com/cometbft/cometbft/types"
	"github.com/cosmos/cosmos-sdk/client"
	"github.com/ethereum/go-ethereum/common"
	ethtypes "github.com/ethereum/go-ethereum/core/types"
	"github.com/ethereum/go-ethereum/rpc"
	"github.com/gorilla/websocket"

	"github.com/EscanBE/evermint/v12/rpc/namespaces/ethereum/eth/filters"
	rpctypes "github.com/EscanBE/evermint/v12/rpc/types"
	"github.com/EscanBE/evermint/v12/utils/verifhook"
)

// Queries of the two topics the harness uses (the same strings filter_system.go computes).
var (
	HeaderQuery = cmttypes.QueryForEvent(cmttypes.EventNewBlockHeader).String()
	TxQuery     = cmttypes.QueryForEvent(cmttypes.EventTx).String()
)

func init() {
	TopicOf[HeaderQuery] = 1
	TopicOf[TxQuery] = 2
}

// QueryOf is the inverse of TopicOf.
func QueryOf(t int) string {
	if t == 2 {
		return TxQuery
	}
	return HeaderQuery
}

// Rig holds the real objects under test fed by a fake CometBFT event source.
type Rig struct {
	Rec *Rec
	WS  *cmtjrpcclient.WSClient
	ES  *filters.EventSystem
	API *filters.PublicFilterAPI
	srv *http.Server
	h   int64
	// filter ids the clients created (subscription number -> id): clients may act on each other's filters
	idMu sync.Mutex
	ids  map[int]rpc.ID
}

// ShareID publishes a filter id; OtherID picks a filter id another client created (ok=false: none).
func (r *Rig) ShareID(sub int, id rpc.ID) {
	r.idMu.Lock()
	if r.ids == nil {
		r.ids = map[int]rpc.ID{}
	}
	r.ids[sub] = id
	r.idMu.Unlock()
}

func (r *Rig) OtherID(own int, pick int) (rpc.ID, bool) {
	r.idMu.Lock()
	defer r.idMu.Unlock()
	var subs []int
	for s := range r.ids {
		if s != own {
			subs = append(subs, s)
		}
	}
	if len(subs) == 0 {
		return "", false
	}
	sort.Ints(subs)
	return r.ids[subs[pick%len(subs)]], true
}

// fake backend of the filter API: only the filter cap matters for the filter life-cycle.
type backend struct{}

func (backend) GetBlockByNumber(rpctypes.BlockNumber, bool) (map[string]interface{}, error) {
	return nil, fmt.Errorf("not implemented")
}
func (backend) HeaderByNumber(rpctypes.BlockNumber) (*ethtypes.Header, error) {
	return nil, fmt.Errorf("not implemented")
}
func (backend) HeaderByHash(common.Hash) (*ethtypes.Header, error) {
	return nil, fmt.Errorf("not implemented")
}
func (backend) CometBFTBlockByHash(common.Hash) (*coretypes.ResultBlock, error) {
	return nil, fmt.Errorf("not implemented")
}
func (backend) CometBFTBlockResultByNumber(*int64) (*coretypes.ResultBlockResults, error) {
	return nil, fmt.Errorf("not implemented")
}
func (backend) GetLogs(common.Hash) ([][]*ethtypes.Log, error)    { return nil, nil }
func (backend) GetLogsByHeight(*int64) ([][]*ethtypes.Log, error) { return nil, nil }
func (backend) BlockBloom(*coretypes.ResultBlockResults) ethtypes.Bloom {
	return ethtypes.Bloom{}
}
func (backend) BloomStatus() (uint64, uint64) { return 0, 0 }
func (backend) RPCFilterCap() int32           { return 1000 }
func (backend) RPCLogsCap() int32             { return 1000 }
func (backend) RPCBlockRangeCap() int32       { return 1000 }

// HooksPresent reports whether the repository tree the harness was built against has hook H3.
// Without it nothing is ever recorded.
func HooksPresent() bool {
	r := NewRec()
	verifhook.AtFunc = r.At
	defer func() { verifhook.AtFunc = nil }()
	rig, err := NewRig(r, false)
	if err != nil {
		return false
	}
	defer rig.Close()
	done := make(chan struct{})
	go func() {
		r.RegisterClient(1, 1, 1)
		if _, _, err := rig.ES.SubscribeNewHeads(); err == nil {
			close(done)
		}
	}()
	select {
	case <-done:
	case <-time.After(3 * time.Second):
		return false
	}
	return r.Count("eventLoop.i.locked") > 0 && r.Count("bus.subscribe.add") > 0
}

// NewRig starts a loopback websocket endpoint, a real WSClient connected to it and the real
// EventSystem (api=false) or PublicFilterAPI (api=true, which creates its own EventSystem).
// The recorder must already be installed as verifhook.AtFunc.
func NewRig(rec *Rec, api bool) (*Rig, error) {
	ln, err := net.Listen("tcp", "127.0.0.1:0")
	if err != nil {
		return nil, err
	}
	up := websocket.Upgrader{CheckOrigin: func(*http.Request) bool { return true }}
	mux := http.NewServeMux()
	mux.HandleFunc("/websocket", func(w http.ResponseWriter, rq *http.Request) {
		c, err := up.Upgrade(w, rq, nil)
		if err != nil {
			return
		}
		defer c.Close()
		for { // swallow subscribe / unsubscribe requests, answer nothing
			if _, _, err := c.ReadMessage(); err != nil {
				return
			}
		}
	})
	srv := &http.Server{Handler: mux}
	go func() { _ = srv.Serve(ln) }()
	ws, err := cmtjrpcclient.NewWS("tcp://"+ln.Addr().String(), "/websocket")
	if err != nil {
		return nil, err
	}
	if err := ws.Start(); err != nil {
		return nil, err
	}
	rig := &Rig{Rec: rec, WS: ws, srv: srv}
	logger := log.NewNopLogger()
	if api {
		rig.API = filters.NewPublicAPI(logger, client.Context{}, ws, backend{})
	} else {
		rig.ES = filters.NewEventSystem(logger, ws)
	}
	return rig, nil
}

// Emit plays the Comet event source: one event for topic t into WSClient.ResponsesCh
// (what WSClient.readRoutine does with a frame from the node). It blocks until
// consumeEvents took it, at most d.
func (r *Rig) Emit(t int, d time.Duration) bool {
	r.h++
	ev := coretypes.ResultEvent{Query: QueryOf(t), Data: cmttypes.EventDataNewBlockHeader{Header: cmttypes.Header{Height: r.h}}}
	bz, err := tmjson.Marshal(ev)
	if err != nil {
		panic(err)
	}
	select {
	case r.WS.ResponsesCh <- cmtjrpctypes.RPCResponse{JSONRPC: "2.0", Result: bz}:
		return true
	case <-time.After(d):
		return false
	}
}

func (r *Rig) Close() {
	_ = r.srv.Close()
}
