package conc

import (
	"encoding/json"
	"os"
	"path/filepath"
	"sync"
	"time"

	"github.com/ethereum/go-ethereum/rpc"

	"github.com/EscanBE/evermint/v12/rpc/namespaces/ethereum/eth/filters"
	"github.com/EscanBE/evermint/v12/utils/verifhook"
)

// SameIDPlan: several clients act on the SAME filter id at the same moment (spec/FilterSystem.tla, foreign
// uninstall; counterexample of the deviation SplitUninstall): for each of Filters filters, Callers goroutines are
// released by a barrier into UninstallFilter(id) (variant "uu"), UninstallFilter x GetFilterChanges ("ug"), or
// UninstallFilter / GetFilterChanges racing the expiry sweep of timeoutLoop ("ux", deadline hook H4).
// Hooks only count (no recording): the critical sections keep their real, short length, so that the contenders
// really interleave between one caller's unlock and its next lock.
type SameIDPlan struct {
	Variant    string `json:"variant"`
	Filters    int    `json:"filters"`
	Callers    int    `json:"callers"`
	DeadlineMs int    `json:"deadlineMs"`
	Out        string `json:"out"`
}

// SameIDResult: what was observed (a panic of the real code kills the process before this is written).
type SameIDResult struct {
	Variant    string `json:"variant"`
	Rounds     int    `json:"rounds"`
	TrueReturn int    `json:"trueReturns"` // UninstallFilter calls that returned true
	DoubleTrue int    `json:"doubleTrue"`  // filters for which more than one UninstallFilter returned true
	Uninstalls int    `json:"uninstalls"`  // uninstall requests eventLoop processed (hook eventLoop u.done)
	Blocked    bool   `json:"blocked"`
}

func RunSameID(p *SameIDPlan) error {
	var mu sync.Mutex
	udone := 0
	verifhook.AtFunc = func(proc, label string, _ ...interface{}) {
		if proc == "eventLoop" && label == "u.done" {
			mu.Lock()
			udone++
			mu.Unlock()
		}
	}
	if p.DeadlineMs > 0 {
		filters.VerifSetDeadline(time.Duration(p.DeadlineMs) * time.Millisecond)
	}
	rig, err := NewRig(NewRec(), true)
	if err != nil {
		return err
	}
	defer rig.Close()
	res := &SameIDResult{Variant: p.Variant}
	finished := make(chan struct{})
	go func() {
		defer close(finished)
		for n := 0; n < p.Filters; n++ {
			id := rig.API.NewBlockFilter()
			if p.Variant == "ux" { // let the deadline pass: the sweep of timeoutLoop and the callers meet on this id
				time.Sleep(time.Duration(p.DeadlineMs)*time.Millisecond - time.Duration(n%7)*150*time.Microsecond)
			}
			start := make(chan struct{})
			var wg sync.WaitGroup
			trues := make([]bool, p.Callers)
			for k := 0; k < p.Callers; k++ {
				wg.Add(1)
				go func(k int) {
					defer wg.Done()
					<-start
					if p.Variant == "ug" && k%2 == 1 {
						_, _ = rig.API.GetFilterChanges(rpc.ID(id))
						return
					}
					trues[k] = rig.API.UninstallFilter(rpc.ID(id))
				}(k)
			}
			close(start)
			wg.Wait()
			c := 0
			for _, t := range trues {
				if t {
					c++
				}
			}
			res.TrueReturn += c
			if c > 1 {
				res.DoubleTrue++
			}
			res.Rounds++
		}
	}()
	select {
	case <-finished:
	case <-time.After(60 * time.Second):
		res.Blocked = true
	}
	time.Sleep(50 * time.Millisecond) // eventLoop works the last requests off
	mu.Lock()
	res.Uninstalls = udone
	mu.Unlock()
	if err := os.MkdirAll(p.Out, 0o755); err != nil {
		return err
	}
	bz, _ := json.MarshalIndent(res, "", " ")
	return os.WriteFile(filepath.Join(p.Out, "sameid.json"), bz, 0o644)
}
